#!/bin/bash
# selftest/run.sh [tier] [mutant-name...]
# Applies each self-test mutant (selftest/mutants/*.diff) to its own scratch worktree of /repo under
# /var/tmp, runs the checks listed for it in selftest/expect.tsv against that worktree (VERIF_REPO /
# VERIF_OUT, so /repo and /verif/evidence are not touched), and reports caught / MISSED / INVALID.
set -u
cd "$(dirname "$0")/.."
TIER=${1:-quick}; shift || true
export GOFLAGS=-mod=mod GOPROXY=off GOSUMDB=off GOTOOLCHAIN=local
one() {
  name=$1; checks=$2; tier=$3
  wt=/var/tmp/st-$name
  rm -rf "$wt"; git -C /repo worktree prune
  git -C /repo worktree add -q --detach "$wt" HEAD || { echo "$name: INVALID (worktree)"; return; }
  if ! git -C "$wt" apply "$PWD/selftest/mutants/$name.diff" 2>/dev/null; then echo "$name: INVALID (patch does not apply)"; git -C /repo worktree remove --force "$wt"; return; fi
  if ! (cd "$wt" && go build ./... 2>/dev/null); then echo "$name: INVALID (does not compile)"; git -C /repo worktree remove --force "$wt"; return; fi
  res=""
  for id in $checks; do
    out=$(VERIF_REPO=$wt VERIF_OUT=$wt/_verif ./check "$id" "$tier" 2>&1); rc=$?
    key=$(echo "$out" | grep -m1 'finding=' | sed 's/^ *finding=//' | cut -d' ' -f1 | cut -c1-90)
    case $rc in
      1) res="$res $id:caught[$key]" ;;
      0) res="$res $id:MISSED" ;;
      3) res="$res $id:inconclusive" ;;
      *) res="$res $id:rc=$rc" ;;
    esac
  done
  echo "$name:$res"
  git -C /repo worktree remove --force "$wt"
}
export -f one
if [ $# -gt 0 ]; then sel=$(printf '%s\n' "$@"); else sel=$(cut -f1 selftest/expect.tsv | grep -v '^#'); fi
for n in $sel; do
  checks=$(awk -F'\t' -v n="$n" '$1==n{print $2}' selftest/expect.tsv)
  [ -z "$checks" ] && { echo "$n: no entry in expect.tsv"; continue; }
  echo "$n	$checks	$TIER"
done | xargs -P ${SELFTEST_JOBS:-4} -d '\n' -n1 bash -c 'IFS=$'"'"'\t'"'"' read -r a b c <<<"$0"; one "$a" "$b" "$c"'
