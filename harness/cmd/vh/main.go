// Command vh runs one check engine: vh run <PROP> <tier> [--replay file]
package main

import (
	"encoding/json"
	"fmt"
	"os"
	"strconv"

	"verifharness/engine"
	_ "verifharness/engines"
	"verifharness/ev"
)

func main() {
	if len(os.Args) < 2 {
		usage()
	}
	switch os.Args[1] {
	case "list":
		for _, s := range engine.All() {
			r := 0
			if s.Race {
				r = 1
			}
			fmt.Printf("%s %s %s %d\n", s.Prop, s.Engine, s.Level, r)
		}
	case "run":
		if len(os.Args) < 4 {
			usage()
		}
		os.Exit(run(os.Args[2], os.Args[3], os.Args[4:]))
	default:
		usage()
	}
}

func usage() {
	fmt.Fprintln(os.Stderr, "usage: vh list | vh run <PROP> <quick|thorough> [--replay file]")
	os.Exit(2)
}

func run(prop, tier string, rest []string) int {
	spec := engine.Lookup(prop)
	if spec == nil {
		fmt.Fprintf(os.Stderr, "unknown property %s\n", prop)
		return 2
	}
	if tier != "quick" && tier != "thorough" {
		fmt.Fprintf(os.Stderr, "unknown tier %s\n", tier)
		return 2
	}
	seed := int64(1)
	if v := os.Getenv("VERIF_SEED"); v != "" {
		if n, err := strconv.ParseInt(v, 10, 64); err == nil {
			seed = n
		}
	}
	r := ev.New(prop, tier, seed, spec.Level)
	ctx := &engine.Ctx{R: r, Prop: prop, Tier: tier, Seed: seed}
	for i := 0; i < len(rest); i++ {
		if rest[i] == "--replay" && i+1 < len(rest) {
			b, err := os.ReadFile(rest[i+1])
			if err != nil {
				fmt.Fprintf(os.Stderr, "cannot read replay: %v\n", err)
				return 2
			}
			var doc struct {
				Case json.RawMessage `json:"case"`
			}
			if err := json.Unmarshal(b, &doc); err != nil || len(doc.Case) == 0 {
				fmt.Fprintf(os.Stderr, "bad replay file: %v\n", err)
				return 2
			}
			ctx.Replay = doc.Case
			r.SetReplayOf(rest[i+1])
			i++
		}
	}
	res := spec.Fn(ctx)
	return r.Finish(res.Rule, res.Exhaustive, res.Assumptions)
}
