// Package recstore provides recording and fault-injecting Storage wrappers.
package recstore

import (
	"context"
	"errors"
	"fmt"
	"github.com/hashicorp/nodeenrollment/util/temperror"
	"sync"

	"github.com/hashicorp/nodeenrollment"
	"github.com/hashicorp/nodeenrollment/types"
	"google.golang.org/protobuf/proto"
)

// Op is one recorded storage operation
type Op struct {
	Seq   int
	Kind  string // store | load | remove | list | loadbynodeid
	Type  string // message type name
	ID    string
	Bytes []byte // marshaled message handed to Store
	// Msg is the very message object that was handed to Store (only with KeepMsgs): what a storage that keeps
	// the object, or marshals it later, would have
	Msg   proto.Message
	Err   string
	Fault bool // the error was injected
}

// TypeName names a message type
func TypeName(m proto.Message) string {
	switch m.(type) {
	case *types.NodeCredentials:
		return "NodeCredentials"
	case *types.NodeInformation:
		return "NodeInformation"
	case *types.RootCertificates:
		return "RootCertificates"
	case *types.ServerLedActivationToken:
		return "ServerLedActivationToken"
	case *types.NodeInformationSet:
		return "NodeInformationSet"
	}
	return fmt.Sprintf("%T", m)
}

// Fault kinds
const (
	FaultGeneric   = "generic"
	FaultNotFound  = "notfound"
	FaultCancelled = "cancelled"
	// FaultDuplicate: what a storage that refuses to overwrite answers (types.DuplicateRecordError, in
	// pointer form); outside FaultKinds because only the fault-position engine sweeps it
	FaultDuplicate = "duplicate"
	// FaultTemporary: an error that calls itself temporary (Temporary() reports true), the way network-backed
	// stores report a hiccup; outside FaultKinds like FaultDuplicate
	FaultTemporary = "temporary"
)

var FaultKinds = []string{FaultGeneric, FaultNotFound, FaultCancelled}

// ErrInjected is the generic injected error
var ErrInjected = errors.New("injected storage fault")

func faultErr(kind string) error {
	switch kind {
	case FaultNotFound:
		return fmt.Errorf("injected: %w", nodeenrollment.ErrNotFound)
	case FaultCancelled:
		return context.Canceled
	case FaultDuplicate:
		return fmt.Errorf("injected: %w", new(types.DuplicateRecordError))
	case FaultTemporary:
		return temperror.New(errors.New("injected: storage temporarily unavailable"))
	}
	return ErrInjected
}

// Store wraps a Storage (and NodeIdLoader if the inner one is) and records
// every operation; optionally makes the k-th operation fail without touching
// the inner storage.
type Rec struct {
	inner nodeenrollment.Storage
	mu    sync.Mutex
	ops   []Op
	seq   int
	// fault injection
	failAt   int // 1-based op index counted from Arm(); 0 = off
	failKind string
	count    int
	fired    bool
	// KeepMsgs makes Store remember the message object it was handed (Op.Msg)
	KeepMsgs bool
	// further faults of the same call (ArmMore): a second single position, and / or every operation from
	// stickyFrom on (a storage that stays down)
	failAt2    int
	failKind2  string
	stickyFrom int
	firedKinds []string
}

// New wraps inner
func New(inner nodeenrollment.Storage) *Rec { return &Rec{inner: inner} }

// Wrap returns the wrapper as Storage, preserving NodeIdLoader capability
func (s *Rec) Wrap() nodeenrollment.Storage {
	if _, ok := s.inner.(nodeenrollment.NodeIdLoader); ok {
		return &loaderStore{s}
	}
	return s
}

type loaderStore struct{ *Rec }

func (l *loaderStore) LoadByNodeId(ctx context.Context, msg nodeenrollment.MessageWithNodeId) error {
	if err := l.pre("loadbynodeid", msg, msg.GetNodeId(), nil); err != nil {
		return err
	}
	err := l.inner.(nodeenrollment.NodeIdLoader).LoadByNodeId(ctx, msg)
	l.post(err)
	return err
}

// Arm resets the operation counter and makes operation k (1-based) fail; k=0 only counts
func (s *Rec) Arm(k int, kind string) {
	s.mu.Lock()
	s.failAt, s.failKind, s.count, s.fired = k, kind, 0, false
	s.failAt2, s.failKind2, s.stickyFrom, s.firedKinds = 0, "", 0, nil
	s.mu.Unlock()
}

// ArmMore adds to the armed fault (call after Arm): operation k2 fails with kind2 as well (k2 = 0: no second
// position), and with sticky every operation from the first armed position on fails with the first kind
func (s *Rec) ArmMore(k2 int, kind2 string, sticky bool) {
	s.mu.Lock()
	s.failAt2, s.failKind2 = k2, kind2
	if sticky {
		s.stickyFrom = s.failAt
	}
	s.mu.Unlock()
}

// FiredKinds returns the kinds of the faults delivered since Arm, in order
func (s *Rec) FiredKinds() []string {
	s.mu.Lock()
	defer s.mu.Unlock()
	return append([]string{}, s.firedKinds...)
}

// Count returns the number of operations since Arm
func (s *Rec) Count() int {
	s.mu.Lock()
	defer s.mu.Unlock()
	return s.count
}

// Fired reports whether the armed fault was delivered
func (s *Rec) Fired() bool {
	s.mu.Lock()
	defer s.mu.Unlock()
	return s.fired
}

// Ops returns a copy of the log
func (s *Rec) Ops() []Op {
	s.mu.Lock()
	defer s.mu.Unlock()
	return append([]Op{}, s.ops...)
}

// Reset clears the log
func (s *Rec) Reset() {
	s.mu.Lock()
	s.ops = nil
	s.mu.Unlock()
}

func (s *Rec) pre(kind string, m proto.Message, id string, b []byte) error {
	s.mu.Lock()
	defer s.mu.Unlock()
	s.seq++
	s.count++
	op := Op{Seq: s.seq, Kind: kind, Type: TypeName(m), ID: id, Bytes: b}
	fk := ""
	switch {
	case s.failAt > 0 && s.count == s.failAt, s.stickyFrom > 0 && s.count >= s.stickyFrom:
		fk = s.failKind
	case s.failAt2 > 0 && s.count == s.failAt2:
		fk = s.failKind2
	}
	if fk != "" {
		s.fired = true
		s.firedKinds = append(s.firedKinds, fk)
		err := faultErr(fk)
		op.Err, op.Fault = err.Error(), true
		s.ops = append(s.ops, op)
		return err
	}
	s.ops = append(s.ops, op)
	return nil
}

func (s *Rec) post(err error) {
	if err == nil {
		return
	}
	s.mu.Lock()
	if n := len(s.ops); n > 0 {
		s.ops[n-1].Err = err.Error()
	}
	s.mu.Unlock()
}

func idOf(m nodeenrollment.MessageWithId) string {
	if nodeenrollment.IsNil(m) {
		return ""
	}
	return m.GetId()
}

func (s *Rec) Store(ctx context.Context, m nodeenrollment.MessageWithId) error {
	var b []byte
	if !nodeenrollment.IsNil(m) {
		b, _ = proto.Marshal(m)
	}
	if err := s.pre("store", m, idOf(m), b); err != nil {
		return err
	}
	if s.KeepMsgs && !nodeenrollment.IsNil(m) {
		s.mu.Lock()
		if n := len(s.ops); n > 0 {
			s.ops[n-1].Msg = m
		}
		s.mu.Unlock()
	}
	err := s.inner.Store(ctx, m)
	s.post(err)
	return err
}

func (s *Rec) Load(ctx context.Context, m nodeenrollment.MessageWithId) error {
	if err := s.pre("load", m, idOf(m), nil); err != nil {
		return err
	}
	err := s.inner.Load(ctx, m)
	s.post(err)
	return err
}

func (s *Rec) Remove(ctx context.Context, m nodeenrollment.MessageWithId) error {
	if err := s.pre("remove", m, idOf(m), nil); err != nil {
		return err
	}
	err := s.inner.Remove(ctx, m)
	s.post(err)
	return err
}

func (s *Rec) List(ctx context.Context, m proto.Message) ([]string, error) {
	if err := s.pre("list", m, "", nil); err != nil {
		return nil, err
	}
	out, err := s.inner.List(ctx, m)
	s.post(err)
	return out, err
}

// Snapshot returns type/id -> marshaled bytes of everything in a storage
func Snapshot(ctx context.Context, st nodeenrollment.Storage, tokenIDs []string) map[string][]byte {
	out := map[string][]byte{}
	for _, proto0 := range []proto.Message{(*types.NodeInformation)(nil), (*types.NodeCredentials)(nil), (*types.RootCertificates)(nil)} {
		ids, err := st.List(ctx, proto0)
		if err != nil {
			continue
		}
		for _, id := range ids {
			var m nodeenrollment.MessageWithId
			switch proto0.(type) {
			case *types.NodeInformation:
				m = &types.NodeInformation{Id: id}
			case *types.NodeCredentials:
				m = &types.NodeCredentials{Id: id}
			case *types.RootCertificates:
				m = &types.RootCertificates{Id: id}
			}
			if err := st.Load(ctx, m); err == nil {
				b, _ := proto.MarshalOptions{Deterministic: true}.Marshal(m)
				out[TypeName(m)+"/"+id] = b
			}
		}
	}
	// tokens are not listable: probe the IDs the harness knows
	for _, id := range tokenIDs {
		m := &types.ServerLedActivationToken{Id: id}
		if err := st.Load(ctx, m); err == nil {
			b, _ := proto.MarshalOptions{Deterministic: true}.Marshal(m)
			out["ServerLedActivationToken/"+id] = b
		}
	}
	return out
}
