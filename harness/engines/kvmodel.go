package engines

// C19 — storage back ends behave as a typed key-value map.
//
// Sequential part: seeded random sequences of store / load / remove / list
// (plus nil, unknown-type and empty-ID calls, and LoadByNodeId on the
// store-once back end) against the in-memory, file and store-once back ends,
// every answer compared with a map model keyed by (type, id) that the harness
// keeps itself. Concurrent part (in-memory only, race detector on): histories
// of 8 clients recorded at the client boundary and checked for
// linearizability with porcupine against a register-per-key model, plus small
// unpartitioned histories that include List, checked against a whole-map
// model.

import (
	"context"
	"encoding/json"
	"errors"
	"fmt"
	"math/rand"
	"runtime"
	"sort"
	"strings"
	"sync"
	"sync/atomic"
	"time"

	"github.com/anishathalye/porcupine"
	"github.com/hashicorp/nodeenrollment"
	"github.com/hashicorp/nodeenrollment/types"
	"google.golang.org/protobuf/proto"
	"google.golang.org/protobuf/types/known/structpb"

	"verifharness/engine"
	"verifharness/world"
)

func init() {
	engine.Register(&engine.Spec{Prop: "C19", Engine: "kvmodel", Level: "exploration", Race: true, Fn: runKVModel})
}

// ---------------------------------------------------------------------------
// message construction (what the harness stores and therefore knows)

const (
	kvNodeInfo  = "nodeinfo"
	kvNodeCreds = "nodecreds"
	kvRoots     = "roots"
	kvToken     = "token"
)

var kvTypes = []string{kvNodeInfo, kvNodeCreds, kvRoots, kvToken}
var kvListable = []string{kvNodeInfo, kvNodeCreds, kvRoots}

const kvLongSym = "@long200"

var kvLongID = strings.Repeat("x", 199) + "Z"

// ID alphabet of the sequential part (symbolic form; kvID expands)
var kvIDs = []string{"a", "b", "ab", "current", "next", "roots", kvLongSym, ".a", "a.b", ".hidden.x", "a+b", "a b", "a%2Bb"}
var kvNodeIDs = []string{"n1", "n2", ""}

// IDs are opaque strings. On the back ends that do not map IDs to file names the alphabet also has IDs
// that a path-cleaning key construction would fold onto others or onto another type's entries
var kvPathLikeIDs = []string{"a/", "./a", "..", "a//b", "../nodeinfo/a"}

func kvIDsFor(backend string) []string {
	if backend == world.File {
		return kvIDs
	}
	return append(append([]string{}, kvIDs...), kvPathLikeIDs...)
}

func kvID(sym string) string {
	if sym == kvLongSym {
		return kvLongID
	}
	return sym
}

func kvSym(id string) string {
	if id == kvLongID {
		return kvLongSym
	}
	return id
}

// kvBuild is the message stored for (type, id) with the distinguishing payload
func kvBuild(typ, id, payload, nodeID string) nodeenrollment.MessageWithId {
	switch typ {
	case kvNodeInfo:
		return &types.NodeInformation{Id: id, RegistrationNonce: []byte(payload), NodeId: nodeID, WrappingKeyId: "w-" + payload}
	case kvNodeCreds:
		return &types.NodeCredentials{Id: id, RegistrationNonce: []byte(payload), WrappingKeyId: "w-" + payload}
	case kvRoots:
		return &types.RootCertificates{Id: id, WrappingKeyId: payload, Current: &types.RootCertificate{Id: "current", CertificateDer: []byte(payload)}}
	case kvToken:
		return &types.ServerLedActivationToken{Id: id, CreationTimeMarshaled: []byte(payload), WrappingKeyId: "w-" + payload}
	}
	panic("kvmodel: unknown type " + typ)
}

// kvScribble overwrites a message the caller still owns after it was handed to Store: the back end must
// have taken a snapshot, so this must never be visible to a later Load
func kvScribble(m nodeenrollment.MessageWithId) {
	const junk = "scribbled-by-caller-after-store"
	switch t := m.(type) {
	case *types.NodeInformation:
		t.Id, t.RegistrationNonce, t.NodeId, t.WrappingKeyId = junk, []byte(junk), junk, junk
	case *types.NodeCredentials:
		t.Id, t.RegistrationNonce, t.WrappingKeyId = junk, []byte(junk), junk
	case *types.RootCertificates:
		t.Id, t.WrappingKeyId = junk, junk
		if t.Current != nil {
			t.Current.CertificateDer = []byte(junk)
		}
	case *types.ServerLedActivationToken:
		t.Id, t.CreationTimeMarshaled, t.WrappingKeyId = junk, []byte(junk), junk
	}
}

// kvBlank is the load / remove / list argument: only the ID is set
func kvBlank(typ, id string) nodeenrollment.MessageWithId {
	switch typ {
	case kvNodeInfo:
		return &types.NodeInformation{Id: id}
	case kvNodeCreds:
		return &types.NodeCredentials{Id: id}
	case kvRoots:
		return &types.RootCertificates{Id: id}
	case kvToken:
		return &types.ServerLedActivationToken{Id: id}
	}
	panic("kvmodel: unknown type " + typ)
}

// kvDirty is a load target a caller has used before: the right ID, and content of an earlier,
// different record in fields the stored records leave unset as well as in those they set.
// A load must return the stored message, nothing of the target's earlier content.
func kvDirty(typ, id string) nodeenrollment.MessageWithId {
	old := []byte("left-over-from-an-earlier-load")
	st, _ := structpb.NewStruct(map[string]any{"left": "over"})
	bundles := []*types.CertificateBundle{{CertificateDer: old, CaCertificateDer: old}}
	switch typ {
	case kvNodeInfo:
		return &types.NodeInformation{Id: id, RegistrationNonce: old, NodeId: "old-node", WrappingKeyId: "old", State: st, CertificateBundles: bundles,
			ServerEncryptionPrivateKeyBytes: old, PreviousEncryptionKey: &types.EncryptionKey{KeyId: "old", PrivateKeyPkcs8: old}}
	case kvNodeCreds:
		return &types.NodeCredentials{Id: id, RegistrationNonce: old, WrappingKeyId: "old", State: st, CertificateBundles: bundles, EncryptionPrivateKeyBytes: old}
	case kvRoots:
		return &types.RootCertificates{Id: id, WrappingKeyId: "old", State: st, Current: &types.RootCertificate{Id: "current", CertificateDer: old, PrivateKeyPkcs8: old},
			Next: &types.RootCertificate{Id: "next", CertificateDer: old}}
	case kvToken:
		return &types.ServerLedActivationToken{Id: id, CreationTimeMarshaled: old, WrappingKeyId: "old", State: st}
	}
	panic("kvmodel: unknown type " + typ)
}

// kvNil is a nil pointer of the message type ("untyped" = nil interface)
func kvNil(typ string) nodeenrollment.MessageWithId {
	switch typ {
	case kvNodeInfo:
		return (*types.NodeInformation)(nil)
	case kvNodeCreds:
		return (*types.NodeCredentials)(nil)
	case kvRoots:
		return (*types.RootCertificates)(nil)
	case kvToken:
		return (*types.ServerLedActivationToken)(nil)
	case "untyped":
		return nil
	}
	panic("kvmodel: unknown type " + typ)
}

// kvPayload reads the distinguishing payload back out of a loaded message
func kvPayload(m proto.Message) string {
	switch t := m.(type) {
	case *types.NodeInformation:
		return string(t.GetRegistrationNonce())
	case *types.NodeCredentials:
		return string(t.GetRegistrationNonce())
	case *types.RootCertificates:
		return t.GetWrappingKeyId()
	case *types.ServerLedActivationToken:
		return string(t.GetCreationTimeMarshaled())
	}
	return ""
}

// messages outside the four storable types

// kvForeign makes any proto message satisfy MessageWithId
type kvForeign struct {
	proto.Message
	id string
}

func (f kvForeign) GetId() string { return f.id }

// kvWrapped looks like a node record but is a different Go type
type kvWrapped struct{ *types.NodeInformation }

var kvUnknownKinds = []string{"rootcert", "fetchreq", "wrapped-nodeinfo"}

func kvUnknown(kind, id string) nodeenrollment.MessageWithId {
	switch kind {
	case "rootcert":
		return &types.RootCertificate{Id: id, CertificateDer: []byte("unknown-type")}
	case "fetchreq":
		return kvForeign{Message: &types.FetchNodeCredentialsRequest{Bundle: []byte("unknown-type")}, id: id}
	case "wrapped-nodeinfo":
		return kvWrapped{&types.NodeInformation{Id: id, RegistrationNonce: []byte("unknown-type")}}
	}
	panic("kvmodel: unknown kind " + kind)
}

// ---------------------------------------------------------------------------
// case descriptors

type kvOp struct {
	Op     string `json:"op"`
	Type   string `json:"type,omitempty"`
	ID     string `json:"id,omitempty"` // symbolic: "@long200" is the 200-character id
	NodeID string `json:"node_id,omitempty"`
	NilArg bool   `json:"nil_pointer_argument,omitempty"` // list: pass a nil pointer of the type instead of an instance
}

type kvHistOp struct {
	Client int    `json:"client"`
	Kind   string `json:"kind"`
	Key    string `json:"key,omitempty"`
	Val    string `json:"value,omitempty"`
	Out    string `json:"output"`
	Call   int64  `json:"call_ns"`
	Return int64  `json:"return_ns"`
}

type kvCase struct {
	Mode    string `json:"mode"` // seq | conc | small
	Backend string `json:"backend"`
	Index   int    `json:"index"`
	Seed    int64  `json:"case_seed"`
	// seq
	Ops      []kvOp `json:"ops,omitempty"`
	FailedAt *int   `json:"failed_at,omitempty"`
	Observed string `json:"observed,omitempty"`
	// conc / small
	Clients      int        `json:"clients,omitempty"`
	OpsPerClient int        `json:"ops_per_client,omitempty"`
	Key          string     `json:"offending_key,omitempty"`
	History      []kvHistOp `json:"history,omitempty"`
}

// ---------------------------------------------------------------------------
// sequential part

type kvVal struct{ Payload, NodeID string }

type kvRunner struct {
	c       *engine.Ctx
	ctx     context.Context
	backend string
	st      nodeenrollment.Storage
	model   map[string]map[string]kvVal // type -> real id -> value
	cnt     map[string]int64
	kase    *kvCase
	opIdx   int
	failed  bool
	loads   int
}

func (k *kvRunner) count(class string) { k.cnt[k.backend+":"+class]++ }

func (k *kvRunner) fail(key, what string) {
	if k.failed {
		return
	}
	k.failed = true
	w := *k.kase
	if k.opIdx+1 <= len(w.Ops) {
		w.Ops = w.Ops[:k.opIdx+1]
	}
	idx := k.opIdx
	w.FailedAt = &idx
	w.Observed = what
	k.c.R.Violation(key, fmt.Sprintf("[%s back end, op %d] %s", k.backend, k.opIdx, what), w)
}

// call runs one library call under Guard; ok=false means it panicked (reported)
func (k *kvRunner) call(name string, fn func() error) (err error, ok bool) {
	type res struct {
		err error
		p   any
		st  string
	}
	done := make(chan res, 1)
	go func() {
		var r res
		r.p, r.st = engine.Guard(func() { r.err = fn() })
		done <- r
	}()
	select {
	case r := <-done:
		if r.p != nil {
			k.fail("panic:"+engine.LibraryFrame(r.st), fmt.Sprintf("%s panicked: %v", name, r.p))
			return nil, false
		}
		return r.err, true
	case <-time.After(kvCallPatience):
	}
	// the call has not returned. It is a finding only if the goroutine dump shows a goroutine parked on a lock
	// inside the back end (a lock that was never released); anything else is a slow machine: inconclusive
	buf := make([]byte, 1<<20)
	buf = buf[:runtime.Stack(buf, true)]
	blocked := ""
	for _, g := range strings.Split(string(buf), "\n\n") {
		if strings.Contains(g, "nodeenrollment/storage/") && (strings.Contains(g, "sync.(*RWMutex).Lock") || strings.Contains(g, "sync.(*RWMutex).RLock") || strings.Contains(g, "sync.(*Mutex).Lock")) {
			blocked = g
			break
		}
	}
	if blocked != "" {
		head := blocked
		if i := strings.Index(head, "\n"); i > 0 {
			head = head[:i]
		}
		k.fail("operation-never-returned:"+k.backend+":"+name, fmt.Sprintf("%s has not returned after %v: its goroutine is parked on a lock of the back end (%s) - an earlier operation left the lock held", name, kvCallPatience, head))
	} else {
		k.failed = true
		k.c.R.Inconclusive(fmt.Sprintf("a %s call on the %s back end did not return within %v and is not parked on a back-end lock", name, k.backend, kvCallPatience))
	}
	return nil, false
}

// kvCallPatience: how long a single back-end call may take before its goroutine is examined
const kvCallPatience = 20 * time.Second

// kvErr renders an error for a one-line description (paths of the run directory can be long)
func kvErr(err error) string {
	if err == nil {
		return "<nil>"
	}
	t := err.Error()
	if len(t) > 220 {
		t = t[:220] + "..."
	}
	return t
}

func kvShort(s string) string {
	if len(s) > 40 {
		return s[:16] + fmt.Sprintf("...(%d chars)", len(s))
	}
	return s
}

// checkLoad loads (typ,id) and compares with the model
func (k *kvRunner) checkLoad(typ, id, tag string) {
	if k.failed {
		return
	}
	msg := kvBlank(typ, id)
	k.loads++
	dirty := k.loads%3 == 0
	if dirty {
		msg = kvDirty(typ, id)
		k.count("loads_into_a_used_target")
	}
	err, ok := k.call("Load", func() error { return k.st.Load(k.ctx, msg) })
	if !ok {
		return
	}
	want, present := k.model[typ][id]
	if !present {
		k.count(tag + "-absent")
		switch {
		case err == nil:
			k.fail("load-absent-succeeded:"+k.backend+":"+typ, fmt.Sprintf("Load of absent %s %q succeeded (payload %q)", typ, kvShort(id), kvPayload(msg)))
		case !errors.Is(err, nodeenrollment.ErrNotFound):
			k.fail("load-absent-not-errnotfound:"+k.backend+":"+typ, fmt.Sprintf("Load of absent %s %q returned an error that is not ErrNotFound: %v", typ, kvShort(id), kvErr(err)))
		}
		return
	}
	k.count(tag + "-present")
	if err != nil {
		cls := "load-present-failed:"
		if errors.Is(err, nodeenrollment.ErrNotFound) {
			cls = "load-present-notfound:"
		}
		k.fail(cls+k.backend+":"+typ, fmt.Sprintf("Load of present %s %q (stored payload %q) failed: %v", typ, kvShort(id), want.Payload, kvErr(err)))
		return
	}
	exp := kvBuild(typ, id, want.Payload, want.NodeID)
	if !proto.Equal(msg, exp) {
		cls := "load-wrong-value:"
		if dirty {
			cls = "load-wrong-value:into-used-target:"
		}
		k.fail(cls+k.backend+":"+typ, fmt.Sprintf("Load of %s %q returned payload %q (id %q), most recent store had payload %q (target used before: %v)", typ, kvShort(id), kvPayload(msg), kvShort(msg.GetId()), want.Payload, dirty))
		return
	}
	for _, ot := range kvTypes {
		if ot == typ {
			continue
		}
		if ov, ok := k.model[ot][id]; ok && ov.Payload != want.Payload {
			k.count("load-present-while-other-type-holds-same-id")
			break
		}
	}
}

// checkList lists typ and compares as a set
func (k *kvRunner) checkList(typ string, nilArg bool, tag string) {
	if k.failed {
		return
	}
	var arg proto.Message
	if nilArg {
		arg = kvNil(typ)
	} else {
		arg = kvBlank(typ, "")
	}
	var got []string
	err, ok := k.call("List", func() error {
		var e error
		got, e = k.st.List(k.ctx, arg)
		return e
	})
	if !ok {
		return
	}
	if typ == kvToken {
		k.count(tag + "-token-refused")
		if err == nil {
			k.fail("list-token-accepted:"+k.backend, fmt.Sprintf("List of activation tokens did not return an error (returned %d ids)", len(got)))
		}
		return
	}
	k.count(tag)
	if err != nil {
		k.fail("list-failed:"+k.backend+":"+typ, fmt.Sprintf("List of %s failed: %v", typ, kvErr(err)))
		return
	}
	gotSet := map[string]bool{}
	for _, g := range got {
		gotSet[g] = true
	}
	var missing, extra []string
	for id := range k.model[typ] {
		if !gotSet[id] {
			missing = append(missing, kvSym(id))
		}
	}
	for g := range gotSet {
		if _, ok := k.model[typ][g]; !ok {
			extra = append(extra, kvShort(g))
		}
	}
	if len(missing)+len(extra) > 0 {
		sort.Strings(missing)
		sort.Strings(extra)
		cls := "list-extra-id:"
		if len(missing) > 0 {
			cls = "list-missing-id:"
		}
		k.fail(cls+k.backend+":"+typ, fmt.Sprintf("List of %s: missing ids %v, ids not present %v (model has %d ids)", typ, missing, extra, len(k.model[typ])))
		return
	}
	if len(k.model[typ]) > 0 {
		k.count(tag + "-nonempty")
	}
}

// checkByNode is LoadByNodeId on the store-once back end
func (k *kvRunner) checkByNode(nodeID, tag string) {
	if k.failed {
		return
	}
	l, isLoader := k.st.(nodeenrollment.NodeIdLoader)
	if !isLoader {
		return
	}
	set := &types.NodeInformationSet{NodeId: nodeID}
	err, ok := k.call("LoadByNodeId", func() error { return l.LoadByNodeId(k.ctx, set) })
	if !ok {
		return
	}
	want := map[string]kvVal{}
	for id, v := range k.model[kvNodeInfo] {
		if v.NodeID == nodeID {
			want[id] = v
		}
	}
	if len(want) == 0 {
		k.count(tag + "-none")
		switch {
		case err == nil:
			k.fail("loadbynodeid-none-succeeded:"+k.backend, fmt.Sprintf("LoadByNodeId(%q) succeeded with %d records although no record has that node id", nodeID, len(set.Nodes)))
		case !errors.Is(err, nodeenrollment.ErrNotFound):
			k.fail("loadbynodeid-none-not-errnotfound:"+k.backend, fmt.Sprintf("LoadByNodeId(%q) without matching records returned an error that is not ErrNotFound: %v", nodeID, kvErr(err)))
		}
		return
	}
	k.count(tag + "-some")
	if err != nil {
		k.fail("loadbynodeid-failed:"+k.backend, fmt.Sprintf("LoadByNodeId(%q) failed although %d records have that node id: %v", nodeID, len(want), kvErr(err)))
		return
	}
	seen := map[string]bool{}
	for _, n := range set.Nodes {
		v, ok := want[n.GetId()]
		if !ok {
			k.fail("loadbynodeid-extra-record:"+k.backend, fmt.Sprintf("LoadByNodeId(%q) returned record %q (node id %q) which the model does not have under that node id", nodeID, kvShort(n.GetId()), n.GetNodeId()))
			return
		}
		if !proto.Equal(n, kvBuild(kvNodeInfo, n.GetId(), v.Payload, v.NodeID)) {
			k.fail("loadbynodeid-wrong-value:"+k.backend, fmt.Sprintf("LoadByNodeId(%q) returned record %q with payload %q, stored payload %q", nodeID, kvShort(n.GetId()), kvPayload(n), v.Payload))
			return
		}
		seen[n.GetId()] = true
	}
	if len(seen) != len(want) {
		k.fail("loadbynodeid-missing-record:"+k.backend, fmt.Sprintf("LoadByNodeId(%q) returned %d of the %d records with that node id", nodeID, len(seen), len(want)))
	}
}

// probe: the ID under all four types plus all lists (cheap consistency check
// after every mutating or refused call)
func (k *kvRunner) probe(id string) {
	for _, t := range kvTypes {
		k.checkLoad(t, id, "probe-load")
	}
	for _, t := range kvListable {
		k.checkList(t, true, "probe-list")
	}
}

// sweep: everything the model knows about
func (k *kvRunner) sweep() {
	for _, t := range kvTypes {
		for _, s := range kvIDsFor(k.backend) {
			k.checkLoad(t, kvID(s), "sweep-load")
		}
	}
	for _, t := range kvListable {
		k.checkList(t, false, "sweep-list")
	}
	if k.backend == world.File {
		// loads only (never a store or remove): IDs that were never stored but that a key construction
		// which joins the ID onto a directory would resolve to an entry that exists - of another type or
		// of the same one. IDs are opaque: every one of these is absent.
		dirs := map[string]string{kvNodeInfo: "nodeinfo", kvNodeCreds: "nodecreds", kvRoots: "roots", kvToken: "serverledactivationtokens"}
		for _, u := range kvTypes {
			for id := range k.model[u] {
				if len(id) > 60 {
					continue
				}
				for _, t := range kvTypes {
					k.checkLoad(t, "../"+dirs[u]+"/"+id, "sweep-load-path-like")
				}
				k.checkLoad(u, "./"+id, "sweep-load-path-like")
				k.checkLoad(u, id+"/", "sweep-load-path-like")
				k.checkLoad(u, "x/../"+id, "sweep-load-path-like")
			}
		}
	}
	if k.backend == world.StoreOnce {
		for _, n := range []string{"n1", "n2", "n3"} {
			k.checkByNode(n, "sweep-loadbynodeid")
		}
	}
}

func (k *kvRunner) refused(name, cls string, argDesc string, fn func() error) {
	if k.failed {
		return
	}
	err, ok := k.call(name, fn)
	if !ok {
		return
	}
	k.count("refused-" + cls)
	if err == nil {
		k.fail("accepted-"+cls+":"+strings.ToLower(name)+":"+k.backend, fmt.Sprintf("%s of %s returned no error", name, argDesc))
	}
}

func (k *kvRunner) step(i int, op kvOp) {
	k.opIdx = i
	id := kvID(op.ID)
	switch op.Op {
	case "store":
		_, present := k.model[op.Type][id]
		payload := fmt.Sprintf("p%d", i)
		if i%4 == 1 {
			// records of very different sizes follow each other under one ID (a shorter record over a longer one included)
			payload += "-" + strings.Repeat("L", 200+37*(i%11))
		}
		msg := kvBuild(op.Type, id, payload, op.NodeID)
		err, ok := k.call("Store", func() error { return k.st.Store(k.ctx, msg) })
		if !ok {
			return
		}
		if err == nil && i%3 == 0 {
			// load into the very message that was just stored
			want := kvPayload(msg)
			if lerr, lok := k.call("Load", func() error { return k.st.Load(k.ctx, msg) }); lok {
				if lerr != nil || kvPayload(msg) != want {
					k.fail("load-into-stored-message:"+k.backend+":"+op.Type, fmt.Sprintf("Load into the message that was just stored returned %v / payload %q, want %q", kvErr(lerr), kvShort(kvPayload(msg)), want))
					return
				}
				k.count("load-into-stored-message")
			}
		}
		// the caller keeps using its message object: the stored value must not follow
		kvScribble(msg)
		k.count("caller-mutated-message-after-store")
		if k.backend == world.StoreOnce && op.Type == kvNodeInfo && present {
			k.count("store-duplicate-node-record")
			var dv types.DuplicateRecordError
			var dp *types.DuplicateRecordError
			switch {
			case err == nil:
				k.fail("storeonce-overwrite-accepted", fmt.Sprintf("store-once back end accepted a second Store of node record %q", kvShort(id)))
				return
			case !errors.As(err, &dv) && !errors.As(err, &dp):
				k.fail("storeonce-duplicate-wrong-error", fmt.Sprintf("store-once back end refused the duplicate node record %q with an error that is not a DuplicateRecordError: %v", kvShort(id), kvErr(err)))
				return
			}
			// old value must stay: model unchanged
		} else {
			if present {
				k.count("store-overwrite")
			} else {
				k.count("store-new")
			}
			if err != nil {
				k.fail("store-failed:"+k.backend+":"+op.Type, fmt.Sprintf("Store of %s %q failed: %v", op.Type, kvShort(id), kvErr(err)))
				return
			}
			k.model[op.Type][id] = kvVal{Payload: payload, NodeID: op.NodeID}
		}
		k.probe(id)
	case "load":
		k.checkLoad(op.Type, id, "load")
	case "remove":
		_, present := k.model[op.Type][id]
		err, ok := k.call("Remove", func() error { return k.st.Remove(k.ctx, kvBlank(op.Type, id)) })
		if !ok {
			return
		}
		if present {
			k.count("remove-present")
			if err != nil {
				k.fail("remove-present-failed:"+k.backend+":"+op.Type, fmt.Sprintf("Remove of present %s %q failed: %v", op.Type, kvShort(id), kvErr(err)))
				return
			}
			delete(k.model[op.Type], id)
		} else {
			// result unconstrained; the map must not change
			if err == nil {
				k.count("remove-absent-returned-nil")
			} else {
				k.count("remove-absent-returned-error")
			}
		}
		k.probe(id)
	case "remove-donectx", "store-donectx":
		// a call whose context is already cancelled: nil means the operation took effect, an error means
		// nothing changed - a back end must not answer one thing and do the other
		dctx, cancel := context.WithCancel(k.ctx)
		cancel()
		_, present := k.model[op.Type][id]
		if op.Op == "remove-donectx" {
			err, ok := k.call("Remove", func() error { return k.st.Remove(dctx, kvBlank(op.Type, id)) })
			if !ok {
				return
			}
			if err == nil {
				delete(k.model[op.Type], id)
				k.count("done-context-call-returned-nil")
			} else {
				k.count("done-context-call-returned-error")
			}
		} else {
			payload := fmt.Sprintf("d%d", i)
			err, ok := k.call("Store", func() error { return k.st.Store(dctx, kvBuild(op.Type, id, payload, "")) })
			if !ok {
				return
			}
			if err == nil {
				if k.backend == world.StoreOnce && op.Type == kvNodeInfo && present {
					k.fail("storeonce-overwrite-accepted", fmt.Sprintf("store-once back end accepted a second Store of node record %q (context already done)", kvShort(id)))
					return
				}
				k.model[op.Type][id] = kvVal{Payload: payload}
				k.count("done-context-call-returned-nil")
			} else {
				k.count("done-context-call-returned-error")
			}
		}
		k.probe(id)
	case "list":
		k.checkList(op.Type, op.NilArg, "list")
	case "bynode":
		k.checkByNode(op.NodeID, "loadbynodeid")
	case "store-nil":
		k.refused("Store", "nil", "a nil "+op.Type+" message", func() error { return k.st.Store(k.ctx, kvNil(op.Type)) })
	case "load-nil":
		k.refused("Load", "nil", "a nil "+op.Type+" message", func() error { return k.st.Load(k.ctx, kvNil(op.Type)) })
	case "remove-nil":
		k.refused("Remove", "nil", "a nil "+op.Type+" message", func() error { return k.st.Remove(k.ctx, kvNil(op.Type)) })
	case "store-unknown":
		k.refused("Store", "unknown-type", "unknown message type "+op.Type, func() error { return k.st.Store(k.ctx, kvUnknown(op.Type, id)) })
		k.probe(id)
	case "load-unknown":
		k.refused("Load", "unknown-type", "unknown message type "+op.Type, func() error { return k.st.Load(k.ctx, kvUnknown(op.Type, id)) })
	case "remove-unknown":
		k.refused("Remove", "unknown-type", "unknown message type "+op.Type, func() error { return k.st.Remove(k.ctx, kvUnknown(op.Type, id)) })
		k.probe(id)
	case "list-unknown":
		k.refused("List", "unknown-type", "unknown message type "+op.Type, func() error {
			_, e := k.st.List(k.ctx, kvUnknown(op.Type, id))
			return e
		})
	case "store-emptyid":
		k.refused("Store", "empty-id", "a "+op.Type+" message with an empty id", func() error { return k.st.Store(k.ctx, kvBuild(op.Type, "", fmt.Sprintf("p%d", i), "n1")) })
		for _, t := range kvListable {
			k.checkList(t, true, "probe-list")
		}
	default:
		k.c.R.Broken("kvmodel: unknown op " + op.Op)
		k.failed = true
	}
}

// kvGenOps generates one operation sequence; it tracks presence itself so
// that loads and removes hit present entries about half of the time
func kvGenOps(rng *rand.Rand, backend string, n int) []kvOp {
	present := map[string]bool{}
	var presentKeys []string // type|sym, with duplicates/stale entries tolerated
	pickKey := func(wantPresent bool) (string, string) {
		if wantPresent && len(presentKeys) > 0 {
			for try := 0; try < 4; try++ {
				k := presentKeys[rng.Intn(len(presentKeys))]
				if present[k] {
					p := strings.SplitN(k, "|", 2)
					return p[0], p[1]
				}
			}
		}
		ids := kvIDsFor(backend)
		return kvTypes[rng.Intn(len(kvTypes))], ids[rng.Intn(len(ids))]
	}
	ops := make([]kvOp, 0, n)
	for len(ops) < n {
		w := rng.Intn(100)
		switch {
		case w < 32:
			t, id := pickKey(rng.Intn(4) == 0) // a quarter of the stores aim at an existing entry
			if rng.Intn(3) == 0 {
				t = kvNodeInfo
			}
			ops = append(ops, kvOp{Op: "store", Type: t, ID: id, NodeID: kvNodeIDs[rng.Intn(len(kvNodeIDs))]})
			k := t + "|" + id
			if !present[k] {
				present[k] = true
				presentKeys = append(presentKeys, k)
			}
		case w < 56:
			t, id := pickKey(rng.Intn(2) == 0)
			ops = append(ops, kvOp{Op: "load", Type: t, ID: id})
		case w < 68:
			t, id := pickKey(rng.Intn(2) == 0)
			if rng.Intn(5) == 0 {
				// the caller's context is already done: whatever the back end answers, its answer and its
				// contents must agree (presence unknown to the generator from here on; stale entries are tolerated)
				ops = append(ops, kvOp{Op: []string{"remove-donectx", "remove-donectx", "store-donectx"}[rng.Intn(3)], Type: t, ID: id})
				break
			}
			ops = append(ops, kvOp{Op: "remove", Type: t, ID: id})
			delete(present, t+"|"+id)
		case w < 80:
			ops = append(ops, kvOp{Op: "list", Type: kvTypes[rng.Intn(len(kvTypes))], NilArg: rng.Intn(2) == 0})
		case w < 86:
			if backend == world.StoreOnce {
				ops = append(ops, kvOp{Op: "bynode", NodeID: []string{"n1", "n2", "n3"}[rng.Intn(3)]})
			} else {
				t, id := pickKey(true)
				ops = append(ops, kvOp{Op: "load", Type: t, ID: id})
			}
		case w < 91:
			nt := append([]string{"untyped"}, kvTypes...)
			ops = append(ops, kvOp{Op: []string{"store-nil", "load-nil", "remove-nil"}[rng.Intn(3)], Type: nt[rng.Intn(len(nt))]})
		case w < 97:
			ops = append(ops, kvOp{Op: []string{"store-unknown", "store-unknown", "load-unknown", "remove-unknown", "list-unknown"}[rng.Intn(5)],
				Type: kvUnknownKinds[rng.Intn(len(kvUnknownKinds))], ID: kvIDs[rng.Intn(len(kvIDs))]})
		default:
			ops = append(ops, kvOp{Op: "store-emptyid", Type: kvTypes[rng.Intn(len(kvTypes))]})
		}
	}
	return ops
}

// kvRunSeq executes one sequence against a fresh back end
func kvRunSeq(c *engine.Ctx, kase kvCase) {
	st, cleanup, err := world.NewBackend(kase.Backend)
	if err != nil {
		c.R.Broken("kvmodel: cannot create back end " + kase.Backend + ": " + err.Error())
		return
	}
	defer cleanup()
	k := &kvRunner{c: c, ctx: context.Background(), backend: kase.Backend, st: st, cnt: map[string]int64{}, kase: &kase,
		model: map[string]map[string]kvVal{}}
	for _, t := range kvTypes {
		k.model[t] = map[string]kvVal{}
	}
	mid := len(kase.Ops) / 2
	for i, op := range kase.Ops {
		if k.failed {
			break
		}
		k.step(i, op)
		if i == mid && !k.failed {
			k.sweep()
		}
	}
	if !k.failed {
		k.opIdx = len(kase.Ops) - 1
		k.sweep()
	}
	compared := int64(0)
	for cls, n := range k.cnt {
		c.R.Count(cls, n)
		compared += n
	}
	c.R.Count(kase.Backend+":sequences", 1)
	c.R.Eval(engine.J(struct {
		B string
		O []kvOp
	}{kase.Backend, kase.Ops}), compared > 0)
}

// ---------------------------------------------------------------------------
// concurrent part (in-memory back end)

const (
	kvKStore = iota
	kvKLoad
	kvKRemove
	kvKList
)

var kvKindNames = []string{"store", "load", "remove", "list"}

type kvCIn struct {
	Kind int
	Typ  string
	ID   string
	Val  string
}

func (in kvCIn) key() string { return in.Typ + "|" + in.ID }

type kvCOut struct {
	Found bool
	Val   string // load: payload observed; list: sorted ids joined by ","
	Err   string
}

type kvClientFinding struct {
	key, what string
}

// kvRunHistory runs the plan (one op list per client) against a fresh
// in-memory back end and returns the recorded operations
// kvDeadlocked: a concurrent history found the back end deadlocked; the remaining concurrent cases are skipped
// (each would wait out its patience for the same finding)
var kvDeadlocked atomic.Bool

func kvRunHistory(plan [][]kvCIn) ([]porcupine.Operation, []kvClientFinding, error) {
	if kvDeadlocked.Load() {
		return nil, nil, nil
	}
	ctx := context.Background()
	st, _, err := world.NewBackend(world.Inmem)
	if err != nil {
		return nil, nil, err
	}
	n := len(plan)
	perClient := make([][]porcupine.Operation, n)
	findings := make([][]kvClientFinding, n)
	var ready atomic.Int32
	var wg sync.WaitGroup
	start := time.Now()
	for cl := 0; cl < n; cl++ {
		wg.Add(1)
		go func(cl int) {
			defer wg.Done()
			ops := make([]porcupine.Operation, 0, len(plan[cl]))
			defer func() { perClient[cl] = ops }()
			// pre-build arguments so that the recorded interval is the library call only
			args := make([]proto.Message, len(plan[cl]))
			for j, in := range plan[cl] {
				switch in.Kind {
				case kvKStore:
					args[j] = kvBuild(in.Typ, in.ID, in.Val, "n1")
				case kvKList:
					args[j] = kvNil(in.Typ)
				default:
					args[j] = kvBlank(in.Typ, in.ID)
				}
			}
			ready.Add(1)
			for ready.Load() < int32(n) {
				runtime.Gosched()
			}
			for j, in := range plan[cl] {
				var out kvCOut
				var lerr error
				var ids []string
				var pv any
				var stack string
				call := time.Since(start).Nanoseconds()
				switch in.Kind {
				case kvKStore:
					m := args[j].(nodeenrollment.MessageWithId)
					pv, stack = engine.Guard(func() { lerr = st.Store(ctx, m) })
					if pv == nil {
						kvScribble(m) // the client goes on using its own message object
					}
				case kvKLoad:
					m := args[j].(nodeenrollment.MessageWithId)
					pv, stack = engine.Guard(func() { lerr = st.Load(ctx, m) })
				case kvKRemove:
					m := args[j].(nodeenrollment.MessageWithId)
					pv, stack = engine.Guard(func() { lerr = st.Remove(ctx, m) })
				case kvKList:
					pv, stack = engine.Guard(func() { ids, lerr = st.List(ctx, args[j]) })
				}
				ret := time.Since(start).Nanoseconds()
				if pv != nil {
					findings[cl] = append(findings[cl], kvClientFinding{"panic:" + engine.LibraryFrame(stack), fmt.Sprintf("%s panicked under concurrent use: %v", kvKindNames[in.Kind], pv)})
					return
				}
				if lerr != nil {
					out.Err = lerr.Error()
				}
				switch in.Kind {
				case kvKStore:
					if lerr != nil {
						findings[cl] = append(findings[cl], kvClientFinding{"concurrent:store-failed", fmt.Sprintf("Store of %s failed under concurrent use: %v", in.key(), kvErr(lerr))})
						return
					}
				case kvKLoad:
					switch {
					case lerr == nil:
						out.Found = true
						out.Val = kvPayload(args[j])
						if !proto.Equal(args[j], kvBuild(in.Typ, in.ID, out.Val, "n1")) {
							findings[cl] = append(findings[cl], kvClientFinding{"concurrent:load-corrupt:" + in.Typ, fmt.Sprintf("Load of %s under concurrent use returned a message that no client stored (payload %q, id %q)", in.key(), out.Val, args[j].(nodeenrollment.MessageWithId).GetId())})
							return
						}
					case errors.Is(lerr, nodeenrollment.ErrNotFound):
					default:
						findings[cl] = append(findings[cl], kvClientFinding{"concurrent:load-error", fmt.Sprintf("Load of %s under concurrent use failed with an error that is not ErrNotFound: %v", in.key(), kvErr(lerr))})
						return
					}
				case kvKList:
					if lerr != nil {
						findings[cl] = append(findings[cl], kvClientFinding{"concurrent:list-failed", fmt.Sprintf("List of %s failed under concurrent use: %v", in.Typ, kvErr(lerr))})
						return
					}
					set := map[string]bool{}
					for _, x := range ids {
						set[x] = true
					}
					u := make([]string, 0, len(set))
					for x := range set {
						u = append(u, x)
					}
					sort.Strings(u)
					out.Val = strings.Join(u, ",")
				}
				ops = append(ops, porcupine.Operation{ClientId: cl, Input: in, Call: call, Output: out, Return: ret})
			}
		}(cl)
	}
	allDone := make(chan struct{})
	go func() { wg.Wait(); close(allDone) }()
	select {
	case <-allDone:
	case <-time.After(3 * kvCallPatience):
		// the clients have not finished: a finding only if goroutines are parked on a lock inside the back
		// end (readers and writers waiting for one another), otherwise a slow machine
		buf := make([]byte, 4<<20)
		buf = buf[:runtime.Stack(buf, true)]
		parked := 0
		sample := ""
		for _, g := range strings.Split(string(buf), "\n\n") {
			if strings.Contains(g, "nodeenrollment/storage/") && (strings.Contains(g, "sync.(*RWMutex).Lock") || strings.Contains(g, "sync.(*RWMutex).RLock") || strings.Contains(g, "sync.(*Mutex).Lock")) {
				parked++
				if sample == "" {
					sample = g
					if i := strings.Index(sample, "\n"); i > 0 {
						sample = sample[:i]
					}
				}
			}
		}
		if parked > 0 {
			kvDeadlocked.Store(true)
			return nil, []kvClientFinding{{"concurrent:operations-never-returned", fmt.Sprintf("under concurrent use %d client goroutines are parked on a lock of the back end and none has finished after %v (first: %s): the back end deadlocked", parked, 3*kvCallPatience, sample)}}, nil
		}
		return nil, nil, fmt.Errorf("concurrent history did not finish within %v and no goroutine is parked on a back-end lock", 3*kvCallPatience)
	}
	var hist []porcupine.Operation
	var fs []kvClientFinding
	for cl := 0; cl < n; cl++ {
		hist = append(hist, perClient[cl]...)
		fs = append(fs, findings[cl]...)
	}
	return hist, fs, nil
}

// register-per-key model: state = current payload, "" = absent
func kvRegStep(state, input, output interface{}) (bool, interface{}) {
	st := state.(string)
	in := input.(kvCIn)
	out := output.(kvCOut)
	switch in.Kind {
	case kvKStore:
		return true, in.Val
	case kvKRemove:
		return true, ""
	case kvKLoad:
		if out.Found {
			return st == out.Val, st
		}
		return st == "", st
	}
	return false, st
}

func kvPartition(h []porcupine.Operation) [][]porcupine.Operation {
	by := map[string][]porcupine.Operation{}
	var keys []string
	for _, op := range h {
		k := op.Input.(kvCIn).key()
		if _, ok := by[k]; !ok {
			keys = append(keys, k)
		}
		by[k] = append(by[k], op)
	}
	sort.Strings(keys)
	out := make([][]porcupine.Operation, 0, len(keys))
	for _, k := range keys {
		out = append(out, by[k])
	}
	return out
}

var kvRegModel = porcupine.Model{
	Partition: kvPartition,
	Init:      func() interface{} { return "" },
	Step:      kvRegStep,
}

var kvRegModelSingle = porcupine.Model{
	Init: func() interface{} { return "" },
	Step: kvRegStep,
}

// whole-map model: state = sorted "type|id=payload" entries joined by ";"
func kvMapDecode(s string) map[string]string {
	m := map[string]string{}
	if s == "" {
		return m
	}
	for _, e := range strings.Split(s, ";") {
		p := strings.SplitN(e, "=", 2)
		m[p[0]] = p[1]
	}
	return m
}

func kvMapEncode(m map[string]string) string {
	keys := make([]string, 0, len(m))
	for k := range m {
		keys = append(keys, k)
	}
	sort.Strings(keys)
	var b strings.Builder
	for i, k := range keys {
		if i > 0 {
			b.WriteByte(';')
		}
		b.WriteString(k + "=" + m[k])
	}
	return b.String()
}

var kvMapModel = porcupine.Model{
	Init: func() interface{} { return "" },
	Step: func(state, input, output interface{}) (bool, interface{}) {
		st := state.(string)
		in := input.(kvCIn)
		out := output.(kvCOut)
		m := kvMapDecode(st)
		switch in.Kind {
		case kvKStore:
			m[in.key()] = in.Val
			return true, kvMapEncode(m)
		case kvKRemove:
			delete(m, in.key())
			return true, kvMapEncode(m)
		case kvKLoad:
			cur, ok := m[in.key()]
			if out.Found {
				return ok && cur == out.Val, st
			}
			return !ok, st
		case kvKList:
			var ids []string
			for k := range m {
				if strings.HasPrefix(k, in.Typ+"|") {
					ids = append(ids, strings.TrimPrefix(k, in.Typ+"|"))
				}
			}
			sort.Strings(ids)
			return strings.Join(ids, ",") == out.Val, st
		}
		return false, st
	},
}

func kvHistWitness(h []porcupine.Operation) []kvHistOp {
	sorted := append([]porcupine.Operation{}, h...)
	sort.SliceStable(sorted, func(i, j int) bool { return sorted[i].Call < sorted[j].Call })
	out := make([]kvHistOp, 0, len(sorted))
	for _, op := range sorted {
		in := op.Input.(kvCIn)
		o := op.Output.(kvCOut)
		desc := "ok"
		switch in.Kind {
		case kvKLoad:
			if o.Found {
				desc = "found " + o.Val
			} else {
				desc = "not found"
			}
		case kvKList:
			desc = "[" + o.Val + "]"
		case kvKRemove:
			if o.Err != "" {
				desc = "error: " + o.Err
			}
		}
		key := in.key()
		if in.Kind == kvKList {
			key = in.Typ
		}
		out = append(out, kvHistOp{Client: op.ClientId, Kind: kvKindNames[in.Kind], Key: key, Val: in.Val, Out: desc, Call: op.Call, Return: op.Return})
	}
	return out
}

// keys of the big histories: the same id under all four types, a prefix id,
// and the conventional "current"
var kvConcKeys = [][2]string{
	{kvNodeInfo, "a"}, {kvNodeCreds, "a"}, {kvRoots, "a"}, {kvToken, "a"}, {kvNodeInfo, "ab"}, {kvNodeCreds, "current"},
}

func kvBigPlan(seed int64, idx, clients, opsPer int) [][]kvCIn {
	rng := rand.New(rand.NewSource(seed))
	plan := make([][]kvCIn, clients)
	for cl := range plan {
		for j := 0; j < opsPer; j++ {
			k := kvConcKeys[rng.Intn(len(kvConcKeys))]
			in := kvCIn{Typ: k[0], ID: k[1]}
			switch w := rng.Intn(100); {
			case w < 35:
				in.Kind = kvKStore
				in.Val = fmt.Sprintf("h%d.c%d.o%d", idx, cl, j)
			case w < 80:
				in.Kind = kvKLoad
			default:
				in.Kind = kvKRemove
			}
			plan[cl] = append(plan[cl], in)
		}
	}
	return plan
}

var kvSmallKeys = [][2]string{{kvNodeInfo, "a"}, {kvNodeInfo, "ab"}, {kvNodeCreds, "a"}, {kvRoots, "a"}}

func kvSmallPlan(seed int64, idx int) [][]kvCIn {
	rng := rand.New(rand.NewSource(seed))
	clients := 2 + rng.Intn(2)
	plan := make([][]kvCIn, clients)
	for cl := range plan {
		nops := 4 + rng.Intn(3)
		for j := 0; j < nops; j++ {
			k := kvSmallKeys[rng.Intn(len(kvSmallKeys))]
			in := kvCIn{Typ: k[0], ID: k[1]}
			switch w := rng.Intn(100); {
			case w < 35:
				in.Kind = kvKStore
				in.Val = fmt.Sprintf("s%d.c%d.o%d", idx, cl, j)
			case w < 55:
				in.Kind = kvKLoad
			case w < 70:
				in.Kind = kvKRemove
			default:
				in.Kind = kvKList
				in.ID = ""
				in.Typ = kvListable[rng.Intn(2)] // nodeinfo or nodecreds: both have keys in play
			}
			plan[cl] = append(plan[cl], in)
		}
	}
	return plan
}

const kvPorcupineTimeout = 2 * time.Minute

// kvOverlap counts operations that overlap in time with an operation of another client
func kvOverlap(h []porcupine.Operation) int64 {
	s := append([]porcupine.Operation{}, h...)
	sort.Slice(s, func(i, j int) bool { return s[i].Call < s[j].Call })
	var n int64
	var maxRet int64 = -1
	maxCl := -1
	for _, op := range s {
		if op.Call <= maxRet && op.ClientId != maxCl {
			n++
		}
		if op.Return > maxRet {
			maxRet, maxCl = op.Return, op.ClientId
		}
	}
	return n
}

func kvRunBig(c *engine.Ctx, kase kvCase) {
	r := c.R
	plan := kvBigPlan(kase.Seed, kase.Index, kase.Clients, kase.OpsPerClient)
	hist, findings, err := kvRunHistory(plan)
	if err != nil {
		if strings.Contains(err.Error(), "did not finish within") {
			r.Inconclusive("kvmodel: " + err.Error())
		} else {
			r.Broken("kvmodel: " + err.Error())
		}
		return
	}
	for _, f := range findings {
		w := kase
		w.Observed = f.what
		r.Violation(f.key, f.what, w)
	}
	for _, op := range hist {
		r.Count("concurrent:op-"+kvKindNames[op.Input.(kvCIn).Kind], 1)
		if in := op.Input.(kvCIn); in.Kind == kvKLoad {
			if op.Output.(kvCOut).Found {
				r.Count("concurrent:load-found", 1)
			} else {
				r.Count("concurrent:load-notfound", 1)
			}
		}
	}
	r.Count("concurrent:ops-overlapping-another-client", kvOverlap(hist))
	res, info := porcupine.CheckOperationsVerbose(kvRegModel, hist, kvPorcupineTimeout)
	r.Eval(engine.J(struct {
		M string
		S int64
		C int
		O int
	}{"conc", kase.Seed, kase.Clients, kase.OpsPerClient}), len(hist) > 0)
	switch res {
	case porcupine.Ok:
		r.Count("concurrent:histories-linearizable", 1)
	case porcupine.Unknown:
		r.Count("concurrent:histories-timeout", 1)
		r.Inconclusive(fmt.Sprintf("porcupine timed out on concurrent history %d (seed %d)", kase.Index, kase.Seed))
	case porcupine.Illegal:
		r.Count("concurrent:histories-illegal", 1)
		parts := kvPartition(hist)
		partials := info.PartialLinearizations()
		for pi, p := range parts {
			if porcupine.CheckOperationsTimeout(kvRegModelSingle, p, kvPorcupineTimeout) != porcupine.Illegal {
				continue
			}
			key := p[0].Input.(kvCIn).key()
			longest := 0
			if pi < len(partials) {
				for _, l := range partials[pi] {
					if len(l) > longest {
						longest = len(l)
					}
				}
			}
			w := kase
			w.Key = key
			w.History = kvHistWitness(p)
			typ := p[0].Input.(kvCIn).Typ
			w.Observed = fmt.Sprintf("the %d operations on key %s admit no linearization as a register (longest linearizable subset found: %d operations)", len(p), key, longest)
			r.Violation("concurrent:not-linearizable:"+typ, fmt.Sprintf("in-memory back end: history of %d clients x %d ops is not linearizable on key %s (%d ops, longest partial linearization %d)", kase.Clients, kase.OpsPerClient, key, len(p), longest), w)
		}
	}
}

func kvRunSmall(c *engine.Ctx, kase kvCase) {
	r := c.R
	plan := kvSmallPlan(kase.Seed, kase.Index)
	hist, findings, err := kvRunHistory(plan)
	if err != nil {
		if strings.Contains(err.Error(), "did not finish within") {
			r.Inconclusive("kvmodel: " + err.Error())
		} else {
			r.Broken("kvmodel: " + err.Error())
		}
		return
	}
	for _, f := range findings {
		w := kase
		w.Observed = f.what
		r.Violation(f.key, f.what, w)
	}
	nl := int64(0)
	for _, op := range hist {
		if op.Input.(kvCIn).Kind == kvKList {
			nl++
		}
	}
	r.Count("concurrent-small:ops", int64(len(hist)))
	r.Count("concurrent-small:op-list", nl)
	if kvOverlap(hist) > 0 {
		r.Count("concurrent-small:histories-with-overlap", 1)
	}
	res := porcupine.CheckOperationsTimeout(kvMapModel, hist, kvPorcupineTimeout)
	r.Eval(engine.J(struct {
		M string
		S int64
	}{"small", kase.Seed}), len(hist) > 0)
	switch res {
	case porcupine.Ok:
		r.Count("concurrent-small:histories-linearizable", 1)
	case porcupine.Unknown:
		r.Inconclusive(fmt.Sprintf("porcupine timed out on small history %d (seed %d)", kase.Index, kase.Seed))
	case porcupine.Illegal:
		w := kase
		w.Clients = len(plan)
		w.History = kvHistWitness(hist)
		w.Observed = "the history (including List) admits no linearization as a typed key-value map"
		r.Violation("concurrent:map-history-not-linearizable", fmt.Sprintf("in-memory back end: small history of %d clients with List is not linearizable against the whole-map model", len(plan)), w)
	}
}

// ---------------------------------------------------------------------------

func runKVModel(c *engine.Ctx) engine.Result {
	r := c.R
	res := engine.Result{
		Rule: "sequential case = (back end, seeded sequence of 80 operations: store/load/remove/list over ids {a,b,ab,current,next,roots,200-char id} x the four message types, " +
			"nil / unknown-type / empty-id calls, LoadByNodeId on store-once); every store carries a unique payload; every answer is compared with a map[type][id] model kept by the harness, " +
			"each mutating call is followed by a probe (the id under all four types + all lists) and each sequence by two full sweeps; non-trivial = at least one comparison was made; distinct by operation list. " +
			"concurrent case = (seed) -> plan of 8 clients x 200 ops (store/load/remove, unique payloads, 6 keys) on one in-memory back end, timestamps at the client boundary from one monotonic clock, " +
			"checked by porcupine against a register per (type,id); small case = 2-3 clients x 4-6 ops including List, checked against a whole-map model; race detector reports with library frames are violations.",
		Exhaustive: false,
		Assumptions: []string{
			"the result of Remove on an absent entry is unconstrained; only its effect (none) is checked",
			"List of activation tokens must return an error; nothing more is required of it",
			"Remove of a present entry and Store of a valid message are expected to return nil (an error would leave the outcome undefined)",
			"List is compared as a set (order and multiplicity unspecified)",
			"IDs contain no path separators or dot segments",
			"trusts google.golang.org/protobuf proto.Equal, porcupine v1.3.0 and the Go race detector",
			"file back end: functional check only (no concurrency)",
		},
	}
	if c.Replay != nil {
		var kase kvCase
		if err := json.Unmarshal(c.Replay, &kase); err != nil {
			r.Broken("bad replay: " + err.Error())
			return res
		}
		kase.FailedAt, kase.Observed, kase.History, kase.Key = nil, "", nil, ""
		switch kase.Mode {
		case "seq":
			kvRunSeq(c, kase)
		case "conc":
			for i := 0; i < 20 && r.NumViolations() == 0; i++ {
				kvRunBig(c, kase)
			}
		case "small":
			for i := 0; i < 200 && r.NumViolations() == 0; i++ {
				kvRunSmall(c, kase)
			}
		default:
			// a race report has no case of ours: run a few concurrent histories
			rng := c.Rng("kvmodel-conc")
			for i := 0; i < 10; i++ {
				kvRunBig(c, kvCase{Mode: "conc", Backend: world.Inmem, Index: i, Seed: rng.Int63(), Clients: 8, OpsPerClient: 200})
			}
		}
		return res
	}

	// ---- sequential -------------------------------------------------------
	const opsPerSeq = 80
	nseq := map[string]int{
		world.Inmem:     c.Pick(300, 10000),
		world.StoreOnce: c.Pick(300, 10000),
		world.File:      c.Pick(100, 2000),
	}
	var seqCases []kvCase
	for _, b := range world.Backends {
		rng := c.Rng("kvmodel-seq-" + b)
		for i := 0; i < nseq[b]; i++ {
			seqCases = append(seqCases, kvCase{Mode: "seq", Backend: b, Index: i, Seed: rng.Int63()})
		}
	}
	for _, i := range []int{0, nseq[world.Inmem] + 1} {
		s := seqCases[i]
		s.Ops = kvGenOps(rand.New(rand.NewSource(s.Seed)), s.Backend, opsPerSeq)[:12]
		r.Sample(s)
	}
	engine.ForEach(len(seqCases), engine.Workers(), func(i int) {
		kase := seqCases[i]
		kase.Ops = kvGenOps(rand.New(rand.NewSource(kase.Seed)), kase.Backend, opsPerSeq)
		kvRunSeq(c, kase)
	})
	r.Set("sequences_per_backend", nseq)
	r.Set("ops_per_sequence", opsPerSeq)
	for _, b := range world.Backends {
		scale := int64(nseq[b]) / 100
		if scale < 1 {
			scale = 1
		}
		r.Require(b+":sequences", int64(nseq[b]))
		r.Require(b+":load-present", 300*scale)
		r.Require(b+":load-absent", 300*scale)
		r.Require(b+":load-present-while-other-type-holds-same-id", 100*scale)
		r.Require(b+":list", 100*scale)
		r.Require(b+":list-nonempty", 50*scale)
		r.Require(b+":list-token-refused", 30*scale)
		r.Require(b+":store-new", 500*scale)
		r.Require(b+":store-overwrite", 50*scale)
		r.Require(b+":remove-present", 100*scale)
		r.Require(b+":probe-load-present", 1000*scale)
		r.Require(b+":probe-load-absent", 1000*scale)
		r.Require(b+":sweep-load-present", 500*scale)
		r.Require(b+":sweep-list", 600*scale)
		r.Require(b+":refused-nil", 100*scale)
		r.Require(b+":refused-unknown-type", 100*scale)
		r.Require(b+":refused-empty-id", 50*scale)
	}
	r.Require("inmem:remove-absent-returned-nil", 50)
	r.Require("file:remove-absent-returned-error", 50)
	r.Require("storeonce:store-duplicate-node-record", 100)
	r.Require("storeonce:loadbynodeid-some", 100)
	r.Require("storeonce:loadbynodeid-none", 50)
	r.Require("storeonce:sweep-loadbynodeid-some", 100)

	// ---- concurrent (in-memory) --------------------------------------------
	nbig := c.Pick(50, 2000)
	nsmall := c.Pick(3000, 60000)
	rngB := c.Rng("kvmodel-conc")
	bigCases := make([]kvCase, nbig)
	for i := range bigCases {
		bigCases[i] = kvCase{Mode: "conc", Backend: world.Inmem, Index: i, Seed: rngB.Int63(), Clients: 8, OpsPerClient: 200}
	}
	r.Sample(bigCases[0])
	// two histories at a time: 16 client goroutines on the machine
	engine.ForEach(nbig, 2, func(i int) { kvRunBig(c, bigCases[i]) })
	rngS := c.Rng("kvmodel-small")
	smallCases := make([]kvCase, nsmall)
	for i := range smallCases {
		smallCases[i] = kvCase{Mode: "small", Backend: world.Inmem, Index: i, Seed: rngS.Int63()}
	}
	r.Sample(smallCases[0])
	engine.ForEach(nsmall, 4, func(i int) { kvRunSmall(c, smallCases[i]) })
	r.Set("concurrent_histories", nbig)
	r.Set("concurrent_small_histories", nsmall)
	r.Require("concurrent:histories-linearizable", int64(nbig))
	r.Require("concurrent:op-store", int64(nbig)*8*200/4)
	r.Require("concurrent:op-load", int64(nbig)*8*200/3)
	r.Require("concurrent:op-remove", int64(nbig)*8*200/8)
	r.Require("concurrent:load-found", int64(nbig)*100)
	r.Require("concurrent:load-notfound", int64(nbig)*100)
	r.Require("concurrent:ops-overlapping-another-client", int64(nbig)*200)
	r.Require("concurrent-small:histories-linearizable", int64(nsmall))
	r.Require("concurrent-small:op-list", int64(nsmall)*2)
	r.Require("concurrent-small:histories-with-overlap", int64(nsmall)/20)
	return res
}
