package engines

// C11 — encrypted messages are authenticated and bound to key and key ID.
//
// Real code: nodeenrollment.EncryptMessage / DecryptMessage with
// types.NodeCredentials (node side), types.NodeInformation (server side) and
// harness-written X25519KeyProducer values as key sources.
//
// The harness generates every X25519 pair and certificate key itself, so for
// every (sender, receiver) it knows from its own bookkeeping (stdlib
// crypto/ecdh + the key ID name of the certificate key) whether the receiver's
// current or previous key equals the key the sender encrypts with.

import (
	"bytes"
	"context"
	"crypto/ecdh"
	"encoding/hex"
	"encoding/json"
	"fmt"
	"math/rand"
	"strings"
	"sync/atomic"
	"time"

	wrapping "github.com/hashicorp/go-kms-wrapping/v2"
	"github.com/hashicorp/nodeenrollment"
	"github.com/hashicorp/nodeenrollment/types"
	"google.golang.org/protobuf/proto"
	"google.golang.org/protobuf/types/known/structpb"
	"google.golang.org/protobuf/types/known/timestamppb"

	"verifharness/engine"
	"verifharness/world"
)

func init() {
	engine.Register(&engine.Spec{Prop: "C11", Engine: "crypt", Level: "exploration", Fn: runCrypt})
}

// ---------------------------------------------------------------------------
// case descriptor and witness

type cryptCase struct {
	Kind     string        `json:"kind"`                // agree | roundtrip | custom | mutate | blob | arbitrary
	Dir      string        `json:"direction,omitempty"` // node->server | server->node | custom->custom
	Sender   string        `json:"sender,omitempty"`    // key state of the sender, e.g. "A", "B+A" (current+previous)
	Receiver string        `json:"receiver,omitempty"`  // key state of the receiver
	MsgType  string        `json:"msg_type,omitempty"`
	Shape    string        `json:"msg_shape,omitempty"`
	MsgSeed  int64         `json:"msg_seed,omitempty"`
	Ct       int           `json:"ciphertext_index,omitempty"`
	Mut      string        `json:"mutation,omitempty"`
	Idx      int           `json:"mutation_index,omitempty"`
	Expect   string        `json:"expect,omitempty"` // original | error | error-or-original
	Class    string        `json:"class,omitempty"`  // input class named in the finding key
	Finding  string        `json:"finding,omitempty"`
	Witness  *cryptWitness `json:"witness,omitempty"`
}

// cryptSide is the exact key material of one party
type cryptSide struct {
	Kind   string         `json:"kind"`             // node | server | custom
	Record []byte         `json:"record,omitempty"` // marshaled NodeCredentials / NodeInformation
	Custom *cryptProducer `json:"custom,omitempty"`
}

// cryptWitness carries the exact bytes of a refuting call
type cryptWitness struct {
	Receiver    cryptSide  `json:"receiver"`
	Other       *cryptSide `json:"other_side,omitempty"` // agree cases: the server side
	Original    []byte     `json:"original,omitempty"`   // marshaled original message
	HasOriginal bool       `json:"has_original"`
	Envelope    []byte     `json:"envelope,omitempty"` // exact input of DecryptMessage
}

// ---------------------------------------------------------------------------
// harness-written key producer

type cryptProducer struct {
	CurID   string `json:"cur_id"`
	CurKey  []byte `json:"cur_key"`
	Prev    string `json:"prev"` // absent-error | nil-key | present
	PrevID  string `json:"prev_id,omitempty"`
	PrevKey []byte `json:"prev_key,omitempty"`
}

func (p *cryptProducer) X25519EncryptionKey() (string, []byte, error) {
	return p.CurID, p.CurKey, nil
}

func (p *cryptProducer) PreviousX25519EncryptionKey() (string, []byte, error) {
	switch p.Prev {
	case "present":
		return p.PrevID, p.PrevKey, nil
	case "nil-key":
		return "", nil, nil
	}
	return "", nil, fmt.Errorf("previous key is empty")
}

// ---------------------------------------------------------------------------
// the harness's own view of key material

type cryptKey struct {
	id     string
	secret []byte
}

func (k *cryptKey) same(o *cryptKey) bool {
	return k != nil && o != nil && k.id == o.id && bytes.Equal(k.secret, o.secret)
}

type cryptView struct{ cur, prev *cryptKey }

// cryptExpect decides from harness bookkeeping only
func cryptExpect(sender *cryptKey, recv cryptView) (ok bool, matched, mismatch string) {
	if sender.same(recv.cur) {
		return true, "current", ""
	}
	if sender.same(recv.prev) {
		return true, "previous", ""
	}
	mismatch = "unrelated"
	for _, k := range []*cryptKey{recv.cur, recv.prev} {
		if k == nil {
			continue
		}
		switch {
		case bytes.Equal(k.secret, sender.secret) && k.id != sender.id:
			mismatch = "same-secret-different-keyid"
		case !bytes.Equal(k.secret, sender.secret) && k.id == sender.id && mismatch == "unrelated":
			mismatch = "same-keyid-different-secret"
		}
	}
	return false, "", mismatch
}

func cryptECDH(priv, pub []byte) []byte {
	k, err := ecdh.X25519().NewPrivateKey(priv)
	if err != nil {
		panic(err)
	}
	p, err := ecdh.X25519().NewPublicKey(pub)
	if err != nil {
		panic(err)
	}
	s, err := k.ECDH(p)
	if err != nil {
		panic(err)
	}
	return s
}

// cryptUniverse holds fresh keys; a generation names (certificate key, node
// pair, server pair) by index, so two generations give the same (key ID,
// secret) iff all three indexes agree.
type cryptUniverse struct {
	cert [5]*world.Keys
	np   [5]*world.X25519Pair
	sp   [5]*world.X25519Pair
}

// server records are built with varying record IDs (across all universes of
// the run): a NodeInformation's key ID is the one derived from its certificate
// key, whatever the record is labelled
var cryptLabelSeq atomic.Int64

type cryptGen struct{ c, n, s int }

var cryptGens = map[string]cryptGen{
	"A": {0, 0, 0}, "B": {1, 1, 1}, "C": {2, 2, 2}, "D": {3, 3, 3},
	"Ak": {4, 0, 0}, // pairs of A, other certificate key  -> other key ID, same secret
	"As": {0, 4, 4}, // certificate key of A, other pairs   -> same key ID, other secret
	"An": {0, 4, 0}, // only the node pair differs
	"Av": {0, 0, 4}, // only the server pair differs
}

func newCryptUniverse() *cryptUniverse {
	u := &cryptUniverse{}
	for i := range u.cert {
		u.cert[i] = world.NewKeys()
		u.np[i] = world.NewX25519()
		u.sp[i] = world.NewX25519()
	}
	return u
}

func (u *cryptUniverse) key(gen string) *cryptKey {
	g, ok := cryptGens[gen]
	if !ok {
		panic("unknown generation " + gen)
	}
	return &cryptKey{id: u.cert[g.c].KeyID, secret: cryptECDH(u.np[g.n].Priv, u.sp[g.s].Pub)}
}

func (u *cryptUniverse) nodeRec(gen string) *types.NodeCredentials {
	g := cryptGens[gen]
	nc := u.nodeRecBare(gen)
	// what else such credentials carry has no say in the key agreement: every other universe gives them
	// certificate bundles, alternately long expired and not yet valid (the certificates' dates are not key
	// material), and state
	switch cryptUniverseSeq.Add(1) % 4 {
	case 1:
		past := timestamppb.New(time.Now().Add(-400 * 24 * time.Hour))
		nc.CertificateBundles = []*types.CertificateBundle{
			{CertificateDer: []byte{0x30, 0x00}, CaCertificateDer: []byte{0x30, 0x00}, CertificateNotBefore: timestamppb.New(time.Now().Add(-800 * 24 * time.Hour)), CertificateNotAfter: past},
			{CertificateDer: []byte{0x30, 0x00}, CaCertificateDer: []byte{0x30, 0x00}, CertificateNotBefore: timestamppb.New(time.Now().Add(-800 * 24 * time.Hour)), CertificateNotAfter: past},
		}
	case 3:
		future := timestamppb.New(time.Now().Add(400 * 24 * time.Hour))
		nc.CertificateBundles = []*types.CertificateBundle{{CertificateDer: []byte{0x30, 0x00}, CaCertificateDer: []byte{0x30, 0x00}, CertificateNotBefore: future, CertificateNotAfter: timestamppb.New(time.Now().Add(800 * 24 * time.Hour))}}
		nc.State, _ = structpb.NewStruct(map[string]any{"k": "v"})
	}
	_ = g
	return nc
}

var cryptUniverseSeq atomic.Int64

func (u *cryptUniverse) nodeRecBare(gen string) *types.NodeCredentials {
	g := cryptGens[gen]
	return &types.NodeCredentials{
		Id:                             string(nodeenrollment.CurrentId),
		CertificatePublicKeyPkix:       u.cert[g.c].Pkix,
		CertificatePrivateKeyPkcs8:     u.cert[g.c].Pkcs8,
		CertificatePrivateKeyType:      types.KEYTYPE_ED25519,
		EncryptionPrivateKeyBytes:      u.np[g.n].Priv,
		EncryptionPrivateKeyType:       types.KEYTYPE_X25519,
		ServerEncryptionPublicKeyBytes: u.sp[g.s].Pub,
		ServerEncryptionPublicKeyType:  types.KEYTYPE_X25519,
	}
}

func (u *cryptUniverse) serverRec(gen string) *types.NodeInformation {
	g := cryptGens[gen]
	id := u.cert[g.c].KeyID
	switch cryptLabelSeq.Add(1) % 5 {
	case 1:
		id = ""
	case 2:
		id = "record-label-chosen-by-the-application"
	case 3:
		id = u.cert[(g.c+1)%len(u.cert)].KeyID // the key ID of another certificate key
	}
	return &types.NodeInformation{
		Id:                              id,
		CertificatePublicKeyPkix:        u.cert[g.c].Pkix,
		CertificatePublicKeyType:        types.KEYTYPE_ED25519,
		EncryptionPublicKeyBytes:        u.np[g.n].Pub,
		EncryptionPublicKeyType:         types.KEYTYPE_X25519,
		ServerEncryptionPrivateKeyBytes: u.sp[g.s].Priv,
		ServerEncryptionPrivateKeyType:  types.KEYTYPE_X25519,
	}
}

// cryptParty is one side of an exchange: the real library object plus the
// harness's view of it
type cryptParty struct {
	kind   string // node | server | custom
	label  string
	prod   nodeenrollment.X25519KeyProducer
	rec    proto.Message
	custom *cryptProducer
	view   cryptView
}

func (p *cryptParty) side() cryptSide {
	s := cryptSide{Kind: p.kind, Custom: p.custom}
	if p.rec != nil {
		s.Record, _ = proto.Marshal(p.rec)
	}
	return s
}

func cryptPartyFromSide(s cryptSide) (*cryptParty, error) {
	switch s.Kind {
	case "node":
		n := new(types.NodeCredentials)
		if err := proto.Unmarshal(s.Record, n); err != nil {
			return nil, err
		}
		return &cryptParty{kind: "node", prod: n, rec: n}, nil
	case "server":
		n := new(types.NodeInformation)
		if err := proto.Unmarshal(s.Record, n); err != nil {
			return nil, err
		}
		return &cryptParty{kind: "server", prod: n, rec: n}, nil
	case "custom":
		if s.Custom == nil {
			return nil, fmt.Errorf("custom side without producer")
		}
		return &cryptParty{kind: "custom", prod: s.Custom, custom: s.Custom}, nil
	}
	return nil, fmt.Errorf("unknown side kind %q", s.Kind)
}

// party builds the record of `kind` for a key state "X" or "X+Y" (current X,
// previous Y recorded with the library's SetPreviousEncryptionKey from the
// record of generation Y, as rotation does)
func (u *cryptUniverse) party(kind, state string) (*cryptParty, error) {
	parts := strings.Split(state, "+")
	p := &cryptParty{kind: kind, label: state}
	p.view.cur = u.key(parts[0])
	if len(parts) > 1 {
		p.view.prev = u.key(parts[1])
	}
	switch kind {
	case "node":
		rec := u.nodeRec(parts[0])
		if len(parts) > 1 {
			if err := rec.SetPreviousEncryptionKey(u.nodeRec(parts[1])); err != nil {
				return nil, err
			}
		}
		p.prod, p.rec = rec, rec
	case "server":
		rec := u.serverRec(parts[0])
		if len(parts) > 1 {
			if err := rec.SetPreviousEncryptionKey(u.serverRec(parts[1])); err != nil {
				return nil, err
			}
		}
		p.prod, p.rec = rec, rec
	default:
		return nil, fmt.Errorf("unknown party kind %q", kind)
	}
	return p, nil
}

func cryptCustomParty(label string, cp *cryptProducer) *cryptParty {
	p := &cryptParty{kind: "custom", label: label, prod: cp, custom: cp}
	p.view.cur = &cryptKey{id: cp.CurID, secret: cp.CurKey}
	if cp.Prev == "present" && cp.PrevKey != nil {
		p.view.prev = &cryptKey{id: cp.PrevID, secret: cp.PrevKey}
	}
	return p
}

// ---------------------------------------------------------------------------
// messages

var cryptMsgTypes = []string{"FetchNodeCredentialsRequest", "FetchNodeCredentialsResponse", "NodeCredentials", "WrappingRegistrationFlowInfo", "Struct"}

func cryptNewMsg(t string) proto.Message {
	switch t {
	case "FetchNodeCredentialsRequest":
		return new(types.FetchNodeCredentialsRequest)
	case "FetchNodeCredentialsResponse":
		return new(types.FetchNodeCredentialsResponse)
	case "NodeCredentials":
		return new(types.NodeCredentials)
	case "WrappingRegistrationFlowInfo":
		return new(types.WrappingRegistrationFlowInfo)
	case "Struct":
		return new(structpb.Struct)
	}
	return nil
}

func cryptRandBytes(rng *rand.Rand, n int) []byte {
	b := make([]byte, n)
	rng.Read(b)
	return b
}

var cryptRunes = []rune("abcdefghijklmnopqrstuvwxyzABCDEFGHIJKLMNOPQRSTUVWXYZ0123456789-_/.: äßжλ鍵🔑")

func cryptRandString(rng *rand.Rand, max int) string {
	n := rng.Intn(max + 1)
	var sb strings.Builder
	for i := 0; i < n; i++ {
		sb.WriteRune(cryptRunes[rng.Intn(len(cryptRunes))])
	}
	return sb.String()
}

func cryptRandValue(rng *rand.Rand, depth int) any {
	k := rng.Intn(7)
	if depth <= 0 && k >= 5 {
		k = rng.Intn(5)
	}
	switch k {
	case 0:
		return nil
	case 1:
		return float64(rng.Intn(2000001)-1000000) / 8
	case 2:
		return cryptRandString(rng, 24)
	case 3:
		return rng.Intn(2) == 0
	case 4:
		return float64(rng.Int63())
	case 5:
		n := rng.Intn(4)
		l := make([]any, 0, n)
		for i := 0; i < n; i++ {
			l = append(l, cryptRandValue(rng, depth-1))
		}
		return l
	}
	return cryptRandMap(rng, depth-1, 3)
}

func cryptRandMap(rng *rand.Rand, depth, max int) map[string]any {
	n := rng.Intn(max + 1)
	m := map[string]any{}
	for i := 0; i < n; i++ {
		m[cryptRandString(rng, 10)] = cryptRandValue(rng, depth)
	}
	return m
}

func cryptRandStruct(rng *rand.Rand, max int) *structpb.Struct {
	s, err := structpb.NewStruct(cryptRandMap(rng, 2, max))
	if err != nil {
		panic(err)
	}
	return s
}

// cryptMsg generates the message of a case from (type, shape, seed)
func cryptMsg(typ, shape string, seed int64) proto.Message {
	rng := rand.New(rand.NewSource(seed))
	if shape == "empty" {
		return cryptNewMsg(typ)
	}
	if shape == "tiny" {
		switch typ {
		case "FetchNodeCredentialsRequest":
			return &types.FetchNodeCredentialsRequest{Bundle: cryptRandBytes(rng, 1)}
		case "FetchNodeCredentialsResponse":
			return &types.FetchNodeCredentialsResponse{ServerEncryptionPublicKeyType: types.KEYTYPE_X25519}
		case "NodeCredentials":
			return &types.NodeCredentials{Id: "x"}
		case "WrappingRegistrationFlowInfo":
			return &types.WrappingRegistrationFlowInfo{Nonce: cryptRandBytes(rng, 1)}
		default:
			s, _ := structpb.NewStruct(map[string]any{"": nil})
			return s
		}
	}
	max := 96
	switch shape {
	case "big":
		max = 700
	case "huge":
		// messages far beyond what an enrollment carries (large application parameters, many bundles): the
		// envelope grows past 64 KiB, sometimes past a megabyte
		max = []int{90_000, 300_000, 1_500_000}[rng.Intn(3)]
	}
	bs := func() []byte {
		if rng.Intn(6) == 0 {
			return nil
		}
		return cryptRandBytes(rng, 1+rng.Intn(max))
	}
	kt := func() types.KEYTYPE { return types.KEYTYPE(rng.Intn(3)) }
	ts := func() *timestamppb.Timestamp {
		return timestamppb.New(time.Unix(1600000000+rng.Int63n(400000000), int64(rng.Intn(1000000000))))
	}
	switch typ {
	case "FetchNodeCredentialsRequest":
		return &types.FetchNodeCredentialsRequest{
			Bundle: bs(), BundleSignature: bs(),
			RewrappedWrappingRegistrationFlowInfo: bs(), RewrappingKeyId: cryptRandString(rng, 20),
		}
	case "FetchNodeCredentialsResponse":
		return &types.FetchNodeCredentialsResponse{
			ServerEncryptionPublicKeyBytes: bs(), ServerEncryptionPublicKeyType: kt(),
			EncryptedNodeCredentials: bs(), EncryptedNodeCredentialsSignature: bs(),
		}
	case "NodeCredentials":
		n := &types.NodeCredentials{
			Id: cryptRandString(rng, 8), CertificatePublicKeyPkix: bs(), CertificatePrivateKeyPkcs8: bs(),
			CertificatePrivateKeyType: kt(), PreviousCertificatePublicKeyPkix: bs(),
			EncryptionPrivateKeyBytes: bs(), EncryptionPrivateKeyType: kt(),
			ServerEncryptionPublicKeyBytes: bs(), ServerEncryptionPublicKeyType: kt(),
			RegistrationNonce: bs(), WrappingKeyId: cryptRandString(rng, 12),
		}
		for i, nb := 0, rng.Intn(3); i < nb; i++ {
			n.CertificateBundles = append(n.CertificateBundles, &types.CertificateBundle{
				CertificateDer: bs(), CaCertificateDer: bs(), CertificateNotBefore: ts(), CertificateNotAfter: ts(),
			})
		}
		if rng.Intn(2) == 0 {
			n.State = cryptRandStruct(rng, 4)
		}
		if rng.Intn(2) == 0 {
			n.PreviousEncryptionKey = &types.EncryptionKey{KeyId: cryptRandString(rng, 30), PrivateKeyPkcs8: bs(), PrivateKeyType: kt(), PublicKeyPkix: bs(), PublicKeyType: kt()}
		}
		return n
	case "WrappingRegistrationFlowInfo":
		w := &types.WrappingRegistrationFlowInfo{CertificatePublicKeyPkix: bs(), Nonce: bs()}
		if rng.Intn(3) > 0 {
			w.ApplicationSpecificParams = cryptRandStruct(rng, 4)
		}
		return w
	}
	mx := 6
	if shape == "big" {
		mx = 24
	}
	s := cryptRandStruct(rng, mx)
	if len(s.Fields) == 0 {
		s.Fields = map[string]*structpb.Value{"k": structpb.NewStringValue("v")}
	}
	return s
}

// ---------------------------------------------------------------------------
// one decryption attempt under the oracle

type cryptEnv struct {
	c   *engine.Ctx
	ctx context.Context
}

func (e *cryptEnv) witness(cs cryptCase, class, key string, recv *cryptParty, orig proto.Message, env []byte) cryptCase {
	cs.Class, cs.Finding = class, key
	w := &cryptWitness{Receiver: recv.side(), Envelope: env}
	if orig != nil {
		w.Original, _ = proto.Marshal(orig)
		w.HasOriginal = true
	}
	cs.Witness = w
	return cs
}

// attempt calls the real DecryptMessage with a fresh result message.
// expect: "original" (must succeed and equal orig), "error" (must fail),
// "error-or-original" (either; with orig == nil every success is wrong).
// class is the finding-key suffix of this input class. Returns the observed
// outcome: "error" | "original" | "violation".
func (e *cryptEnv) attempt(cs cryptCase, class, expect string, recv *cryptParty, orig proto.Message, typ string, env []byte) string {
	r := e.c.R
	res := cryptNewMsg(typ)
	var derr error
	where := class
	if cs.Mut != "" {
		where = fmt.Sprintf("%s; %s #%d", class, cs.Mut, cs.Idx)
	}
	if p, st := engine.Guard(func() { derr = nodeenrollment.DecryptMessage(e.ctx, env, recv.prod, res) }); p != nil {
		key := "panic:" + engine.LibraryFrame(st)
		r.Violation(key, fmt.Sprintf("DecryptMessage panicked on %s input (%d bytes): %v", where, len(env), p), e.witness(cs, class, key, recv, orig, env))
		return "violation"
	}
	if derr != nil {
		if expect == "original" {
			key := "refused-with-matching-key:" + class
			r.Violation(key, fmt.Sprintf("DecryptMessage failed although the receiver holds the sender's secret and key ID (%s): %v", where, derr), e.witness(cs, class, key, recv, orig, env))
			return "violation"
		}
		// on error the result message is not part of the verdict; only observed
		if !proto.Equal(res, cryptNewMsg(typ)) {
			r.Count("observed_result_touched_although_error_returned", 1)
		}
		return "error"
	}
	switch {
	case expect == "error":
		key := "decrypted-without-matching-key:" + class
		r.Violation(key, fmt.Sprintf("DecryptMessage returned success although neither the current nor the previous key of the receiver has the sender's secret and key ID (%s)", where), e.witness(cs, class, key, recv, orig, env))
		return "violation"
	case orig == nil:
		key := "arbitrary-bytes-accepted:" + class
		r.Violation(key, fmt.Sprintf("DecryptMessage returned success on bytes that no sender produced (%s, %d bytes)", where, len(env)), e.witness(cs, class, key, recv, orig, env))
		return "violation"
	case !proto.Equal(orig, res):
		key := "different-plaintext:" + class
		r.Violation(key, fmt.Sprintf("DecryptMessage returned success with a message different from the original (%s)", where), e.witness(cs, class, key, recv, orig, env))
		return "violation"
	}
	// the same envelope into a message the receiver has used before: the result must still be exactly
	// the original, nothing of the earlier content may survive
	used := cryptMsg(typ, "rand", int64(len(env))*31+7)
	var derr2 error
	if p, st := engine.Guard(func() { derr2 = nodeenrollment.DecryptMessage(e.ctx, env, recv.prod, used) }); p != nil {
		key := "panic:" + engine.LibraryFrame(st)
		r.Violation(key, fmt.Sprintf("DecryptMessage panicked when given a used result message (%s): %v", where, p), e.witness(cs, class, key, recv, orig, env))
		return "violation"
	}
	r.Count("decrypted_into_a_previously_used_result_message", 1)
	if derr2 != nil || !proto.Equal(orig, used) {
		key := "different-plaintext:reused-result-message"
		r.Violation(key, fmt.Sprintf("DecryptMessage into a result message that already held other content returned err=%v and a message different from the original (%s)", derr2, where), e.witness(cs, class, key, recv, orig, env))
		return "violation"
	}
	return "original"
}

// cryptShape classifies bytes by the harness's own parse of the envelope
func cryptShape(b []byte) string {
	bi := new(wrapping.BlobInfo)
	if len(b) == 0 || proto.Unmarshal(b, bi) != nil {
		return "unparsable"
	}
	if len(bi.Ciphertext) < 12 {
		return "short"
	}
	return "aead"
}

// ---------------------------------------------------------------------------
// part 1: both sides of one key agreement derive the same secret

func cryptAgreeOne(e *cryptEnv, cs cryptCase, node, server *cryptParty, wantPrev bool) {
	r := e.c.R
	wit := func(key string) cryptCase {
		c2 := cs
		c2.Finding = key
		o := server.side()
		c2.Witness = &cryptWitness{Receiver: node.side(), Other: &o}
		return c2
	}
	type der struct {
		id  string
		key []byte
		err error
	}
	derive := func(which string, f func() (string, []byte, error)) (d der, ok bool) {
		if p, st := engine.Guard(func() { d.id, d.key, d.err = f() }); p != nil {
			key := "panic:" + engine.LibraryFrame(st)
			r.Violation(key, fmt.Sprintf("%s panicked: %v", which, p), wit(key))
			return d, false
		}
		return d, true
	}
	check := func(slot string, n, s der) {
		switch {
		case n.err != nil || s.err != nil:
			key := "agree:derivation-error:" + slot
			r.Violation(key, fmt.Sprintf("key derivation failed on well-formed %s key material: node=%v server=%v", slot, n.err, s.err), wit(key))
		case !bytes.Equal(n.key, s.key):
			key := "agree:secret-differs:" + slot
			r.Violation(key, fmt.Sprintf("node side and server side of one key agreement derive different %s secrets", slot), wit(key))
		case n.id != s.id:
			key := "agree:keyid-differs:" + slot
			r.Violation(key, fmt.Sprintf("node side and server side derive different %s key IDs: %q vs %q", slot, n.id, s.id), wit(key))
		default:
			r.Count("agree_"+slot+"_same_secret_and_keyid", 1)
			want := node.view.cur
			if slot == "previous" {
				want = node.view.prev
			}
			if bytes.Equal(n.key, want.secret) && n.id == want.id {
				r.Count("agree_"+slot+"_equals_stdlib_ecdh_and_cert_keyid", 1)
			}
		}
	}
	nc, ok1 := derive("NodeCredentials.X25519EncryptionKey", node.prod.X25519EncryptionKey)
	sc, ok2 := derive("NodeInformation.X25519EncryptionKey", server.prod.X25519EncryptionKey)
	if ok1 && ok2 {
		check("current", nc, sc)
	}
	if wantPrev {
		np, ok1 := derive("NodeCredentials.PreviousX25519EncryptionKey", node.prod.PreviousX25519EncryptionKey)
		sp, ok2 := derive("NodeInformation.PreviousX25519EncryptionKey", server.prod.PreviousX25519EncryptionKey)
		if ok1 && ok2 {
			check("previous", np, sp)
		}
	}
	r.Eval(engine.J(cs), true)
}

func cryptAgree(e *cryptEnv) {
	r := e.c.R
	n := e.c.Pick(150, 3000)
	states := []string{"A", "B+A", "A+B", "Ak+A", "As+An"}
	engine.ForEach(n, engine.Workers(), func(i int) {
		u := newCryptUniverse()
		st := states[i%len(states)]
		cs := cryptCase{Kind: "agree", Sender: st, Receiver: st, Ct: i}
		node, err1 := u.party("node", st)
		server, err2 := u.party("server", st)
		if err1 != nil || err2 != nil {
			r.Broken(fmt.Sprintf("crypt: building key material: %v %v", err1, err2))
			return
		}
		cryptAgreeOne(e, cs, node, server, strings.Contains(st, "+"))
	})
}

// ---------------------------------------------------------------------------
// part 2: round trips over placements of current / previous keys

var cryptSenderStates = []string{"A", "A+B", "B+A", "B"}

// the first four are the 4x4 placement matrix; the rest are receivers that do
// not hold the sender's key, or hold only half of it (secret or key ID)
var cryptReceiverStates = []string{
	"A", "A+B", "B+A", "B",
	"C", "C+D", "C+A", "C+B",
	"Ak", "As", "An", "Av",
	"B+Ak", "B+As", "A+Ak", "Ak+A", "As+A", "Ak+As", "B+An", "A+Av",
}

func (e *cryptEnv) encrypt(cs cryptCase, sender *cryptParty, msg proto.Message) ([]byte, bool) {
	r := e.c.R
	var env []byte
	var err error
	if p, st := engine.Guard(func() { env, err = nodeenrollment.EncryptMessage(e.ctx, msg, sender.prod) }); p != nil {
		key := "panic:" + engine.LibraryFrame(st)
		r.Violation(key, fmt.Sprintf("EncryptMessage panicked: %v", p), cs)
		return nil, false
	}
	if err != nil {
		// no message was produced, so the statement says nothing; without
		// ciphertexts the check cannot conclude
		r.Count("encrypt_failed_on_valid_input", 1)
		r.Inconclusive(fmt.Sprintf("EncryptMessage failed on valid input (%s sender %s): %v", sender.kind, sender.label, err))
		return nil, false
	}
	return env, true
}

func cryptRoundtripOne(e *cryptEnv, cs cryptCase, sender, recv *cryptParty) {
	r := e.c.R
	engine.LogInput("C11 %s", engine.J(cs))
	msg := cryptMsg(cs.MsgType, cs.Shape, cs.MsgSeed)
	env, ok := e.encrypt(cs, sender, msg)
	if !ok {
		r.Eval(engine.J(cs), false)
		return
	}
	want, matched, mismatch := cryptExpect(sender.view.cur, recv.view)
	var class, expect string
	if want {
		expect = "original"
		class = fmt.Sprintf("receiver-has-sender-key-as-%s,%s", matched, cs.Dir)
		r.Count("roundtrip_expect_success_receiver_has_key_as_"+matched, 1)
	} else {
		expect = "error"
		class = fmt.Sprintf("%s,%s", mismatch, cs.Dir)
		r.Count("roundtrip_expect_failure_"+mismatch, 1)
	}
	cs.Expect = expect
	out := e.attempt(cs, class, expect, recv, msg, cs.MsgType, env)
	r.Eval(engine.J(cs), true)
	r.Count("roundtrip_observed_"+out, 1)
	r.Count("roundtrip_msgtype_"+cs.MsgType+"_"+cs.Shape, 1)
	if cs.Kind == "roundtrip" {
		si, ri := -1, -1
		for i, s := range cryptSenderStates {
			if s == cs.Sender {
				si = i
			}
		}
		for i, s := range cryptReceiverStates[:4] {
			if s == cs.Receiver {
				ri = i
			}
		}
		if si >= 0 && ri >= 0 {
			r.Count(fmt.Sprintf("placement_4x4_sender=%s_receiver=%s", cs.Sender, cs.Receiver), 1)
		}
	}
}

func cryptRoundtrip(e *cryptEnv) {
	r := e.c.R
	rng := e.c.Rng("crypt-roundtrip")
	shapes := []string{"rand", "rand", "empty", "tiny", "rand", "big", "huge"}
	var cases []cryptCase
	reps := e.c.Pick(1, 12)
	for rep := 0; rep < reps; rep++ {
		for _, dir := range []string{"node->server", "server->node"} {
			for _, s := range cryptSenderStates {
				for _, rc := range cryptReceiverStates {
					for _, mt := range cryptMsgTypes {
						cases = append(cases, cryptCase{Kind: "roundtrip", Dir: dir, Sender: s, Receiver: rc, MsgType: mt,
							Shape: shapes[rng.Intn(len(shapes))], MsgSeed: rng.Int63()})
					}
				}
			}
		}
	}
	r.Sample(cases[3])
	r.Sample(cases[len(cases)/2+7])
	engine.ForEach(len(cases), engine.Workers(), func(i int) {
		cs := cases[i]
		u := newCryptUniverse()
		sk, rk := "node", "server"
		if cs.Dir == "server->node" {
			sk, rk = "server", "node"
		}
		sender, err1 := u.party(sk, cs.Sender)
		recv, err2 := u.party(rk, cs.Receiver)
		if err1 != nil || err2 != nil {
			r.Broken(fmt.Sprintf("crypt: building key material: %v %v", err1, err2))
			return
		}
		cryptRoundtripOne(e, cs, sender, recv)
	})
}

// harness-written producers: empty key IDs, explicit previous keys
func cryptCustom(e *cryptEnv) {
	r := e.c.R
	rng := e.c.Rng("crypt-custom")
	type row struct {
		name string
		s, r func(x, y string, k1, k2 []byte) *cryptProducer
	}
	cur := func(id string, k []byte) *cryptProducer {
		return &cryptProducer{CurID: id, CurKey: k, Prev: "absent-error"}
	}
	withPrev := func(id string, k []byte, mode, pid string, pk []byte) *cryptProducer {
		return &cryptProducer{CurID: id, CurKey: k, Prev: mode, PrevID: pid, PrevKey: pk}
	}
	rows := []row{
		{"both-empty-id", func(x, y string, k1, k2 []byte) *cryptProducer { return cur("", k1) }, func(x, y string, k1, k2 []byte) *cryptProducer { return cur("", k1) }},
		{"sender-empty-id-receiver-id", func(x, y string, k1, k2 []byte) *cryptProducer { return cur("", k1) }, func(x, y string, k1, k2 []byte) *cryptProducer { return cur(x, k1) }},
		{"sender-id-receiver-empty-id", func(x, y string, k1, k2 []byte) *cryptProducer { return cur(x, k1) }, func(x, y string, k1, k2 []byte) *cryptProducer { return cur("", k1) }},
		{"ids-differ", func(x, y string, k1, k2 []byte) *cryptProducer { return cur(x, k1) }, func(x, y string, k1, k2 []byte) *cryptProducer { return cur(y, k1) }},
		{"keys-differ", func(x, y string, k1, k2 []byte) *cryptProducer { return cur(x, k1) }, func(x, y string, k1, k2 []byte) *cryptProducer { return cur(x, k2) }},
		{"same", func(x, y string, k1, k2 []byte) *cryptProducer { return cur(x, k1) }, func(x, y string, k1, k2 []byte) *cryptProducer { return cur(x, k1) }},
		{"previous-matches", func(x, y string, k1, k2 []byte) *cryptProducer { return cur(x, k1) }, func(x, y string, k1, k2 []byte) *cryptProducer { return withPrev(y, k2, "present", x, k1) }},
		{"previous-matches-empty-id", func(x, y string, k1, k2 []byte) *cryptProducer { return cur("", k1) }, func(x, y string, k1, k2 []byte) *cryptProducer { return withPrev(y, k2, "present", "", k1) }},
		{"previous-matches-same-id-as-current", func(x, y string, k1, k2 []byte) *cryptProducer { return cur(x, k1) }, func(x, y string, k1, k2 []byte) *cryptProducer { return withPrev(x, k2, "present", x, k1) }},
		{"previous-nil-key", func(x, y string, k1, k2 []byte) *cryptProducer { return cur(x, k1) }, func(x, y string, k1, k2 []byte) *cryptProducer { return withPrev(y, k2, "nil-key", "", nil) }},
		{"previous-absent", func(x, y string, k1, k2 []byte) *cryptProducer { return cur(x, k1) }, func(x, y string, k1, k2 []byte) *cryptProducer { return withPrev(y, k2, "absent-error", "", nil) }},
		{"previous-empty-id-sender-id", func(x, y string, k1, k2 []byte) *cryptProducer { return cur(x, k1) }, func(x, y string, k1, k2 []byte) *cryptProducer { return withPrev(y, k2, "present", "", k1) }},
		{"previous-id-sender-empty-id", func(x, y string, k1, k2 []byte) *cryptProducer { return cur("", k1) }, func(x, y string, k1, k2 []byte) *cryptProducer { return withPrev(y, k2, "present", x, k1) }},
		{"previous-same-id-other-key", func(x, y string, k1, k2 []byte) *cryptProducer { return cur(x, k1) }, func(x, y string, k1, k2 []byte) *cryptProducer {
			return withPrev(y, k2, "present", x, append([]byte{k1[0] ^ 1}, k1[1:]...))
		}},
		{"current-same-key-other-id-previous-other", func(x, y string, k1, k2 []byte) *cryptProducer { return cur(x, k1) }, func(x, y string, k1, k2 []byte) *cryptProducer { return withPrev(y, k1, "present", x, k2) }},
	}
	var cases []cryptCase
	reps := e.c.Pick(2, 40)
	for rep := 0; rep < reps; rep++ {
		for _, rw := range rows {
			for _, mt := range cryptMsgTypes {
				cases = append(cases, cryptCase{Kind: "custom", Dir: "custom->custom", Sender: rw.name, Receiver: rw.name, MsgType: mt,
					Shape: []string{"rand", "tiny", "empty", "rand"}[rng.Intn(4)], MsgSeed: rng.Int63()})
			}
		}
	}
	r.Sample(cases[len(cases)/3])
	byName := map[string]row{}
	for _, rw := range rows {
		byName[rw.name] = rw
	}
	engine.ForEach(len(cases), engine.Workers(), func(i int) {
		cs := cases[i]
		lr := rand.New(rand.NewSource(cs.MsgSeed ^ 0x5eed))
		var x, y string
		switch lr.Intn(4) {
		case 0:
			x, y = "x", "y"
		case 1:
			x, y = cryptRandString(lr, 300)+"x", cryptRandString(lr, 300)+"y"
		default:
			x, y = cryptRandString(lr, 40)+"1", cryptRandString(lr, 40)+"2"
		}
		k1, k2 := world.RandBytes(32), world.RandBytes(32)
		rw := byName[cs.Sender]
		sender := cryptCustomParty(cs.Sender, rw.s(x, y, k1, k2))
		recv := cryptCustomParty(cs.Receiver, rw.r(x, y, k1, k2))
		r.Count("custom_producer_row_"+rw.name, 1)
		cryptRoundtripOne(e, cs, sender, recv)
	})
}

// ---------------------------------------------------------------------------
// part 3: mutated, truncated and hand-built envelopes

type cryptCt struct {
	cs     cryptCase
	recv   *cryptParty
	as     string // how the receiver holds the sender's key: current | previous
	orig   proto.Message
	decoy  []byte // marshaled message different from orig
	env    []byte
	realCt []byte
	seed   int64
}

type cryptJob struct {
	ct     *cryptCt
	kind   string
	lo, hi int
}

const cryptBlobVariants = 8
const cryptBlobMaxLen = 40

func cryptEdit(rng *rand.Rand, env []byte) ([]byte, string) {
	b := append([]byte{}, env...)
	pos := func() int {
		if len(b) == 0 {
			return 0
		}
		return rng.Intn(len(b))
	}
	switch rng.Intn(9) {
	case 0:
		for i, n := 0, 1+rng.Intn(8); i < n && len(b) > 0; i++ {
			b[pos()] = byte(rng.Intn(256))
		}
		return b, "overwrite"
	case 1:
		p := pos()
		ins := cryptRandBytes(rng, 1+rng.Intn(16))
		return append(append(append([]byte{}, b[:p]...), ins...), b[p:]...), "insert"
	case 2:
		p := pos()
		n := 1 + rng.Intn(16)
		if p+n > len(b) {
			n = len(b) - p
		}
		return append(append([]byte{}, b[:p]...), b[p+n:]...), "delete"
	case 3:
		p := pos()
		n := 1 + rng.Intn(24)
		if p+n > len(b) {
			n = len(b) - p
		}
		return append(append(append([]byte{}, b[:p+n]...), b[p:p+n]...), b[p+n:]...), "duplicate"
	case 4:
		return append(b, cryptRandBytes(rng, 1+rng.Intn(32))...), "append"
	case 5:
		return append(cryptRandBytes(rng, 1+rng.Intn(8)), b...), "prepend"
	case 6:
		p := pos()
		n := 1 + rng.Intn(20)
		for i := p; i < p+n && i < len(b); i++ {
			b[i] = 0
		}
		return b, "zero-range"
	case 7:
		for i, n := 0, 2+rng.Intn(6); i < n && len(b) > 0; i++ {
			b[pos()] ^= byte(1 << uint(rng.Intn(8)))
		}
		return b, "multi-bitflip"
	}
	// add an unknown protobuf field (field 15, bytes) at the end: a legitimate envelope for a tolerant parser
	x := cryptRandBytes(rng, rng.Intn(20))
	b = append(b, 0x7a, byte(len(x)))
	return append(b, x...), "unknown-field"
}

func cryptBlob(rng *rand.Rand, ct *cryptCt, idx int) ([]byte, string) {
	L := idx / cryptBlobVariants
	v := idx % cryptBlobVariants
	kid := ""
	if ct.recv.view.cur != nil {
		kid = ct.recv.view.cur.id
	}
	bi := &wrapping.BlobInfo{}
	name := ""
	cut := func(n int) int {
		if n > len(ct.realCt) {
			return len(ct.realCt)
		}
		return n
	}
	switch v {
	case 0:
		name = "random-ciphertext+keyinfo"
		bi.Ciphertext = cryptRandBytes(rng, L)
		bi.KeyInfo = &wrapping.KeyInfo{KeyId: kid}
	case 1:
		name = "random-ciphertext"
		bi.Ciphertext = cryptRandBytes(rng, L)
	case 2:
		name = "prefix-of-real-ciphertext"
		bi.Ciphertext = append([]byte{}, ct.realCt[:cut(L)]...)
		bi.KeyInfo = &wrapping.KeyInfo{KeyId: kid}
	case 3:
		name = "suffix-of-real-ciphertext"
		bi.Ciphertext = append([]byte{}, ct.realCt[len(ct.realCt)-cut(L):]...)
	case 4:
		name = "random-ciphertext+iv+hmac"
		bi.Ciphertext = cryptRandBytes(rng, L)
		bi.Iv = cryptRandBytes(rng, 12)
		bi.Hmac = cryptRandBytes(rng, 32)
		bi.KeyInfo = &wrapping.KeyInfo{KeyId: kid, Mechanism: 1, WrappedKey: cryptRandBytes(rng, 16)}
	case 5:
		name = "random-ciphertext+plaintext-field"
		bi.Ciphertext = cryptRandBytes(rng, L)
		bi.Plaintext = ct.decoy
		bi.Wrapped = true
	case 6:
		name = "real-ciphertext+plaintext-field"
		bi.Ciphertext = ct.realCt
		bi.Plaintext = ct.decoy
		bi.ValuePath = strings.Repeat("p", L)
	default:
		name = "real-nonce+random-tail"
		bi.Ciphertext = append(append([]byte{}, ct.realCt[:cut(12)]...), cryptRandBytes(rng, L)...)
		bi.KeyInfo = &wrapping.KeyInfo{KeyId: kid}
	}
	b, err := proto.Marshal(bi)
	if err != nil {
		panic(err)
	}
	return b, name
}

func (e *cryptEnv) runJob(j cryptJob) {
	r := e.c.R
	ct := j.ct
	engine.LogInput("C11 mutate ct=%d %s [%d,%d) receiver=%s envelope=%s", ct.cs.Ct, j.kind, j.lo, j.hi, engine.J(ct.recv.side()), hex.EncodeToString(ct.env))
	counts := map[string]int64{}
	for i := j.lo; i < j.hi; i++ {
		var mut []byte
		sub := ""
		switch j.kind {
		case "bitflip":
			mut = append([]byte{}, ct.env...)
			mut[i/8] ^= 1 << uint(i%8)
		case "truncate":
			mut = ct.env[:i]
		case "edit":
			mut, sub = cryptEdit(rand.New(rand.NewSource(ct.seed+int64(i)*7919)), ct.env)
		case "blob":
			mut, sub = cryptBlob(rand.New(rand.NewSource(ct.seed^int64(i+1)*104729)), ct, i)
		}
		cs := ct.cs
		cs.Mut, cs.Idx, cs.Expect = j.kind, i, "error-or-original"
		if sub != "" {
			cs.Mut = j.kind + ":" + sub
		}
		shape := cryptShape(mut)
		class := j.kind
		out := e.attempt(cs, class+",receiver-has-key-as-"+ct.as, "error-or-original", ct.recv, ct.orig, ct.cs.MsgType, mut)
		r.Eval(fmt.Sprintf("mutate|%d|%s|%d", ct.cs.Ct, j.kind, i), shape != "unparsable")
		counts[j.kind+"_tried"]++
		counts[j.kind+"_observed_"+out]++
		counts[j.kind+"_envelope_"+shape]++
		if j.kind == "blob" {
			switch l := i / cryptBlobVariants; l {
			case 0, 1, 11, 12, 13, 28, 40:
				counts[fmt.Sprintf("blob_ciphertext_len_%02d", l)]++
			}
		}
		if j.kind == "edit" {
			counts["edit_"+sub]++
		}
	}
	for k, v := range counts {
		r.Count(k, v)
	}
}

func cryptMutate(e *cryptEnv) {
	r := e.c.R
	rng := e.c.Rng("crypt-mutate")
	n := e.c.Pick(24, 500)
	nEdits := 250
	// (sender kind, sender state, receiver state): the receiver always holds the sender's key
	type placement struct{ dir, s, r, as string }
	placements := []placement{
		{"node->server", "A", "A", "current"},
		{"server->node", "A", "B+A", "previous"},
		{"node->server", "A", "A+C", "current"}, // after the current key fails the unrelated previous one is tried
		{"server->node", "B+A", "B", "current"},
		{"node->server", "A", "Ak+A", "previous"},
		{"custom->custom", "both-empty-id", "both-empty-id", "current"},
		{"custom->custom", "previous-matches", "previous-matches", "previous"},
		{"server->node", "A", "A", "current"},
	}
	shapes := []string{"rand", "rand", "tiny", "rand", "empty", "rand", "rand", "big"}
	var cts []*cryptCt
	for i := 0; i < n; i++ {
		pl := placements[i%len(placements)]
		cs := cryptCase{Kind: "mutate", Dir: pl.dir, Sender: pl.s, Receiver: pl.r, MsgType: cryptMsgTypes[(i/2)%len(cryptMsgTypes)],
			Shape: shapes[(i/3)%len(shapes)], MsgSeed: rng.Int63(), Ct: i}
		if cs.Shape == "big" && rng.Intn(3) > 0 {
			cs.Shape = "rand" // keep the exhaustive flip sets affordable
		}
		seed := rng.Int63()
		var sender, recv *cryptParty
		if pl.dir == "custom->custom" {
			k1, k2 := world.RandBytes(32), world.RandBytes(32)
			if pl.s == "both-empty-id" {
				sender = cryptCustomParty(pl.s, &cryptProducer{CurKey: k1, Prev: "absent-error"})
				recv = cryptCustomParty(pl.r, &cryptProducer{CurKey: k1, Prev: "absent-error"})
			} else {
				sender = cryptCustomParty(pl.s, &cryptProducer{CurID: "kx", CurKey: k1, Prev: "absent-error"})
				recv = cryptCustomParty(pl.r, &cryptProducer{CurID: "ky", CurKey: k2, Prev: "present", PrevID: "kx", PrevKey: k1})
			}
		} else {
			u := newCryptUniverse()
			sk, rk := "node", "server"
			if pl.dir == "server->node" {
				sk, rk = "server", "node"
			}
			var err1, err2 error
			sender, err1 = u.party(sk, pl.s)
			recv, err2 = u.party(rk, pl.r)
			if err1 != nil || err2 != nil {
				r.Broken(fmt.Sprintf("crypt: building key material: %v %v", err1, err2))
				return
			}
		}
		if ok, as, _ := cryptExpect(sender.view.cur, recv.view); !ok || as != pl.as {
			r.Broken(fmt.Sprintf("crypt: mutate placement table inconsistent for %+v", pl))
			return
		}
		orig := cryptMsg(cs.MsgType, cs.Shape, cs.MsgSeed)
		env, ok := e.encrypt(cs, sender, orig)
		if !ok {
			continue
		}
		bi := new(wrapping.BlobInfo)
		if err := proto.Unmarshal(env, bi); err != nil || len(bi.Ciphertext) < 28 {
			// the statement does not fix the wire format; without the envelope structure the hand-built cases cannot be made
			r.Inconclusive("EncryptMessage output is not a marshaled BlobInfo with nonce and tag; envelope cases not applicable")
			return
		}
		decoyMsg := cryptMsg(cs.MsgType, "rand", cs.MsgSeed+1)
		if proto.Equal(decoyMsg, orig) {
			decoyMsg = cryptMsg(cs.MsgType, "rand", cs.MsgSeed+2)
		}
		decoy, _ := proto.Marshal(decoyMsg)
		c := &cryptCt{cs: cs, recv: recv, as: pl.as, orig: orig, decoy: decoy, env: env, realCt: bi.Ciphertext, seed: seed}
		// unmodified envelope must decrypt
		cs0 := cs
		cs0.Mut, cs0.Expect = "none", "original"
		out := e.attempt(cs0, "unmodified,receiver-has-key-as-"+pl.as, "original", recv, orig, cs.MsgType, env)
		r.Eval(engine.J(cs0), true)
		if out != "original" {
			continue
		}
		r.Count("mutate_ciphertexts", 1)
		r.Count("mutate_ciphertexts_receiver_has_key_as_"+pl.as, 1)
		r.Count("mutate_envelope_bytes_total", int64(len(env)))
		cts = append(cts, c)
	}
	if len(cts) > 0 {
		s := cts[0].cs
		s.Mut, s.Idx = "bitflip", 17
		r.Sample(s)
	}
	var jobs []cryptJob
	const chunk = 400
	add := func(ct *cryptCt, kind string, total int) {
		for lo := 0; lo < total; lo += chunk {
			hi := lo + chunk
			if hi > total {
				hi = total
			}
			jobs = append(jobs, cryptJob{ct, kind, lo, hi})
		}
	}
	for _, ct := range cts {
		add(ct, "bitflip", 8*len(ct.env))
		add(ct, "truncate", len(ct.env))
		add(ct, "edit", nEdits)
		add(ct, "blob", (cryptBlobMaxLen+1)*cryptBlobVariants)
	}
	engine.ForEach(len(jobs), engine.Workers(), func(i int) { e.runJob(jobs[i]) })
}

// ---------------------------------------------------------------------------
// part 4: arbitrary byte strings of length 0..600

func cryptArbitraryBytes(rng *rand.Rand, flavour int) ([]byte, string) {
	putVarint := func(b []byte, v uint64) []byte {
		for v >= 0x80 {
			b = append(b, byte(v)|0x80)
			v >>= 7
		}
		return append(b, byte(v))
	}
	switch flavour {
	case 0:
		return cryptRandBytes(rng, rng.Intn(601)), "uniform"
	case 1:
		// field 1 (ciphertext) with a random body, sometimes a wrong length prefix
		L := rng.Intn(560)
		if rng.Intn(6) == 0 {
			L = rng.Intn(12)
		}
		decl := uint64(L)
		if rng.Intn(5) == 0 {
			decl = uint64(rng.Intn(700))
		}
		b := putVarint([]byte{0x0a}, decl)
		b = append(b, cryptRandBytes(rng, L)...)
		if rng.Intn(2) == 0 {
			id := cryptRandString(rng, 12)
			inner := append(putVarint([]byte{0x1a}, uint64(len(id))), id...)
			b = append(putVarint(append(b, 0x2a), uint64(len(inner))), inner...)
		}
		if len(b) > 600 {
			b = b[:600]
		}
		return b, "ciphertext-field"
	case 2:
		bi := &wrapping.BlobInfo{Ciphertext: cryptRandBytes(rng, rng.Intn(400))}
		if rng.Intn(2) == 0 {
			bi.Iv = cryptRandBytes(rng, rng.Intn(20))
		}
		if rng.Intn(2) == 0 {
			bi.Plaintext = cryptRandBytes(rng, rng.Intn(60))
		}
		if rng.Intn(2) == 0 {
			bi.KeyInfo = &wrapping.KeyInfo{KeyId: cryptRandString(rng, 20), WrappedKey: cryptRandBytes(rng, rng.Intn(30))}
		}
		if rng.Intn(3) == 0 {
			bi.ClientData = cryptRandStruct(rng, 2)
		}
		b, err := proto.Marshal(bi)
		if err != nil {
			panic(err)
		}
		if len(b) > 600 {
			b = b[:600]
		}
		return b, "marshaled-blobinfo"
	}
	// random sequence of protobuf fields
	var b []byte
	for len(b) < 600 && rng.Intn(8) > 0 {
		field := uint64(1 + rng.Intn(9))
		switch rng.Intn(4) {
		case 0:
			b = putVarint(putVarint(b, field<<3), uint64(rng.Int63()))
		case 1:
			b = append(putVarint(b, field<<3|1), cryptRandBytes(rng, 8)...)
		case 2:
			x := cryptRandBytes(rng, rng.Intn(60))
			b = append(putVarint(putVarint(b, field<<3|2), uint64(len(x))), x...)
		default:
			b = append(putVarint(b, field<<3|5), cryptRandBytes(rng, 4)...)
		}
	}
	if len(b) > 600 {
		b = b[:600]
	}
	return b, "field-sequence"
}

func cryptArbitrary(e *cryptEnv) {
	r := e.c.R
	base := e.c.Rng("crypt-arbitrary").Int63()
	n := e.c.Pick(6000, 150000)
	u := newCryptUniverse()
	var pool []*cryptParty
	for _, spec := range [][2]string{{"node", "A"}, {"server", "A"}, {"node", "B+A"}, {"server", "B+A"}} {
		p, err := u.party(spec[0], spec[1])
		if err != nil {
			r.Broken("crypt: building key material: " + err.Error())
			return
		}
		pool = append(pool, p)
	}
	pool = append(pool,
		cryptCustomParty("empty-id", &cryptProducer{CurKey: world.RandBytes(32), Prev: "absent-error"}),
		cryptCustomParty("prev-nil-key", &cryptProducer{CurID: "k", CurKey: world.RandBytes(32), Prev: "nil-key"}),
		cryptCustomParty("prev-present", &cryptProducer{CurID: "k", CurKey: world.RandBytes(32), Prev: "present", PrevID: "", PrevKey: world.RandBytes(32)}),
	)
	r.Sample(cryptCase{Kind: "arbitrary", Receiver: pool[2].kind + ":" + pool[2].label, MsgType: cryptMsgTypes[1], Mut: "ciphertext-field", Idx: 1})
	const chunk = 500
	jobs := (n + chunk - 1) / chunk
	engine.ForEach(jobs, engine.Workers(), func(j int) {
		counts := map[string]int64{}
		for i := j * chunk; i < (j+1)*chunk && i < n; i++ {
			rng := rand.New(rand.NewSource(base + int64(i)*1000003))
			b, fl := cryptArbitraryBytes(rng, i%4)
			if i == 0 {
				b = nil
			}
			recv := pool[(i/4)%len(pool)]
			typ := cryptMsgTypes[(i/28)%len(cryptMsgTypes)]
			cs := cryptCase{Kind: "arbitrary", Receiver: recv.kind + ":" + recv.label, MsgType: typ, Mut: fl, Idx: i, Expect: "error"}
			engine.LogInput("C11 arbitrary idx=%d receiver=%s type=%s bytes=%s", i, cs.Receiver, typ, hex.EncodeToString(b))
			shape := cryptShape(b)
			out := e.attempt(cs, "arbitrary:"+fl, "error-or-original", recv, nil, typ, b)
			r.Eval(fmt.Sprintf("arbitrary|%d", i), shape != "unparsable")
			counts["arbitrary_tried"]++
			counts["arbitrary_observed_"+out]++
			counts["arbitrary_envelope_"+shape]++
			counts["arbitrary_"+fl]++
			if len(b) == 0 {
				counts["arbitrary_length_0"]++
			}
			if len(b) >= 590 {
				counts["arbitrary_length_590_600"]++
			}
		}
		for k, v := range counts {
			r.Count(k, v)
		}
	})
}

// ---------------------------------------------------------------------------
// replay

func cryptReplay(e *cryptEnv, raw json.RawMessage) {
	r := e.c.R
	var cs cryptCase
	if err := json.Unmarshal(raw, &cs); err != nil {
		r.Broken("bad replay: " + err.Error())
		return
	}
	w := cs.Witness
	if w == nil {
		r.Broken("replay case carries no witness bytes")
		return
	}
	recv, err := cryptPartyFromSide(w.Receiver)
	if err != nil {
		r.Broken("bad replay receiver: " + err.Error())
		return
	}
	cs.Witness = nil
	if cs.Kind == "agree" {
		if w.Other == nil {
			r.Broken("agree replay without the server side")
			return
		}
		server, err := cryptPartyFromSide(*w.Other)
		if err != nil {
			r.Broken("bad replay server side: " + err.Error())
			return
		}
		// the harness's view is not stored; compare the two sides only
		recv.view = cryptView{cur: &cryptKey{}, prev: &cryptKey{}}
		cryptAgreeOne(e, cs, recv, server, strings.Contains(cs.Sender, "+"))
		return
	}
	var orig proto.Message
	if w.HasOriginal {
		orig = cryptNewMsg(cs.MsgType)
		if orig == nil {
			r.Broken("bad replay message type " + cs.MsgType)
			return
		}
		if err := proto.Unmarshal(w.Original, orig); err != nil {
			r.Broken("bad replay original: " + err.Error())
			return
		}
	}
	if cryptNewMsg(cs.MsgType) == nil {
		r.Broken("bad replay message type " + cs.MsgType)
		return
	}
	class := cs.Class
	expect := cs.Expect
	if expect == "" {
		expect = "error-or-original"
	}
	engine.LogInput("C11 replay %s", engine.J(cs))
	out := e.attempt(cs, class, expect, recv, orig, cs.MsgType, w.Envelope)
	r.Eval(engine.J(cs), true)
	r.Count("replay_observed_"+out, 1)
}

// ---------------------------------------------------------------------------

func runCrypt(c *engine.Ctx) engine.Result {
	r := c.R
	e := &cryptEnv{c: c, ctx: context.Background()}
	res := engine.Result{
		Rule: "cases: (1) agree = fresh key material, node record vs server record derive (key ID, secret) for current and previous key; " +
			"(2) roundtrip = (direction, sender key state, receiver key state, message type/shape/seed) over the 4x4 current/previous placement matrix plus receivers holding only the secret or only the key ID of the sender, and harness-written key producers (empty key ID, explicit previous key); " +
			"(3) mutate = for each of N ciphertexts every single-bit flip and every truncation length of the marshaled envelope, seeded multi-byte edits, and hand-built BlobInfo envelopes with ciphertext lengths 0..40; (4) arbitrary = seeded byte strings of length 0..600. " +
			"Oracle from harness bookkeeping only: success with proto.Equal(original) iff the receiver's current or previous key has the sender's secret and key ID; mutated input = error or the original; arbitrary input = error. " +
			"Non-trivial = the input parses as an envelope (got past parsing) for mutate/arbitrary, every case for agree/roundtrip; distinct by descriptor (ciphertext index, mutation kind, mutation index).",
		Exhaustive: false,
		Assumptions: []string{
			"cryptographic strength is out of scope: 'fails with another key' means the call returned an error for every other key tried",
			"trusts crypto/ecdh, proto.Equal / proto.Marshal and the harness's bookkeeping of which generation each record was built from; KeyIdFromPkix is used only as the name of a certificate key",
			"on a returned error the contents of the result message are not part of the verdict (only counted)",
			"a key source whose current-key derivation fails is not exercised (the statement does not fix whether the previous key is then consulted)",
			"bit flips and truncations are exhaustive per ciphertext; the set of ciphertexts, edits and arbitrary strings is a seeded sample",
		},
	}
	if c.Replay != nil {
		cryptReplay(e, c.Replay)
		return res
	}
	cryptAgree(e)
	cryptRoundtrip(e)
	cryptCustom(e)
	cryptMutate(e)
	cryptArbitrary(e)
	cryptFlows(e)

	r.Set("exhaustive_subspaces", []string{"single-bit flips of each mutated envelope", "truncation lengths of each mutated envelope", "hand-built ciphertext lengths 0..40 x 8 envelope variants per ciphertext", "4x4 placement matrix x direction x message type"})
	r.Set("mutated_envelopes_still_decrypting_to_original", map[string]int64{
		"bitflip":  r.Counter("bitflip_observed_original"),
		"truncate": r.Counter("truncate_observed_original"),
		"edit":     r.Counter("edit_observed_original"),
		"blob":     r.Counter("blob_observed_original"),
	})

	nct := int64(c.Pick(24, 500))
	r.Require("agree_current_same_secret_and_keyid", int64(c.Pick(150, 3000)))
	r.Require("agree_previous_same_secret_and_keyid", int64(c.Pick(100, 2000)))
	r.Require("roundtrip_expect_success_receiver_has_key_as_current", 50)
	r.Require("roundtrip_expect_success_receiver_has_key_as_previous", 50)
	r.Require("roundtrip_expect_failure_unrelated", 50)
	r.Require("roundtrip_expect_failure_same-secret-different-keyid", 30)
	r.Require("roundtrip_expect_failure_same-keyid-different-secret", 30)
	for _, s := range cryptSenderStates {
		for _, rc := range cryptReceiverStates[:4] {
			r.Require(fmt.Sprintf("placement_4x4_sender=%s_receiver=%s", s, rc), 10)
		}
	}
	for _, name := range []string{"both-empty-id", "sender-empty-id-receiver-id", "previous-matches", "previous-nil-key", "previous-absent"} {
		r.Require("custom_producer_row_"+name, 5)
	}
	r.Require("mutate_ciphertexts", nct)
	r.Require("mutate_ciphertexts_receiver_has_key_as_previous", nct/4)
	r.Require("bitflip_tried", nct*8*40)
	r.Require("bitflip_envelope_aead", nct*8*20)
	r.Require("bitflip_envelope_short", 1)
	r.Require("bitflip_observed_original", 1)
	r.Require("bitflip_observed_error", nct*8*20)
	r.Require("truncate_tried", nct*40)
	r.Require("truncate_observed_original", 1)
	r.Require("edit_tried", nct*250)
	r.Require("blob_tried", nct*(cryptBlobMaxLen+1)*cryptBlobVariants)
	r.Require("blob_envelope_short", nct*12*4)
	r.Require("blob_envelope_aead", nct*20*4)
	r.Require("blob_observed_original", nct)
	for _, l := range []int{0, 1, 11, 12, 13, 28, 40} {
		r.Require(fmt.Sprintf("blob_ciphertext_len_%02d", l), nct)
	}
	r.Require("arbitrary_tried", int64(c.Pick(6000, 150000)))
	r.Require("arbitrary_envelope_aead", 500)
	r.Require("arbitrary_envelope_short", 100)
	r.Require("arbitrary_length_0", 1)
	r.Require("flows_previous_pair_still_opens:same-object-enrolled-again", 5)
	r.Require("flows_previous_pair_still_opens:old-object-enrolled-again-after-being-recorded", 5)
	return res
}
