package engines

// C09 — trust is continuous across root rotation histories. Histories of
// server rotation calls and node (re-)enrollments on a virtual timeline: the
// unmodified library (which reads time.Now()) is aged by re-minting the stored
// roots shifted into the past (time-warp, no clock hook). Every root is minted
// and every promotion decided by the real RotateRootCertificates; node chains
// come from the real AuthorizeNode / FetchNodeCredentials; at sampled instants a
// real protocol.Dial against an InterceptingListener must succeed.

import (
	"bytes"
	"context"
	"crypto/tls"
	"crypto/x509"
	"encoding/json"
	"errors"
	"fmt"
	"math/rand"
	"sort"
	"strings"
	"time"

	"github.com/hashicorp/nodeenrollment"
	"github.com/hashicorp/nodeenrollment/protocol"
	"github.com/hashicorp/nodeenrollment/registration"
	"github.com/hashicorp/nodeenrollment/rotation"
	nodetls "github.com/hashicorp/nodeenrollment/tls"
	"github.com/hashicorp/nodeenrollment/types"
	"google.golang.org/protobuf/types/known/timestamppb"

	"verifharness/engine"
	"verifharness/world"
)

func init() {
	engine.Register(&engine.Spec{Prop: "C09", Engine: "continuity", Level: "exploration", Fn: runContinuity})
}

type contCase struct {
	Kind      string  `json:"kind"` // pattern | random
	LifetimeS int64   `json:"lifetime_s"`
	SkewS     int64   `json:"skew_s"` // not-before skew = -skew, not-after skew = +skew
	IntervalS int64   `json:"server_interval_bound_s"`
	ServerPat []int   `json:"server_step_pattern,omitempty"` // 1 = I/2, 2 = I (repeated)
	NodePat   []int   `json:"node_step_pattern,omitempty"`   // 1 = P/2, 2 = P (repeated)
	Seed      int64   `json:"seed"`
	Dials     int     `json:"dials"`
	Wrap      bool    `json:"storage_wrapper"`
	NodeFrac  float64 `json:"node_interval_factor,omitempty"` // only for negative controls: > 1 breaks the cadence bound
}

type vRoot struct {
	id     string
	nb, na time.Time // virtual
	keys   *world.Keys
}

type vChain struct {
	issuer string
	nb, na time.Time // virtual, from the leaf DER
}

type setEv struct {
	at        time.Time
	cur, next string
}

type enrEv struct {
	at     time.Time
	chains []vChain
	node   *world.Node
}

const (
	contEps    = 5 * time.Second
	contMargin = 10 * time.Second
)

type contRun struct {
	c         *engine.Ctx
	cc        contCase
	s         *world.Server
	lw        *world.LW
	vtotal    time.Duration
	roots     map[string]*vRoot
	sets      []setEv
	enrs      []enrEv
	L, nb, na time.Duration
	failed    bool
	// repeatDial: inside the repetitions of one dial
	repeatDial bool
}

func (h *contRun) violated() bool { return h.failed }

func (h *contRun) vnow() time.Time { return time.Now().Add(h.vtotal) }

func (h *contRun) viol(key, what string) {
	h.failed = true
	if h.cc.NodeFrac > 0 {
		// negative control: the node deliberately rotates slower than the bound allows
		h.c.R.Count("negative_control_detected:"+key, 1)
		return
	}
	h.c.R.Violation(key, what, h.cc)
}

func rootID(pkix []byte) string { return string(pkix) }

// advance ages the stored roots so that the virtual present becomes t
func (h *contRun) advance(t time.Time) bool {
	d := t.Sub(h.vnow())
	if d <= 0 {
		return true
	}
	if _, err := ageRoots(h.s, d); err != nil {
		h.c.R.Broken("time-warp: " + err.Error())
		return false
	}
	h.vtotal += d
	return true
}

// nudge moves a planned instant away from every known boundary
func (h *contRun) nudge(t time.Time) time.Time {
	for i := 0; i < 50; i++ {
		clash := false
		check := func(x time.Time) {
			d := t.Sub(x)
			if d < 0 {
				d = -d
			}
			if d < contMargin {
				clash = true
			}
		}
		for _, r := range h.roots {
			check(r.nb)
			check(r.na)
		}
		if !clash {
			return t
		}
		t = t.Add(2*contMargin + time.Second)
	}
	return t
}

func (h *contRun) serverCall() bool {
	opts := h.s.Opts(
		nodeenrollment.WithCertificateLifetime(h.L),
		nodeenrollment.WithNotBeforeClockSkew(h.nb),
		nodeenrollment.WithNotAfterClockSkew(h.na),
	)
	t0 := h.vnow()
	ret, err := rotation.RotateRootCertificates(h.s.Ctx, h.s.Store, opts...)
	if err != nil || ret == nil || ret.Current == nil || ret.Next == nil {
		h.viol("rotation-failed", fmt.Sprintf("rotation call failed in a cadence-respecting history: %v", err))
		return false
	}
	at := t0.Add(h.vnow().Sub(t0) / 2)
	h.c.R.Count("server_calls", 1)
	for _, rc := range []*types.RootCertificate{ret.Current, ret.Next} {
		id := rootID(rc.PublicKeyPkix)
		if _, ok := h.roots[id]; !ok {
			k, kerr := world.KeysFromPkcs8(rc.PrivateKeyPkcs8)
			if kerr != nil {
				h.c.R.Broken("root key: " + kerr.Error())
				return false
			}
			h.roots[id] = &vRoot{id: id, nb: rc.NotBefore.AsTime().Add(h.vtotal), na: rc.NotAfter.AsTime().Add(h.vtotal), keys: k}
			h.c.R.Count("roots_minted", 1)
		}
	}
	ev := setEv{at: at, cur: rootID(ret.Current.PublicKeyPkix), next: rootID(ret.Next.PublicKeyPkix)}
	if len(h.sets) > 0 {
		prev := h.sets[len(h.sets)-1]
		switch {
		case prev.cur == ev.cur && prev.next == ev.next:
			h.c.R.Count("calls_without_change", 1)
		case ev.cur == prev.next && ev.next != prev.cur && ev.next != prev.next:
			h.c.R.Count("promotions", 1)
			// the root that left the set (prev.cur) must have stayed until its successor (prev.next) became valid
			if succ := h.roots[prev.next]; succ != nil && succ.nb.After(at.Add(contEps)) {
				h.viol("root-dropped-before-successor-valid", "a root left the trusted set before its successor became valid")
			}
		default:
			kind := "other"
			if ev.cur != prev.cur && ev.cur != prev.next {
				kind = "both-roots-replaced"
			} else if ev.cur == prev.cur {
				kind = "next-replaced-without-promotion"
			}
			h.viol("trust-reset:"+kind, fmt.Sprintf("server call at +%s changed the root set other than by promoting the previous next (%s) although rotation ran within the interval bound", at.Sub(h.sets[0].at).Round(time.Second), kind))
		}
	}
	h.sets = append(h.sets, ev)
	return true
}

// contFailOnceStore fails the next Store once (the node's disk is full for a moment)
type contFailOnceStore struct {
	nodeenrollment.Storage
	armed bool
	fired bool
}

func (f *contFailOnceStore) Store(ctx context.Context, m nodeenrollment.MessageWithId) error {
	if f.armed {
		f.armed, f.fired = false, true
		return errors.New("injected: no space left on the node's storage")
	}
	return f.Storage.Store(ctx, m)
}

// failedRotationAttempt: before its next re-enrollment the latest node tries to rotate its credentials (the
// library's own rotation: new credentials, RotateNodeCredentials on the server, the answer handled on the node)
// and the node's storage fails the final write once. An attempt that failed is not a rotation: the node still
// holds, in its storage, the chains it held before - continuity is about what the node holds at every instant.
func (h *contRun) failedRotationAttempt() bool {
	r := h.c.R
	enr := h.enrAt(h.vnow())
	if enr == nil {
		return true
	}
	n := enr.node
	before, err := n.Stored()
	if err != nil || len(before.CertificateBundles) == 0 {
		return true
	}
	newCreds, err := types.NewNodeCredentials(h.s.Ctx, n.Store, n.NodeOpts(nodeenrollment.WithSkipStorage(true))...)
	if err != nil {
		r.Broken("continuity: new credentials for a rotation: " + err.Error())
		return false
	}
	fetchReq, err := newCreds.CreateFetchNodeCredentialsRequest(h.s.Ctx)
	if err != nil {
		r.Broken("continuity: rotation request: " + err.Error())
		return false
	}
	payload, err := nodeenrollment.EncryptMessage(h.s.Ctx, fetchReq, before)
	if err != nil {
		r.Count("rotation_attempts_skipped(old credentials cannot encrypt)", 1)
		return true
	}
	resp, err := rotation.RotateNodeCredentials(h.s.Ctx, h.s.Store, &types.RotateNodeCredentialsRequest{CertificatePublicKeyPkix: before.CertificatePublicKeyPkix, EncryptedFetchNodeCredentialsRequest: payload}, h.s.Opts()...)
	if err != nil {
		r.Count("rotation_attempts_skipped(server refused)", 1)
		return true
	}
	inner := new(types.FetchNodeCredentialsResponse)
	if err := nodeenrollment.DecryptMessage(h.s.Ctx, resp.EncryptedFetchNodeCredentialsResponse, before, inner); err != nil {
		r.Count("rotation_attempts_skipped(answer does not open)", 1)
		return true
	}
	fs := &contFailOnceStore{Storage: n.Store, armed: true}
	var herr error
	if p, st := engine.Guard(func() { _, herr = newCreds.HandleFetchNodeCredentialsResponse(h.s.Ctx, fs, inner, n.NodeOpts()...) }); p != nil {
		h.viol("panic:"+engine.LibraryFrame(st), fmt.Sprintf("HandleFetchNodeCredentialsResponse panicked when the node's storage failed a write: %v", p))
		return false
	}
	if !fs.fired {
		r.Count("rotation_attempts_without_a_write(fault not reached)", 1)
	}
	after, lerr := n.Stored()
	switch {
	case lerr != nil || len(after.CertificateBundles) == 0:
		h.viol("failed-rotation-attempt-cost-the-node-its-chains", fmt.Sprintf("a credential rotation whose final write failed on the node (error returned: %v) left the node's storage without usable credentials (load error %v): the node no longer holds any chain although it stayed within the cadence", herr != nil, lerr))
		return false
	case herr != nil:
		r.Count("failed_rotation_attempts_that_left_the_old_chains_in_place", 1)
	default:
		r.Count("rotation_attempts_that_succeeded", 1)
	}
	// the history carries on with the credentials the engine tracks for this node
	if err := n.Creds.Store(n.Ctx, n.Store, n.NodeOpts()...); err != nil {
		r.Broken("continuity: restoring the node's tracked credentials: " + err.Error())
		return false
	}
	return true
}

func (h *contRun) enroll() bool {
	er, err := world.Enroll(h.s, world.FlowAuthorize, false, nil, nil, nil)
	if err != nil {
		h.viol("enrollment-failed", "honest enrollment failed in a cadence-respecting history: "+err.Error())
		return false
	}
	return h.recordEnrollment(er.Node)
}

// recordEnrollment notes which chains the node holds now. A chain counts for the root that
// signed its leaf, and the CA certificate handed out with it has to be that root's.
func (h *contRun) recordEnrollment(n *world.Node) bool {
	ev := enrEv{at: h.vnow(), node: n}
	for _, b := range n.Creds.CertificateBundles {
		leaf, err1 := x509.ParseCertificate(b.CertificateDer)
		ca, err2 := x509.ParseCertificate(b.CaCertificateDer)
		if err1 != nil || err2 != nil {
			h.viol("bad-bundle", "issued bundle does not parse")
			return false
		}
		if err := leaf.CheckSignatureFrom(ca); err != nil {
			h.viol("bad-bundle:leaf-not-under-its-ca", "a certificate handed to the node was not issued by the CA certificate handed out with it: "+err.Error())
			return false
		}
		pk, _ := x509.MarshalPKIXPublicKey(ca.PublicKey)
		ev.chains = append(ev.chains, vChain{issuer: rootID(pk), nb: leaf.NotBefore.Add(h.vtotal), na: leaf.NotAfter.Add(h.vtotal)})
	}
	// what the node holds must be usable by the library's own client side at once: one of the two
	// chains may come from a root that is about to be replaced (or has just lapsed), the other one carries on
	var cfgs []*tls.Config
	var cerr error
	if p, st := engine.Guard(func() { cfgs, cerr = nodetls.ClientConfigs(h.s.Ctx, n.Creds) }); p != nil {
		h.viol("panic:"+engine.LibraryFrame(st), fmt.Sprintf("ClientConfigs panicked on freshly issued credentials: %v", p))
		return false
	}
	if cerr != nil || len(cfgs) == 0 {
		h.viol("enrolled-node-has-no-usable-chain", fmt.Sprintf("right after a cadence-respecting enrollment the library cannot build a client configuration from the %d bundle(s) the node was given: %v", len(n.Creds.CertificateBundles), cerr))
		return false
	}
	h.c.R.Count("client_configs_built_after_enrollment", 1)
	h.enrs = append(h.enrs, ev)
	h.c.R.Count("enrollments", 1)
	return true
}

// serverCallDuringEnrollment: the operator authorizes a node, the server's periodic rotation
// call runs, and only then does the node's fetch arrive (the node polls). The node ends up
// with what was issued at authorization; continuity must hold for it like for any other.
func (h *contRun) serverCallDuringEnrollment() bool {
	n, err := world.NewNode(false, "")
	if err != nil {
		h.c.R.Broken("continuity: node: " + err.Error())
		return false
	}
	req, err := n.FetchRequest()
	if err != nil {
		h.c.R.Broken("continuity: request: " + err.Error())
		return false
	}
	if _, err := registration.AuthorizeNode(h.s.Ctx, h.s.Store, req, h.s.Opts()...); err != nil {
		h.viol("enrollment-failed", "authorization failed in a cadence-respecting history: "+err.Error())
		return false
	}
	if !h.serverCall() {
		return false
	}
	resp, err := registration.FetchNodeCredentials(h.s.Ctx, h.s.Store, req, h.s.Opts()...)
	if err != nil {
		h.viol("enrollment-failed", "fetch after a rotation call failed: "+err.Error())
		return false
	}
	if _, err := n.Handle(resp); err != nil {
		h.viol("enrollment-failed", "the node refused the response fetched after a rotation call: "+err.Error())
		return false
	}
	h.c.R.Count("enrollments_straddling_a_server_call", 1)
	if k := len(h.sets); k >= 2 && h.sets[k-1].cur != h.sets[k-2].cur {
		h.c.R.Count("enrollments_straddling_a_promotion", 1)
	}
	return h.recordEnrollment(n)
}

func (h *contRun) setAt(t time.Time) *setEv {
	var out *setEv
	for i := range h.sets {
		if !h.sets[i].at.After(t) {
			out = &h.sets[i]
		}
	}
	return out
}

func (h *contRun) enrAt(t time.Time) *enrEv {
	var out *enrEv
	for i := range h.enrs {
		if !h.enrs[i].at.After(t) {
			out = &h.enrs[i]
		}
	}
	return out
}

// holds evaluates the continuity predicate at a virtual instant
func (h *contRun) holds(t time.Time) (bool, string) {
	set, enr := h.setAt(t), h.enrAt(t)
	if set == nil || enr == nil {
		return true, ""
	}
	why := ""
	for _, ch := range enr.chains {
		r := h.roots[ch.issuer]
		switch {
		case ch.issuer != set.cur && ch.issuer != set.next:
			why += "[chain's root no longer trusted]"
		case t.Before(ch.nb):
			why += "[chain not yet valid]"
		case t.After(ch.na):
			why += "[chain expired]"
		case r == nil || t.Before(r.nb) || t.After(r.na):
			why += "[root outside validity]"
		default:
			return true, ""
		}
	}
	return false, why
}

// dial materialises the latest node's credentials for the real present and
// performs a real protocol.Dial
func (h *contRun) dial() {
	enr := h.enrAt(h.vnow())
	if enr == nil {
		return
	}
	ok, _ := h.holds(h.vnow())
	if !ok {
		return // already a violation of the predicate; reported by the sweep
	}
	n := enr.node
	var bundles []*types.CertificateBundle
	for _, ch := range enr.chains {
		r := h.roots[ch.issuer]
		if r == nil {
			continue
		}
		rnb, rna := r.nb.Add(-h.vtotal), r.na.Add(-h.vtotal)
		caDER := world.MintRootDER(r.keys, rnb, rna)
		ca := world.ParseCert(caDER)
		lnb, lna := ch.nb.Add(-h.vtotal), ch.na.Add(-h.vtotal)
		leaf := world.MintLeaf(ca, r.keys.Priv, n.K.Pub, world.LeafSpec{SubjectKeyID: n.K.Pkix, CommonName: n.K.KeyID, DNSNames: []string{n.K.KeyID, nodeenrollment.CommonDnsName}, EKU: []x509.ExtKeyUsage{x509.ExtKeyUsageClientAuth}, NotBefore: lnb, NotAfter: lna})
		bundles = append(bundles, &types.CertificateBundle{CertificateDer: leaf, CaCertificateDer: caDER, CertificateNotBefore: timestamppb.New(lnb), CertificateNotAfter: timestamppb.New(lna)})
	}
	n.Creds.CertificateBundles = bundles
	if err := n.Creds.Store(n.Ctx, n.Store, n.NodeOpts()...); err != nil {
		h.c.R.Broken("store aged node credentials: " + err.Error())
		return
	}
	conn, err := protocol.Dial(h.s.Ctx, n.Store, h.lw.Addr, n.NodeOpts()...)
	if err != nil {
		h.viol("dial-failed-although-chain-valid", "a real protocol.Dial failed at an instant where the node holds a valid chain under a trusted root: "+err.Error())
		return
	}
	defer conn.Close()
	rec, werr := h.lw.Wait(conn.LocalAddr().String())
	if werr != nil {
		h.c.R.Inconclusive("watchdog waiting for the server side of a dial")
		return
	}
	if rec.Returned && rec.Conn != nil {
		defer rec.Conn.Close()
	}
	if !rec.Authenticated() {
		h.viol("dial-failed-although-chain-valid", fmt.Sprintf("server did not authenticate the node at an instant where it holds a valid chain under a trusted root (accept error: %v)", rec.AcceptErr))
		return
	}
	h.c.R.Count("real_dials_succeeded", 1)
	// the node holds two chains that are valid now and the server trusts the root of only one of them: which
	// chain the client side offers first is a matter of map order, so the dial is repeated a few times (the
	// credentials in storage stay as they are)
	if h.repeatDial {
		return
	}
	set := h.setAt(h.vnow())
	valid, trusted := 0, 0
	for _, ch := range enr.chains {
		if r := h.roots[ch.issuer]; r != nil && !h.vnow().Before(ch.nb) && !h.vnow().After(ch.na) {
			valid++
			if set != nil && (ch.issuer == set.cur || ch.issuer == set.next) {
				trusted++
			}
		}
	}
	if valid == 2 && trusted == 1 {
		h.c.R.Count("dials_repeated(two valid chains, one trusted root)", 1)
		h.repeatDial = true
		for i := 0; i < 4 && !h.violated(); i++ {
			h.dial()
		}
		h.repeatDial = false
	}
}

func runContCase(c *engine.Ctx, cc contCase) {
	r := c.R
	h := &contRun{c: c, cc: cc, roots: map[string]*vRoot{}}
	h.L = time.Duration(cc.LifetimeS) * time.Second
	h.nb = -time.Duration(cc.SkewS) * time.Second
	h.na = time.Duration(cc.SkewS) * time.Second
	S := h.L + h.na - h.nb
	I := time.Duration(cc.IntervalS) * time.Second
	P := (S-I)/2 + h.nb
	slack := 3*contMargin + 5*time.Second
	if P <= 4*slack || I <= 4*slack || I >= S {
		return // configuration outside the stated cadence bounds
	}
	nodeBound := P
	if cc.NodeFrac > 0 {
		nodeBound = time.Duration(float64(P) * cc.NodeFrac)
	}
	var err error
	// one history in three runs on the library's store-once back end (node records are insert-only there; the
	// roots record is replaced by every rotation that changes something)
	be := world.Inmem
	if (cc.Seed+cc.LifetimeS+cc.IntervalS)%3 == 0 {
		be = world.StoreOnce
		r.Count("histories_on_the_store_once_back_end", 1)
	}
	h.s, err = world.NewServer(world.ServerCfg{Backend: be, StorageWrap: cc.Wrap, NoRoots: true})
	if err != nil {
		r.Broken(err.Error())
		return
	}
	defer h.s.Close()
	if cc.Dials > 0 {
		h.lw, err = world.NewLW(h.s, world.LWCfg{})
		if err != nil {
			r.Broken(err.Error())
			return
		}
		defer h.lw.Close()
	}
	rng := rand.New(rand.NewSource(cc.Seed))
	start := h.vnow()
	horizon := start.Add(4 * S)
	step := func(pat []int, i int, bound time.Duration) time.Duration {
		var d time.Duration
		if len(pat) > 0 {
			d = bound * time.Duration(pat[i%len(pat)]) / 2
		} else {
			d = time.Duration(float64(bound) * (0.1 + 0.9*rng.Float64()))
		}
		if d > bound-slack {
			d = bound - slack
		}
		return d
	}
	// initial server call, then the node enrolls a little later
	if !h.serverCall() {
		return
	}
	nextServer := h.vnow().Add(step(cc.ServerPat, 0, I))
	nextNode := h.vnow().Add(time.Duration(rng.Int63n(int64(I)/2 + 1)))
	si, ni := 1, 0
	lastServer, lastNode := h.vnow(), time.Time{}
	dialEvery := 0
	if cc.Dials > 0 {
		dialEvery = 1 + rng.Intn(4)
	}
	events, dialsDone := 0, 0
	for {
		isServer := !nextServer.After(nextNode)
		t := nextNode
		if isServer {
			t = nextServer
		}
		if t.After(horizon) {
			break
		}
		t = h.nudge(t)
		if !h.advance(t) {
			return
		}
		events++
		if isServer {
			if gap := h.vnow().Sub(lastServer); gap > I {
				r.Count("histories_abandoned(boundary avoidance pushed a call past the interval bound)", 1)
				return
			}
			// every third server call falls between a node's authorization and its fetch
			if si%3 == 1 && len(h.enrs) > 0 && cc.NodeFrac == 0 {
				if !h.serverCallDuringEnrollment() {
					return
				}
			} else if !h.serverCall() {
				return
			}
			lastServer = h.vnow()
			nextServer = lastServer.Add(step(cc.ServerPat, si, I))
			si++
		} else {
			if !lastNode.IsZero() && cc.NodeFrac == 0 {
				if gap := h.vnow().Sub(lastNode); gap > P {
					r.Count("histories_abandoned(boundary avoidance pushed a call past the interval bound)", 1)
					return
				}
			}
			if ni%3 == 1 && len(h.enrs) > 0 && !h.failedRotationAttempt() {
				return
			}
			if !h.enroll() {
				return
			}
			lastNode = h.vnow()
			nextNode = lastNode.Add(step(cc.NodePat, ni, nodeBound))
			ni++
		}
		if dialEvery > 0 && events%dialEvery == 0 && len(h.enrs) > 0 && dialsDone < cc.Dials {
			dialsDone++
			// a dial some way into the following quiet period
			h.dial()
		}
	}
	if len(h.enrs) == 0 {
		return
	}
	// ---- sweep the whole continuous timeline at its critical instants ---------
	var crit []time.Time
	for _, rt := range h.roots {
		crit = append(crit, rt.nb, rt.na)
	}
	for _, e := range h.sets {
		crit = append(crit, e.at)
	}
	for _, e := range h.enrs {
		crit = append(crit, e.at)
		for _, ch := range e.chains {
			crit = append(crit, ch.nb, ch.na)
		}
	}
	sort.Slice(crit, func(i, j int) bool { return crit[i].Before(crit[j]) })
	first := h.enrs[0].at
	end := h.vnow()
	if cc.NodeFrac == 0 {
		// the node is only covered until its next due rotation
		if due := h.enrs[len(h.enrs)-1].at.Add(P); due.Before(end) {
			end = due
		}
	}
	evaluated := 0
	for _, x := range crit {
		for _, t := range []time.Time{x.Add(-contEps), x.Add(contEps)} {
			if t.Before(first.Add(contEps)) || t.After(end) {
				continue
			}
			evaluated++
			if ok, why := h.holds(t); !ok {
				h.viol("no-valid-trusted-chain", fmt.Sprintf("at +%s of the history the enrolled node holds no chain that is valid and issued by a root the server trusts %s", t.Sub(start).Round(time.Second), why))
				break
			}
		}
		if h.failed {
			break
		}
	}
	if cc.NodeFrac > 0 {
		r.Count("negative_controls_run", 1)
		return
	}
	r.Count("critical_instants_evaluated", int64(evaluated))
	r.Eval(engine.J(cc), true)
	if !h.failed {
		r.Count("histories_with_continuous_trust", 1)
	}
	_ = bytes.Equal
}

func runContinuity(c *engine.Ctx) engine.Result {
	r := c.R
	res := engine.Result{
		Rule:        "case = one history over a horizon of four validity spans: server rotation calls at intervals <= I < S and node (re-)enrollments at intervals <= P = (S - I)/2 - |not-before skew|, either periodic step patterns {I/2, I} x {P/2, P} (all patterns up to period 4 x 3 on the grid lifetime = 16 units, skew in {0,1,2} units, I in {2,4,8,12} units) or jittered random schedules over lifetimes {1 h, 14 d, 10 y} and skews {0, L/1000, L/50, L/10}; each call is the real library on storage aged by re-minting. non-trivial = the history contained at least one enrollment and the timeline sweep ran; distinct by descriptor. Oracle: every set change is a promotion of the previous next; a root leaves only after its successor is valid; at every critical instant +-5 s the latest credentials contain a chain that is valid and issued by a root in the server's set; sampled real Dials succeed.",
		Assumptions: []string{"S = lifetime + not-after skew - not-before skew; no call within 10 s of a validity boundary (ties with the present cannot be produced without a clock hook)", "virtual time = real time + total ageing; stored roots are re-minted with the same keys and shifted windows before each call", "a node is covered from its enrollment until its next due rotation"},
	}
	if c.Replay != nil && strings.Contains(string(c.Replay), `"expired-chain-dial"`) {
		var d struct {
			Seq int `json:"seq"`
		}
		_ = json.Unmarshal(c.Replay, &d)
		runContExpiredChainDial(c, d.Seq)
		return res
	}
	if c.Replay != nil {
		var cc contCase
		if err := json.Unmarshal(c.Replay, &cc); err != nil {
			r.Broken("bad replay")
			return res
		}
		runContCase(c, cc)
		return res
	}
	rng := c.Rng("continuity")
	var cases []contCase
	// periodic patterns on the grid
	unit := int64(900) // 15 min => lifetime 4 h
	var spats, npats [][]int
	for n := 1; n <= c.Pick(3, 4); n++ {
		for m := 0; m < 1<<n; m++ {
			p := make([]int, n)
			for i := range p {
				p[i] = 1 + (m>>i)&1
			}
			spats = append(spats, p)
		}
	}
	for n := 1; n <= c.Pick(2, 3); n++ {
		for m := 0; m < 1<<n; m++ {
			p := make([]int, n)
			for i := range p {
				p[i] = 1 + (m>>i)&1
			}
			npats = append(npats, p)
		}
	}
	for _, sk := range []int64{0, 1, 2} {
		for _, iv := range []int64{2, 4, 8, 12} {
			for _, sp := range spats {
				for _, np := range npats {
					if c.Quick() && rng.Intn(6) != 0 {
						continue
					}
					d := 0
					if rng.Intn(4) == 0 {
						d = 3
					}
					cases = append(cases, contCase{Kind: "pattern", LifetimeS: 16 * unit, SkewS: sk * unit, IntervalS: iv * unit, ServerPat: sp, NodePat: np, Seed: rng.Int63(), Dials: d})
				}
			}
		}
	}
	patterns := len(cases)
	// jittered random schedules
	nrand := c.Pick(200, 5000)
	lifetimes := []int64{3600, 14 * 86400, 3650 * 86400}
	for i := 0; i < nrand; i++ {
		L := lifetimes[rng.Intn(len(lifetimes))]
		sk := []int64{0, L / 1000, L / 50, L / 10}[rng.Intn(4)]
		S := L + 2*sk
		iv := int64(float64(S) * (0.1 + 0.8*rng.Float64()))
		d := 0
		if rng.Intn(3) == 0 {
			d = 4
		}
		cases = append(cases, contCase{Kind: "random", LifetimeS: L, SkewS: sk, IntervalS: iv, Seed: rng.Int63(), Dials: d, Wrap: rng.Intn(5) == 0})
	}
	// negative controls: node cadence 3x slower than the bound; the monitor must see broken continuity in some
	for i := 0; i < c.Pick(40, 200); i++ {
		L := int64(14 * 86400)
		S := L + 600
		cases = append(cases, contCase{Kind: "random", LifetimeS: L, SkewS: 300, IntervalS: int64(float64(S) * (0.2 + 0.6*rng.Float64())), Seed: rng.Int63(), NodeFrac: 3.0})
	}
	r.Set("pattern_histories", patterns)
	r.Set("random_histories", nrand)
	r.Sample(cases[0])
	r.Sample(cases[len(cases)-1])
	engine.ForEach(len(cases), engine.Workers(), func(i int) { runContCase(c, cases[i]) })
	nx := c.Pick(6, 24)
	engine.ForEach(nx, engine.Workers(), func(i int) { runContExpiredChainDial(c, i) })
	r.Require("expired_chain_dials_succeeded", int64(nx*3/4))
	r.Require("histories_with_continuous_trust", int64(len(cases)/3))
	r.Require("promotions", 200)
	r.Require("failed_rotation_attempts_that_left_the_old_chains_in_place", 50)
	r.Require("enrollments", 200)
	r.Require("enrollments_straddling_a_promotion", 20)
	r.Require("real_dials_succeeded", 20)
	r.Require("critical_instants_evaluated", 1000)
	r.Require("negative_control_detected:no-valid-trusted-chain", 3)
	return res
}
