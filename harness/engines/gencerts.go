package engines

// C05 — server certificates are minted only against a verified node signature.
// Direct calls of tls.GenerateServerCertificates on both lookup paths with
// every number / order of records and every choice of signers.

import (
	"crypto/ed25519"
	"encoding/json"
	"fmt"
	"math/rand"
	"strings"

	"github.com/hashicorp/nodeenrollment"
	"github.com/hashicorp/nodeenrollment/registration"
	nodetls "github.com/hashicorp/nodeenrollment/tls"
	"github.com/hashicorp/nodeenrollment/types"
	"google.golang.org/protobuf/proto"
	"google.golang.org/protobuf/types/known/structpb"

	"verifharness/engine"
	"verifharness/world"
)

func init() {
	engine.Register(&engine.Spec{Prop: "C05", Engine: "gencerts", Level: "exploration", Fn: runGenCerts})
}

// signer codes: >=0 index into the records of the node ID (in storage order of
// creation, not lookup order); -1 record of another node ID; -2 unregistered
// key; -3 no signature; -4 garbage bytes
type gcCase struct {
	Path       string `json:"path"` // nodeid | keyid | nodeid-on-plain-storage
	Records    int    `json:"records"`
	Order      []int  `json:"order"`        // lookup order: permutation of 0..Records-1
	NonceBy    int    `json:"nonce_signer"` // signer code
	State      bool   `json:"state_present"`
	StateBy    int    `json:"state_signer"`
	Wrap       bool   `json:"storage_wrapper"`
	SkipLocal  bool   `json:"skip_verification_by_local_caller"`
	EmptyNonce bool   `json:"empty_nonce"`
	PrevKey    bool   `json:"record0_carries_a_previous_certificate_key,omitempty"` // record 0 was created by a rotation and names its predecessor's key, whose own record is gone; signer code -5 = that old key
	NodeIDForm string `json:"node_id_form,omitempty"`                               // "": the node ID as registered; otherwise a different string that a canonicalising lookup would map onto it
	PkixBy     *int   `json:"request_key_of,omitempty"`                             // signer code whose key the request names as certificate key (default: the nonce signer's)
	// PkixEdit (key-ID path): the named certificate key is a registered key's PKIX bytes with bytes appended /
	// the last byte dropped / one bit of the last byte flipped: a different byte string, for which no record exists
	PkixEdit string `json:"named_key_edit,omitempty"`
}

func permutations(n int) [][]int {
	if n == 0 {
		return [][]int{{}}
	}
	var out [][]int
	var rec func(cur []int, used []bool)
	rec = func(cur []int, used []bool) {
		if len(cur) == n {
			out = append(out, append([]int{}, cur...))
			return
		}
		for i := 0; i < n; i++ {
			if !used[i] {
				used[i] = true
				rec(append(cur, i), used)
				used[i] = false
			}
		}
	}
	rec(nil, make([]bool, n))
	return out
}

var gcNodeIDForms = []string{"trailing-space", "leading-space", "trailing-tab", "trailing-newline", "upper-lower", "trailing-nul", "doubled"}

// gcNodeIDForm returns a node ID that differs from id but that a lookup which trims, folds or
// truncates its key would treat as id
func gcNodeIDForm(id, form string) string {
	switch form {
	case "trailing-space":
		return id + " "
	case "leading-space":
		return " " + id
	case "trailing-tab":
		return id + "\t"
	case "trailing-newline":
		return id + "\n"
	case "upper-lower":
		if strings.ToLower(id) != id {
			return strings.ToLower(id)
		}
		return strings.ToUpper(id)
	case "trailing-nul":
		return id + "\x00"
	case "doubled":
		return id + id
	}
	return id
}

func runGCCase(c *engine.Ctx, gc gcCase) {
	r := c.R
	backend := world.Ordered
	if gc.Path != "nodeid" {
		backend = world.Inmem
	}
	s := world.MustServer(world.ServerCfg{Backend: backend, StorageWrap: gc.Wrap})
	defer s.Close()
	// records under node ID "N": enrolled through the library
	var recs []*world.Node
	var prevKeys *world.Keys
	for i := 0; i < gc.Records; i++ {
		if i == 0 && gc.PrevKey {
			// the node behind record 0 rotated its credentials: the new request names the old certificate key,
			// the old key's record has been removed since
			old, err := world.Enroll(s, world.FlowAuthorize, false, nil, nil, nil)
			if err != nil {
				r.Broken("gencerts enroll: " + err.Error())
				return
			}
			nn := world.MustNode(false, "")
			nn.Creds.PreviousCertificatePublicKeyPkix = old.Node.K.Pkix
			req, err := nn.FetchRequest()
			if err != nil {
				r.Broken("gencerts request: " + err.Error())
				return
			}
			if _, err := registration.AuthorizeNode(s.Ctx, s.Store, req, s.Opts()...); err != nil {
				r.Broken("gencerts authorize: " + err.Error())
				return
			}
			if ni, err := s.LoadNode(nn.K.KeyID); err != nil || len(ni.PreviousCertificatePublicKeyPkix) == 0 {
				r.Broken("gencerts: record does not carry the previous certificate key")
				return
			}
			_ = s.RemoveNode(old.Node.K.KeyID)
			prevKeys = old.Node.K
			recs = append(recs, nn)
			r.Count("records_carrying_a_previous_certificate_key", 1)
			continue
		}
		er, err := world.Enroll(s, world.FlowAuthorize, false, nil, nil, nil)
		if err != nil {
			r.Broken("gencerts enroll: " + err.Error())
			return
		}
		recs = append(recs, er.Node)
	}
	other, err := world.Enroll(s, world.FlowAuthorize, false, nil, nil, nil)
	if err != nil {
		r.Broken("gencerts enroll: " + err.Error())
		return
	}
	if ol, ok := s.Inner.(*world.OrderedLoader); ok {
		var ids []string
		for _, i := range gc.Order {
			ids = append(ids, recs[i].K.KeyID)
		}
		ol.SetOrder("N", ids)
		ol.SetOrder("M", []string{other.Node.K.KeyID})
		if len(engine.J(gc))%2 == 0 {
			ol.EmptyIsNil = true
			r.Count("nodeid_worlds_whose_loader_answers_unknown_ids_with_an_empty_set", 1)
		}
	}
	unreg := world.NewKeys()
	signerKey := func(code int) ed25519.PrivateKey {
		switch {
		case code >= 0 && code < len(recs):
			return recs[code].K.Priv
		case code == -1:
			return other.Node.K.Priv
		case code == -2:
			return unreg.Priv
		case code == -5 && prevKeys != nil:
			return prevKeys.Priv
		}
		return nil
	}
	sign := func(code int, msg []byte) []byte {
		if k := signerKey(code); k != nil {
			return ed25519.Sign(k, msg)
		}
		if code == -4 {
			return world.RandBytes(64)
		}
		return nil
	}
	nonce := world.RandBytes(nodeenrollment.NonceSize)
	if gc.EmptyNonce {
		nonce = nil
	}
	req := &types.GenerateServerCertificatesRequest{
		Nonce:            nonce,
		NonceSignature:   sign(gc.NonceBy, nonce),
		SkipVerification: gc.SkipLocal,
	}
	// the certificate key named in the request: the nonce signer's if it is a key, else record 0 / unregistered
	switch {
	case gc.NonceBy >= 0 && gc.NonceBy < len(recs):
		req.CertificatePublicKeyPkix = recs[gc.NonceBy].K.Pkix
	case gc.NonceBy == -5 && len(recs) > 0:
		req.CertificatePublicKeyPkix = recs[0].K.Pkix // the record that names the old key as its predecessor
	case gc.NonceBy == -1:
		req.CertificatePublicKeyPkix = other.Node.K.Pkix
	case len(recs) > 0 && gc.Path == "keyid":
		req.CertificatePublicKeyPkix = recs[0].K.Pkix
	default:
		req.CertificatePublicKeyPkix = unreg.Pkix
	}
	if gc.PkixBy != nil && gc.Path == "nodeid" {
		// on the node-ID path the certificate key named in the request is bound to nothing in storage
		switch code := *gc.PkixBy; {
		case code >= 0 && code < len(recs):
			req.CertificatePublicKeyPkix = recs[code].K.Pkix
		case code == -1:
			req.CertificatePublicKeyPkix = other.Node.K.Pkix
		case code == -2:
			req.CertificatePublicKeyPkix = unreg.Pkix
		}
	}
	if gc.PkixEdit != "" && gc.Path != "nodeid" {
		b := append([]byte{}, req.CertificatePublicKeyPkix...)
		switch gc.PkixEdit {
		case "append-1":
			b = append(b, 0)
		case "append-3":
			b = append(b, 1, 2, 3)
		case "append-44":
			b = append(b, b...)
		case "drop-last":
			b = b[:len(b)-1]
		case "flip-last-bit":
			b[len(b)-1] ^= 1
		}
		req.CertificatePublicKeyPkix = b
	}
	if gc.Path != "keyid" {
		req.NodeId = gcNodeIDForm("N", gc.NodeIDForm)
	}
	var stateMsg *structpb.Struct
	if gc.State {
		stateMsg, _ = structpb.NewStruct(map[string]any{"k": "v", "n": 3, "l": []any{"x", true}})
		req.ClientState, _ = proto.Marshal(stateMsg)
		req.ClientStateSignature = sign(gc.StateBy, req.ClientState)
	}

	// ---- oracle ------------------------------------------------------------
	// lookup set
	var lookup []int // record indexes
	keyLookup := -100
	if gc.Path == "nodeid" && gc.NodeIDForm != "" {
		// no record is registered under this string
	} else if gc.Path == "nodeid" {
		lookup = append(lookup, gc.Order...)
	} else {
		// by key ID of the named certificate key
		for i, n := range recs {
			if string(n.K.Pkix) == string(req.CertificatePublicKeyPkix) {
				lookup = append(lookup, i)
			}
		}
		if string(other.Node.K.Pkix) == string(req.CertificatePublicKeyPkix) {
			keyLookup = -1
		}
	}
	inLookup := func(code int) bool {
		if code == -1 && keyLookup == -1 {
			return true
		}
		for _, i := range lookup {
			if i == code {
				return true
			}
		}
		return false
	}
	nonceOK := !gc.EmptyNonce && inLookup(gc.NonceBy)
	stateOK := !gc.State || inLookup(gc.StateBy)
	sameRecord := !gc.State || gc.StateBy == gc.NonceBy
	expect := "error"
	switch {
	case gc.SkipLocal:
		expect = "unconstrained"
	case nonceOK && stateOK && sameRecord:
		expect = "success"
	case nonceOK && stateOK && !sameRecord:
		expect = "unconstrained" // nonce and state signed by two different records of the lookup set: the statement does not fix this
	}

	var resp *types.GenerateServerCertificatesResponse
	var gerr error
	if p, st := engine.Guard(func() { resp, gerr = nodetls.GenerateServerCertificates(s.Ctx, s.Store, req, s.Opts()...) }); p != nil {
		r.Eval(engine.J(gc), true)
		r.Violation("panic:"+engine.LibraryFrame(st), fmt.Sprintf("GenerateServerCertificates panicked: %v", p), gc)
		return
	}
	r.Eval(engine.J(gc), true)
	r.Count("expect_"+expect, 1)
	pos := "n/a"
	if gc.Path == "nodeid" && gc.NonceBy >= 0 {
		for p, i := range gc.Order {
			if i == gc.NonceBy {
				switch {
				case p == 0:
					pos = "first"
				case p == len(gc.Order)-1:
					pos = "last"
				default:
					pos = "middle"
				}
			}
		}
		r.Count("verifying_record_position_"+pos, 1)
	}
	if gerr != nil && resp != nil {
		r.Violation("error-with-response", "GenerateServerCertificates returned an error together with a response object", gc)
	}
	switch expect {
	case "error":
		if gerr == nil {
			cls := fmt.Sprintf("nonceOK=%v,stateOK=%v,path=%s", nonceOK, stateOK, gc.Path)
			r.Violation("minted-without-verified-signature:"+cls, fmt.Sprintf("certificates minted although no record of the lookup result verifies the signatures (%s, %d records, nonce signer %d, state signer %d)", gc.Path, gc.Records, gc.NonceBy, gc.StateBy), gc)
		}
	case "success":
		if gerr != nil {
			r.Violation("valid-signature-refused:position="+pos+",path="+gc.Path, fmt.Sprintf("valid signature by a record of the lookup result refused (position %s of %d): %v", pos, len(gc.Order), gerr), gc)
			return
		}
		if resp == nil || len(resp.CertificateBundles) != 2 || len(resp.CertificatePrivateKeyPkcs8) == 0 {
			r.Violation("success-without-certificates", "success without two certificate bundles and a key", gc)
			return
		}
		if gc.State && !proto.Equal(resp.ClientState, stateMsg) {
			r.Violation("client-state-altered", "client state in the response differs from the verified state", gc)
		}
		if !gc.State && resp.ClientState != nil {
			r.Violation("client-state-invented", "client state in the response although none was supplied", gc)
		}
	}
}

// gcLife is a random history on the library's own store-once back end (whose
// LoadByNodeId the node-ID path runs on in the library's tests): records are
// added under node IDs and removed, and between these steps requests are made
// by node ID or by key ID, signed by any key that ever had a record or by an
// unregistered one. Certificates may be minted only for a signer whose record
// is in storage at that moment (and carries the named node ID).
type gcLife struct {
	Seed  int64 `json:"seed"`
	Wrap  bool  `json:"storage_wrapper"`
	Steps int   `json:"steps"`
}

func runGCLife(c *engine.Ctx, lc gcLife) {
	r := c.R
	rng := rand.New(rand.NewSource(lc.Seed))
	s := world.MustServer(world.ServerCfg{Backend: world.StoreOnce, StorageWrap: lc.Wrap})
	defer s.Close()
	type ent struct {
		n       *world.Node
		nodeID  string
		present bool
	}
	var ents []*ent
	ids := []string{"N", "M", "P"}
	var trace []string
	wit := func() any { return map[string]any{"history": lc, "trace": trace} }
	add := func() {
		er, err := world.Enroll(s, world.FlowAuthorize, false, nil, nil, nil)
		if err != nil {
			r.Broken("gencerts lifecycle enroll: " + err.Error())
			return
		}
		id := ids[rng.Intn(len(ids))]
		if rng.Intn(3) == 0 {
			// a record the application has not tagged with a node ID (what registration leaves behind): it belongs
			// to no node ID
			ents = append(ents, &ent{n: er.Node, nodeID: "", present: true})
			trace = append(trace, fmt.Sprintf("add #%d without a node ID", len(ents)-1))
			r.Count("lifecycle_records_without_a_node_id", 1)
			return
		}
		ni, err := types.LoadNodeInformation(s.Ctx, s.Inner, er.Node.K.KeyID, s.StoreOpts()...)
		if err != nil {
			r.Broken("gencerts lifecycle load: " + err.Error())
			return
		}
		_ = s.RemoveNode(er.Node.K.KeyID)
		ni.NodeId = id
		if err := ni.Store(s.Ctx, s.Store, s.StoreOpts()...); err != nil {
			r.Broken("gencerts lifecycle store: " + err.Error())
			return
		}
		ents = append(ents, &ent{n: er.Node, nodeID: id, present: true})
		trace = append(trace, fmt.Sprintf("add #%d under %s", len(ents)-1, id))
	}
	add()
	add()
	unreg := world.NewKeys()
	for step := 0; step < lc.Steps; step++ {
		switch k := rng.Intn(10); {
		case k < 2:
			add()
		case k < 4:
			var present []int
			for i, e := range ents {
				if e.present {
					present = append(present, i)
				}
			}
			if len(present) == 0 {
				continue
			}
			i := present[rng.Intn(len(present))]
			if err := s.RemoveNode(ents[i].n.K.KeyID); err != nil {
				r.Broken("gencerts lifecycle remove: " + err.Error())
				return
			}
			ents[i].present = false
			trace = append(trace, fmt.Sprintf("remove #%d", i))
			r.Count("lifecycle_removals", 1)
		default:
			// a request
			signer := rng.Intn(len(ents) + 1)
			keys := unreg
			var e *ent
			if signer < len(ents) {
				e = ents[signer]
				keys = e.n.K
			}
			nodeID := ""
			switch rng.Intn(4) {
			case 0: // key-ID path
			case 1:
				nodeID = ids[rng.Intn(len(ids))]
			default:
				if e != nil && e.nodeID != "" {
					nodeID = e.nodeID
				} else {
					nodeID = ids[rng.Intn(len(ids))]
				}
			}
			form := ""
			if nodeID != "" && rng.Intn(5) == 0 {
				form = gcNodeIDForms[rng.Intn(len(gcNodeIDForms))]
			}
			asked := nodeID
			nodeID = gcNodeIDForm(nodeID, form)
			nonce := world.RandBytes(nodeenrollment.NonceSize)
			req := &types.GenerateServerCertificatesRequest{CertificatePublicKeyPkix: keys.Pkix, Nonce: nonce, NonceSignature: ed25519.Sign(keys.Priv, nonce), NodeId: nodeID}
			var stateMsg *structpb.Struct
			if rng.Intn(2) == 0 {
				stateMsg, _ = structpb.NewStruct(map[string]any{"step": float64(step)})
				req.ClientState, _ = proto.Marshal(stateMsg)
				req.ClientStateSignature = ed25519.Sign(keys.Priv, req.ClientState)
			}
			ok := e != nil && e.present && (nodeID == "" || nodeID == e.nodeID)
			if form != "" {
				r.Count("lifecycle_requests_with_near_miss_node_id", 1)
				_ = asked
			}
			var resp *types.GenerateServerCertificatesResponse
			var gerr error
			if p, st := engine.Guard(func() { resp, gerr = nodetls.GenerateServerCertificates(s.Ctx, s.Store, req, s.Opts()...) }); p != nil {
				r.Violation("panic:"+engine.LibraryFrame(st), fmt.Sprintf("GenerateServerCertificates panicked: %v", p), wit())
				return
			}
			what := "unregistered key"
			if e != nil {
				what = fmt.Sprintf("#%d (under %s, present=%v)", signer, e.nodeID, e.present)
			}
			trace = append(trace, fmt.Sprintf("request node_id=%q signed by %s -> err=%v", nodeID, what, gerr != nil))
			r.Count("lifecycle_requests", 1)
			switch {
			case !ok && gerr == nil:
				cls := "never-registered"
				switch {
				case e != nil && !e.present:
					cls = "record-removed"
				case e != nil:
					cls = "record-under-another-node-id"
				}
				path := "nodeid"
				if nodeID == "" {
					path = "keyid"
				}
				r.Violation("minted-without-record-in-storage:"+cls+",path="+path, fmt.Sprintf("certificates minted for node_id=%q although the signer (%s) has no record in storage under it at that moment", nodeID, what), wit())
			case !ok:
				r.Count("lifecycle_refusals", 1)
				if e != nil && !e.present {
					r.Count("lifecycle_refusals_after_removal", 1)
				}
			case gerr != nil:
				r.Violation("valid-signature-refused:lifecycle", fmt.Sprintf("request node_id=%q signed by %s refused: %v", nodeID, what, gerr), wit())
			default:
				r.Count("lifecycle_successes", 1)
				if resp == nil || len(resp.CertificateBundles) != 2 {
					r.Violation("success-without-certificates", "success without two certificate bundles", wit())
				} else if (stateMsg == nil) != (resp.ClientState == nil) || (stateMsg != nil && !proto.Equal(stateMsg, resp.ClientState)) {
					r.Violation("client-state-altered", "client state in the response differs from the verified state", wit())
				}
			}
		}
	}
	r.Eval(engine.J(lc), true)
}

func runGenCerts(c *engine.Ctx) engine.Result {
	r := c.R
	res := engine.Result{
		Rule:        "case = (lookup path, number and lookup order of records under the node ID, signer of the nonce, presence and signer of client state, storage wrapper, local skip flag); every order of 1..4 records with every signer choice is enumerated; non-trivial = the call reached the verification gate (all cases); distinct by descriptor. Oracle: success <=> some record of the lookup result signed the nonce and (if present) the state.",
		Assumptions: []string{"nonce and state signed by two different records of the lookup set is left unconstrained", "trusts crypto/ed25519 and the harness's bookkeeping of which key signed what"},
	}
	if c.Replay != nil {
		var gc gcCase
		if err := json.Unmarshal(c.Replay, &gc); err != nil {
			r.Broken("bad replay: " + err.Error())
			return res
		}
		runGCCase(c, gc)
		return res
	}
	var cases []gcCase
	// node-ID path: all orders for m in 1..4
	for m := 1; m <= 4; m++ {
		for _, ord := range permutations(m) {
			if m == 4 && c.Quick() && ord[0] > 1 {
				continue // quick: half of the 24 orders of four records
			}
			signers := []int{-1, -2, -3, -4}
			for i := 0; i < m; i++ {
				signers = append(signers, i)
			}
			for _, nb := range signers {
				// state: absent, or signed by each
				cases = append(cases, gcCase{Path: "nodeid", Records: m, Order: ord, NonceBy: nb})
				if m <= 3 || nb >= 0 {
					for _, sb := range signers {
						if m == 4 && sb >= 0 && sb != nb && sb != ord[0] {
							continue
						}
						cases = append(cases, gcCase{Path: "nodeid", Records: m, Order: ord, NonceBy: nb, State: true, StateBy: sb})
					}
				}
			}
		}
	}
	// node-ID path: the request names the key of the state signer (or another key) instead of the nonce signer's
	ip := func(i int) *int { return &i }
	for m := 1; m <= 3; m++ {
		for _, ord := range permutations(m) {
			for nb := 0; nb < m; nb++ {
				for _, sb := range []int{-1, -2} {
					cases = append(cases, gcCase{Path: "nodeid", Records: m, Order: ord, NonceBy: nb, State: true, StateBy: sb, PkixBy: ip(sb)})
				}
				cases = append(cases, gcCase{Path: "nodeid", Records: m, Order: ord, NonceBy: nb, State: true, StateBy: nb, PkixBy: ip(-2)})
				cases = append(cases, gcCase{Path: "nodeid", Records: m, Order: ord, NonceBy: -2, PkixBy: ip(nb)})
			}
		}
	}
	// signatures by a key that is only named as some record's predecessor (its own record is gone)
	for _, path := range []string{"nodeid", "keyid"} {
		for m := 1; m <= 2; m++ {
			for _, ord := range permutations(m) {
				cases = append(cases, gcCase{Path: path, Records: m, Order: ord, NonceBy: -5, PrevKey: true})
				cases = append(cases, gcCase{Path: path, Records: m, Order: ord, NonceBy: -5, State: true, StateBy: -5, PrevKey: true})
				cases = append(cases, gcCase{Path: path, Records: m, Order: ord, NonceBy: 0, State: true, StateBy: -5, PrevKey: true})
				cases = append(cases, gcCase{Path: path, Records: m, Order: ord, NonceBy: 0, PrevKey: true}) // control: the new key still works
			}
		}
	}
	// node IDs that are not the registered string but close to it: nothing is registered under them
	for _, form := range gcNodeIDForms {
		for _, st := range []bool{false, true} {
			cases = append(cases, gcCase{Path: "nodeid", Records: 2, Order: []int{0, 1}, NonceBy: 0, State: st, StateBy: 0, NodeIDForm: form})
			cases = append(cases, gcCase{Path: "nodeid", Records: 1, Order: []int{0}, NonceBy: 0, State: st, StateBy: 0, NodeIDForm: form, Wrap: true})
		}
	}
	// zero records under the node id
	for _, nb := range []int{-1, -2, -3, -4} {
		cases = append(cases, gcCase{Path: "nodeid", Records: 0, Order: []int{}, NonceBy: nb})
	}
	// key-ID path and node ID on a storage without lookup by node ID
	for _, path := range []string{"keyid", "nodeid-on-plain-storage"} {
		for _, nb := range []int{0, 1, -1, -2, -3, -4} {
			for _, wrap := range []bool{false, true} {
				cases = append(cases, gcCase{Path: path, Records: 2, Order: []int{0, 1}, NonceBy: nb, Wrap: wrap})
				for _, sb := range []int{0, 1, -1, -2, -3, -4} {
					cases = append(cases, gcCase{Path: path, Records: 2, Order: []int{0, 1}, NonceBy: nb, State: true, StateBy: sb, Wrap: wrap})
				}
			}
		}
		cases = append(cases, gcCase{Path: path, Records: 1, Order: []int{0}, NonceBy: 0, EmptyNonce: true})
		cases = append(cases, gcCase{Path: path, Records: 1, Order: []int{0}, NonceBy: -2, SkipLocal: true})
		for _, ed := range []string{"append-1", "append-3", "append-44", "drop-last", "flip-last-bit"} {
			for _, st := range []bool{false, true} {
				cases = append(cases, gcCase{Path: path, Records: 2, Order: []int{0, 1}, NonceBy: 0, State: st, StateBy: 0, PkixEdit: ed, Wrap: st})
			}
		}
	}
	cases = append(cases, gcCase{Path: "nodeid", Records: 2, Order: []int{1, 0}, NonceBy: -2, SkipLocal: true})
	cases = append(cases, gcCase{Path: "nodeid", Records: 2, Order: []int{1, 0}, NonceBy: 0, EmptyNonce: true})
	cases = append(cases, gcCase{Path: "nodeid", Records: 3, Order: []int{2, 0, 1}, NonceBy: 1, State: true, StateBy: 1, Wrap: true})
	enumerated := len(cases)
	// random cases with more records
	rng := c.Rng("gencerts")
	nrand := c.Pick(300, 20000)
	for i := 0; i < nrand; i++ {
		m := 1 + rng.Intn(8)
		ord := rng.Perm(m)
		pick := func() int {
			if rng.Intn(2) == 0 {
				return rng.Intn(m)
			}
			return -1 - rng.Intn(4)
		}
		gc := gcCase{Path: "nodeid", Records: m, Order: ord, NonceBy: pick(), Wrap: rng.Intn(4) == 0}
		if rng.Intn(3) == 0 {
			v := pick()
			gc.PkixBy = &v
		}
		if rng.Intn(2) == 0 {
			gc.State, gc.StateBy = true, pick()
			if rng.Intn(2) == 0 {
				gc.StateBy = gc.NonceBy
			}
		}
		cases = append(cases, gc)
	}
	r.Set("enumerated_cases", enumerated)
	r.Set("random_cases", nrand)
	r.Sample(cases[10])
	r.Sample(cases[enumerated/2])
	r.Sample(cases[len(cases)-1])
	engine.ForEach(len(cases), engine.Workers(), func(i int) { runGCCase(c, cases[i]) })
	var lives []gcLife
	for i := 0; i < c.Pick(40, 1500); i++ {
		lives = append(lives, gcLife{Seed: rng.Int63(), Wrap: i%3 == 0, Steps: 30 + rng.Intn(40)})
	}
	r.Set("store_once_lifecycle_histories", len(lives))
	engine.ForEach(len(lives), engine.Workers(), func(i int) { runGCLife(c, lives[i]) })
	r.Require("lifecycle_successes", 100)
	r.Require("lifecycle_refusals_after_removal", 20)
	r.Require("expect_success", 20)
	r.Require("expect_error", 20)
	r.Require("verifying_record_position_first", 5)
	r.Require("verifying_record_position_middle", 5)
	r.Require("verifying_record_position_last", 5)
	r.Require("records_carrying_a_previous_certificate_key", 8)
	res.Exhaustive = false
	_ = rand.Int
	return res
}
