package engines

// C11, part 6: key material as the enrollment flows leave it. The records of
// the other parts are built field by field; here they come out of the library's
// own calls, including what an application does around them (recording the
// previous pair, enrolling the same credentials object again), and a message
// the server encrypted under an earlier key agreement must still decrypt on the
// node through the pair it has recorded as its previous one.

import (
	"fmt"

	"github.com/hashicorp/nodeenrollment"
	"github.com/hashicorp/nodeenrollment/registration"
	"github.com/hashicorp/nodeenrollment/types"
	"google.golang.org/protobuf/proto"

	"verifharness/engine"
	"verifharness/world"
)

func cryptFlowEnroll(s *world.Server, n *world.Node) (*types.NodeInformation, error) {
	req, err := n.FetchRequest()
	if err != nil {
		return nil, err
	}
	ni, err := registration.AuthorizeNode(s.Ctx, s.Store, req, s.Opts()...)
	if err != nil {
		return nil, fmt.Errorf("authorize: %w", err)
	}
	resp, err := registration.FetchNodeCredentials(s.Ctx, s.Store, req, s.Opts()...)
	if err != nil {
		return nil, fmt.Errorf("fetch: %w", err)
	}
	if _, err := n.Handle(resp); err != nil {
		return nil, fmt.Errorf("handle: %w", err)
	}
	return ni, nil
}

// cryptServerFlows: the receiver is the server, its record went through storage. The application recorded
// the superseded record's pair as the previous one on the node's new record (what a rotation does), stored
// it, removed the superseded record (normal clean-up) and loads the new record again whenever a message
// arrives: a message the node encrypted under its old credentials must still come out as the original.
func cryptServerFlows(e *cryptEnv) {
	r := e.c.R
	n := e.c.Pick(24, 240)
	engine.ForEach(n, engine.Workers(), func(i int) {
		wrap, removeOld := i%2 == 1, i%4 < 2
		cs := cryptCase{Kind: "flows", Sender: fmt.Sprintf("server-record-through-storage(storage wrapper=%v, superseded record removed=%v)", wrap, removeOld), Ct: i}
		p, st := engine.Guard(func() {
			be := world.Inmem
			if i%3 == 2 {
				be = world.File
			}
			s := world.MustServer(world.ServerCfg{Backend: be, StorageWrap: wrap})
			defer s.Close()
			old, err := world.NewNode(false, "")
			var oldInfo, newInfo *types.NodeInformation
			if err == nil {
				oldInfo, err = cryptFlowEnroll(s, old)
			}
			var cur *world.Node
			if err == nil {
				cur, err = world.NewNode(false, "")
			}
			if err == nil {
				newInfo, err = cryptFlowEnroll(s, cur)
			}
			if err != nil {
				r.Broken("crypt server flows: enrollment: " + err.Error())
				return
			}
			if err := newInfo.SetPreviousEncryptionKey(oldInfo); err != nil {
				r.Broken("crypt server flows: SetPreviousEncryptionKey: " + err.Error())
				return
			}
			if err := newInfo.Store(s.Ctx, s.Store, s.StoreOpts()...); err != nil {
				r.Broken("crypt server flows: store: " + err.Error())
				return
			}
			if removeOld {
				if err := s.RemoveNode(old.K.KeyID); err != nil {
					r.Broken("crypt server flows: remove: " + err.Error())
					return
				}
			}
			loaded, err := types.LoadNodeInformation(s.Ctx, s.Store, cur.K.KeyID, s.StoreOpts()...)
			if err != nil {
				r.Violation("refused-with-matching-key:flows:server-record-reload", "the record that carries the previous pair does not load again: "+err.Error(), cs)
				return
			}
			r.Eval(engine.J(cs), true)
			msg := cryptMsg("FetchNodeCredentialsRequest", "rand", int64(i)*613+11)
			for _, snd := range []struct {
				what  string
				creds *types.NodeCredentials
			}{{"current", cur.Creds}, {"previous", old.Creds}} {
				env, err := nodeenrollment.EncryptMessage(e.ctx, msg, snd.creds)
				if err != nil {
					r.Broken("crypt server flows: encrypt: " + err.Error())
					return
				}
				got := cryptNewMsg("FetchNodeCredentialsRequest")
				derr := nodeenrollment.DecryptMessage(e.ctx, env, loaded, got)
				switch {
				case derr != nil:
					r.Violation("refused-with-matching-key:flows:server-record-through-storage:"+snd.what, fmt.Sprintf("a message the node encrypted under its %s credentials does not decrypt with the server's record after that record was stored and loaded again (storage wrapper=%v, superseded record removed=%v): %v", snd.what, wrap, removeOld, derr), cs)
				case !proto.Equal(got, msg):
					r.Violation("different-plaintext:flows:server-record-through-storage:"+snd.what, "decryption with the reloaded server record returned a different message", cs)
				default:
					r.Count("server_flows_reloaded_record_opens:"+snd.what, 1)
				}
			}
			// the application retires the previous pair: it clears it on the record, stores the record again (a
			// shorter record over the longer one) and loads it. From then on a message under the retired pair is
			// a message under a different secret and key ID, and the current pair still works.
			loaded.PreviousEncryptionKey = nil
			if err := loaded.Store(s.Ctx, s.Store, s.StoreOpts()...); err != nil {
				r.Count("server_flows_retire_store_refused", 1)
				return
			}
			again, err := types.LoadNodeInformation(s.Ctx, s.Store, cur.K.KeyID, s.StoreOpts()...)
			if err != nil {
				r.Violation("refused-with-matching-key:flows:server-record-reload-after-retiring", fmt.Sprintf("the record does not load again after the previous pair was cleared and the record stored (back end %s): %v", be, err), cs)
				return
			}
			for _, snd := range []struct {
				what  string
				creds *types.NodeCredentials
			}{{"current", cur.Creds}, {"retired", old.Creds}} {
				env, err := nodeenrollment.EncryptMessage(e.ctx, msg, snd.creds)
				if err != nil {
					r.Broken("crypt server flows: encrypt: " + err.Error())
					return
				}
				got := cryptNewMsg("FetchNodeCredentialsRequest")
				derr := nodeenrollment.DecryptMessage(e.ctx, env, again, got)
				switch {
				case snd.what == "retired" && derr == nil:
					r.Violation("opened-with-other-key:flows:retired-pair-after-reload", fmt.Sprintf("the server cleared the previous pair on the node's record, stored and reloaded it (back end %s, storage wrapper=%v); a message encrypted under the retired pair (another secret, another key ID) still decrypts with the reloaded record (previous pair on the reloaded record: %v)", be, wrap, again.PreviousEncryptionKey != nil), cs)
				case snd.what == "retired":
					r.Count("server_flows_retired_pair_refused", 1)
				case derr != nil || !proto.Equal(got, msg):
					r.Violation("refused-with-matching-key:flows:server-record-after-retiring", fmt.Sprintf("after the previous pair was retired a message under the current pair does not come out as the original: %v", derr), cs)
				default:
					r.Count("server_flows_current_pair_after_retiring", 1)
				}
			}
		})
		if p != nil {
			if f := engine.LibraryFrame(st); f != "" {
				r.Violation("panic:"+f, fmt.Sprintf("panic in the server flows part: %v", p), cs)
			} else {
				r.Broken(fmt.Sprintf("crypt server flows: harness panic: %v\n%s", p, st))
			}
		}
	})
	r.Require("server_flows_reloaded_record_opens:previous", int64(n*9/10))
	r.Require("server_flows_reloaded_record_opens:current", int64(n*9/10))
	r.Require("server_flows_retired_pair_refused", int64(n*8/10))
}

func cryptFlows(e *cryptEnv) {
	r := e.c.R
	cryptServerFlows(e)
	n := e.c.Pick(24, 400)
	engine.ForEach(n, engine.Workers(), func(i int) {
		variant := []string{"same-object-enrolled-again", "old-object-enrolled-again-after-being-recorded"}[i%2]
		cs := cryptCase{Kind: "flows", Sender: variant, Ct: i}
		p, st := engine.Guard(func() {
			s := world.MustServer(world.ServerCfg{Backend: world.Inmem, StorageWrap: i%4 >= 2})
			defer s.Close()
			old, err := world.NewNode(false, "")
			if err != nil {
				r.Broken("crypt flows: " + err.Error())
				return
			}
			oldInfo, err := cryptFlowEnroll(s, old)
			if err != nil {
				r.Broken("crypt flows: first enrollment: " + err.Error())
				return
			}
			// the holder of the previous-pair record
			holder := old
			if variant == "old-object-enrolled-again-after-being-recorded" {
				holder, err = world.NewNode(false, "")
				if err == nil {
					_, err = cryptFlowEnroll(s, holder)
				}
				if err != nil {
					r.Broken("crypt flows: second node: " + err.Error())
					return
				}
			}
			if err := holder.Creds.SetPreviousEncryptionKey(old.Creds); err != nil {
				r.Broken("crypt flows: SetPreviousEncryptionKey: " + err.Error())
				return
			}
			msg := cryptMsg("FetchNodeCredentialsRequest", "rand", int64(i)*977+5)
			env, err := nodeenrollment.EncryptMessage(e.ctx, msg, oldInfo)
			if err != nil {
				r.Broken("crypt flows: encrypt under the first agreement: " + err.Error())
				return
			}
			// the old credentials object goes through another enrollment (its server-side record was
			// removed; the application gives it a fresh nonce), so it is handed a new server key
			if err := s.RemoveNode(old.K.KeyID); err != nil {
				r.Broken("crypt flows: remove: " + err.Error())
				return
			}
			old.Creds.RegistrationNonce = world.RandBytes(nodeenrollment.NonceSize)
			old.Nonce = old.Creds.RegistrationNonce
			newInfo, err := cryptFlowEnroll(s, old)
			if err != nil {
				r.Count("flows_second_enrollment_refused", 1)
				return
			}
			r.Eval(engine.J(cs), true)
			// the new agreement works
			env2, err := nodeenrollment.EncryptMessage(e.ctx, msg, newInfo)
			got2 := cryptNewMsg("FetchNodeCredentialsRequest")
			if err != nil || nodeenrollment.DecryptMessage(e.ctx, env2, old.Creds, got2) != nil || !proto.Equal(got2, msg) {
				r.Violation("refused-with-matching-key:flows:current-after-re-enrollment", "a message under the key agreement of the latest enrollment does not decrypt to the original on the node", cs)
				return
			}
			// the message under the first agreement still opens through the recorded previous pair
			got := cryptNewMsg("FetchNodeCredentialsRequest")
			derr := nodeenrollment.DecryptMessage(e.ctx, env, holder.Creds, got)
			switch {
			case derr != nil:
				r.Violation("refused-with-matching-key:flows:recorded-previous-pair", fmt.Sprintf("a message the server encrypted under the pair the node has recorded as its previous one no longer decrypts after the old credentials object handled another fetch response (%s): %v", variant, derr), cs)
			case !proto.Equal(got, msg):
				r.Violation("different-plaintext:flows:recorded-previous-pair", "decryption through the recorded previous pair returned a different message", cs)
			default:
				r.Count("flows_previous_pair_still_opens:"+variant, 1)
			}
			// last: the node is handed an answer that names another server key and cannot be opened. It is
			// refused, and what the node has in storage is what it stored: loaded again, it still derives the
			// secret the server derives for this agreement (the in-memory object is not judged)
			bad := &types.FetchNodeCredentialsResponse{ServerEncryptionPublicKeyBytes: world.NewX25519().Pub, ServerEncryptionPublicKeyType: types.KEYTYPE_X25519, EncryptedNodeCredentials: world.RandBytes(96)}
			if _, herr := old.Handle(bad); herr == nil {
				r.Count("flows_unopenable_answer_accepted(not judged here)", 1)
				return
			}
			stored, lerr := old.Stored()
			if lerr != nil {
				r.Broken("crypt flows: stored credentials of the node cannot be loaded: " + lerr.Error())
				return
			}
			got3 := cryptNewMsg("FetchNodeCredentialsRequest")
			env3, err := nodeenrollment.EncryptMessage(e.ctx, msg, newInfo)
			switch derr := error(nil); {
			case err != nil:
				r.Broken("crypt flows: encrypt under the latest agreement: " + err.Error())
			default:
				if derr = nodeenrollment.DecryptMessage(e.ctx, env3, stored, got3); derr != nil {
					r.Violation("agree:secret-differs:stored-credentials-after-refused-answer", fmt.Sprintf("after the node refused an answer naming another server key, the credentials it has in storage no longer derive the server's secret for this key agreement: %v", derr), cs)
				} else if !proto.Equal(got3, msg) {
					r.Violation("different-plaintext:flows:stored-credentials-after-refused-answer", "decryption with the stored credentials returned a different message", cs)
				} else {
					r.Count("flows_stored_credentials_agree_after_refused_answer", 1)
				}
			}
		})
		if p != nil {
			if f := engine.LibraryFrame(st); f != "" {
				r.Violation("panic:"+f, fmt.Sprintf("panic in the flows part: %v", p), cs)
			} else {
				r.Broken(fmt.Sprintf("crypt flows: harness panic: %v\n%s", p, st))
			}
		}
	})
}
