package engines

// C11, part 6: key material as the enrollment flows leave it. The records of
// the other parts are built field by field; here they come out of the library's
// own calls, including what an application does around them (recording the
// previous pair, enrolling the same credentials object again), and a message
// the server encrypted under an earlier key agreement must still decrypt on the
// node through the pair it has recorded as its previous one.

import (
	"fmt"

	"github.com/hashicorp/nodeenrollment"
	"github.com/hashicorp/nodeenrollment/registration"
	"github.com/hashicorp/nodeenrollment/types"
	"google.golang.org/protobuf/proto"

	"verifharness/engine"
	"verifharness/world"
)

func cryptFlowEnroll(s *world.Server, n *world.Node) (*types.NodeInformation, error) {
	req, err := n.FetchRequest()
	if err != nil {
		return nil, err
	}
	ni, err := registration.AuthorizeNode(s.Ctx, s.Store, req, s.Opts()...)
	if err != nil {
		return nil, fmt.Errorf("authorize: %w", err)
	}
	resp, err := registration.FetchNodeCredentials(s.Ctx, s.Store, req, s.Opts()...)
	if err != nil {
		return nil, fmt.Errorf("fetch: %w", err)
	}
	if _, err := n.Handle(resp); err != nil {
		return nil, fmt.Errorf("handle: %w", err)
	}
	return ni, nil
}

// cryptServerFlows: the receiver is the server, its record went through storage. The application recorded
// the superseded record's pair as the previous one on the node's new record (what a rotation does), stored
// it, removed the superseded record (normal clean-up) and loads the new record again whenever a message
// arrives: a message the node encrypted under its old credentials must still come out as the original.
func cryptServerFlows(e *cryptEnv) {
	r := e.c.R
	n := e.c.Pick(24, 240)
	engine.ForEach(n, engine.Workers(), func(i int) {
		wrap, removeOld := i%2 == 1, i%4 < 2
		cs := cryptCase{Kind: "flows", Sender: fmt.Sprintf("server-record-through-storage(storage wrapper=%v, superseded record removed=%v)", wrap, removeOld), Ct: i}
		p, st := engine.Guard(func() {
			be := world.Inmem
			if i%3 == 2 {
				be = world.File
			}
			s := world.MustServer(world.ServerCfg{Backend: be, StorageWrap: wrap})
			defer s.Close()
			old, err := world.NewNode(false, "")
			var oldInfo, newInfo *types.NodeInformation
			if err == nil {
				oldInfo, err = cryptFlowEnroll(s, old)
			}
			var cur *world.Node
			if err == nil {
				cur, err = world.NewNode(false, "")
			}
			if err == nil {
				newInfo, err = cryptFlowEnroll(s, cur)
			}
			if err != nil {
				r.Broken("crypt server flows: enrollment: " + err.Error())
				return
			}
			if err := newInfo.SetPreviousEncryptionKey(oldInfo); err != nil {
				r.Broken("crypt server flows: SetPreviousEncryptionKey: " + err.Error())
				return
			}
			if err := newInfo.Store(s.Ctx, s.Store, s.StoreOpts()...); err != nil {
				r.Broken("crypt server flows: store: " + err.Error())
				return
			}
			if removeOld {
				if err := s.RemoveNode(old.K.KeyID); err != nil {
					r.Broken("crypt server flows: remove: " + err.Error())
					return
				}
			}
			loaded, err := types.LoadNodeInformation(s.Ctx, s.Store, cur.K.KeyID, s.StoreOpts()...)
			if err != nil {
				r.Violation("refused-with-matching-key:flows:server-record-reload", "the record that carries the previous pair does not load again: "+err.Error(), cs)
				return
			}
			r.Eval(engine.J(cs), true)
			msg := cryptMsg("FetchNodeCredentialsRequest", "rand", int64(i)*613+11)
			for _, snd := range []struct {
				what  string
				creds *types.NodeCredentials
			}{{"current", cur.Creds}, {"previous", old.Creds}} {
				env, err := nodeenrollment.EncryptMessage(e.ctx, msg, snd.creds)
				if err != nil {
					r.Broken("crypt server flows: encrypt: " + err.Error())
					return
				}
				got := cryptNewMsg("FetchNodeCredentialsRequest")
				derr := nodeenrollment.DecryptMessage(e.ctx, env, loaded, got)
				switch {
				case derr != nil:
					r.Violation("refused-with-matching-key:flows:server-record-through-storage:"+snd.what, fmt.Sprintf("a message the node encrypted under its %s credentials does not decrypt with the server's record after that record was stored and loaded again (storage wrapper=%v, superseded record removed=%v): %v", snd.what, wrap, removeOld, derr), cs)
				case !proto.Equal(got, msg):
					r.Violation("different-plaintext:flows:server-record-through-storage:"+snd.what, "decryption with the reloaded server record returned a different message", cs)
				default:
					r.Count("server_flows_reloaded_record_opens:"+snd.what, 1)
				}
			}
			// the application retires the previous pair: it clears it on the record, stores the record again (a
			// shorter record over the longer one) and loads it. From then on a message under the retired pair is
			// a message under a different secret and key ID, and the current pair still works.
			loaded.PreviousEncryptionKey = nil
			if err := loaded.Store(s.Ctx, s.Store, s.StoreOpts()...); err != nil {
				r.Count("server_flows_retire_store_refused", 1)
				return
			}
			again, err := types.LoadNodeInformation(s.Ctx, s.Store, cur.K.KeyID, s.StoreOpts()...)
			if err != nil {
				r.Violation("refused-with-matching-key:flows:server-record-reload-after-retiring", fmt.Sprintf("the record does not load again after the previous pair was cleared and the record stored (back end %s): %v", be, err), cs)
				return
			}
			for _, snd := range []struct {
				what  string
				creds *types.NodeCredentials
			}{{"current", cur.Creds}, {"retired", old.Creds}} {
				env, err := nodeenrollment.EncryptMessage(e.ctx, msg, snd.creds)
				if err != nil {
					r.Broken("crypt server flows: encrypt: " + err.Error())
					return
				}
				got := cryptNewMsg("FetchNodeCredentialsRequest")
				derr := nodeenrollment.DecryptMessage(e.ctx, env, again, got)
				switch {
				case snd.what == "retired" && derr == nil:
					r.Violation("opened-with-other-key:flows:retired-pair-after-reload", fmt.Sprintf("the server cleared the previous pair on the node's record, stored and reloaded it (back end %s, storage wrapper=%v); a message encrypted under the retired pair (another secret, another key ID) still decrypts with the reloaded record (previous pair on the reloaded record: %v)", be, wrap, again.PreviousEncryptionKey != nil), cs)
				case snd.what == "retired":
					r.Count("server_flows_retired_pair_refused", 1)
				case derr != nil || !proto.Equal(got, msg):
					r.Violation("refused-with-matching-key:flows:server-record-after-retiring", fmt.Sprintf("after the previous pair was retired a message under the current pair does not come out as the original: %v", derr), cs)
				default:
					r.Count("server_flows_current_pair_after_retiring", 1)
				}
			}
		})
		if p != nil {
			if f := engine.LibraryFrame(st); f != "" {
				r.Violation("panic:"+f, fmt.Sprintf("panic in the server flows part: %v", p), cs)
			} else {
				r.Broken(fmt.Sprintf("crypt server flows: harness panic: %v\n%s", p, st))
			}
		}
	})
	r.Require("server_flows_reloaded_record_opens:previous", int64(n*9/10))
	r.Require("server_flows_reloaded_record_opens:current", int64(n*9/10))
	r.Require("server_flows_retired_pair_refused", int64(n*8/10))
}

func cryptFlows(e *cryptEnv) {
	r := e.c.R
	cryptServerFlows(e)
	cryptSmallOrder(e)
	n := e.c.Pick(24, 400)
	engine.ForEach(n, engine.Workers(), func(i int) {
		variant := []string{"same-object-enrolled-again", "old-object-enrolled-again-after-being-recorded"}[i%2]
		cs := cryptCase{Kind: "flows", Sender: variant, Ct: i}
		p, st := engine.Guard(func() {
			s := world.MustServer(world.ServerCfg{Backend: world.Inmem, StorageWrap: i%4 >= 2})
			defer s.Close()
			old, err := world.NewNode(false, "")
			if err != nil {
				r.Broken("crypt flows: " + err.Error())
				return
			}
			oldInfo, err := cryptFlowEnroll(s, old)
			if err != nil {
				r.Broken("crypt flows: first enrollment: " + err.Error())
				return
			}
			// the holder of the previous-pair record
			holder := old
			if variant == "old-object-enrolled-again-after-being-recorded" {
				holder, err = world.NewNode(false, "")
				if err == nil {
					_, err = cryptFlowEnroll(s, holder)
				}
				if err != nil {
					r.Broken("crypt flows: second node: " + err.Error())
					return
				}
			}
			if err := holder.Creds.SetPreviousEncryptionKey(old.Creds); err != nil {
				r.Broken("crypt flows: SetPreviousEncryptionKey: " + err.Error())
				return
			}
			msg := cryptMsg("FetchNodeCredentialsRequest", "rand", int64(i)*977+5)
			env, err := nodeenrollment.EncryptMessage(e.ctx, msg, oldInfo)
			if err != nil {
				r.Broken("crypt flows: encrypt under the first agreement: " + err.Error())
				return
			}
			// the old credentials object goes through another enrollment (its server-side record was
			// removed; the application gives it a fresh nonce), so it is handed a new server key
			if err := s.RemoveNode(old.K.KeyID); err != nil {
				r.Broken("crypt flows: remove: " + err.Error())
				return
			}
			old.Creds.RegistrationNonce = world.RandBytes(nodeenrollment.NonceSize)
			old.Nonce = old.Creds.RegistrationNonce
			newInfo, err := cryptFlowEnroll(s, old)
			if err != nil {
				r.Count("flows_second_enrollment_refused", 1)
				return
			}
			r.Eval(engine.J(cs), true)
			// the new agreement works
			env2, err := nodeenrollment.EncryptMessage(e.ctx, msg, newInfo)
			got2 := cryptNewMsg("FetchNodeCredentialsRequest")
			if err != nil || nodeenrollment.DecryptMessage(e.ctx, env2, old.Creds, got2) != nil || !proto.Equal(got2, msg) {
				r.Violation("refused-with-matching-key:flows:current-after-re-enrollment", "a message under the key agreement of the latest enrollment does not decrypt to the original on the node", cs)
				return
			}
			// the message under the first agreement still opens through the recorded previous pair
			got := cryptNewMsg("FetchNodeCredentialsRequest")
			derr := nodeenrollment.DecryptMessage(e.ctx, env, holder.Creds, got)
			switch {
			case derr != nil:
				r.Violation("refused-with-matching-key:flows:recorded-previous-pair", fmt.Sprintf("a message the server encrypted under the pair the node has recorded as its previous one no longer decrypts after the old credentials object handled another fetch response (%s): %v", variant, derr), cs)
			case !proto.Equal(got, msg):
				r.Violation("different-plaintext:flows:recorded-previous-pair", "decryption through the recorded previous pair returned a different message", cs)
			default:
				r.Count("flows_previous_pair_still_opens:"+variant, 1)
			}
			// last: the node is handed an answer that names another server key and cannot be opened. It is
			// refused, and what the node has in storage is what it stored: loaded again, it still derives the
			// secret the server derives for this agreement (the in-memory object is not judged)
			bad := &types.FetchNodeCredentialsResponse{ServerEncryptionPublicKeyBytes: world.NewX25519().Pub, ServerEncryptionPublicKeyType: types.KEYTYPE_X25519, EncryptedNodeCredentials: world.RandBytes(96)}
			if _, herr := old.Handle(bad); herr == nil {
				r.Count("flows_unopenable_answer_accepted(not judged here)", 1)
				return
			}
			stored, lerr := old.Stored()
			if lerr != nil {
				r.Broken("crypt flows: stored credentials of the node cannot be loaded: " + lerr.Error())
				return
			}
			got3 := cryptNewMsg("FetchNodeCredentialsRequest")
			env3, err := nodeenrollment.EncryptMessage(e.ctx, msg, newInfo)
			switch derr := error(nil); {
			case err != nil:
				r.Broken("crypt flows: encrypt under the latest agreement: " + err.Error())
			default:
				if derr = nodeenrollment.DecryptMessage(e.ctx, env3, stored, got3); derr != nil {
					r.Violation("agree:secret-differs:stored-credentials-after-refused-answer", fmt.Sprintf("after the node refused an answer naming another server key, the credentials it has in storage no longer derive the server's secret for this key agreement: %v", derr), cs)
				} else if !proto.Equal(got3, msg) {
					r.Violation("different-plaintext:flows:stored-credentials-after-refused-answer", "decryption with the stored credentials returned a different message", cs)
				} else {
					r.Count("flows_stored_credentials_agree_after_refused_answer", 1)
				}
			}
		})
		if p != nil {
			if f := engine.LibraryFrame(st); f != "" {
				r.Violation("panic:"+f, fmt.Sprintf("panic in the flows part: %v", p), cs)
			} else {
				r.Broken(fmt.Sprintf("crypt flows: harness panic: %v\n%s", p, st))
			}
		}
	})
}

// cryptSmallOrder: key sources whose recorded peer public key is a small-order point of curve25519 (a record an
// attacker on the path of a fetch response, or anyone with write access to one field, can produce). Such a point
// takes every private key to the same, publicly known value, so nothing may be derived from it: two key sources
// with unrelated private keys must not open each other's messages, and a message sealed by somebody who has no
// key at all (AES-GCM under 32 zero bytes) must not open. The unchanged tree refuses to derive a key (crypto/ecdh
// reports the low-order point).
func cryptSmallOrder(e *cryptEnv) {
	r := e.c.R
	points := [][]byte{
		make([]byte, 32),
		append([]byte{1}, make([]byte, 31)...),
		{0xe0, 0xeb, 0x7a, 0x7c, 0x3b, 0x41, 0xb8, 0xae, 0x16, 0x56, 0xe3, 0xfa, 0xf1, 0x9f, 0xc4, 0x6a, 0xda, 0x09, 0x8d, 0xeb, 0x9c, 0x32, 0xb1, 0xfd, 0x86, 0x62, 0x05, 0x16, 0x5f, 0x49, 0xb8, 0x00},
		{0x5f, 0x9c, 0x95, 0xbc, 0xa3, 0x50, 0x8c, 0x24, 0xb1, 0xd0, 0xb1, 0x55, 0x9c, 0x83, 0xef, 0x5b, 0x04, 0x44, 0x5c, 0xc4, 0x58, 0x1c, 0x8e, 0x86, 0xd8, 0x22, 0x4e, 0xdd, 0xd0, 0x9f, 0x11, 0x57},
		append(append([]byte{0xec}, bytesOf(0xff, 30)...), 0x7f),
	}
	k := world.NewKeys()
	msg := cryptMsg("FetchNodeCredentialsRequest", "rand", 4242)
	for pi, pt := range points {
		for _, side := range []string{"server-record", "node-credentials"} {
			cs := cryptCase{Kind: "small-order-peer-key", Sender: fmt.Sprintf("%s, point #%d", side, pi), Ct: pi}
			mk := func() nodeenrollment.X25519KeyProducer {
				priv := world.NewX25519().Priv
				if side == "server-record" {
					return &types.NodeInformation{Id: k.KeyID, CertificatePublicKeyPkix: k.Pkix, CertificatePublicKeyType: types.KEYTYPE_ED25519,
						EncryptionPublicKeyBytes: pt, EncryptionPublicKeyType: types.KEYTYPE_X25519,
						ServerEncryptionPrivateKeyBytes: priv, ServerEncryptionPrivateKeyType: types.KEYTYPE_X25519}
				}
				return &types.NodeCredentials{Id: string(nodeenrollment.CurrentId), CertificatePublicKeyPkix: k.Pkix, CertificatePrivateKeyPkcs8: k.Pkcs8, CertificatePrivateKeyType: types.KEYTYPE_ED25519,
					EncryptionPrivateKeyBytes: priv, EncryptionPrivateKeyType: types.KEYTYPE_X25519,
					ServerEncryptionPublicKeyBytes: pt, ServerEncryptionPublicKeyType: types.KEYTYPE_X25519}
			}
			a, b := mk(), mk()
			var env []byte
			var eerr error
			p, st := engine.Guard(func() { env, eerr = nodeenrollment.EncryptMessage(e.ctx, msg, a) })
			r.Eval(engine.J(cs), true)
			if p != nil {
				r.Violation("panic:"+engine.LibraryFrame(st), fmt.Sprintf("EncryptMessage panicked on a key source with a small-order peer key: %v", p), cs)
				continue
			}
			if eerr != nil || len(env) == 0 {
				r.Count("small_order:no_key_derived", 1)
				continue
			}
			got := cryptNewMsg("FetchNodeCredentialsRequest")
			var derr error
			p, st = engine.Guard(func() { derr = nodeenrollment.DecryptMessage(e.ctx, env, b, got) })
			switch {
			case p != nil:
				r.Violation("panic:"+engine.LibraryFrame(st), fmt.Sprintf("DecryptMessage panicked on a key source with a small-order peer key: %v", p), cs)
			case derr == nil:
				r.Violation("opened-with-other-key:small-order-peer-key", fmt.Sprintf("two key sources (%s) with unrelated private keys and the same small-order peer public key (point #%d) open each other's messages: the derived secret depends on no private key", side, pi), cs)
			default:
				r.Count("small_order:other_private_key_refused", 1)
			}
		}
	}
	r.Require("small_order:no_key_derived", 1)
}

func bytesOf(b byte, n int) []byte {
	out := make([]byte, n)
	for i := range out {
		out[i] = b
	}
	return out
}
