//go:build verif

package engines

import (
	"crypto/x509"
	"fmt"
	"time"

	"github.com/hashicorp/nodeenrollment"
	"github.com/hashicorp/nodeenrollment/protocol"
	"github.com/hashicorp/nodeenrollment/types"
	"google.golang.org/protobuf/types/known/timestamppb"

	"verifharness/engine"
	"verifharness/world"
)

// continuity_expired.go : the state every node is in for part of each cycle when the server rotates slowly (but
// within the bound): of its two chains the older one has run out - its root was rotated out - and the other is
// valid and issued by the server's current root. The credentials are what the node has in storage; a real
// protocol.Dial must connect with the valid chain. The expired chain is materialised (a leaf with a past window
// under a root the server no longer has); everything else is an honest enrollment.
func runContExpiredChainDial(c *engine.Ctx, seq int) {
	r := c.R
	s := world.MustServer(world.ServerCfg{Backend: []string{world.Inmem, world.File}[seq%2], StorageWrap: seq%3 == 0})
	defer s.Close()
	er, err := world.Enroll(s, world.FlowAuthorize, seq%2 == 1, nil, nil, nil)
	if err != nil {
		r.Broken("continuity expired chain: enroll: " + err.Error())
		return
	}
	n := er.Node
	roots, err := s.Roots()
	if err != nil || len(n.Creds.CertificateBundles) != 2 {
		r.Broken(fmt.Sprintf("continuity expired chain: roots / bundles: %v, %d bundles", err, len(n.Creds.CertificateBundles)))
		return
	}
	now := time.Now()
	old := world.NewKeys()
	oldDER := world.MintRootDER(old, now.Add(-30*24*time.Hour), now.Add(-time.Hour))
	oldCA := world.ParseCert(oldDER)
	lnb, lna := now.Add(-29*24*time.Hour), now.Add(-time.Hour)
	leaf := world.MintLeaf(oldCA, old.Priv, n.K.Pub, world.LeafSpec{SubjectKeyID: n.K.Pkix, CommonName: n.K.KeyID, DNSNames: []string{n.K.KeyID, nodeenrollment.CommonDnsName}, EKU: []x509.ExtKeyUsage{x509.ExtKeyUsageClientAuth}, NotBefore: lnb, NotAfter: lna})
	expired := &types.CertificateBundle{CertificateDer: leaf, CaCertificateDer: oldDER, CertificateNotBefore: timestamppb.New(lnb), CertificateNotAfter: timestamppb.New(lna)}
	// keep the chain issued by the server's current root, replace the other; the expired one first or last
	var keep *types.CertificateBundle
	for _, b := range n.Creds.CertificateBundles {
		if ca := world.ParseCert(b.CaCertificateDer); ca != nil && string(ca.RawSubjectPublicKeyInfo) == string(roots.Current.PublicKeyPkix) {
			keep = b
		}
	}
	if keep == nil {
		r.Broken("continuity expired chain: no chain from the current root among the node's bundles")
		return
	}
	if seq%2 == 0 {
		n.Creds.CertificateBundles = []*types.CertificateBundle{expired, keep}
	} else {
		n.Creds.CertificateBundles = []*types.CertificateBundle{keep, expired}
	}
	if err := n.Creds.Store(n.Ctx, n.Store, n.NodeOpts()...); err != nil {
		r.Broken("continuity expired chain: store node credentials: " + err.Error())
		return
	}
	lw, err := world.NewLW(s, world.LWCfg{})
	if err != nil {
		r.Broken(err.Error())
		return
	}
	defer lw.Close()
	desc := map[string]any{"kind": "expired-chain-dial", "seq": seq}
	r.Eval(engine.J(desc), true)
	conn, derr := protocol.Dial(s.Ctx, n.Store, lw.Addr, n.NodeOpts()...)
	if derr != nil {
		r.Violation("dial-failed-although-chain-valid:older-chain-expired", "the node holds an expired chain from a root the server has rotated out and a valid chain from the server's current root; a real protocol.Dial with the credentials in its storage failed: "+derr.Error(), desc)
		return
	}
	defer conn.Close()
	rec, werr := lw.Wait(conn.LocalAddr().String())
	if werr != nil {
		r.Inconclusive("watchdog waiting for the server side of a dial")
		return
	}
	if !rec.Authenticated() {
		r.Violation("dial-failed-although-chain-valid:older-chain-expired", fmt.Sprintf("the server did not authenticate a node that holds a valid chain from its current root next to an expired one (accept error: %v)", rec.AcceptErr), desc)
		return
	}
	if rec.Conn != nil {
		rec.Conn.Close()
	}
	r.Count("expired_chain_dials_succeeded", 1)
}
