package engines

// C20 — ALPN chunk encoding round-trips every payload that fits a ClientHello.
//
// Real code: tls.BreakIntoNextProtos / tls.CombineFromNextProtos, plus one real
// crypto/tls handshake per prefix that carries the largest payload.

import (
	"crypto/tls"
	"encoding/json"
	"fmt"
	"math/rand"
	"net"
	"reflect"
	"sort"
	"strings"
	"sync/atomic"

	"github.com/hashicorp/nodeenrollment"
	nodetls "github.com/hashicorp/nodeenrollment/tls"

	"verifharness/engine"
)

func init() {
	engine.Register(&engine.Spec{Prop: "C20", Engine: "chunks", Level: "exploration", Fn: runChunks})
}

// alpnBudget is the bound on Σ(1+len(entry)) used as "fits a ClientHello":
// crypto/tls caps a handshake message at 65536 bytes and the ALPN extension at
// 65535; the remaining ClientHello fields need a few hundred bytes.
const alpnBudget = 65000

type chunkCase struct {
	Prefix  string `json:"prefix"`
	Length  int    `json:"length"`
	Content string `json:"content"` // b64 | bytes | digits
	CSeed   int64  `json:"content_seed"`
	Foreign bool   `json:"foreign"`
	Malform int    `json:"malformed_kind"` // 0 none; >0 malformed entries mixed in
}

var b64alpha = "ABCDEFGHIJKLMNOPQRSTUVWXYZabcdefghijklmnopqrstuvwxyz0123456789+/"

func chunkContent(c chunkCase) string {
	rng := rand.New(rand.NewSource(c.CSeed))
	b := make([]byte, c.Length)
	switch c.Content {
	case "b64":
		for i := range b {
			b[i] = b64alpha[rng.Intn(64)]
		}
	case "digits":
		// hostile for a decoder that strips "digits then dash": payload made of digits and dashes
		al := "0123456789-"
		for i := range b {
			b[i] = al[rng.Intn(len(al))]
		}
	default:
		rng.Read(b)
	}
	return string(b)
}

func digits(i int) int {
	// Sprintf("%02d")
	switch {
	case i < 100:
		return 2
	case i < 1000:
		return 3
	case i < 10000:
		return 4
	}
	return 5
}

// alpnSize is the harness's own model of the wire size of the chunk list
func alpnSize(prefixLen, l int) int {
	m := 240 - prefixLen
	n := (l + m - 1) / m
	sz := 0
	for i := 0; i < n; i++ {
		cl := m
		if i == n-1 {
			cl = l - m*(n-1)
		}
		sz += 1 + prefixLen + digits(i) + 1 + cl
	}
	return sz
}

func maxLen(prefixLen int) int {
	lo, hi := 1, 70000
	for lo < hi {
		mid := (lo + hi + 1) / 2
		if alpnSize(prefixLen, mid) <= alpnBudget {
			lo = mid
		} else {
			hi = mid - 1
		}
	}
	return lo
}

var foreignPool = []string{"h2", "http/1.1", "grpc-exp", "a", "00-zz", "v1-nodee-", "v1-nodee-certificate-preference-abc-def", "x-123-", "-", "99-"}

func malformedEntries(prefix string, kind int, rng *rand.Rand) []string {
	switch kind {
	case 1:
		return []string{prefix}
	case 2:
		return []string{prefix + "0"}
	case 3:
		return []string{prefix + "00"}
	case 4:
		return []string{prefix + "abcdef"} // no dash, non-digits
	case 5:
		return []string{prefix + "-", prefix + "-x"}
	case 6:
		return []string{prefix + "1", prefix, prefix + "12", prefix + "zz-q"}
	case 7:
		b := make([]byte, rng.Intn(4))
		rng.Read(b)
		return []string{prefix + string(b)}
	// well-formed headers whose numbers do not fit the list
	case 8:
		return []string{prefix + "01-AAAA"} // number equals the number of entries
	case 9:
		return []string{prefix + "05-AAAA", prefix + "07-BB"}
	case 10:
		return []string{prefix + "00-AA", prefix + "00-BB", prefix + "00-CC"}
	case 11:
		return []string{prefix + "01-BB", prefix + "02-CC"} // first chunk missing
	case 12:
		return []string{prefix + "99999999999999999999999-AA", prefix + "4294967296-B", prefix + "9223372036854775807-C"}
	case 13:
		return []string{prefix + "02-CC", prefix + "01-BB", prefix + "00-AA"} // reversed
	case 14:
		return []string{prefix + "00-", prefix + "01-", prefix + "03-x"}
	}
	return nil
}

func runChunkCase(c *engine.Ctx, cc chunkCase) {
	r := c.R
	desc := engine.J(cc)
	v := chunkContent(cc)
	var entries []string
	var err error
	if p, st := engine.Guard(func() { entries, err = nodetls.BreakIntoNextProtos(cc.Prefix, v) }); p != nil {
		r.Eval(desc, true)
		r.Violation("panic:break:"+engine.LibraryFrame(st), fmt.Sprintf("BreakIntoNextProtos panicked: %v", p), cc)
		return
	}
	if err != nil {
		r.Eval(desc, true)
		r.Violation("break-error", fmt.Sprintf("BreakIntoNextProtos refused a payload of length %d: %v", cc.Length, err), cc)
		return
	}
	wire := 0
	for _, e := range entries {
		wire += 1 + len(e)
		if !strings.HasPrefix(e, cc.Prefix) {
			r.Violation("entry-without-prefix", fmt.Sprintf("entry %q lacks prefix", e), cc)
		}
		if len(e) > 255 || len(e) == 0 {
			r.Violation("entry-too-long", fmt.Sprintf("entry of %d bytes (payload %d)", len(e), cc.Length), cc)
		}
	}
	if wire != alpnSize(len(cc.Prefix), cc.Length) {
		// not a property violation by itself, but the harness model of "fits" would be off
		r.Count("wire_size_differs_from_model", 1)
	}
	list := entries
	rng := rand.New(rand.NewSource(cc.CSeed ^ 0x5bd1e995))
	if cc.Foreign {
		list = make([]string, 0, len(entries)+8)
		nf := 1 + rng.Intn(6)
		pos := make([]int, nf)
		for i := range pos {
			pos[i] = rng.Intn(len(entries) + 1)
		}
		sort.Ints(pos)
		pi := 0
		for i := 0; i <= len(entries); i++ {
			for pi < len(pos) && pos[pi] == i {
				f := foreignPool[rng.Intn(len(foreignPool))]
				if rng.Intn(3) == 0 {
					// unrelated names that merely contain the prefix somewhere after their first byte
					f = []string{"x-" + cc.Prefix + "00-ZZZZ", "proxy/" + cc.Prefix, "alt:" + cc.Prefix + "v2", "-" + cc.Prefix + "01-"}[rng.Intn(4)]
				}
				list = append(list, f)
				pi++
			}
			if i < len(entries) {
				list = append(list, entries[i])
			}
		}
		r.Count("with_foreign_entries", 1)
	}
	if cc.Malform > 0 {
		// malformed entries: only "no crash" is claimed
		mal := malformedEntries(cc.Prefix, cc.Malform, rng)
		mixed := append(append([]string{}, mal...), list...)
		mixed = append(mixed, mal...)
		engine.LogInput("C20 combine malformed %s", desc)
		if p, st := engine.Guard(func() { _, _ = nodetls.CombineFromNextProtos(cc.Prefix, mixed) }); p != nil {
			r.Eval(desc, true)
			r.Violation("panic:combine:"+engine.LibraryFrame(st), fmt.Sprintf("CombineFromNextProtos panicked on malformed entries %q: %v", mal, p), cc)
			return
		}
		if p, st := engine.Guard(func() { _, _ = nodetls.CombineFromNextProtos(cc.Prefix, mal) }); p != nil {
			r.Eval(desc, true)
			r.Violation("panic:combine:"+engine.LibraryFrame(st), fmt.Sprintf("CombineFromNextProtos panicked on malformed entries %q: %v", mal, p), cc)
			return
		}
		r.Count("malformed_lists_survived", 2)
	}
	var got string
	if p, st := engine.Guard(func() { got, err = nodetls.CombineFromNextProtos(cc.Prefix, list) }); p != nil {
		r.Eval(desc, true)
		r.Violation("panic:combine:"+engine.LibraryFrame(st), fmt.Sprintf("CombineFromNextProtos panicked: %v", p), cc)
		return
	}
	r.Eval(desc, true)
	if err != nil {
		r.Violation("combine-error", fmt.Sprintf("CombineFromNextProtos error for payload of length %d: %v", cc.Length, err), cc)
		return
	}
	if got != v {
		cls := "le100chunks"
		if len(entries) > 100 {
			cls = "gt100chunks"
		}
		r.Violation("roundtrip-mismatch:"+cls, fmt.Sprintf("round trip differs: payload length %d, %d chunks, got length %d", cc.Length, len(entries), len(got)), cc)
		return
	}
	r.Count("roundtrips_equal", 1)
	if len(entries) > 100 {
		r.Count("roundtrips_over_100_chunks", 1)
	}
}

// handshakeCarries performs a real TLS handshake whose ClientHello carries the
// entries and checks that the server callback sees exactly that list
func handshakeCarries(entries []string) (bool, error) {
	cl, sv := net.Pipe()
	defer cl.Close()
	defer sv.Close()
	var seen atomic.Value
	done := make(chan struct{})
	go func() {
		defer close(done)
		s := tls.Server(sv, &tls.Config{GetConfigForClient: func(h *tls.ClientHelloInfo) (*tls.Config, error) {
			seen.Store(append([]string{}, h.SupportedProtos...))
			return nil, fmt.Errorf("stop here")
		}})
		_ = s.Handshake()
		sv.Close()
	}()
	c := tls.Client(cl, &tls.Config{NextProtos: entries, InsecureSkipVerify: true, MinVersion: tls.VersionTLS13})
	herr := c.Handshake()
	cl.Close()
	<-done
	got, _ := seen.Load().([]string)
	if got == nil {
		return false, herr
	}
	return reflect.DeepEqual(got, entries), nil
}

func runChunks(c *engine.Ctx) engine.Result {
	r := c.R
	prefixes := []string{nodeenrollment.FetchNodeCredsNextProtoV1Prefix, nodeenrollment.AuthenticateNodeNextProtoV1Prefix}
	res := engine.Result{
		Rule: "case = (prefix, payload length, content class b64|bytes|digits, foreign entries y/n, malformed kind); lengths enumerated as stated in 'lengths'; non-trivial = Break succeeded and Combine's result was compared with the payload; distinct by case descriptor. Second part: (request kind, number of chunks, place of the certificate-preference entry, place and kind of unrelated names) sent to a real intercepting listener; the request handed to the listener's fetch / generate function is compared with the one that was split",
		Assumptions: []string{
			fmt.Sprintf("'fits a ClientHello' is taken as sum(1+len(entry)) <= %d, validated by a real crypto/tls handshake carrying the largest payload per prefix", alpnBudget),
			"content is random per length, not exhaustive",
		},
	}
	if c.Replay != nil && strings.Contains(string(c.Replay), `"layout"`) {
		runChunksThroughListener(c) // the layouts are few; the replay re-runs all of them
		return res
	}
	if c.Replay != nil && strings.Contains(string(c.Replay), `"sequence"`) {
		runChunkSequences(c) // sequences are regenerated from the seed; the replay re-runs them
		return res
	}
	if c.Replay != nil {
		var cc chunkCase
		if err := json.Unmarshal(c.Replay, &cc); err != nil {
			r.Broken("bad replay case: " + err.Error())
			return res
		}
		runChunkCase(c, cc)
		return res
	}

	var cases []chunkCase
	rng := c.Rng("chunks")
	lengthsInfo := map[string]any{}
	for _, p := range prefixes {
		m := 240 - len(p)
		lmax := maxLen(len(p))
		set := map[int]bool{}
		if c.Quick() {
			for l := 1; l <= 3000 && l <= lmax; l++ {
				set[l] = true
			}
			for k := 1; k*m-1 <= lmax; k++ {
				for _, d := range []int{-1, 0, 1} {
					if l := k*m + d; l >= 1 && l <= lmax {
						set[l] = true
					}
				}
			}
			for i := 0; i < 500; i++ {
				set[1+rng.Intn(lmax)] = true
			}
			set[lmax] = true
			set[lmax-1] = true
		} else {
			for l := 1; l <= lmax; l++ {
				set[l] = true
			}
		}
		ls := make([]int, 0, len(set))
		for l := range set {
			ls = append(ls, l)
		}
		sort.Ints(ls)
		lengthsInfo[p] = map[string]any{"max_length": lmax, "chunk_payload": m, "lengths_run": len(ls), "all_lengths": !c.Quick()}
		for _, l := range ls {
			content := []string{"b64", "bytes", "digits"}[rng.Intn(3)]
			if l%2 == 0 {
				content = "b64"
			}
			cc := chunkCase{Prefix: p, Length: l, Content: content, CSeed: rng.Int63(), Foreign: rng.Intn(3) == 0}
			if rng.Intn(8) == 0 {
				cc.Malform = 1 + rng.Intn(14)
			}
			cases = append(cases, cc)
		}
		// malformed-only coverage: every kind with small payloads
		for k := 1; k <= 14; k++ {
			for _, l := range []int{1, 2, 3, m, m + 1, 5 * m} {
				cases = append(cases, chunkCase{Prefix: p, Length: l, Content: "b64", CSeed: rng.Int63(), Malform: k, Foreign: k%2 == 0})
			}
		}
	}
	r.Set("lengths", lengthsInfo)
	if len(cases) > 0 {
		r.Sample(cases[0])
		r.Sample(cases[len(cases)/2])
		r.Sample(cases[len(cases)-1])
	}

	// heavy lengths first would balance better, but order does not matter for the verdict
	engine.ForEach(len(cases), engine.Workers(), func(i int) { runChunkCase(c, cases[i]) })

	// validate the meaning of "fits" by real handshakes at the bound
	for _, p := range prefixes {
		lmax := maxLen(len(p))
		cc := chunkCase{Prefix: p, Length: lmax, Content: "b64", CSeed: 7}
		entries, err := nodetls.BreakIntoNextProtos(p, chunkContent(cc))
		if err != nil {
			continue
		}
		ok, herr := handshakeCarries(entries)
		if ok {
			r.Count("max_payload_carried_by_real_clienthello", 1)
		} else {
			r.Inconclusive(fmt.Sprintf("real ClientHello did not carry the %d entries of the largest payload (err=%v)", len(entries), herr))
		}
	}
	// the recombination as the listener performs it
	runChunkSequences(c)
	runChunksThroughListener(c)
	r.Require("listener_recombined_equal:auth", 100)
	r.Require("listener_recombined_equal:fetch", 100)
	r.Require("listener_recombined_equal:client-configs", 6)
	r.Require("listener_recombined_equal:auth-dial", 6)
	r.Require("listener_recombined_equal:dial-fetch", 5)
	r.Require("reported_list_recombines_equal:several_entries", 30)
	r.Require("max_payload_carried_by_real_clienthello", int64(len(prefixes)))
	r.Require("roundtrips_equal", 1)
	res.Exhaustive = !c.Quick()
	return res
}

// runChunkSequences: what one call recombines does not depend on what earlier calls were given. On one
// goroutine a list that is refused half-way (well-formed chunks followed by one with a broken header) is
// followed at once by a well-formed list of another payload, under the same or the other prefix; the second
// result must be exactly the second payload.
func runChunkSequences(c *engine.Ctx) {
	r := c.R
	rng := c.Rng("chunk-sequences")
	prefixes := []string{nodeenrollment.FetchNodeCredsNextProtoV1Prefix, nodeenrollment.AuthenticateNodeNextProtoV1Prefix}
	const letters = "ABCDEFGHIJKLMNOPQRSTUVWXYZabcdefghijklmnopqrstuvwxyz0123456789-_"
	mk := func(n int) string {
		b := make([]byte, n)
		for i := range b {
			b[i] = letters[rng.Intn(len(letters))]
		}
		return string(b)
	}
	n := c.Pick(400, 4000)
	for i := 0; i < n; i++ {
		p1, p2 := prefixes[i%2], prefixes[(i/2)%2]
		a, b := mk(300+rng.Intn(2000)), mk(1+rng.Intn(1500))
		la, err := nodetls.BreakIntoNextProtos(p1, a)
		if err != nil || len(la) < 2 {
			continue
		}
		bad := append([]string{}, la...)
		bad[len(bad)-1] = p1 + []string{"zz", "-x", "1x-y", ""}[i%4]
		var e1 error
		if p, st := engine.Guard(func() { _, e1 = nodetls.CombineFromNextProtos(p1, bad) }); p != nil {
			r.Violation("panic:combine:"+engine.LibraryFrame(st), fmt.Sprintf("CombineFromNextProtos panicked on a list with a broken last header: %v", p), map[string]any{"kind": "sequence", "i": i})
			return
		}
		if e1 == nil {
			r.Count("sequence:broken-list-not-refused(not asserted here)", 1)
		}
		lb, err := nodetls.BreakIntoNextProtos(p2, b)
		if err != nil {
			continue
		}
		var got string
		var e2 error
		if p, st := engine.Guard(func() { got, e2 = nodetls.CombineFromNextProtos(p2, lb) }); p != nil {
			r.Violation("panic:combine:"+engine.LibraryFrame(st), fmt.Sprintf("CombineFromNextProtos panicked: %v", p), map[string]any{"kind": "sequence", "i": i})
			return
		}
		r.Eval(fmt.Sprintf(`{"kind":"sequence","i":%d}`, i), true)
		if e2 != nil || got != b {
			r.Violation("combine-depends-on-earlier-call", fmt.Sprintf("a well-formed list of a %d-character payload recombined right after a list that was refused half-way (%d good chunks, then a broken header) came back as %d characters, error %v (the payload is a suffix of the result: %v)", len(b), len(la)-1, len(got), e2, strings.HasSuffix(got, b)), map[string]any{"kind": "sequence", "i": i, "first_prefix": p1, "second_prefix": p2, "first_payload": a, "second_payload": b})
			return
		}
		r.Count("sequence:second_call_unaffected_by_refused_first", 1)
	}
	r.Require("sequence:second_call_unaffected_by_refused_first", int64(n*9/10))
}
