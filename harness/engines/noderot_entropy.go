//go:build verif

package engines

import (
	"crypto/rand"
	"fmt"
	"testing/iotest"

	"github.com/hashicorp/nodeenrollment"
	"github.com/hashicorp/nodeenrollment/rotation"
	"github.com/hashicorp/nodeenrollment/types"

	"verifharness/engine"
	"verifharness/recstore"
	"verifharness/world"
)

// noderot_entropy.go : the server's entropy source is the application's (WithRandomReader): a pipe, an HSM or a
// network stream may hand out fewer bytes per Read than asked for, which io.Reader allows. A rotation on such a
// source is either refused with nothing registered (the unchanged tree: "wrong number of random bytes read") or
// honoured with a new record whose server encryption key is a full-strength key - never a key made of one
// random byte and zeros, which anyone holding the old shared key could enumerate.
func runNREntropy(c *engine.Ctx, seq int) {
	r := c.R
	s := world.MustServer(world.ServerCfg{Backend: []string{world.Inmem, world.File, world.StoreOnce}[seq%3], StorageWrap: seq%2 == 1})
	defer s.Close()
	er, err := world.Enroll(s, world.FlowAuthorize, false, nil, nil, nil)
	if err != nil {
		r.Broken("noderot entropy: enroll: " + err.Error())
		return
	}
	nn, err := world.NewNode(false, "")
	if err != nil {
		r.Broken("noderot entropy: new node: " + err.Error())
		return
	}
	fr, err := nn.FetchRequest()
	if err != nil {
		r.Broken("noderot entropy: request: " + err.Error())
		return
	}
	payload, err := nodeenrollment.EncryptMessage(s.Ctx, fr, er.Node.Creds)
	if err != nil {
		r.Broken("noderot entropy: encrypt: " + err.Error())
		return
	}
	req := &types.RotateNodeCredentialsRequest{CertificatePublicKeyPkix: er.Node.K.Pkix, EncryptedFetchNodeCredentialsRequest: payload}
	kind := []string{"one-byte-reads", "half-reads"}[seq%2]
	var src = iotest.OneByteReader(rand.Reader)
	if kind == "half-reads" {
		src = iotest.HalfReader(rand.Reader)
	}
	desc := fmt.Sprintf("entropy source with short reads (%s), back end %d, storage wrapper %v", kind, seq%3, seq%2 == 1)
	before := recstore.Snapshot(s.Ctx, s.Inner, nil)
	var resp *types.RotateNodeCredentialsResponse
	var rerr error
	if p, st := engine.Guard(func() {
		resp, rerr = rotation.RotateNodeCredentials(s.Ctx, s.Store, req, s.Opts(nodeenrollment.WithRandomReader(src))...)
	}); p != nil {
		r.Violation("panic:"+engine.LibraryFrame(st), fmt.Sprintf("RotateNodeCredentials panicked (%s): %v", desc, p), desc)
		return
	}
	r.Eval(desc, true)
	added, removed, changed := nrDiff(before, recstore.Snapshot(s.Ctx, s.Inner, nil))
	if rerr != nil || resp == nil {
		if len(added)+len(removed)+len(changed) > 0 {
			r.Violation("registered-by-refused-request:short-entropy-reads", fmt.Sprintf("a rotation refused on %s changed storage: added %v removed %v changed %v", desc, added, removed, changed), desc)
			return
		}
		r.Count("entropy:refused_nothing_registered", 1)
		return
	}
	ni, err := types.LoadNodeInformation(s.Ctx, s.Inner, nn.K.KeyID, s.StoreOpts()...)
	if err != nil {
		r.Violation("honored-without-record:short-entropy-reads", "rotation honoured on "+desc+" but the new key's record does not load: "+err.Error(), desc)
		return
	}
	zeros := 0
	for _, b := range ni.ServerEncryptionPrivateKeyBytes {
		if b == 0 {
			zeros++
		}
	}
	if len(ni.ServerEncryptionPrivateKeyBytes) != 32 || zeros > 8 {
		r.Violation("weak-server-key:short-entropy-reads", fmt.Sprintf("rotation honoured on %s and the new record's server encryption private key has %d bytes of which %d are zero: the reply and the credentials for the new key can be opened by enumerating the key", desc, len(ni.ServerEncryptionPrivateKeyBytes), zeros), desc)
		return
	}
	r.Count("entropy:honoured_with_full_key", 1)
}
