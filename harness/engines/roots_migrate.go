//go:build verif

package engines

import (
	"bytes"
	"context"
	"fmt"
	"sync"
	"sync/atomic"
	"time"

	"github.com/hashicorp/nodeenrollment"
	"github.com/hashicorp/nodeenrollment/rotation"
	"github.com/hashicorp/nodeenrollment/types"

	"verifharness/engine"
	"verifharness/world"
)

// roots_migrate.go : a server that wrote its roots before it had a storage wrapper and now passes one. While a
// rotation call replaces the roots, another component of the server reads them (LoadRootCertificates, through its
// own view of the same storage). Any write the reader makes to the roots record is held back until the rotation
// has returned and then let through: afterwards storage still has to hold what the rotation returned. On the
// unchanged tree the reader writes nothing and the schedule degenerates to read, rotate, compare.

type rootsReaderView struct {
	nodeenrollment.Storage
	mu      sync.Mutex
	parked  int
	arrived chan struct{}
	release chan struct{}
}

func (v *rootsReaderView) Store(ctx context.Context, m nodeenrollment.MessageWithId) error {
	if _, ok := m.(*types.RootCertificates); ok {
		v.mu.Lock()
		v.parked++
		first := v.parked == 1
		v.mu.Unlock()
		if first {
			close(v.arrived)
		}
		<-v.release
	}
	return v.Storage.Store(ctx, m)
}

type rootsMigrateCase struct {
	Kind    string `json:"kind"`
	Backend string `json:"backend"`
	Reinit  bool   `json:"rotation_reinitializes"`
	Seq     int    `json:"seq"`
}

func runRootsMigrate(c *engine.Ctx, mc rootsMigrateCase) {
	r := c.R
	s, err := world.NewServer(world.ServerCfg{Backend: mc.Backend})
	if err != nil {
		r.Broken("roots migrate: server world: " + err.Error())
		return
	}
	defer s.Close()
	sw := world.NewAead(fmt.Sprintf("late-wrapper-%d", mc.Seq))
	// written before any wrapper was configured; a short lifetime and a backdated start make the next call promote
	first, err := rotation.RotateRootCertificates(s.Ctx, s.Store, nodeenrollment.WithCertificateLifetime(2*time.Hour), nodeenrollment.WithNotBeforeClockSkew(-90*time.Minute))
	if err != nil || first == nil {
		r.Broken(fmt.Sprintf("roots migrate: first rotation: %v", err))
		return
	}
	view := &rootsReaderView{Storage: s.Store, arrived: make(chan struct{}), release: make(chan struct{})}
	type rd struct {
		roots *types.RootCertificates
		err   error
		p     any
	}
	rdDone := make(chan rd, 1)
	go func() {
		var o rd
		o.p, _ = engine.Guard(func() {
			o.roots, o.err = types.LoadRootCertificates(s.Ctx, view, nodeenrollment.WithStorageWrapper(sw))
		})
		rdDone <- o
	}()
	var reader rd
	readerEnded := false
	select {
	case <-view.arrived:
		r.Count("migrate:reader-tried-to-write-the-roots", 1)
	case reader = <-rdDone:
		readerEnded = true
	case <-time.After(60 * time.Second):
		r.Inconclusive("roots migrate: the reader neither ended nor reached a write within 60 s")
		close(view.release)
		return
	}
	opts := []nodeenrollment.Option{nodeenrollment.WithStorageWrapper(sw), nodeenrollment.WithCertificateLifetime(2 * time.Hour), nodeenrollment.WithNotBeforeClockSkew(-90 * time.Minute)}
	if mc.Reinit {
		opts = append(opts, nodeenrollment.WithReinitializeRoots(true))
	}
	var ret *types.RootCertificates
	var rerr error
	p, stack := engine.Guard(func() { ret, rerr = rotation.RotateRootCertificates(s.Ctx, s.Store, opts...) })
	close(view.release)
	if !readerEnded {
		select {
		case reader = <-rdDone:
		case <-time.After(60 * time.Second):
			r.Inconclusive("roots migrate: the reader did not end 60 s after its write was let through")
			return
		}
	}
	r.Eval(engine.J(mc), true)
	r.Count("migrate:histories", 1)
	if p != nil {
		r.Violation("panic:"+engine.LibraryFrame(stack), fmt.Sprintf("RotateRootCertificates panicked: %v", p), mc)
		return
	}
	if reader.p != nil {
		r.Violation("panic:reader", fmt.Sprintf("LoadRootCertificates panicked: %v", reader.p), mc)
		return
	}
	if rerr != nil || ret == nil || ret.Current == nil || ret.Next == nil {
		r.Violation("rotation-failed:after-wrapper-was-introduced", fmt.Sprintf("rotation with a newly configured storage wrapper over roots written without one failed: %v", rerr), mc)
		return
	}
	changed := !bytes.Equal(ret.Current.PublicKeyPkix, first.Current.PublicKeyPkix) || !bytes.Equal(ret.Next.PublicKeyPkix, first.Next.PublicKeyPkix)
	if changed {
		r.Count("migrate:rotation-replaced-a-root", 1)
	}
	stored, lerr := types.LoadRootCertificates(s.Ctx, s.Store, nodeenrollment.WithStorageWrapper(sw))
	if lerr != nil {
		r.Violation("returned-not-stored:concurrent-reader", "after a successful rotation with a reader of the roots at work the stored roots cannot be loaded: "+lerr.Error(), mc)
		return
	}
	if !bytes.Equal(stored.Current.GetPublicKeyPkix(), ret.Current.PublicKeyPkix) || !bytes.Equal(stored.Next.GetPublicKeyPkix(), ret.Next.PublicKeyPkix) ||
		!bytes.Equal(stored.Current.GetPrivateKeyPkcs8(), ret.Current.PrivateKeyPkcs8) || !bytes.Equal(stored.Next.GetPrivateKeyPkcs8(), ret.Next.PrivateKeyPkcs8) {
		was := "neither of the roots from before the call"
		if bytes.Equal(stored.Current.GetPublicKeyPkix(), first.Current.PublicKeyPkix) {
			was = "the current root from before the call"
		}
		r.Violation("returned-not-stored:concurrent-reader",
			fmt.Sprintf("RotateRootCertificates returned successfully (roots replaced: %v) while another component was reading the roots with LoadRootCertificates; once that reader had finished, storage holds as current %s and not the root set the rotation returned: a read of the roots wrote the roots", changed, was), mc)
		return
	}
	r.Count("migrate:returned_equals_stored", 1)
}

func runRootsMigrations(c *engine.Ctx) {
	var cases []rootsMigrateCase
	n := c.Pick(6, 24)
	for i := 0; i < n; i++ {
		be := []string{world.Inmem, world.File, world.Inmem}[i%3]
		cases = append(cases, rootsMigrateCase{Kind: "migrate", Backend: be, Reinit: i%2 == 1, Seq: i})
	}
	engine.ForEach(len(cases), engine.Workers(), func(i int) { runRootsMigrate(c, cases[i]) })
	ns := c.Pick(4, 16)
	engine.ForEach(ns, engine.Workers(), func(i int) { runRootsSlowLoad(c, i) })
	c.R.Require("slowload:current_valid_on_return", int64(ns*3/4))
}

// rootsSlowStore delays every load of the roots record while armed (a storage or key service that takes its time)
type rootsSlowStore struct {
	nodeenrollment.Storage
	armed atomic.Bool
	delay time.Duration
}

func (v *rootsSlowStore) Load(ctx context.Context, m nodeenrollment.MessageWithId) error {
	if _, ok := m.(*types.RootCertificates); ok && v.armed.Load() {
		time.Sleep(v.delay)
	}
	return v.Storage.Load(ctx, m)
}

// runRootsSlowLoad: the stored current root runs out, and the stored next root becomes valid, while the rotation
// call is waiting for its storage. Whatever instant the call judges by, "current is valid at that moment" is
// about the moment it returns: the unchanged tree reads the clock after the load, sees next valid and current
// expired, and promotes. The instants lie 2 - 3 s after the record is written and the load takes 5 s, so
// the expected outcome does not depend on how long anything else takes.
func runRootsSlowLoad(c *engine.Ctx, seq int) {
	r := c.R
	slow := &rootsSlowStore{delay: 5 * time.Second}
	s, err := world.NewServer(world.ServerCfg{Backend: []string{world.Inmem, world.File}[seq%2], Wrap: func(in nodeenrollment.Storage) nodeenrollment.Storage {
		slow.Storage = in
		return slow
	}})
	if err != nil {
		r.Broken("roots slow load: server world: " + err.Error())
		return
	}
	defer s.Close()
	mc := rootsMigrateCase{Kind: "slow-load", Backend: []string{world.Inmem, world.File}[seq%2], Seq: seq}
	ck, nk := world.NewKeys(), world.NewKeys()
	t := time.Now()
	if _, err := storeCrafted(s, ck, nk, t.Add(-time.Hour), t.Add(3*time.Second), t.Add(2*time.Second), t.Add(time.Hour)); err != nil {
		r.Broken("roots slow load: crafted roots: " + err.Error())
		return
	}
	slow.armed.Store(true)
	var ret *types.RootCertificates
	var rerr error
	p, stack := engine.Guard(func() {
		ret, rerr = rotation.RotateRootCertificates(s.Ctx, s.Store, nodeenrollment.WithCertificateLifetime(time.Hour))
	})
	back := time.Now()
	slow.armed.Store(false)
	r.Eval(engine.J(mc), true)
	r.Count("slowload:histories", 1)
	if p != nil {
		r.Violation("panic:"+engine.LibraryFrame(stack), fmt.Sprintf("RotateRootCertificates panicked: %v", p), mc)
		return
	}
	if rerr != nil || ret == nil || ret.Current == nil || ret.Next == nil {
		r.Violation("rotation-failed:slow-storage", fmt.Sprintf("rotation over a slow storage failed on a loadable state: %v", rerr), mc)
		return
	}
	nb, na := ret.Current.NotBefore.AsTime(), ret.Current.NotAfter.AsTime()
	if back.Before(nb) || back.After(na) {
		kept := bytes.Equal(ret.Current.PublicKeyPkix, ck.Pkix)
		r.Violation("current-not-valid-after-call:slow-storage", fmt.Sprintf("the stored current root ran out and the stored next root became valid while the call waited %v for its storage; the call returned successfully at %s with a current root valid %s .. %s (the stored current root kept: %v)", slow.delay, back.UTC().Format(time.RFC3339Nano), nb.Format(time.RFC3339Nano), na.Format(time.RFC3339Nano), kept), mc)
		return
	}
	r.Count("slowload:current_valid_on_return", 1)
}
