//go:build verif

package engines

import (
	"bytes"
	"context"
	"fmt"
	"sync"
	"time"

	"github.com/hashicorp/nodeenrollment"
	"github.com/hashicorp/nodeenrollment/rotation"
	"github.com/hashicorp/nodeenrollment/types"

	"verifharness/engine"
	"verifharness/world"
)

// roots_migrate.go : a server that wrote its roots before it had a storage wrapper and now passes one. While a
// rotation call replaces the roots, another component of the server reads them (LoadRootCertificates, through its
// own view of the same storage). Any write the reader makes to the roots record is held back until the rotation
// has returned and then let through: afterwards storage still has to hold what the rotation returned. On the
// unchanged tree the reader writes nothing and the schedule degenerates to read, rotate, compare.

type rootsReaderView struct {
	nodeenrollment.Storage
	mu      sync.Mutex
	parked  int
	arrived chan struct{}
	release chan struct{}
}

func (v *rootsReaderView) Store(ctx context.Context, m nodeenrollment.MessageWithId) error {
	if _, ok := m.(*types.RootCertificates); ok {
		v.mu.Lock()
		v.parked++
		first := v.parked == 1
		v.mu.Unlock()
		if first {
			close(v.arrived)
		}
		<-v.release
	}
	return v.Storage.Store(ctx, m)
}

type rootsMigrateCase struct {
	Kind    string `json:"kind"`
	Backend string `json:"backend"`
	Reinit  bool   `json:"rotation_reinitializes"`
	Seq     int    `json:"seq"`
}

func runRootsMigrate(c *engine.Ctx, mc rootsMigrateCase) {
	r := c.R
	s, err := world.NewServer(world.ServerCfg{Backend: mc.Backend})
	if err != nil {
		r.Broken("roots migrate: server world: " + err.Error())
		return
	}
	defer s.Close()
	sw := world.NewAead(fmt.Sprintf("late-wrapper-%d", mc.Seq))
	// written before any wrapper was configured; a short lifetime and a backdated start make the next call promote
	first, err := rotation.RotateRootCertificates(s.Ctx, s.Store, nodeenrollment.WithCertificateLifetime(2*time.Hour), nodeenrollment.WithNotBeforeClockSkew(-90*time.Minute))
	if err != nil || first == nil {
		r.Broken(fmt.Sprintf("roots migrate: first rotation: %v", err))
		return
	}
	view := &rootsReaderView{Storage: s.Store, arrived: make(chan struct{}), release: make(chan struct{})}
	type rd struct {
		roots *types.RootCertificates
		err   error
		p     any
	}
	rdDone := make(chan rd, 1)
	go func() {
		var o rd
		o.p, _ = engine.Guard(func() {
			o.roots, o.err = types.LoadRootCertificates(s.Ctx, view, nodeenrollment.WithStorageWrapper(sw))
		})
		rdDone <- o
	}()
	var reader rd
	readerEnded := false
	select {
	case <-view.arrived:
		r.Count("migrate:reader-tried-to-write-the-roots", 1)
	case reader = <-rdDone:
		readerEnded = true
	case <-time.After(60 * time.Second):
		r.Inconclusive("roots migrate: the reader neither ended nor reached a write within 60 s")
		close(view.release)
		return
	}
	opts := []nodeenrollment.Option{nodeenrollment.WithStorageWrapper(sw), nodeenrollment.WithCertificateLifetime(2 * time.Hour), nodeenrollment.WithNotBeforeClockSkew(-90 * time.Minute)}
	if mc.Reinit {
		opts = append(opts, nodeenrollment.WithReinitializeRoots(true))
	}
	var ret *types.RootCertificates
	var rerr error
	p, stack := engine.Guard(func() { ret, rerr = rotation.RotateRootCertificates(s.Ctx, s.Store, opts...) })
	close(view.release)
	if !readerEnded {
		select {
		case reader = <-rdDone:
		case <-time.After(60 * time.Second):
			r.Inconclusive("roots migrate: the reader did not end 60 s after its write was let through")
			return
		}
	}
	r.Eval(engine.J(mc), true)
	r.Count("migrate:histories", 1)
	if p != nil {
		r.Violation("panic:"+engine.LibraryFrame(stack), fmt.Sprintf("RotateRootCertificates panicked: %v", p), mc)
		return
	}
	if reader.p != nil {
		r.Violation("panic:reader", fmt.Sprintf("LoadRootCertificates panicked: %v", reader.p), mc)
		return
	}
	if rerr != nil || ret == nil || ret.Current == nil || ret.Next == nil {
		r.Violation("rotation-failed:after-wrapper-was-introduced", fmt.Sprintf("rotation with a newly configured storage wrapper over roots written without one failed: %v", rerr), mc)
		return
	}
	changed := !bytes.Equal(ret.Current.PublicKeyPkix, first.Current.PublicKeyPkix) || !bytes.Equal(ret.Next.PublicKeyPkix, first.Next.PublicKeyPkix)
	if changed {
		r.Count("migrate:rotation-replaced-a-root", 1)
	}
	stored, lerr := types.LoadRootCertificates(s.Ctx, s.Store, nodeenrollment.WithStorageWrapper(sw))
	if lerr != nil {
		r.Violation("returned-not-stored:concurrent-reader", "after a successful rotation with a reader of the roots at work the stored roots cannot be loaded: "+lerr.Error(), mc)
		return
	}
	if !bytes.Equal(stored.Current.GetPublicKeyPkix(), ret.Current.PublicKeyPkix) || !bytes.Equal(stored.Next.GetPublicKeyPkix(), ret.Next.PublicKeyPkix) ||
		!bytes.Equal(stored.Current.GetPrivateKeyPkcs8(), ret.Current.PrivateKeyPkcs8) || !bytes.Equal(stored.Next.GetPrivateKeyPkcs8(), ret.Next.PrivateKeyPkcs8) {
		was := "neither of the roots from before the call"
		if bytes.Equal(stored.Current.GetPublicKeyPkix(), first.Current.PublicKeyPkix) {
			was = "the current root from before the call"
		}
		r.Violation("returned-not-stored:concurrent-reader",
			fmt.Sprintf("RotateRootCertificates returned successfully (roots replaced: %v) while another component was reading the roots with LoadRootCertificates; once that reader had finished, storage holds as current %s and not the root set the rotation returned: a read of the roots wrote the roots", changed, was), mc)
		return
	}
	r.Count("migrate:returned_equals_stored", 1)
}

func runRootsMigrations(c *engine.Ctx) {
	var cases []rootsMigrateCase
	n := c.Pick(6, 24)
	for i := 0; i < n; i++ {
		be := []string{world.Inmem, world.File, world.Inmem}[i%3]
		cases = append(cases, rootsMigrateCase{Kind: "migrate", Backend: be, Reinit: i%2 == 1, Seq: i})
	}
	engine.ForEach(len(cases), engine.Workers(), func(i int) { runRootsMigrate(c, cases[i]) })
}
