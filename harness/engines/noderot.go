package engines

// C10 — node credential rotation is authenticated by the existing shared key.
//
// Every case builds a fresh server world with real enrollments (and, for the
// chain histories, real honest rotations), then submits one rotation request
// whose payload was encrypted by a key the harness chose. The oracle is the
// harness's own bookkeeping: which node credentials encrypted the payload,
// which records the lookup of the request returns, which of them carry a
// recorded previous key. Storage is compared byte for byte before / after.
// The reply is opened with an AES-GCM implementation of the harness (not with
// the library) under every key of the scenario.

import (
	"bytes"
	"context"
	"crypto/aes"
	"crypto/cipher"
	"crypto/ecdh"
	"encoding/json"
	"fmt"
	"hash/fnv"
	"math/rand"
	"sort"
	"strings"
	"time"

	wrapping "github.com/hashicorp/go-kms-wrapping/v2"
	"github.com/hashicorp/nodeenrollment"
	"github.com/hashicorp/nodeenrollment/registration"
	"github.com/hashicorp/nodeenrollment/rotation"
	"github.com/hashicorp/nodeenrollment/types"
	"google.golang.org/protobuf/proto"
	"google.golang.org/protobuf/types/known/structpb"
	"google.golang.org/protobuf/types/known/timestamppb"

	"verifharness/engine"
	"verifharness/recstore"
	"verifharness/world"
)

func init() {
	engine.Register(&engine.Spec{Prop: "C10", Engine: "noderot", Level: "exploration", Fn: runNodeRot})
}

// record codes used by Named / EncBy / Lookup: >= 0 index into the records of
// node ID "N" (0..Indep-1 enrolled independently, Indep.. the successors of
// record 0 produced by honest rotations, in order); -1 the record of another
// node (node ID "M"); -2 nothing registered (unregistered certificate key /
// unrelated fresh encryption pair)
type nrCase struct {
	Backend string `json:"backend"`                   // inmem | ordered (harness NodeIdLoader)
	Wrap    bool   `json:"storage_wrapper"`           //
	RegWrap bool   `json:"registration_wrapper"`      // the server passes a registration wrapper to the library
	NodeID  string `json:"node_id"`                   // request field: "" | "N" | "M" | "unknown"
	Indep   int    `json:"independent_records"`       // records enrolled independently under node ID N (>= 1)
	Chain   int    `json:"chain"`                     // honest rotations performed before the request, starting from record 0
	Prev    bool   `json:"previous_key_recorded"`     // the application recorded the previous encryption key on every chain record
	Lookup  []int  `json:"lookup"`                    // records (and their order) the loader returns for node ID N
	Named   int    `json:"named"`                     // record whose certificate key the request names
	EncBy   int    `json:"enc_by"`                    // record whose node credentials encrypted the payload
	Payload string `json:"payload"`                   // encrypted | plain | garbage | truncated | short-ct | ct-bitflip | ct-truncated
	Inner   string `json:"inner"`                     // honest | registered-self | registered-other | token-marshaled | token-real | bad-signature | expired | future | (well-signed, unusual) wrapped-info | rewrapped-info | wrapper-flow | enc-key-short | enc-key-low-order
	History string `json:"history"`                   // single | replay | replay-old
	Rewrap  string `json:"inner_rewrapped,omitempty"` // self-valid: the inner request additionally carries registration info re-sealed, correctly, by the requesting node itself
	Step    int    `json:"replay_step"`               // replay-old: which chain request is replayed
	Param   int    `json:"param"`                     // byte position / length selector of the mutation
	// NoState: the independent records were enrolled without application state (then "carrying over that record's state" means: none)
	NoState bool `json:"records_without_state,omitempty"`
	// CallerState: the application's rotation call carries a state option of its own (as a listener's option list may); the record's state, even if absent, wins
	CallerState bool `json:"rotation_call_carries_state_option,omitempty"`
	// BreakCurrent: before the request, the server encryption private key of every record the library will
	// consult is blanked in storage (a damaged record): no record's current shared key can be derived any
	// more, so nothing - a recorded previous key included - may authenticate a rotation
	BreakCurrent bool `json:"current_keys_unusable_in_storage,omitempty"`
}

const nrNone = -100

type nrKey struct {
	encPriv []byte
	peerPub []byte
	keyID   string
}

type nrRec struct {
	node  *world.Node
	state *structpb.Struct
	prev  int // record whose key is recorded as previous on this one, nrNone if none
}

type nrWorld struct {
	honestSeq int
	c         *engine.Ctx
	nc        nrCase
	s         *world.Server
	recs      []*nrRec
	other     *nrRec
	tokenIDs  []string
	chainReq  []*types.RotateNodeCredentialsRequest
	seq       int
	// the request being submitted (the witness stays the case descriptor)
	curPath   string
	curEncBy  int
	curLookup []int
	submits   int
	dirty     bool            // the last submit reported something
	callCtx   context.Context // context of the next rotation call when it is not the world's
}

func nrKeyOf(n *world.Node) nrKey {
	return nrKey{encPriv: n.Creds.EncryptionPrivateKeyBytes, peerPub: n.Creds.ServerEncryptionPublicKeyBytes, keyID: n.K.KeyID}
}

// nrOpen is the harness's own opener for the library's message envelope:
// marshaled BlobInfo, AES-256-GCM under the raw X25519 shared secret, nonce in
// front of the ciphertext, key ID as additional data
func nrOpen(ct []byte, k nrKey) ([]byte, bool) {
	if len(k.encPriv) == 0 || len(k.peerPub) == 0 {
		return nil, false
	}
	blob := new(wrapping.BlobInfo)
	if err := proto.Unmarshal(ct, blob); err != nil {
		return nil, false
	}
	priv, err := ecdh.X25519().NewPrivateKey(k.encPriv)
	if err != nil {
		return nil, false
	}
	pub, err := ecdh.X25519().NewPublicKey(k.peerPub)
	if err != nil {
		return nil, false
	}
	shared, err := priv.ECDH(pub)
	if err != nil {
		return nil, false
	}
	blk, err := aes.NewCipher(shared)
	if err != nil {
		return nil, false
	}
	gcm, err := cipher.NewGCM(blk)
	if err != nil {
		return nil, false
	}
	if len(blob.Ciphertext) < gcm.NonceSize() {
		return nil, false
	}
	var aad []byte
	if k.keyID != "" {
		aad = []byte(k.keyID)
	}
	pt, err := gcm.Open(nil, blob.Ciphertext[:gcm.NonceSize()], blob.Ciphertext[gcm.NonceSize():], aad)
	if err != nil {
		return nil, false
	}
	return pt, true
}

func nrHandCreds(pkix []byte, encPriv, serverPub []byte) *types.NodeCredentials {
	return &types.NodeCredentials{
		CertificatePublicKeyPkix:       pkix,
		CertificatePrivateKeyType:      types.KEYTYPE_ED25519,
		EncryptionPrivateKeyBytes:      encPriv,
		EncryptionPrivateKeyType:       types.KEYTYPE_X25519,
		ServerEncryptionPublicKeyBytes: serverPub,
		ServerEncryptionPublicKeyType:  types.KEYTYPE_X25519,
	}
}

func (w *nrWorld) uniqueState(tag string) *structpb.Struct {
	w.seq++
	st, err := structpb.NewStruct(map[string]any{"owner": fmt.Sprintf("%s-%d-%x", tag, w.seq, world.RandBytes(6)), "n": float64(w.seq), "l": []any{"x", true}})
	if err != nil {
		panic(err)
	}
	return st
}

func (w *nrWorld) rec(code int) *nrRec {
	switch {
	case code >= 0 && code < len(w.recs):
		return w.recs[code]
	case code == -1:
		return w.other
	}
	return nil
}

// prevOf: record whose key is recorded as the previous key of record code
func (w *nrWorld) prevOf(code int) int {
	if r := w.rec(code); r != nil {
		return r.prev
	}
	return nrNone
}

func (w *nrWorld) path() string {
	switch {
	case w.nc.NodeID == "":
		return "keyid"
	case w.nc.Backend == world.Ordered:
		return "nodeid"
	}
	return "nodeid-on-plain-storage"
}

// lookupSet is what the request's identification returns, by the harness's books
func (w *nrWorld) lookupSet(named int) []int {
	if w.path() == "nodeid" {
		switch w.nc.NodeID {
		case "N":
			return append([]int{}, w.nc.Lookup...)
		case "M":
			return []int{-1}
		}
		return nil
	}
	if w.rec(named) != nil {
		return []int{named}
	}
	return nil
}

func (w *nrWorld) candidates(lookup []int, encBy int) []int {
	var out []int
	if w.rec(encBy) == nil {
		return nil
	}
	for _, r := range lookup {
		if r == encBy || w.prevOf(r) == encBy {
			out = append(out, r)
		}
	}
	return out
}

func (w *nrWorld) snapshot() map[string][]byte {
	return recstore.Snapshot(w.s.Ctx, w.s.Inner, w.tokenIDs)
}

func nrDiff(before, after map[string][]byte) (added, removed, changed []string) {
	for k, b := range before {
		a, ok := after[k]
		switch {
		case !ok:
			removed = append(removed, k)
		case !bytes.Equal(a, b):
			changed = append(changed, k)
		}
	}
	for k := range after {
		if _, ok := before[k]; !ok {
			added = append(added, k)
		}
	}
	sort.Strings(added)
	sort.Strings(removed)
	sort.Strings(changed)
	return
}

// names describes storage entries by their role in the scenario (the IDs
// themselves are random per run)
func (w *nrWorld) names(ids []string, newNode *world.Node) string {
	var out []string
	for _, id := range ids {
		typ, key, _ := strings.Cut(id, "/")
		role := "<unknown key>"
		switch {
		case typ == "ServerLedActivationToken":
			role = "<unused token>"
		case typ == "RootCertificates":
			role = key
		case newNode != nil && key == newNode.K.KeyID:
			role = "<new key>"
		case key == w.other.node.K.KeyID:
			role = "<other node>"
		default:
			for i, rec := range w.recs {
				if rec.node.K.KeyID == key {
					role = fmt.Sprintf("<record %d>", i)
				}
			}
		}
		out = append(out, typ+"/"+role)
	}
	return strings.Join(out, ",")
}

// submit sends one rotation request and checks it against the expectation.
// cands are the records of the lookup result under which the payload decrypts
// (by the harness's books); expect is "honor" (has to be honoured), "refuse"
// (has to be refused) or "either" (the statement does not fix the answer, but
// whichever it is has to be clean: a success with all its consequences or a
// refusal without any); reason names the class of a refusal for the finding
// key. Returns whether the library honoured it; w.dirty tells whether anything
// was reported.
func (w *nrWorld) submit(step string, req *types.RotateNodeCredentialsRequest, newNode *world.Node, cands []int, expect string, reason string) bool {
	r := w.c.R
	nc := w.nc
	path := w.curPath
	w.dirty = false
	viol := func(key, what string) {
		w.dirty = true
		r.Violation(key, what, nc)
	}
	before := w.snapshot()
	var resp *types.RotateNodeCredentialsResponse
	var err error
	callOpts := w.s.Opts()
	if nc.CallerState {
		callOpts = w.s.Opts(nodeenrollment.WithState(w.uniqueState("callers-own")))
		r.Count("rotation_calls_carrying_a_state_option", 1)
	}
	if w.submits++; w.submits%3 == 0 {
		// the caller's option list has optional members that are off (nil entries, which the library skips): in
		// front of, between and behind the others
		withNils := []nodeenrollment.Option{nil}
		for _, o := range callOpts {
			withNils = append(withNils, o, nil)
		}
		callOpts = withNils
		r.Count("rotation_calls_with_nil_entries_in_the_option_list", 1)
	}
	cctx := w.s.Ctx
	if w.callCtx != nil {
		cctx = w.callCtx
	}
	if p, st := engine.Guard(func() { resp, err = rotation.RotateNodeCredentials(cctx, w.s.Store, req, callOpts...) }); p != nil {
		viol("panic:"+engine.LibraryFrame(st), fmt.Sprintf("RotateNodeCredentials panicked (%s, %s): %v", step, reason, p))
		return false
	}
	after := w.snapshot()
	added, removed, changed := nrDiff(before, after)
	storageSame := len(added)+len(removed)+len(changed) == 0
	nrShort := func(ids []string) string { return w.names(ids, newNode) }

	if err != nil && resp != nil {
		viol("error-with-response", "RotateNodeCredentials returned an error together with a response")
	}

	if expect == "refuse" || (expect == "either" && err != nil) {
		if err == nil {
			viol("honored:"+reason+",path="+path, fmt.Sprintf("rotation honoured although it must be refused (%s; step %s; encrypted by %d, lookup result %v); storage added [%s] changed [%s]", reason, step, w.curEncBy, w.curLookup, nrShort(added), nrShort(changed)))
			if len(changed)+len(removed) > 0 {
				viol("existing-record-changed-by-wrongly-honored-request:"+reason, fmt.Sprintf("wrongly honoured rotation request (%s; step %s; path %s) overwrote / removed existing entries: removed [%s] changed [%s]", reason, step, path, nrShort(removed), nrShort(changed)))
			}
			return true
		}
		if !storageSame {
			key := "registered-by-refused-request:" + reason
			if len(changed)+len(removed) > 0 {
				key = "existing-record-changed-by-refused-request:" + reason
			}
			viol(key, fmt.Sprintf("rotation request answered with an error (%s; step %s; path %s) changed storage: added [%s] removed [%s] changed [%s]; error: %.160s", reason, step, path, nrShort(added), nrShort(removed), nrShort(changed), err.Error()))
			return false
		}
		r.Count("refused_storage_unchanged", 1)
		r.Count("refused:"+reason, 1)
		if len(w.tokenIDs) > 0 {
			present := true
			for _, id := range w.tokenIDs {
				if _, ok := after["ServerLedActivationToken/"+id]; !ok {
					present = false
				}
			}
			if present {
				r.Count("token_still_present_after_refusal", 1)
			} else {
				r.Broken("noderot: token record not visible in the snapshot")
			}
		}
		return false
	}

	// ---- the request has to be honoured (or was, where that is allowed) --------
	pos := "n/a"
	if len(cands) == 0 || newNode == nil {
		r.Broken("noderot: honoured expectation without a verifying record / new node")
		return err == nil
	}
	if path == "nodeid" {
		lk := w.curLookup
		for i, x := range lk {
			if x == cands[0] {
				switch {
				case len(lk) == 1:
					pos = "only"
				case i == 0:
					pos = "first"
				case i == len(lk)-1:
					pos = "last"
				default:
					pos = "middle"
				}
				break
			}
		}
	}
	kind := "previous"
	for _, x := range cands {
		if x == w.curEncBy {
			kind = "current"
		}
	}
	cls := "enc=" + kind + ",path=" + path + ",position=" + pos
	stateKey := "state-not-carried-over:" + cls
	if expect == "either" {
		cls += ",inner=" + nc.Inner
		stateKey = "state-not-carried-over:inner=" + nc.Inner
	}
	if err != nil {
		viol("honest-rotation-refused:"+cls, fmt.Sprintf("honest rotation refused (step %s, verifying record at position %s of %d): %v", step, pos, len(w.curLookup), err))
		if !storageSame {
			viol("storage-changed-by-refused-honest-request:"+cls, fmt.Sprintf("refused honest rotation changed storage: added [%s] removed [%s] changed [%s]", nrShort(added), nrShort(removed), nrShort(changed)))
		}
		return false
	}
	if resp == nil || len(resp.EncryptedFetchNodeCredentialsResponse) == 0 {
		viol("success-without-reply", "rotation succeeded without an encrypted reply")
		return true
	}
	newID := "NodeInformation/" + newNode.K.KeyID
	if len(removed) > 0 || len(changed) > 0 {
		viol("success:existing-record-changed,path="+path, fmt.Sprintf("honoured rotation changed pre-existing storage entries: removed [%s] changed [%s]", nrShort(removed), nrShort(changed)))
	}
	if len(added) != 1 || added[0] != newID {
		viol("success:registered-set-wrong,path="+path, fmt.Sprintf("honoured rotation must add exactly the record of the new key; added [%s]", nrShort(added)))
		if _, ok := after[newID]; !ok {
			return true
		}
	}
	newInfo, lerr := w.s.LoadNode(newNode.K.KeyID)
	if lerr != nil {
		viol("success:new-record-unloadable", "record of the new key cannot be loaded: "+lerr.Error())
		return true
	}
	if !bytes.Equal(newInfo.CertificatePublicKeyPkix, newNode.K.Pkix) || !bytes.Equal(newInfo.EncryptionPublicKeyBytes, newNode.Enc.Pub) {
		viol("success:new-record-wrong-keys", "record of the new key does not carry the new certificate / encryption public key")
	}

	// who can open the reply
	reply := resp.EncryptedFetchNodeCredentialsResponse
	isCand := func(x int) bool {
		for _, y := range cands {
			if x == y {
				return true
			}
		}
		return false
	}
	verifier := nrNone
	var fetchPT []byte
	codes := []int{-1}
	for i := range w.recs {
		codes = append(codes, i)
	}
	for _, code := range codes {
		pt, ok := nrOpen(reply, nrKeyOf(w.rec(code).node))
		if !ok {
			continue
		}
		if isCand(code) {
			if verifier == nrNone {
				verifier, fetchPT = code, pt
			}
			continue
		}
		who := "record-of-same-node"
		switch {
		case code == -1:
			who = "other-node"
		case code == w.curEncBy:
			who = "encrypting-key-that-is-only-the-previous-key"
		}
		viol("reply-openable-with-wrong-key:"+who+",path="+path, fmt.Sprintf("the reply opens with the credentials of record %d, which is not a record the payload verified under (verifying candidates %v)", code, cands))
	}
	// keys that must never open the reply: a fresh pair, the new node's pair with
	// the new record's server key, the new node's pair with the old server key
	fresh := world.NewX25519()
	newSrvPub := world.X25519Pub(newInfo.ServerEncryptionPrivateKeyBytes)
	oldSrvPub := w.rec(cands[0]).node.Creds.ServerEncryptionPublicKeyBytes
	never := []struct {
		name string
		k    nrKey
	}{
		{"fresh-key", nrKey{fresh.Priv, world.NewX25519().Pub, newNode.K.KeyID}},
		{"new-key", nrKey{newNode.Enc.Priv, newSrvPub, newNode.K.KeyID}},
		{"new-key-with-old-key-id", nrKey{newNode.Enc.Priv, newSrvPub, w.rec(cands[0]).node.K.KeyID}},
		{"new-node-key-with-old-server-key", nrKey{newNode.Enc.Priv, oldSrvPub, newNode.K.KeyID}},
	}
	for _, nv := range never {
		if _, ok := nrOpen(reply, nv.k); ok {
			viol("reply-openable-with-wrong-key:"+nv.name+",path="+path, "the reply opens with "+nv.name+" instead of the verifying record's current shared key")
		}
	}
	if verifier == nrNone {
		// say how it failed
		clear := new(types.FetchNodeCredentialsResponse)
		if proto.Unmarshal(reply, clear) == nil && len(clear.EncryptedNodeCredentials) > 0 && len(clear.ServerEncryptionPublicKeyBytes) > 0 {
			viol("reply-in-clear,path="+path, "the reply is an unencrypted FetchNodeCredentialsResponse")
		} else {
			viol("reply-not-openable-with-verifying-key:"+cls, fmt.Sprintf("the reply does not open with the current shared key of any record the payload verified under (candidates %v)", cands))
		}
		// the state must still come from one of the candidates
		okState := false
		for _, x := range cands {
			if proto.Equal(newInfo.State, w.rec(x).state) {
				okState = true
			}
		}
		if !okState {
			viol(stateKey, "the new record's state is not the state of a record the payload verified under")
		}
		return true
	}
	// cross-check the harness opener with the library on the honest key
	fetchResp := new(types.FetchNodeCredentialsResponse)
	if derr := nodeenrollment.DecryptMessage(w.s.Ctx, reply, w.rec(verifier).node.Creds, fetchResp); derr != nil {
		r.Broken("noderot: harness opener and DecryptMessage disagree on the reply: " + derr.Error())
		return true
	}
	mine := new(types.FetchNodeCredentialsResponse)
	if proto.Unmarshal(fetchPT, mine) != nil || !proto.Equal(mine, fetchResp) {
		r.Broken("noderot: harness opener and DecryptMessage produce different plaintexts")
		return true
	}
	if !proto.Equal(newInfo.State, w.rec(verifier).state) {
		viol(stateKey, fmt.Sprintf("the new record's state differs from the state of the record that verified the request (record %d)", verifier))
	}
	// inner credentials: only the new key opens them
	vr := w.rec(verifier).node
	inner := fetchResp.EncryptedNodeCredentials
	innerNever := []struct {
		name string
		k    nrKey
	}{
		{"old-key", nrKeyOf(vr)},
		{"old-node-key-with-new-server-key", nrKey{vr.Enc.Priv, fetchResp.ServerEncryptionPublicKeyBytes, vr.K.KeyID}},
		{"old-node-key-with-new-server-key-and-new-key-id", nrKey{vr.Enc.Priv, fetchResp.ServerEncryptionPublicKeyBytes, newNode.K.KeyID}},
		{"new-node-key-with-old-server-key", nrKey{newNode.Enc.Priv, vr.Creds.ServerEncryptionPublicKeyBytes, newNode.K.KeyID}},
		{"other-node-key", nrKeyOf(w.other.node)},
	}
	if w.curEncBy != verifier && w.rec(w.curEncBy) != nil {
		innerNever = append(innerNever, struct {
			name string
			k    nrKey
		}{"previous-key", nrKeyOf(w.rec(w.curEncBy).node)})
	}
	for _, nv := range innerNever {
		if _, ok := nrOpen(inner, nv.k); ok {
			viol("inner-credentials-openable-with-wrong-key:"+nv.name, "the credentials inside the reply open with "+nv.name)
		}
	}
	if _, ok := nrOpen(inner, nrKey{newNode.Enc.Priv, fetchResp.ServerEncryptionPublicKeyBytes, newNode.K.KeyID}); !ok {
		viol("inner-credentials-not-under-new-key", "the credentials inside the reply do not open with the new node key and the announced server key")
	}
	if _, herr := newNode.Handle(fetchResp); herr != nil {
		viol("inner-credentials-rejected-by-new-node", "the new node cannot handle the returned credentials: "+herr.Error())
		return true
	}
	stored, serr := newNode.Stored()
	if serr != nil || len(stored.CertificateBundles) != 2 {
		viol("new-credentials-incomplete", fmt.Sprintf("the new node's stored credentials do not have two certificate bundles (err %v)", serr))
	}
	// the completed new credentials must not open the reply either
	if _, ok := nrOpen(reply, nrKeyOf(newNode)); ok {
		viol("reply-openable-with-wrong-key:new-credentials,path="+path, "the reply opens with the new credentials")
	}
	r.Count("rotations_honored_checked", 1)
	if step == "main" || step == "first" {
		r.Count("honored_enc_"+kind, 1)
		r.Count("honored_path_"+path, 1)
		if pos != "n/a" {
			r.Count("verifying_position_"+pos, 1)
		}
		if len(cands) > 1 {
			r.Count("honored_with_two_verifying_candidates", 1)
		}
	}
	return true
}

// honestRequest builds what an honest node sends: a fresh identity, its fetch
// request encrypted with the given current credentials
func (w *nrWorld) honestRequest(oldCreds *types.NodeCredentials, namedPkix []byte, nodeID string) (*world.Node, *types.RotateNodeCredentialsRequest, error) {
	newNode, err := world.NewNode(false, "")
	if err != nil {
		return nil, nil, err
	}
	// what real nodes do on two of three rotations: the new credentials name the key they replace
	// (the field travels in the signed bundle and is copied onto the new record)
	if w.honestSeq++; w.honestSeq%3 != 0 && oldCreds != nil {
		newNode.Creds.PreviousCertificatePublicKeyPkix = append([]byte{}, oldCreds.CertificatePublicKeyPkix...)
		w.c.R.Count("honest_requests_naming_the_replaced_key", 1)
	}
	fetchReq, err := newNode.FetchRequest()
	if err != nil {
		return nil, nil, err
	}
	payload, err := nodeenrollment.EncryptMessage(w.s.Ctx, fetchReq, oldCreds)
	if err != nil {
		return nil, nil, err
	}
	return newNode, &types.RotateNodeCredentialsRequest{CertificatePublicKeyPkix: namedPkix, EncryptedFetchNodeCredentialsRequest: payload, NodeId: nodeID}, nil
}

// runNRStoreOnceNodeIDs: rotation by node ID on the library's own store-once back end (its LoadByNodeId), two
// registered nodes whose node IDs differ only in letter case or padding. A request that names one node and is
// encrypted under the other's shared key is refused and changes nothing; each node rotates under its own ID.
func runNRStoreOnceNodeIDs(c *engine.Ctx, wrap bool, round int) {
	r := c.R
	s := world.MustServer(world.ServerCfg{Backend: world.StoreOnce, StorageWrap: wrap})
	defer s.Close()
	ids := [][2]string{{"w_Kq3ZtB9xLm", "w_kQ3zTb9XlM"}, {"worker-7", "worker-7 "}, {"Edge", "edge"}}[round%3]
	var nodes []*world.Node
	for _, id := range ids {
		er, err := world.Enroll(s, world.FlowAuthorize, false, nil, nil, nil)
		if err != nil {
			r.Broken("noderot store-once: enroll: " + err.Error())
			return
		}
		ni, err := types.LoadNodeInformation(s.Ctx, s.Inner, er.Node.K.KeyID, s.StoreOpts()...)
		if err != nil {
			r.Broken("noderot store-once: load: " + err.Error())
			return
		}
		_ = s.RemoveNode(er.Node.K.KeyID)
		ni.NodeId = id
		if err := ni.Store(s.Ctx, s.Store, s.StoreOpts()...); err != nil {
			r.Broken("noderot store-once: store: " + err.Error())
			return
		}
		nodes = append(nodes, er.Node)
	}
	snap := func() map[string][]byte { return recstore.Snapshot(s.Ctx, s.Inner, nil) }
	build := func(encBy, named int) (*types.RotateNodeCredentialsRequest, error) {
		nn, err := world.NewNode(false, "")
		if err != nil {
			return nil, err
		}
		fr, err := nn.FetchRequest()
		if err != nil {
			return nil, err
		}
		payload, err := nodeenrollment.EncryptMessage(s.Ctx, fr, nodes[encBy].Creds)
		if err != nil {
			return nil, err
		}
		return &types.RotateNodeCredentialsRequest{CertificatePublicKeyPkix: nodes[named].K.Pkix, EncryptedFetchNodeCredentialsRequest: payload, NodeId: ids[named]}, nil
	}
	for named := 0; named < 2; named++ {
		encBy := 1 - named
		req, err := build(encBy, named)
		if err != nil {
			r.Broken("noderot store-once: build: " + err.Error())
			return
		}
		desc := fmt.Sprintf("storeonce-nodeids round=%d wrap=%v named=%q encrypted-by=%q", round, wrap, ids[named], ids[encBy])
		r.Eval(desc, true)
		before := snap()
		var resp *types.RotateNodeCredentialsResponse
		var rerr error
		if p, st := engine.Guard(func() { resp, rerr = rotation.RotateNodeCredentials(s.Ctx, s.Store, req, s.Opts()...) }); p != nil {
			r.Violation("panic:"+engine.LibraryFrame(st), fmt.Sprintf("RotateNodeCredentials panicked (%s): %v", desc, p), desc)
			continue
		}
		added, removed, changed := nrDiff(before, snap())
		switch {
		case rerr == nil:
			r.Violation("honored:encrypted-under-another-nodes-key,path=nodeid-storeonce", fmt.Sprintf("a rotation request naming node %q (and its certificate key) but encrypted under the shared key of node %q was honoured (reply %d bytes); storage added %d changed %d", ids[named], ids[encBy], len(resp.GetEncryptedFetchNodeCredentialsResponse()), len(added), len(changed)), desc)
		case len(added)+len(removed)+len(changed) > 0:
			r.Violation("registered-by-refused-request:encrypted-under-another-nodes-key", fmt.Sprintf("a refused rotation request (%s) changed storage: added %v removed %v changed %v", desc, added, removed, changed), desc)
		default:
			r.Count("refused:storeonce-node-id-of-another-node", 1)
		}
	}
	// control: each node rotates under its own node ID
	req, err := build(0, 0)
	if err == nil {
		if _, rerr := rotation.RotateNodeCredentials(s.Ctx, s.Store, req, s.Opts()...); rerr != nil {
			r.Count("storeonce_own_node_id_rotation_refused(not asserted here)", 1)
		} else {
			r.Count("storeonce_own_node_id_rotation_honoured", 1)
		}
	}
}

func runNRCase(c *engine.Ctx, nc nrCase) {
	r := c.R
	desc := engine.J(nc)
	defer func() {
		if x := recover(); x != nil {
			r.Broken(fmt.Sprintf("noderot: harness panic in case %s: %v", desc, x))
		}
	}()
	if nc.Indep < 1 {
		nc.Indep = 1
	}
	w := &nrWorld{c: c, nc: nc}
	// the storage wrapper sits behind a key service that can be made to fail single calls (unarmed it is a
	// plain aead key)
	w.s = world.MustServer(world.ServerCfg{Backend: nc.Backend, StorageWrap: nc.Wrap, StorageWrapKind: world.WrapFlaky, RegWrap: nc.RegWrap})
	defer w.s.Close()
	s := w.s
	enroll := func(tag string) *nrRec {
		st := w.uniqueState(tag)
		if nc.NoState && tag == "rec" {
			st = nil
		}
		er, err := world.Enroll(s, world.FlowAuthorize, false, st, nil, nil)
		if err != nil {
			panic("enroll: " + err.Error())
		}
		return &nrRec{node: er.Node, state: st, prev: nrNone}
	}
	for i := 0; i < nc.Indep; i++ {
		w.recs = append(w.recs, enroll("rec"))
	}
	w.other = enroll("other")
	ol, _ := s.Inner.(*world.OrderedLoader)
	if ol != nil {
		ol.SetOrder("M", []string{w.other.node.K.KeyID})
	}

	// chain of honest rotations from record 0 (key-ID path), each fully checked
	pred := 0
	for j := 0; j < nc.Chain; j++ {
		old := w.recs[pred]
		newNode, req, err := w.honestRequest(old.node.Creds, old.node.K.Pkix, "")
		if err != nil {
			r.Broken("noderot: building honest request: " + err.Error())
			return
		}
		w.chainReq = append(w.chainReq, proto.Clone(req).(*types.RotateNodeCredentialsRequest))
		w.curPath, w.curEncBy, w.curLookup = "keyid", pred, []int{pred} // the chain step is an honest key-ID rotation
		ok := w.submit(fmt.Sprintf("chain-%d", j), req, newNode, []int{pred}, "honor", "")
		r.Eval(desc+fmt.Sprintf("#chain-%d", j), true)
		if !ok || w.dirty || newNode.Creds.ServerEncryptionPublicKeyBytes == nil {
			return // violation already reported; nothing to build on
		}
		r.Count("chain_rotations_checked", 1)
		// what the application does afterwards: new state on the new record and
		// (optionally) the previous encryption key
		newInfo, err1 := s.LoadNode(newNode.K.KeyID)
		oldInfo, err2 := s.LoadNode(old.node.K.KeyID)
		if err1 != nil || err2 != nil {
			r.Broken(fmt.Sprintf("noderot: loading chain records: %v %v", err1, err2))
			return
		}
		nr := &nrRec{node: newNode, state: w.uniqueState("chain"), prev: nrNone}
		newInfo.State = nr.state
		if nc.Prev {
			if err := newInfo.SetPreviousEncryptionKey(oldInfo); err != nil {
				r.Broken("noderot: SetPreviousEncryptionKey: " + err.Error())
				return
			}
			nr.prev = pred
		}
		if err := newInfo.Store(s.Ctx, s.Inner, s.StoreOpts()...); err != nil {
			r.Broken("noderot: storing updated chain record: " + err.Error())
			return
		}
		w.recs = append(w.recs, nr)
		pred = len(w.recs) - 1
	}
	for _, x := range nc.Lookup {
		if x < 0 || x >= len(w.recs) {
			r.Broken("noderot: lookup index out of range in case " + desc)
			return
		}
	}
	if ol != nil {
		var ids []string
		for _, x := range nc.Lookup {
			ids = append(ids, w.recs[x].node.K.KeyID)
		}
		ol.SetOrder("N", ids)
	}
	path := w.path()

	// ---- replay of an older chain request -------------------------------------
	if nc.History == "replay-old" {
		if nc.Step < 0 || nc.Step >= len(w.chainReq) {
			r.Broken("noderot: replay step out of range in case " + desc)
			return
		}
		req := proto.Clone(w.chainReq[nc.Step]).(*types.RotateNodeCredentialsRequest)
		req.NodeId = nc.NodeID
		r.Eval(desc, true)
		r.Count("history_replay-old", 1)
		r.Count("path_"+path, 1)
		w.curPath, w.curEncBy, w.curLookup = path, nc.EncBy, w.lookupSet(nc.Named)
		w.submit("replay-old", req, nil, nil, "refuse", "replay-of-older-payload")
		return
	}

	// ---- the request ----------------------------------------------------------
	unregistered := world.NewKeys()
	var namedPkix []byte
	switch {
	case w.rec(nc.Named) != nil:
		namedPkix = w.rec(nc.Named).node.K.Pkix
	default:
		namedPkix = unregistered.Pkix
	}
	var encCreds *types.NodeCredentials
	if er := w.rec(nc.EncBy); er != nil {
		encCreds = er.node.Creds
	} else {
		// unrelated pair: own encryption key, a random "server" key, the key ID of the named key
		encCreds = nrHandCreds(namedPkix, world.NewX25519().Priv, world.NewX25519().Pub)
	}

	// inner request
	var newNode *world.Node
	var fetchReq *types.FetchNodeCredentialsRequest
	var err error
	mkNode := func(tok string) *world.Node {
		n, err := world.NewNode(false, tok)
		if err != nil {
			panic("new node: " + err.Error())
		}
		return n
	}
	switch nc.Inner {
	case "honest", "bad-signature", "expired", "future", "wrapped-info", "rewrapped-info", "wrapper-flow", "enc-key-short", "enc-key-low-order", "id-field-other", "id-field-self":
		newNode = mkNode("")
		var fopt []nodeenrollment.Option
		if nc.Inner == "wrapper-flow" {
			// a complete node-led wrapper-flow request: under the server's registration wrapper if it has one
			rw := s.RW
			if rw == nil {
				rw = world.NewAead("foreign-registration-wrapper")
			}
			fopt = append(fopt, nodeenrollment.WithRegistrationWrapper(rw), nodeenrollment.WithWrappingRegistrationFlowApplicationSpecificParams(w.uniqueState("params")))
		}
		fetchReq, err = newNode.FetchRequest(fopt...)
		if err != nil {
			r.Broken("noderot: fetch request: " + err.Error())
			return
		}
		switch nc.Inner {
		case "bad-signature":
			i := nc.Param % len(fetchReq.Bundle)
			fetchReq.Bundle[i] ^= 1 << uint(nc.Param%8)
		case "expired":
			now := time.Now()
			fetchReq = world.Resign(fetchReq, newNode.K.Priv, func(in *types.FetchNodeCredentialsInfo) {
				in.NotBefore = timestamppb.New(now.Add(-26 * time.Hour))
				in.NotAfter = timestamppb.New(now.Add(-2 * time.Hour))
			})
		case "future":
			now := time.Now()
			fetchReq = world.Resign(fetchReq, newNode.K.Priv, func(in *types.FetchNodeCredentialsInfo) {
				in.NotBefore = timestamppb.New(now.Add(2 * time.Hour))
				in.NotAfter = timestamppb.New(now.Add(26 * time.Hour))
			})
		case "id-field-other", "id-field-self":
			// the signed bundle's own id field (unused by the library's client) names an existing record:
			// another node's, or the record that authenticates this very rotation
			target := w.other.node.K.KeyID
			if x := w.rec(nc.EncBy); nc.Inner == "id-field-self" && x != nil {
				target = x.node.K.KeyID
			}
			fetchReq = world.Resign(fetchReq, newNode.K.Priv, func(in *types.FetchNodeCredentialsInfo) { in.Id = target })
		case "wrapped-info":
			// signed bundle carries something in the wrapped-registration field
			fetchReq = world.Resign(fetchReq, newNode.K.Priv, func(in *types.FetchNodeCredentialsInfo) {
				in.WrappedRegistrationInfo = world.RandBytes(1 + nc.Param%80)
			})
		case "rewrapped-info":
			// the unsigned re-wrapping fields of the inner request are set
			fetchReq.RewrappedWrappingRegistrationFlowInfo = world.RandBytes(1 + nc.Param%80)
			fetchReq.RewrappingKeyId = w.other.node.K.KeyID
			if nc.Param%2 == 0 {
				fetchReq.RewrappingKeyId = "no-such-key"
			}
		case "enc-key-short":
			fetchReq = world.Resign(fetchReq, newNode.K.Priv, func(in *types.FetchNodeCredentialsInfo) {
				in.EncryptionPublicKeyBytes = in.EncryptionPublicKeyBytes[:1+nc.Param%31]
			})
		case "enc-key-low-order":
			fetchReq = world.Resign(fetchReq, newNode.K.Priv, func(in *types.FetchNodeCredentialsInfo) {
				in.EncryptionPublicKeyBytes = make([]byte, 32) // the all-zero point
			})
		}
	case "registered-self", "registered-other":
		// a well-signed fresh request for a key that already has a record, announcing a new encryption key
		target := w.other
		if nc.Inner == "registered-self" {
			target = w.rec(nc.EncBy)
			if target == nil {
				target = w.recs[0]
			}
		}
		fetchReq = world.Sign(world.BaseInfo(target.node.K, world.NewX25519().Pub, world.RandBytes(nodeenrollment.NonceSize)), target.node.K.Priv)
	case "token-marshaled":
		newNode = mkNode("")
		tn, merr := proto.Marshal(&types.ServerLedActivationTokenNonce{Nonce: world.RandBytes(nodeenrollment.NonceSize), HmacKeyBytes: world.RandBytes(32)})
		if merr != nil {
			panic(merr)
		}
		fetchReq = world.Sign(world.BaseInfo(newNode.K, newNode.Enc.Pub, tn), newNode.K.Priv)
	case "token-real":
		id, tok, terr := registration.CreateServerLedActivationToken(s.Ctx, s.Store, &types.ServerLedRegistrationRequest{}, s.Opts(nodeenrollment.WithState(w.uniqueState("token")))...)
		if terr != nil {
			r.Broken("noderot: creating token: " + terr.Error())
			return
		}
		w.tokenIDs = append(w.tokenIDs, id)
		newNode = mkNode(tok)
		fetchReq, err = newNode.FetchRequest()
		if err != nil {
			r.Broken("noderot: token fetch request: " + err.Error())
			return
		}
		if len(world.DecodeInfo(fetchReq).Nonce) == nodeenrollment.NonceSize {
			r.Broken("noderot: token request carries a plain nonce")
			return
		}
	default:
		r.Broken("noderot: unknown inner variant " + nc.Inner)
		return
	}

	if nc.Rewrap == "self-valid" {
		// any enrolled node can re-seal registration info under its own shared key and name itself as the
		// re-wrapping node; this makes the inner request take the wrapping registration flow
		if in := world.DecodeInfo(fetchReq); in != nil {
			ct, eerr := nodeenrollment.EncryptMessage(s.Ctx, &types.WrappingRegistrationFlowInfo{CertificatePublicKeyPkix: in.CertificatePublicKeyPkix, Nonce: in.Nonce}, w.other.node.Creds)
			if eerr == nil {
				fetchReq.RewrappedWrappingRegistrationFlowInfo = ct
				fetchReq.RewrappingKeyId = w.other.node.K.KeyID
				r.Count("inner_with_valid_self_rewrapped_info", 1)
			}
		}
	}

	// payload
	valid, err := nodeenrollment.EncryptMessage(s.Ctx, fetchReq, encCreds)
	if err != nil {
		r.Broken("noderot: EncryptMessage: " + err.Error())
		return
	}
	payload := valid
	switch nc.Payload {
	case "encrypted":
	case "plain":
		payload, _ = proto.Marshal(fetchReq)
	case "garbage":
		payload = world.RandBytes(1 + nc.Param%200)
	case "truncated":
		// cut inside the ciphertext field (the first and by far the largest field of the envelope)
		payload = append([]byte{}, valid[:1+nc.Param%(len(valid)/2)]...)
	case "short-ct", "ct-bitflip", "ct-truncated":
		blob := new(wrapping.BlobInfo)
		if err := proto.Unmarshal(valid, blob); err != nil || len(blob.Ciphertext) < 40 {
			r.Broken("noderot: envelope is not the expected BlobInfo")
			return
		}
		switch nc.Payload {
		case "short-ct":
			blob.Ciphertext = world.RandBytes(nc.Param % 12)
		case "ct-bitflip":
			blob.Ciphertext[nc.Param%len(blob.Ciphertext)] ^= 1 << uint(nc.Param%8)
		case "ct-truncated":
			blob.Ciphertext = blob.Ciphertext[:12+nc.Param%(len(blob.Ciphertext)-12)]
		}
		payload, _ = proto.Marshal(blob)
		if len(payload) == 0 {
			payload = []byte{0x0a, 0x00} // empty ciphertext field, still a parseable envelope
		}
	default:
		r.Broken("noderot: unknown payload variant " + nc.Payload)
		return
	}
	req := &types.RotateNodeCredentialsRequest{CertificatePublicKeyPkix: namedPkix, EncryptedFetchNodeCredentialsRequest: payload, NodeId: nc.NodeID}

	// ---- oracle ---------------------------------------------------------------
	lookup := w.lookupSet(nc.Named)
	var cands []int
	if nc.Payload == "encrypted" {
		cands = w.candidates(lookup, nc.EncBy)
	}
	encKind := "none"
	switch {
	case nc.Payload != "encrypted":
	case len(cands) > 0:
		encKind = "previous"
		for _, x := range cands {
			if x == nc.EncBy {
				encKind = "current"
			}
		}
	case nc.EncBy == -1:
		encKind = "other-node"
	case nc.EncBy >= 0:
		encKind = "own-record-outside-lookup"
	default:
		encKind = "unrelated"
	}
	ident := "record-found"
	if len(lookup) == 0 {
		ident = "unknown-node"
	}
	exotic := false
	for _, x := range nrExoticInners {
		if nc.Inner == x {
			exotic = true
		}
	}
	if nc.BreakCurrent && !nc.Wrap && len(lookup) > 0 {
		for _, code := range lookup {
			x := w.rec(code)
			if x == nil {
				continue
			}
			ni := &types.NodeInformation{Id: x.node.K.KeyID}
			if err := s.Inner.Load(s.Ctx, ni); err != nil {
				continue
			}
			ni.ServerEncryptionPrivateKeyBytes = nil
			_ = s.Inner.Remove(s.Ctx, &types.NodeInformation{Id: ni.Id})
			if err := s.Inner.Store(s.Ctx, ni); err != nil {
				r.Broken("noderot: raw store of a damaged record: " + err.Error())
				return
			}
		}
		cands = nil
		encKind = "current-unusable:" + encKind
		r.Count("cases_with_unusable_current_keys", 1)
	}
	expect := "refuse"
	switch {
	case len(cands) > 0 && nc.Inner == "honest":
		expect = "honor"
	case len(cands) > 0 && exotic:
		// authenticated by the shared key, well signed, fresh, new key, 32-byte nonce, but with extras the
		// statement says nothing about: the answer is open, its consequences are not
		expect = "either"
	}
	reason := ""
	switch {
	case nc.Payload != "encrypted":
		reason = "payload=" + nc.Payload
	case len(lookup) == 0:
		reason = "unknown-node,enc=" + encKind
	case len(cands) == 0:
		reason = "enc=" + encKind
	case nc.Inner != "honest":
		reason = "inner=" + nc.Inner
	}
	r.Eval(desc, true)
	r.Count("enc_kind_"+encKind, 1)
	r.Count("path_"+path, 1)
	r.Count("identification_"+ident, 1)
	r.Count("inner_"+nc.Inner, 1)
	r.Count("payload_"+nc.Payload, 1)
	r.Count("history_"+nc.History, 1)
	if path == "nodeid" && nc.NodeID == "N" {
		r.Count(fmt.Sprintf("nodeid_lookup_records_%d", len(nc.Lookup)), 1)
	}
	r.Count(map[string]string{"honor": "expect_honored", "refuse": "expect_refused", "either": "expect_either"}[expect], 1)
	step := "main"
	if nc.History == "replay" {
		step = "first"
	}
	w.curPath, w.curEncBy, w.curLookup = path, nc.EncBy, lookup
	hh := fnv.New32a()
	_, _ = hh.Write([]byte(desc))
	pick := int(hh.Sum32() >> 4)
	if fw, ok := w.s.SW.(*world.FlakyWrapper); ok && expect == "honor" && pick%2 == 0 {
		// first an attempt during which one call of the storage wrapper's key service fails (a Decrypt of a
		// stored record, or an Encrypt while the new record is sealed): it may be honoured or refused, and a
		// refusal leaves storage as it was - after which the node simply tries again
		k := 1 + (pick/2)%4
		var cancel context.CancelFunc
		switch (pick / 8) % 3 {
		case 0:
			fw.Arm(0, k)
		case 1:
			fw.Arm(k, 0)
		default:
			// the caller's context ends while the key service seals the new record (a request that timed out)
			w.callCtx, cancel = context.WithCancel(w.s.Ctx)
			fw.OnEncrypt(1+k%2, cancel)
			r.Count("honest_rotations_attempted_with_the_context_ending_during_a_wrapper_call", 1)
		}
		defer func() {
			if cancel != nil {
				cancel()
			}
		}()
		early := w.submit("attempt-under-wrapper-failure", proto.Clone(req).(*types.RotateNodeCredentialsRequest), newNode, cands, "either", "honest-while-a-storage-wrapper-call-fails")
		n, _, _ := fw.Delivered()
		fw.Arm(0, 0)
		fw.OnEncrypt(0, nil)
		w.callCtx = nil
		if n > 0 {
			r.Count("honest_rotations_attempted_with_a_failing_storage_wrapper_call", 1)
		}
		if early || w.dirty {
			if early {
				r.Count("honest_rotations_honoured_despite_a_failing_storage_wrapper_call", 1)
			}
			return
		}
		r.Count("honest_rotations_retried_after_a_failing_storage_wrapper_call", 1)
	}
	honored := w.submit(step, req, newNode, cands, expect, reason)

	if nc.History == "replay" {
		if expect != "honor" {
			r.Broken("noderot: replay history needs an honest first request: " + desc)
			return
		}
		if !honored {
			return
		}
		// same bytes again: the new key now has a record
		again := proto.Clone(req).(*types.RotateNodeCredentialsRequest)
		w.submit("replay", again, nil, nil, "refuse", "replay-after-success")
		// and again while the storage wrapper's key service fails for one call: whichever stored record cannot
		// be opened at that moment, the replay is a replay (a record that cannot be read is not an absent one)
		if fw, ok := w.s.SW.(*world.FlakyWrapper); ok && !w.dirty {
			for k := 1; k <= 4 && !w.dirty; k++ {
				fw.Arm(k, 0)
				w.submit("replay-under-wrapper-failure", proto.Clone(req).(*types.RotateNodeCredentialsRequest), nil, nil, "refuse", "replay-while-a-stored-record-cannot-be-opened")
				if n, _, _ := fw.Delivered(); n > 0 {
					r.Count("replays_with_a_failing_unwrap_delivered", 1)
				}
				fw.Arm(0, 0)
			}
		}
	}
}

func nrPerms(items []int) [][]int {
	if len(items) <= 1 {
		return [][]int{append([]int{}, items...)}
	}
	var out [][]int
	for i := range items {
		rest := append(append([]int{}, items[:i]...), items[i+1:]...)
		for _, p := range nrPerms(rest) {
			out = append(out, append([]int{items[i]}, p...))
		}
	}
	return out
}

// nrOrderedSubsets lists every ordered selection of 1..len(items) items
func nrOrderedSubsets(items []int) [][]int {
	var out [][]int
	n := len(items)
	for mask := 1; mask < 1<<n; mask++ {
		var sub []int
		for i := 0; i < n; i++ {
			if mask&(1<<i) != 0 {
				sub = append(sub, items[i])
			}
		}
		out = append(out, nrPerms(sub)...)
	}
	return out
}

func nrSeq(n int) []int {
	out := make([]int, n)
	for i := range out {
		out[i] = i
	}
	return out
}

var nrInners = []string{"honest", "registered-self", "registered-other", "token-marshaled", "token-real", "bad-signature", "expired", "future"}

// well-signed fresh requests for a new key with a 32-byte nonce that carry something unusual
var nrExoticInners = []string{"wrapped-info", "rewrapped-info", "wrapper-flow", "enc-key-short", "enc-key-low-order", "id-field-other", "id-field-self"}
var nrPayloads = []string{"encrypted", "plain", "garbage", "truncated", "short-ct", "ct-bitflip", "ct-truncated"}

func nrRandomCase(rng *rand.Rand) nrCase {
	nc := nrCase{Payload: "encrypted", Inner: "honest", History: "single", Param: rng.Intn(1 << 16)}
	nc.Wrap = rng.Intn(3) == 0
	nc.Indep = 1 + rng.Intn(3)
	nc.Chain = []int{0, 0, 1, 1, 2, 3}[rng.Intn(6)]
	nc.Prev = nc.Chain > 0 && rng.Intn(2) == 0
	total := nc.Indep + nc.Chain
	switch rng.Intn(5) {
	case 0, 1:
		nc.Backend, nc.NodeID = world.Ordered, "N"
	case 2:
		nc.Backend, nc.NodeID = world.Inmem, ""
	case 3:
		nc.Backend, nc.NodeID = world.Ordered, ""
	default:
		nc.Backend, nc.NodeID = world.Inmem, []string{"N", "M", "unknown"}[rng.Intn(3)]
	}
	if nc.Backend == world.Ordered && nc.NodeID == "N" && rng.Intn(12) == 0 {
		nc.NodeID = []string{"M", "unknown"}[rng.Intn(2)]
	}
	// lookup: an ordered selection of up to 3 records of the node (sometimes more)
	perm := rng.Perm(total)
	k := 1 + rng.Intn(3)
	if rng.Intn(8) == 0 {
		k = total
	}
	if k > total {
		k = total
	}
	nc.Lookup = append([]int{}, perm[:k]...)
	pickRec := func() int {
		switch x := rng.Intn(10); {
		case x < 7:
			return rng.Intn(total)
		case x < 9:
			return -1
		}
		return -2
	}
	nc.EncBy = pickRec()
	// mostly the node names the key it encrypts with; sometimes its successor (previous-key case) or anything
	switch x := rng.Intn(10); {
	case x < 5:
		nc.Named = nc.EncBy
	case x < 8 && nc.EncBy >= 0:
		// successor of EncBy in the chain, if any
		nc.Named = nc.EncBy
		if nc.EncBy == 0 && nc.Chain > 0 {
			nc.Named = nc.Indep
		} else if nc.EncBy >= nc.Indep && nc.EncBy+1 < total {
			nc.Named = nc.EncBy + 1
		}
	default:
		nc.Named = pickRec()
	}
	if nc.NodeID == "N" && nc.Backend == world.Ordered && nc.EncBy >= 0 && rng.Intn(2) == 0 {
		// make sure a record that verifies is in the lookup reasonably often
		found := false
		for _, x := range nc.Lookup {
			if x == nc.EncBy {
				found = true
			}
		}
		if !found {
			nc.Lookup[rng.Intn(len(nc.Lookup))] = nc.EncBy
		}
	}
	switch x := rng.Intn(20); {
	case x < 11:
	case x < 15:
		nc.Inner = nrInners[1+rng.Intn(len(nrInners)-1)]
	case x < 16:
		nc.Inner = nrExoticInners[rng.Intn(len(nrExoticInners))]
		nc.RegWrap = rng.Intn(2) == 0
	default:
		nc.Payload = nrPayloads[1+rng.Intn(len(nrPayloads)-1)]
	}
	if nc.Inner == "honest" && nc.Payload == "encrypted" {
		switch x := rng.Intn(10); {
		case x < 2:
			nc.History = "replay" // kept only if the oracle expects the first request to be honoured (fixed up by the caller)
		case x < 4 && nc.Chain > 0:
			nc.History = "replay-old"
			nc.Step = rng.Intn(nc.Chain)
		}
	}
	return nc
}

// nrExpectHonor computes the oracle from the descriptor alone (used to keep
// "replay" histories only where the first request is honest and must succeed)
func nrExpectHonor(nc nrCase) bool {
	if nc.Payload != "encrypted" || nc.Inner != "honest" {
		return false
	}
	total := nc.Indep + nc.Chain
	valid := func(x int) bool { return x == -1 || (x >= 0 && x < total) }
	if !valid(nc.EncBy) {
		return false
	}
	prevOf := func(x int) int {
		if !nc.Prev || x < nc.Indep {
			return nrNone
		}
		if x == nc.Indep {
			return 0
		}
		return x - 1
	}
	var lookup []int
	if nc.NodeID != "" && nc.Backend == world.Ordered {
		switch nc.NodeID {
		case "N":
			lookup = nc.Lookup
		case "M":
			lookup = []int{-1}
		}
	} else if valid(nc.Named) {
		lookup = []int{nc.Named}
	}
	for _, x := range lookup {
		if x == nc.EncBy || prevOf(x) == nc.EncBy {
			return true
		}
	}
	return false
}

func runNodeRot(c *engine.Ctx) engine.Result {
	r := c.R
	res := engine.Result{
		Rule: "case = (storage back end, storage wrapper, node ID in the request, number of independently enrolled records of the node, number of prior honest rotations, whether the application recorded previous keys, records and order returned by the node-ID lookup, named key, encrypting credentials, payload mutation, inner request variant, history); " +
			"a fresh world with real enrollments / rotations per case; enumerated matrix (all orders and ordered selections of 1..3 records) plus seed-determined random cases; non-trivial = RotateNodeCredentials was called on the built request (all cases; chain rotations are evaluated as cases of their own); distinct by descriptor. " +
			"Oracle: honoured <=> the payload was encrypted by the credentials of a record in the lookup result or of the record whose key that record carries as previous key, and the inner request is an honest fresh request; otherwise error, and storage (node records, roots, tokens) byte-identical before/after.",
		Assumptions: []string{
			"trusts Go's crypto (X25519, AES-GCM, Ed25519), proto.Equal and the harness's bookkeeping of which credentials encrypted which payload",
			"when two records of the lookup result verify the payload (current key of one, recorded previous key of the other) either may be the verifying record; the reply and the state must then both come from the same one",
			"expired / not-yet-valid inner requests are 2 h away from the present; clock skew allowance of the library is 5 min",
			"cryptographic strength is out of scope: 'cannot be opened' means the harness's AES-GCM open failed under every other key of the scenario",
			"well-signed fresh inner requests for a new key that carry unusual content (wrapped / re-wrapped registration info, a complete wrapper-flow request, a malformed encryption public key) may be honoured or refused; either way the outcome has to be clean: refused => nothing registered, honoured => every consequence of the statement including state carry-over",
			"on the node-ID path the records of the identified node are exactly what the NodeIdLoader returns for the node ID",
			"flips inside the unauthenticated key_info part of the envelope are not generated (the payload still decrypts, so the statement does not demand refusal)",
		},
	}
	if c.Replay != nil {
		var nc nrCase
		if err := json.Unmarshal(c.Replay, &nc); err != nil {
			r.Broken("bad replay: " + err.Error())
			return res
		}
		runNRCase(c, nc)
		return res
	}
	quick := c.Quick()
	var cases []nrCase
	base := func() nrCase {
		return nrCase{Backend: world.Inmem, Indep: 1, Payload: "encrypted", Inner: "honest", History: "single", Lookup: []int{0}}
	}
	idx := 0
	alt := func() bool { idx++; return idx%2 == 0 }

	// A. key-ID identification (and node ID on plain storage): encrypting key x named key x chain x previous
	type bp struct{ backend, nodeID string }
	for _, b := range []bp{{world.Inmem, ""}, {world.Ordered, ""}, {world.Inmem, "N"}} {
		for chain := 0; chain <= 2; chain++ {
			for _, prev := range []bool{false, true} {
				if prev && chain == 0 {
					continue
				}
				total := 1 + chain
				for _, named := range append(nrSeq(total), -2) {
					for _, encBy := range append(nrSeq(total), -1, -2) {
						wraps := []bool{false, true}
						if quick {
							wraps = []bool{alt()}
							if chain == 2 && b.backend == world.Ordered {
								continue
							}
						}
						for _, wrap := range wraps {
							nc := base()
							nc.Backend, nc.NodeID, nc.Wrap, nc.Chain, nc.Prev, nc.Named, nc.EncBy = b.backend, b.nodeID, wrap, chain, prev, named, encBy
							nc.Lookup = nrSeq(total)
							cases = append(cases, nc)
						}
					}
				}
			}
		}
	}
	// the other node rotating through its own key / named by someone else
	for _, b := range []bp{{world.Inmem, ""}, {world.Inmem, "M"}, {world.Inmem, "unknown"}} {
		for _, encBy := range []int{-1, 0, -2} {
			nc := base()
			nc.Backend, nc.NodeID, nc.Named, nc.EncBy, nc.Wrap = b.backend, b.nodeID, -1, encBy, alt()
			cases = append(cases, nc)
		}
	}

	// B. node-ID identification: independent records, every order, every encrypting key
	for m := 1; m <= 3; m++ {
		for _, ord := range nrPerms(nrSeq(m)) {
			for _, encBy := range append(nrSeq(m), -1, -2) {
				nc := base()
				nc.Backend, nc.NodeID, nc.Indep, nc.Lookup, nc.EncBy, nc.Wrap = world.Ordered, "N", m, ord, encBy, alt()
				nc.Named = encBy
				if encBy < 0 {
					nc.Named = 0
				}
				cases = append(cases, nc)
				if encBy == -1 {
					// another registered node names its own key and claims this node's ID
					nc.Named = -1
					cases = append(cases, nc)
				}
			}
		}
	}
	// node-ID identification over the records of a rotation chain: every ordered selection
	for chain := 1; chain <= 2; chain++ {
		for _, prev := range []bool{false, true} {
			total := 1 + chain
			sels := nrOrderedSubsets(nrSeq(total))
			for _, sel := range sels {
				if quick && chain == 2 && len(sel) == 2 {
					continue
				}
				for _, encBy := range append(nrSeq(total), -1) {
					nc := base()
					nc.Backend, nc.NodeID, nc.Chain, nc.Prev, nc.Lookup, nc.EncBy, nc.Named, nc.Wrap = world.Ordered, "N", chain, prev, sel, encBy, encBy, alt()
					if encBy < 0 {
						nc.Named = 0
					}
					cases = append(cases, nc)
				}
			}
		}
	}
	// other node IDs on the loader
	for _, nid := range []string{"M", "unknown"} {
		for _, encBy := range []int{0, -1, -2} {
			nc := base()
			nc.Backend, nc.NodeID, nc.EncBy, nc.Named = world.Ordered, nid, encBy, encBy
			if encBy == -2 {
				nc.Named = 0
			}
			cases = append(cases, nc)
		}
	}

	// C/D. inner variants and payload mutations under a key that would verify (and under one that would not)
	type idp struct {
		backend, nodeID string
		indep           int
		lookup          []int
		encBy           int
	}
	idps := []idp{{world.Inmem, "", 1, []int{0}, 0}, {world.Ordered, "N", 2, []int{0, 1}, 1}, {world.Inmem, "N", 1, []int{0}, 0}}
	for _, p := range idps {
		for _, wrap := range []bool{false, true} {
			for _, inner := range nrInners[1:] {
				nc := base()
				nc.Backend, nc.NodeID, nc.Indep, nc.Lookup, nc.EncBy, nc.Named, nc.Wrap, nc.Inner = p.backend, p.nodeID, p.indep, p.lookup, p.encBy, p.encBy, wrap, inner
				nc.Param = 7 + 13*len(cases)
				cases = append(cases, nc)
			}
			for _, pl := range nrPayloads[1:] {
				reps := 1
				if !quick {
					reps = 4
				}
				for k := 0; k < reps; k++ {
					nc := base()
					nc.Backend, nc.NodeID, nc.Indep, nc.Lookup, nc.EncBy, nc.Named, nc.Wrap, nc.Payload = p.backend, p.nodeID, p.indep, p.lookup, p.encBy, p.encBy, wrap, pl
					nc.Param = 3 + 17*len(cases) + 101*k
					cases = append(cases, nc)
				}
			}
		}
	}
	// previous-key request with a hostile inner request
	for _, inner := range []string{"registered-self", "token-real", "token-marshaled"} {
		nc := base()
		nc.Chain, nc.Prev, nc.EncBy, nc.Named, nc.Inner, nc.Lookup = 1, true, 0, 1, inner, []int{0, 1}
		cases = append(cases, nc)
	}

	// G. well-signed inner requests with unusual content, with and without a registration wrapper on the server
	for _, p := range idps {
		for _, regwrap := range []bool{false, true} {
			for _, inner := range nrExoticInners {
				nc := base()
				nc.Backend, nc.NodeID, nc.Indep, nc.Lookup, nc.EncBy, nc.Named, nc.Wrap, nc.RegWrap, nc.Inner = p.backend, p.nodeID, p.indep, p.lookup, p.encBy, p.encBy, alt(), regwrap, inner
				nc.Param = 5 + 11*len(cases)
				cases = append(cases, nc)
			}
		}
	}

	// E. histories
	for _, p := range idps {
		for _, wrap := range []bool{false, true} {
			for chain := 0; chain <= 1; chain++ {
				nc := base()
				nc.Backend, nc.NodeID, nc.Indep, nc.Lookup, nc.EncBy, nc.Named, nc.Wrap, nc.Chain, nc.History = p.backend, p.nodeID, p.indep, p.lookup, p.encBy, p.encBy, wrap, chain, "replay"
				cases = append(cases, nc)
			}
			for chain := 1; chain <= 3; chain++ {
				for step := 0; step < chain; step++ {
					if quick && wrap && chain == 2 {
						continue
					}
					nc := base()
					nc.Backend, nc.NodeID, nc.Indep, nc.Wrap, nc.Chain, nc.History, nc.Step = p.backend, p.nodeID, p.indep, wrap, chain, "replay-old", step
					nc.Prev = (chain+step)%2 == 0
					// the replayed request named its predecessor; the node-ID lookup returns all records of the chain, newest first
					nc.Lookup = nil
					for x := p.indep + chain - 1; x >= 0; x-- {
						nc.Lookup = append(nc.Lookup, x)
					}
					nc.EncBy, nc.Named = 0, 0
					if step > 0 {
						nc.EncBy, nc.Named = p.indep+step-1, p.indep+step-1
					}
					cases = append(cases, nc)
				}
			}
		}
	}
	// H. the inner request additionally takes the wrapping registration flow (validly re-sealed): replays,
	// already registered keys and token nonces must still be refused, an honest one is honoured once
	for _, p := range idps {
		for _, wrap := range []bool{false, true} {
			for _, inner := range []string{"honest", "registered-self", "registered-other", "token-marshaled", "token-real"} {
				nc := base()
				nc.Backend, nc.NodeID, nc.Indep, nc.Lookup, nc.EncBy, nc.Named, nc.Wrap, nc.Inner, nc.Rewrap = p.backend, p.nodeID, p.indep, p.lookup, p.encBy, p.encBy, wrap, inner, "self-valid"
				nc.RegWrap = wrap
				cases = append(cases, nc)
				if inner == "honest" {
					nc.History = "replay"
					cases = append(cases, nc)
				}
			}
		}
	}
	// replay of a previous-key rotation
	{
		nc := base()
		nc.Chain, nc.Prev, nc.EncBy, nc.Named, nc.History, nc.Lookup = 1, true, 0, 1, "replay", []int{0, 1}
		cases = append(cases, nc)
		nc.Backend, nc.NodeID, nc.Lookup = world.Ordered, "N", []int{1}
		cases = append(cases, nc)
	}
	enumerated := len(cases)

	// F. random mixtures
	rng := c.Rng("noderot")
	nrand := c.Pick(120, 4500)
	for i := 0; i < nrand; i++ {
		nc := nrRandomCase(rng)
		if nc.History == "replay" && !nrExpectHonor(nc) {
			nc.History = "single"
		}
		cases = append(cases, nc)
	}
	r.Set("enumerated_cases", enumerated)
	r.Set("random_cases", nrand)
	r.Sample(cases[3])
	r.Sample(cases[enumerated/2])
	r.Sample(cases[enumerated-1])
	r.Sample(cases[len(cases)-1])

	for i := range cases {
		cases[i].NoState = i%2 == 1
		cases[i].CallerState = i%3 == 1
		cases[i].BreakCurrent = i%7 == 3 && cases[i].History == "single"
	}
	engine.ForEach(len(cases), engine.Workers(), func(i int) { runNRCase(c, cases[i]) })

	for _, k := range []string{"current", "previous", "other-node", "unrelated", "own-record-outside-lookup", "none"} {
		r.Require("enc_kind_"+k, 5)
	}
	r.Require("inner_with_valid_self_rewrapped_info", 20)
	for _, k := range []string{"keyid", "nodeid", "nodeid-on-plain-storage"} {
		r.Require("path_"+k, 10)
		r.Require("honored_path_"+k, 3)
	}
	for _, k := range []string{"only", "first", "middle", "last"} {
		r.Require("verifying_position_"+k, 3)
	}
	for _, k := range append(append([]string{}, nrInners...), nrExoticInners...) {
		r.Require("inner_"+k, 4)
	}
	for _, k := range nrPayloads {
		r.Require("payload_"+k, 4)
	}
	for _, k := range []string{"single", "replay", "replay-old"} {
		r.Require("history_"+k, 4)
	}
	for _, k := range []string{"nodeid_lookup_records_1", "nodeid_lookup_records_2", "nodeid_lookup_records_3"} {
		r.Require(k, 5)
	}
	r.Require("identification_unknown-node", 4)
	r.Require("honored_enc_current", 20)
	r.Require("honored_enc_previous", 4)
	r.Require("expect_honored", 30)
	r.Require("expect_refused", 60)
	r.Require("rotations_honored_checked", 40)
	r.Require("chain_rotations_checked", 20)
	r.Require("refused_storage_unchanged", 60)
	for i := 0; i < c.Pick(6, 30); i++ {
		runNRStoreOnceNodeIDs(c, i%2 == 1, i)
	}
	for i := 0; i < c.Pick(6, 30); i++ {
		runNREntropy(c, i)
	}
	r.Require("refused:storeonce-node-id-of-another-node", 8)
	r.Require("storeonce_own_node_id_rotation_honoured", 3)
	r.Require("rotation_calls_with_nil_entries_in_the_option_list", 100)
	r.Require("refused:replay-after-success", 4)
	r.Require("honest_rotations_attempted_with_a_failing_storage_wrapper_call", 8)
	r.Require("refused:replay-of-older-payload", 4)
	r.Require("token_still_present_after_refusal", 2)
	return res
}
