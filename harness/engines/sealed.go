package engines

// C12 — a storage wrapper keeps key material out of storage and binds it to
// its record. Every message handed to Storage.Store while a storage wrapper is
// supplied is recorded and searched for every secret the scenario knows in
// clear; every record is loaded back with the same wrapper (must be equal to
// the clear object that was stored), without a wrapper and with a different
// wrapper (must fail); sealed fields are transplanted between records of the
// same type (must not open).

import (
	"bytes"
	"context"
	"crypto/ed25519"
	"crypto/x509"
	"encoding/hex"
	"encoding/json"
	"fmt"
	"math/rand"
	"sort"
	"strings"
	"time"

	wrapping "github.com/hashicorp/go-kms-wrapping/v2"
	"github.com/hashicorp/go-kms-wrapping/v2/extras/multi"
	"github.com/hashicorp/nodeenrollment"
	"github.com/hashicorp/nodeenrollment/registration"
	"github.com/hashicorp/nodeenrollment/rotation"
	"github.com/hashicorp/nodeenrollment/storage/inmem"
	nodetls "github.com/hashicorp/nodeenrollment/tls"
	"github.com/hashicorp/nodeenrollment/types"
	"google.golang.org/protobuf/proto"
	"google.golang.org/protobuf/reflect/protoreflect"
	"google.golang.org/protobuf/types/known/structpb"
	"google.golang.org/protobuf/types/known/timestamppb"

	"verifharness/engine"
	"verifharness/ev"
	"verifharness/recstore"
	"verifharness/world"
)

func init() {
	engine.Register(&engine.Spec{Prop: "C12", Engine: "sealed", Level: "exploration", Fn: runSealed})
}

const (
	sealedNI    = "NodeInformation"
	sealedNC    = "NodeCredentials"
	sealedRoots = "RootCertificates"
	sealedTok   = "ServerLedActivationToken"
)

var sealedRootModes = []string{"fresh", "promote", "promote-expired", "redo-next", "both-expired", "noop"}

// sealedCase describes one scenario (what to do, no key bytes)
type sealedCase struct {
	Kind    string `json:"kind"` // direct | flow
	Backend string `json:"backend"`
	// direct: one record type with a combination of optional fields, stored through <Type>.Store
	Type    string `json:"type,omitempty"`
	Nonce   bool   `json:"nonce,omitempty"`
	Prev    bool   `json:"previous_key,omitempty"`
	State   bool   `json:"state,omitempty"`
	Bundles bool   `json:"bundles,omitempty"`
	// flow: library flows writing records
	Flow     string `json:"flow,omitempty"`  // authorize | token | wrapper | rewrapped
	Roots    string `json:"roots,omitempty"` // see sealedRootModes
	NodeWrap bool   `json:"node_wrapper,omitempty"`
	Params   bool   `json:"params,omitempty"`
	Rotate   bool   `json:"rotate,omitempty"`
	Retain   bool   `json:"retain_previous_key,omitempty"`
	Variant  int    `json:"variant,omitempty"`
}

// sealedWitness is what a violation records: the case (flattened, so that a
// replay can unmarshal it as a sealedCase) plus the exact bytes
type sealedWitness struct {
	sealedCase
	Side       string `json:"side,omitempty"`
	Record     string `json:"record,omitempty"`
	Field      string `json:"field,omitempty"`
	SecretKind string `json:"secret_kind,omitempty"`
	SecretHex  string `json:"secret_hex,omitempty"`
	StoredHex  string `json:"stored_record_hex,omitempty"`
	Detail     string `json:"detail,omitempty"`
}

type sealedSecret struct {
	kind  string
	b     []byte
	scope string // "" = searched in every record type; else only in that type
}

type sealedSide struct {
	name  string
	inner nodeenrollment.Storage
	rec   *recstore.Rec
	store nodeenrollment.Storage
	sw    wrapping.Wrapper
}

func (sd *sealedSide) opts(extra ...nodeenrollment.Option) []nodeenrollment.Option {
	var o []nodeenrollment.Option
	if sd.sw != nil {
		o = append(o, nodeenrollment.WithStorageWrapper(sd.sw))
	}
	o = append(o, extra...)
	return o[:len(o):len(o)]
}

type sealedScn struct {
	r        *ev.Run
	sc       sealedCase
	ctx      context.Context
	rng      *rand.Rand
	reg      []sealedSecret
	seen     map[string]bool
	sides    []*sealedSide
	cleanups []func()
	scratch  nodeenrollment.Storage
	reached  bool // a wrapped store was inspected and a round trip compared
	rtDone   bool
	failed   string
	// certificate keys of harness-built node records, by PKIX bytes (to sign as that node)
	nodeKeys map[string]*world.Keys
}

func (x *sealedScn) close() {
	for _, f := range x.cleanups {
		f()
	}
}

func (x *sealedScn) backend() (nodeenrollment.Storage, error) {
	st, cleanup, err := world.NewBackend(x.sc.Backend)
	if err != nil {
		return nil, err
	}
	x.cleanups = append(x.cleanups, cleanup)
	return st, nil
}

func (x *sealedScn) newSide(name string, sw wrapping.Wrapper) *sealedSide {
	inner, err := x.backend()
	if err != nil {
		panic("sealed: backend: " + err.Error())
	}
	rec := recstore.New(inner)
	rec.KeepMsgs = true
	sd := &sealedSide{name: name, inner: inner, rec: rec, store: rec.Wrap(), sw: sw}
	x.sides = append(x.sides, sd)
	return sd
}

func (x *sealedScn) witness(w sealedWitness) sealedWitness {
	w.sealedCase = x.sc
	return w
}

// ---------------------------------------------------------------------------
// secrets registry

func (x *sealedScn) secret(kind string, b []byte, scope string) {
	if len(b) < 6 {
		return
	}
	k := scope + "\x00" + string(b)
	if x.seen[k] {
		return
	}
	x.seen[k] = true
	x.reg = append(x.reg, sealedSecret{kind: kind, b: append([]byte{}, b...), scope: scope})
	x.r.Count("secrets_registered", 1)
	x.r.Count("secrets_registered:"+kind, 1)
}

// secretEd registers a PKCS#8 ed25519 key and its raw seed
func (x *sealedScn) secretEd(kind string, pkcs8 []byte) {
	x.secret(kind+"-pkcs8", pkcs8, "")
	if raw, err := x509.ParsePKCS8PrivateKey(pkcs8); err == nil {
		if k, ok := raw.(ed25519.PrivateKey); ok {
			x.secret(kind+"-seed", k.Seed(), "")
		}
	}
}

func (x *sealedScn) secretsOfRoots(r *types.RootCertificates) {
	if r == nil {
		return
	}
	for _, rc := range []*types.RootCertificate{r.Current, r.Next} {
		if rc != nil {
			x.secretEd("root-private-key", rc.PrivateKeyPkcs8)
		}
	}
}

func (x *sealedScn) secretsOfCreds(nc *types.NodeCredentials) {
	x.secretEd("node-certificate-private-key", nc.CertificatePrivateKeyPkcs8)
	x.secret("node-encryption-private-key", nc.EncryptionPrivateKeyBytes, "")
	// the node-side nonce is a secret of the node's storage only: the server
	// keeps its own copy in NodeInformation.registration_nonce by design
	x.secret("node-registration-nonce", nc.RegistrationNonce, sealedNC)
	if nc.PreviousEncryptionKey != nil {
		x.secret("previous-node-encryption-private-key", nc.PreviousEncryptionKey.PrivateKeyPkcs8, "")
	}
}

func (x *sealedScn) secretsOfInfo(ni *types.NodeInformation) {
	x.secret("server-encryption-private-key", ni.ServerEncryptionPrivateKeyBytes, "")
	if ni.PreviousEncryptionKey != nil {
		x.secret("previous-server-encryption-private-key", ni.PreviousEncryptionKey.PrivateKeyPkcs8, "")
	}
}

func (x *sealedScn) secretOfTokenTime(ts *timestamppb.Timestamp) {
	if ts == nil {
		return
	}
	b, err := proto.Marshal(ts)
	if err == nil {
		x.secret("token-creation-time", b, sealedTok)
	}
}

// ---------------------------------------------------------------------------
// generic record helpers

func sealedTypeOf(m proto.Message) string { return recstore.TypeName(m) }

func sealedNewMsg(typ, id string) nodeenrollment.MessageWithId {
	switch typ {
	case sealedNI:
		return &types.NodeInformation{Id: id}
	case sealedNC:
		return &types.NodeCredentials{Id: id}
	case sealedRoots:
		return &types.RootCertificates{Id: id}
	case sealedTok:
		return &types.ServerLedActivationToken{Id: id}
	}
	return nil
}

// sealedLibLoad loads a record through the library's loader (with unsealing)
func sealedLibLoad(ctx context.Context, st nodeenrollment.Storage, typ, id string, opt ...nodeenrollment.Option) (m proto.Message, err error) {
	if p, _ := engine.Guard(func() {
		switch typ {
		case sealedNI:
			var v *types.NodeInformation
			v, err = types.LoadNodeInformation(ctx, st, id, opt...)
			if v != nil {
				m = v
			}
		case sealedNC:
			var v *types.NodeCredentials
			v, err = types.LoadNodeCredentials(ctx, st, nodeenrollment.KnownId(id), opt...)
			if v != nil {
				m = v
			}
		case sealedRoots:
			var v *types.RootCertificates
			v, err = types.LoadRootCertificates(ctx, st, opt...)
			if v != nil {
				m = v
			}
		case sealedTok:
			var v *types.ServerLedActivationToken
			v, err = types.LoadServerLedActivationToken(ctx, st, id, opt...)
			if v != nil {
				m = v
			}
		default:
			err = fmt.Errorf("unknown type %s", typ)
		}
	}); p != nil {
		return nil, fmt.Errorf("panic: %v", p)
	}
	return m, err
}

// sealedRawLoad reads the stored (sealed) message without unsealing
func sealedRawLoad(ctx context.Context, st nodeenrollment.Storage, typ, id string) (nodeenrollment.MessageWithId, error) {
	m := sealedNewMsg(typ, id)
	if err := st.Load(ctx, m); err != nil {
		return nil, err
	}
	return m, nil
}

// sealedPut writes a message directly to a storage, replacing what is there
func sealedPut(ctx context.Context, st nodeenrollment.Storage, m nodeenrollment.MessageWithId) error {
	_ = st.Remove(ctx, m)
	return st.Store(ctx, m)
}

func sealedIDOf(m proto.Message) string {
	if w, ok := m.(nodeenrollment.MessageWithId); ok {
		return w.GetId()
	}
	return ""
}

// sealedDiff names the top-level fields in which two messages of one type differ
func sealedDiff(a, b proto.Message) []string {
	var out []string
	ra, rb := a.ProtoReflect(), b.ProtoReflect()
	fds := ra.Descriptor().Fields()
	for i := 0; i < fds.Len(); i++ {
		fd := fds.Get(i)
		ma, mb := ra.New(), rb.New()
		if ra.Has(fd) {
			ma.Set(fd, ra.Get(fd))
		}
		if rb.Has(fd) {
			mb.Set(fd, rb.Get(fd))
		}
		if !proto.Equal(ma.Interface(), mb.Interface()) {
			out = append(out, string(fd.Name()))
		}
	}
	return out
}

// sealedFindField returns the path of the field whose value contains secret
func sealedFindField(m protoreflect.Message, secret []byte) string {
	found := ""
	m.Range(func(fd protoreflect.FieldDescriptor, v protoreflect.Value) bool {
		name := string(fd.Name())
		switch {
		case fd.IsMap():
			return true
		case fd.IsList():
			l := v.List()
			for i := 0; i < l.Len(); i++ {
				switch fd.Kind() {
				case protoreflect.MessageKind:
					if sub := sealedFindField(l.Get(i).Message(), secret); sub != "" {
						found = name + "." + sub
						return false
					}
				case protoreflect.BytesKind:
					if bytes.Contains(l.Get(i).Bytes(), secret) {
						found = name
						return false
					}
				}
			}
		case fd.Kind() == protoreflect.BytesKind:
			if bytes.Contains(v.Bytes(), secret) {
				found = name
				return false
			}
		case fd.Kind() == protoreflect.StringKind:
			if bytes.Contains([]byte(v.String()), secret) {
				found = name
				return false
			}
		case fd.Kind() == protoreflect.MessageKind:
			if sub := sealedFindField(v.Message(), secret); sub != "" {
				found = name + "." + sub
				return false
			}
			if b, err := proto.Marshal(v.Message().Interface()); err == nil && bytes.Contains(b, secret) {
				found = name
				return false
			}
		}
		return true
	})
	return found
}

// ---------------------------------------------------------------------------
// inspection of everything handed to Storage.Store under a wrapper

func (x *sealedScn) inspect() {
	r := x.r
	for _, sd := range x.sides {
		for _, op := range sd.rec.Ops() {
			if op.Kind != "store" || op.Bytes == nil {
				continue
			}
			if sd.sw == nil {
				r.Count("stores_not_inspected_no_wrapper:"+op.Type, 1)
				continue
			}
			r.Count("stores_inspected:"+op.Type, 1)
			r.Count("stores_inspected", 1)
			x.reached = true
			msg := sealedNewMsg(op.Type, "")
			if msg == nil {
				continue
			}
			if err := proto.Unmarshal(op.Bytes, msg); err != nil {
				x.r.Broken("sealed: recorded store does not unmarshal: " + err.Error())
				continue
			}
			switch v := msg.(type) {
			case *types.NodeInformation:
				if v.PreviousEncryptionKey != nil {
					r.Count("stores_with_previous_key:"+op.Type, 1)
				}
				if v.State != nil {
					r.Count("stores_with_state:"+op.Type, 1)
				}
				if len(v.CertificateBundles) > 0 {
					r.Count("stores_with_bundles:"+op.Type, 1)
				}
			case *types.NodeCredentials:
				if v.PreviousEncryptionKey != nil {
					r.Count("stores_with_previous_key:"+op.Type, 1)
				}
				if len(v.RegistrationNonce) > 0 {
					r.Count("stores_with_nonce:"+op.Type, 1)
				}
				if v.State != nil {
					r.Count("stores_with_state:"+op.Type, 1)
				}
				if len(v.CertificateBundles) > 0 {
					r.Count("stores_with_bundles:"+op.Type, 1)
				}
			case *types.RootCertificates:
				if v.State != nil {
					r.Count("stores_with_state:"+op.Type, 1)
				}
			case *types.ServerLedActivationToken:
				if v.State != nil {
					r.Count("stores_with_state:"+op.Type, 1)
				}
				if v.CreationTime != nil {
					r.Violation("clear-secret-in-storage:"+sealedTok+".creation_time",
						fmt.Sprintf("the %s record handed to storage under a wrapper carries the clear creation_time field next to the sealed creation_time_marshaled", sealedTok),
						x.witness(sealedWitness{Side: sd.name, Record: op.Type + "/" + op.ID, Field: "creation_time", SecretKind: "token-creation-time", StoredHex: hex.EncodeToString(op.Bytes), Detail: "creation_time = " + v.CreationTime.AsTime().UTC().Format(time.RFC3339Nano)}))
				}
			}
			// the object that was handed to storage, as it is now that the call has long returned: a storage that
			// keeps what it is given (or writes it out later) holds this, so it must not have turned clear
			if op.Msg != nil {
				if later, merr := proto.Marshal(op.Msg); merr == nil && !bytes.Equal(later, op.Bytes) {
					r.Count("objects_handed_to_storage_that_changed_after_the_call:"+op.Type, 1)
					for _, s := range x.reg {
						if (s.scope == "" || s.scope == op.Type) && bytes.Contains(later, s.b) && !bytes.Contains(op.Bytes, s.b) {
							path := sealedFindField(op.Msg.ProtoReflect(), s.b)
							r.Violation("clear-secret-in-object-handed-to-storage:"+op.Type, fmt.Sprintf("the %s message handed to storage under a storage wrapper was sealed during the call and holds field %s in clear after it returned (the library gave storage an object it goes on using)", op.Type, path),
								x.witness(sealedWitness{Side: sd.name, Record: op.Type + "/" + op.ID, Field: path, SecretKind: s.kind, SecretHex: hex.EncodeToString(s.b), StoredHex: hex.EncodeToString(later)}))
							break
						}
					}
				} else if merr == nil {
					r.Count("objects_handed_to_storage_unchanged_after_the_call", 1)
				}
			}
			for _, s := range x.reg {
				if s.scope != "" && s.scope != op.Type {
					continue
				}
				r.Count("substring_searches", 1)
				if !bytes.Contains(op.Bytes, s.b) {
					continue
				}
				path := sealedFindField(msg.ProtoReflect(), s.b)
				top := path
				if i := strings.Index(top, "."); i > 0 {
					top = top[:i]
				}
				if top == "" {
					top, path = "(unattributed)", "(unattributed)"
				}
				if op.Type == sealedRoots {
					top = path // current and next are the sealed units of the one roots record
				}
				r.Violation("clear-secret-in-storage:"+op.Type+"."+top,
					fmt.Sprintf("secret found in clear in field %s of a %s record handed to storage under a storage wrapper", path, op.Type),
					x.witness(sealedWitness{Side: sd.name, Record: op.Type + "/" + op.ID, Field: path, SecretKind: s.kind, SecretHex: hex.EncodeToString(s.b), StoredHex: hex.EncodeToString(op.Bytes)}))
			}
		}
	}
}

// ---------------------------------------------------------------------------
// round trips

// roundTrip loads the record that clear was stored as: with the same wrapper
// (must equal clear), without a wrapper and with other wrappers (must fail)
func (x *sealedScn) roundTrip(sd *sealedSide, clear proto.Message) {
	if sd.sw == nil {
		return
	}
	typ, id := sealedTypeOf(clear), sealedIDOf(clear)
	r := x.r
	loaded, err := sealedLibLoad(x.ctx, sd.inner, typ, id, nodeenrollment.WithStorageWrapper(sd.sw))
	switch {
	case err != nil:
		r.Violation("roundtrip-load-failed:"+typ, fmt.Sprintf("loading a %s record with the wrapper it was stored with fails", typ),
			x.witness(sealedWitness{Side: sd.name, Record: typ + "/" + id, Detail: err.Error()}))
	case !proto.Equal(loaded, clear):
		d := sealedDiff(loaded, clear)
		r.Violation("roundtrip-mismatch:"+typ, fmt.Sprintf("a %s record loaded with the same wrapper differs from what was stored in fields %v", typ, d),
			x.witness(sealedWitness{Side: sd.name, Record: typ + "/" + id, Detail: strings.Join(d, ",")}))
	default:
		r.Count("roundtrips_equal:"+typ, 1)
		r.Count("roundtrips_equal", 1)
	}
	x.rtDone = true
	x.refusals(sd, typ, id)
}

// refusals checks that loading without / with another wrapper fails
func (x *sealedScn) refusals(sd *sealedSide, typ, id string) {
	r := x.r
	if m, err := sealedLibLoad(x.ctx, sd.inner, typ, id); err == nil {
		r.Violation("load-without-wrapper-succeeded:"+typ, fmt.Sprintf("a %s record stored under a wrapper loads without any wrapper", typ),
			x.witness(sealedWitness{Side: sd.name, Record: typ + "/" + id, Detail: fmt.Sprintf("%T", m)}))
	} else {
		r.Count("load_without_wrapper_refused:"+typ, 1)
		r.Count("load_without_wrapper_refused", 1)
	}
	kid, _ := sd.sw.KeyId(x.ctx)
	for _, other := range []struct {
		what string
		w    wrapping.Wrapper
	}{
		{"same key id, different key", world.NewAead(kid)},
		{"different key id and key", world.NewAead("other-" + kid)},
	} {
		if _, err := sealedLibLoad(x.ctx, sd.inner, typ, id, nodeenrollment.WithStorageWrapper(other.w)); err == nil {
			r.Violation("load-with-other-wrapper-succeeded:"+typ, fmt.Sprintf("a %s record stored under a wrapper loads with a different wrapper (%s)", typ, other.what),
				x.witness(sealedWitness{Side: sd.name, Record: typ + "/" + id, Detail: other.what}))
		} else {
			r.Count("load_with_other_wrapper_refused:"+typ, 1)
			r.Count("load_with_other_wrapper_refused", 1)
		}
	}
}

// ---------------------------------------------------------------------------
// transplants

type sealedField struct {
	name string
	get  func(m proto.Message) []byte
	set  func(m proto.Message, b []byte)
	// bind names what the field is bound to in its record (used only to skip
	// transplants between two places that are legitimately the same binding)
	bind func(m proto.Message) []byte
}

func sealedFields(typ string) []sealedField {
	prevNI := func(m proto.Message) *types.EncryptionKey {
		v := m.(*types.NodeInformation)
		if v.PreviousEncryptionKey == nil {
			v.PreviousEncryptionKey = &types.EncryptionKey{KeyId: "transplanted", PrivateKeyType: types.KEYTYPE_X25519, PublicKeyType: types.KEYTYPE_X25519}
		}
		return v.PreviousEncryptionKey
	}
	prevNC := func(m proto.Message) *types.EncryptionKey {
		v := m.(*types.NodeCredentials)
		if v.PreviousEncryptionKey == nil {
			v.PreviousEncryptionKey = &types.EncryptionKey{KeyId: "transplanted", PrivateKeyType: types.KEYTYPE_X25519, PublicKeyType: types.KEYTYPE_X25519}
		}
		return v.PreviousEncryptionKey
	}
	switch typ {
	case sealedNI:
		bind := func(m proto.Message) []byte { return m.(*types.NodeInformation).CertificatePublicKeyPkix }
		return []sealedField{
			{"server_encryption_private_key_bytes",
				func(m proto.Message) []byte { return m.(*types.NodeInformation).ServerEncryptionPrivateKeyBytes },
				func(m proto.Message, b []byte) { m.(*types.NodeInformation).ServerEncryptionPrivateKeyBytes = b }, bind},
			{"previous_encryption_key.private_key_pkcs8",
				func(m proto.Message) []byte {
					return m.(*types.NodeInformation).GetPreviousEncryptionKey().GetPrivateKeyPkcs8()
				},
				func(m proto.Message, b []byte) { prevNI(m).PrivateKeyPkcs8 = b }, bind},
		}
	case sealedNC:
		bind := func(m proto.Message) []byte { return m.(*types.NodeCredentials).CertificatePublicKeyPkix }
		return []sealedField{
			{"certificate_private_key_pkcs8",
				func(m proto.Message) []byte { return m.(*types.NodeCredentials).CertificatePrivateKeyPkcs8 },
				func(m proto.Message, b []byte) { m.(*types.NodeCredentials).CertificatePrivateKeyPkcs8 = b }, bind},
			{"encryption_private_key_bytes",
				func(m proto.Message) []byte { return m.(*types.NodeCredentials).EncryptionPrivateKeyBytes },
				func(m proto.Message, b []byte) { m.(*types.NodeCredentials).EncryptionPrivateKeyBytes = b }, bind},
			{"registration_nonce",
				func(m proto.Message) []byte { return m.(*types.NodeCredentials).RegistrationNonce },
				func(m proto.Message, b []byte) { m.(*types.NodeCredentials).RegistrationNonce = b }, bind},
			{"previous_encryption_key.private_key_pkcs8",
				func(m proto.Message) []byte {
					return m.(*types.NodeCredentials).GetPreviousEncryptionKey().GetPrivateKeyPkcs8()
				},
				func(m proto.Message, b []byte) { prevNC(m).PrivateKeyPkcs8 = b }, bind},
		}
	case sealedRoots:
		return []sealedField{
			{"current.private_key_pkcs8",
				func(m proto.Message) []byte { return m.(*types.RootCertificates).GetCurrent().GetPrivateKeyPkcs8() },
				func(m proto.Message, b []byte) { m.(*types.RootCertificates).Current.PrivateKeyPkcs8 = b },
				func(m proto.Message) []byte { return m.(*types.RootCertificates).GetCurrent().GetPublicKeyPkix() }},
			{"next.private_key_pkcs8",
				func(m proto.Message) []byte { return m.(*types.RootCertificates).GetNext().GetPrivateKeyPkcs8() },
				func(m proto.Message, b []byte) { m.(*types.RootCertificates).Next.PrivateKeyPkcs8 = b },
				func(m proto.Message) []byte { return m.(*types.RootCertificates).GetNext().GetPublicKeyPkix() }},
		}
	case sealedTok:
		return []sealedField{
			{"creation_time_marshaled",
				func(m proto.Message) []byte { return m.(*types.ServerLedActivationToken).CreationTimeMarshaled },
				func(m proto.Message, b []byte) { m.(*types.ServerLedActivationToken).CreationTimeMarshaled = b },
				func(m proto.Message) []byte { return []byte(m.(*types.ServerLedActivationToken).Id) }},
		}
	}
	return nil
}

// transplant copies every sealed field of stored record rawX into stored
// record rawY (Y keeps its identity), writes the edited record to a scratch
// storage of the same kind and loads it with the wrapper: the load must fail.
// clearX is X in clear (to tell sealed fields from unsealed ones and to say
// whether X's secret came out). rawX == rawY means: between the sub-records of
// one record (roots).
func (x *sealedScn) transplant(w wrapping.Wrapper, rawX, clearX, rawY proto.Message) {
	if w == nil || rawX == nil || rawY == nil || clearX == nil {
		return
	}
	r := x.r
	typ := sealedTypeOf(rawY)
	if x.scratch == nil {
		st, err := x.backend()
		if err != nil {
			r.Broken("sealed: scratch backend: " + err.Error())
			return
		}
		x.scratch = st
	}
	idY := sealedIDOf(rawY)
	// control: the unedited stored record opens from the scratch storage
	if err := sealedPut(x.ctx, x.scratch, proto.Clone(rawY).(nodeenrollment.MessageWithId)); err != nil {
		r.Broken("sealed: scratch store: " + err.Error())
		return
	}
	if _, err := sealedLibLoad(x.ctx, x.scratch, typ, idY, nodeenrollment.WithStorageWrapper(w)); err != nil {
		r.Count("transplant_control_failed:"+typ, 1) // reported by the round trip of that record
		return
	}
	r.Count("transplant_controls_ok", 1)
	fields := sealedFields(typ)
	for _, fx := range fields {
		src := fx.get(rawX)
		if len(src) == 0 {
			continue
		}
		if bytes.Equal(src, fx.get(clearX)) {
			r.Count("transplant_skipped_field_not_sealed:"+typ+"."+fx.name, 1) // reported as clear-secret-in-storage
			continue
		}
		for _, fy := range fields {
			if rawX == rawY && fx.name == fy.name {
				continue
			}
			if bytes.Equal(fx.bind(rawX), fy.bind(rawY)) {
				r.Count("transplant_skipped_same_binding:"+typ, 1)
				continue
			}
			edited := proto.Clone(rawY).(nodeenrollment.MessageWithId)
			fy.set(edited, append([]byte{}, src...))
			if err := sealedPut(x.ctx, x.scratch, edited); err != nil {
				r.Broken("sealed: scratch store: " + err.Error())
				return
			}
			r.Count("transplants_attempted:"+typ, 1)
			r.Count("transplants_attempted", 1)
			loaded, err := sealedLibLoad(x.ctx, x.scratch, typ, idY, nodeenrollment.WithStorageWrapper(w))
			if err != nil {
				r.Count("transplants_refused:"+typ, 1)
				r.Count("transplants_refused", 1)
				continue
			}
			// the load succeeded: the field opened iff the source record's secret came out
			where := ""
			if loaded != nil && bytes.Contains(fy.get(loaded), fx.get(clearX)) {
				where = fy.name
			}
			if where == "" {
				// e.g. the destination is a field the loader hands back as stored
				r.Count("transplants_loaded_but_not_opened:"+typ+"."+fy.name, 1)
				if !strings.HasPrefix(fy.name, "previous_encryption_key") {
					// a slot the library opens on load: the foreign sealed value cannot have opened there,
					// and the load reported nothing (the value was dropped or handed back sealed)
					eb, _ := proto.Marshal(edited)
					r.Violation("transplant-tolerated:"+typ+"."+fy.name,
						fmt.Sprintf("sealed field %s of one %s record was copied into field %s of another (a field the library opens on load) and loading that record with the wrapper reports no error: the foreign value did not open and nothing says so (field %s of the loaded record has %d bytes)", fx.name, typ, fy.name, fy.name, len(fy.get(loaded))),
						x.witness(sealedWitness{Record: typ + "/" + idY, Field: fx.name + " -> " + fy.name, StoredHex: hex.EncodeToString(eb), Detail: fmt.Sprintf("source record %q", sealedIDOf(rawX))}))
				}
				continue
			}
			eb, _ := proto.Marshal(edited)
			r.Violation("transplant-opened:"+typ+"."+fx.name,
				fmt.Sprintf("sealed field %s of one %s record copied into field %s of another opens on load with the wrapper: the source record's secret is returned in field %s", fx.name, typ, fy.name, where),
				x.witness(sealedWitness{Record: typ + "/" + idY, Field: fx.name + " -> " + fy.name, StoredHex: hex.EncodeToString(eb), Detail: fmt.Sprintf("source record %q", sealedIDOf(rawX))}))
		}
	}
}

// setLoads: the refusals and the transplants again for the loader that reads all records of one node ID
// (types.LoadNodeInformationSetByNodeId): two records of one node sealed under the wrapper, in a third of the
// cases next to an older record of the same node that was written before any wrapper was configured.
// Loading the set without the wrapper or with another one must fail, and so must a load after a sealed
// field of one record was copied into the other - whatever position the affected record has in the set.
func (x *sealedScn) setLoads(sw wrapping.Wrapper, X, Y *types.NodeInformation) {
	r := x.r
	in, err := inmem.New(x.ctx)
	if err != nil {
		r.Broken("sealed: inmem: " + err.Error())
		return
	}
	ol := world.NewOrderedLoader(in)
	nid := "set-node-" + hex.EncodeToString(world.RandBytes(4))
	A, B := proto.Clone(X).(*types.NodeInformation), proto.Clone(Y).(*types.NodeInformation)
	A.NodeId, B.NodeId = nid, nid
	clear := map[string]*types.NodeInformation{A.Id: A, B.Id: B}
	for _, m := range []*types.NodeInformation{A, B} {
		if err := proto.Clone(m).(*types.NodeInformation).Store(x.ctx, ol, nodeenrollment.WithStorageWrapper(sw)); err != nil {
			x.failed = "Store of a harness-built NodeInformation failed: " + err.Error()
			return
		}
	}
	ids := []string{A.Id, B.Id}
	withClear := x.sc.Variant%3 == 0
	if withClear {
		Z := x.makeInfo(false)
		Z.NodeId = nid
		if err := proto.Clone(Z).(*types.NodeInformation).Store(x.ctx, ol); err != nil {
			x.failed = "Store of a harness-built NodeInformation (no wrapper) failed: " + err.Error()
			return
		}
		clear[Z.Id] = Z
		ids = append(ids, Z.Id)
	}
	// the affected record first, in the middle or last
	switch x.sc.Variant % 4 {
	case 1:
		ids[0], ids[1] = ids[1], ids[0]
	case 2:
		ids[0], ids[len(ids)-1] = ids[len(ids)-1], ids[0]
	case 3:
		ids[1], ids[len(ids)-1] = ids[len(ids)-1], ids[1]
	}
	ol.SetOrder(nid, ids)
	wit := func(detail string) sealedWitness {
		return x.witness(sealedWitness{Side: "direct", Record: sealedNI + " set of node " + nid, Detail: fmt.Sprintf("%s; records in load order %v; clear record present: %v", detail, ids, withClear)})
	}
	load := func(opt ...nodeenrollment.Option) (set *types.NodeInformationSet, err error) {
		if p, st := engine.Guard(func() { set, err = types.LoadNodeInformationSetByNodeId(x.ctx, ol, nid, opt...) }); p != nil {
			r.Violation("panic:"+engine.LibraryFrame(st), fmt.Sprintf("LoadNodeInformationSetByNodeId panicked: %v", p), wit("panic"))
			return nil, fmt.Errorf("panic: %v", p)
		}
		return set, err
	}
	// control: with the wrapper every record comes back as stored
	set, err := load(nodeenrollment.WithStorageWrapper(sw))
	if err != nil || set == nil || len(set.Nodes) != len(ids) {
		n := 0
		if set != nil {
			n = len(set.Nodes)
		}
		r.Violation("roundtrip-mismatch:NodeInformationSet", fmt.Sprintf("loading the records of one node ID with the wrapper they were stored under returned %d of %d records (err=%v)", n, len(ids), err), wit("control"))
		return
	}
	for _, got := range set.Nodes {
		want := clear[got.Id]
		if want == nil || len(sealedDiff(want, got)) > 0 {
			r.Violation("roundtrip-mismatch:NodeInformationSet", "a record loaded by node ID with the same wrapper differs from what was stored", wit("control, record "+got.Id))
			return
		}
	}
	r.Count("set_load_controls_ok", 1)
	// refusals
	kid, _ := sw.KeyId(x.ctx)
	for _, o := range []struct {
		what string
		opt  []nodeenrollment.Option
	}{
		{"no wrapper", nil},
		{"same key id, different key", []nodeenrollment.Option{nodeenrollment.WithStorageWrapper(world.NewAead(kid))}},
		{"different key id and key", []nodeenrollment.Option{nodeenrollment.WithStorageWrapper(world.NewAead("other-" + kid))}},
	} {
		if set, err := load(o.opt...); err == nil {
			n := 0
			if set != nil {
				n = len(set.Nodes)
			}
			r.Violation("set-load-without-the-wrapper-succeeded", fmt.Sprintf("the records of one node ID, stored under a wrapper, load with %s (%d of %d records returned)", o.what, n, len(ids)), wit(o.what))
		} else {
			r.Count("set_load_refused_without_the_wrapper", 1)
		}
	}
	// transplants between the two sealed records
	rawA, errA := sealedRawLoad(x.ctx, in, sealedNI, A.Id)
	rawB, errB := sealedRawLoad(x.ctx, in, sealedNI, B.Id)
	if errA != nil || errB != nil {
		r.Broken(fmt.Sprintf("sealed: raw load: %v %v", errA, errB))
		return
	}
	setRoots := false
	for _, f := range sealedFields(sealedNI) {
		src := f.get(rawA)
		if len(src) == 0 || bytes.Equal(src, f.get(A)) || len(f.get(rawB)) == 0 {
			continue
		}
		edited := proto.Clone(rawB).(nodeenrollment.MessageWithId)
		f.set(edited, append([]byte{}, src...))
		if err := sealedPut(x.ctx, in, edited); err != nil {
			r.Broken("sealed: store: " + err.Error())
			return
		}
		r.Count("set_transplants_attempted", 1)
		set, err := load(nodeenrollment.WithStorageWrapper(sw))
		// the same through the flow that reads the records of a node ID: a connecting node that names this ID
		// and signs with the key of the edited record. The roots are there and sealed under the same wrapper;
		// the records of the node are not all intact, so nothing is minted for it.
		if kb := x.nodeKeys[string(B.CertificatePublicKeyPkix)]; kb != nil {
			if !setRoots {
				if _, rerr := rotation.RotateRootCertificates(x.ctx, ol, nodeenrollment.WithStorageWrapper(sw)); rerr == nil {
					setRoots = true
				}
			}
			if setRoots {
				nonce := world.RandBytes(nodeenrollment.NonceSize)
				greq := &types.GenerateServerCertificatesRequest{CertificatePublicKeyPkix: kb.Pkix, Nonce: nonce, NonceSignature: ed25519.Sign(kb.Priv, nonce), NodeId: nid, CommonName: nodeenrollment.CommonDnsName}
				var gresp *types.GenerateServerCertificatesResponse
				var gerr error
				if p, st := engine.Guard(func() {
					gresp, gerr = nodetls.GenerateServerCertificates(x.ctx, ol, greq, nodeenrollment.WithStorageWrapper(sw))
				}); p != nil {
					r.Violation("panic:"+engine.LibraryFrame(st), fmt.Sprintf("GenerateServerCertificates panicked: %v", p), wit("transplant of "+f.name))
				} else if gerr == nil && gresp != nil {
					r.Violation("certificates-minted-from-a-transplanted-record:"+f.name, fmt.Sprintf("sealed field %s of one record was copied into another record of the same node ID; LoadNodeInformationSetByNodeId refuses that set (err=%v), yet GenerateServerCertificates for a request naming the node ID and signed with the edited record's key succeeds: the flow reads the records without opening them", f.name, err), wit("transplant of "+f.name))
				} else {
					r.Count("set_transplants_refused_by_certificate_generation", 1)
				}
			}
		}
		if err == nil {
			n := 0
			if set != nil {
				n = len(set.Nodes)
			}
			r.Violation("set-load-after-transplant-succeeded:"+f.name, fmt.Sprintf("sealed field %s of one record was copied into another record of the same node ID and loading the node's records still succeeds (%d of %d records returned)", f.name, n, len(ids)), wit("transplant of "+f.name))
		} else {
			r.Count("set_transplants_refused", 1)
		}
		if err := sealedPut(x.ctx, in, proto.Clone(rawB).(nodeenrollment.MessageWithId)); err != nil {
			r.Broken("sealed: store: " + err.Error())
			return
		}
	}
}

// transplantStored loads the stored forms of two records of a side and runs
// the transplants in both directions
func (x *sealedScn) transplantStored(sdX *sealedSide, clearX proto.Message, sdY *sealedSide, clearY proto.Message) {
	if sdX.sw == nil || sdY.sw == nil || sdX.sw != sdY.sw {
		return
	}
	typ := sealedTypeOf(clearX)
	rawX, err := sealedRawLoad(x.ctx, sdX.inner, typ, sealedIDOf(clearX))
	if err != nil {
		x.r.Broken("sealed: raw load: " + err.Error())
		return
	}
	rawY, err := sealedRawLoad(x.ctx, sdY.inner, typ, sealedIDOf(clearY))
	if err != nil {
		x.r.Broken("sealed: raw load: " + err.Error())
		return
	}
	x.transplant(sdX.sw, rawX, clearX, rawY)
	x.transplant(sdX.sw, rawY, clearY, rawX)
}

// ---------------------------------------------------------------------------
// material

func (x *sealedScn) state(tag string) *structpb.Struct {
	st, err := structpb.NewStruct(map[string]any{"tag": tag, "n": float64(x.rng.Intn(1000)), "l": []any{"x", true, float64(x.sc.Variant)}})
	if err != nil {
		panic(err)
	}
	return st
}

func (x *sealedScn) bundles(k *world.Keys) []*types.CertificateBundle {
	now := time.Now()
	var out []*types.CertificateBundle
	for i := 0; i < 2; i++ {
		rk := world.NewKeys()
		nb, na := now.Add(-time.Duration(1+i)*time.Hour), now.Add(time.Duration(10+i)*24*time.Hour)
		caDER := world.MintRootDER(rk, nb, na)
		leaf := world.MintLeaf(world.ParseCert(caDER), rk.Priv, k.Pub, world.LeafSpec{SubjectKeyID: k.Pkix, CommonName: k.KeyID, DNSNames: []string{k.KeyID}, EKU: []x509.ExtKeyUsage{x509.ExtKeyUsageClientAuth}, NotBefore: nb, NotAfter: na})
		out = append(out, &types.CertificateBundle{CertificateDer: leaf, CaCertificateDer: caDER, CertificateNotBefore: timestamppb.New(nb), CertificateNotAfter: timestamppb.New(na)})
	}
	return out
}

func (x *sealedScn) makeInfo(withPrev bool) *types.NodeInformation {
	sc := x.sc
	k, nodeEnc, srvEnc := world.NewKeys(), world.NewX25519(), world.NewX25519()
	if x.nodeKeys == nil {
		x.nodeKeys = map[string]*world.Keys{}
	}
	x.nodeKeys[string(k.Pkix)] = k
	ni := &types.NodeInformation{
		Id:                              k.KeyID,
		CertificatePublicKeyPkix:        k.Pkix,
		CertificatePublicKeyType:        types.KEYTYPE_ED25519,
		EncryptionPublicKeyBytes:        nodeEnc.Pub,
		EncryptionPublicKeyType:         types.KEYTYPE_X25519,
		ServerEncryptionPrivateKeyBytes: srvEnc.Priv,
		ServerEncryptionPrivateKeyType:  types.KEYTYPE_X25519,
	}
	if sc.Nonce {
		ni.RegistrationNonce = world.RandBytes(nodeenrollment.NonceSize)
	}
	if sc.State {
		ni.State = x.state("ni")
	}
	if sc.Bundles {
		ni.CertificateBundles = x.bundles(k)
	}
	if withPrev {
		old := x.makeInfo(false)
		ni.PreviousCertificatePublicKeyPkix = old.CertificatePublicKeyPkix
		if err := ni.SetPreviousEncryptionKey(old); err != nil {
			panic("sealed: SetPreviousEncryptionKey: " + err.Error())
		}
	}
	return ni
}

func (x *sealedScn) makeCreds(id nodeenrollment.KnownId, withPrev bool) *types.NodeCredentials {
	sc := x.sc
	k, enc, srvEnc := world.NewKeys(), world.NewX25519(), world.NewX25519()
	nc := &types.NodeCredentials{
		Id:                             string(id),
		CertificatePublicKeyPkix:       k.Pkix,
		CertificatePrivateKeyPkcs8:     k.Pkcs8,
		CertificatePrivateKeyType:      types.KEYTYPE_ED25519,
		EncryptionPrivateKeyBytes:      enc.Priv,
		EncryptionPrivateKeyType:       types.KEYTYPE_X25519,
		ServerEncryptionPublicKeyBytes: srvEnc.Pub,
		ServerEncryptionPublicKeyType:  types.KEYTYPE_X25519,
	}
	if sc.Nonce {
		nc.RegistrationNonce = world.RandBytes(nodeenrollment.NonceSize)
	}
	if sc.State {
		nc.State = x.state("nc")
	}
	if sc.Bundles {
		nc.CertificateBundles = x.bundles(k)
	}
	if withPrev {
		old := x.makeCreds(id, false)
		nc.PreviousCertificatePublicKeyPkix = old.CertificatePublicKeyPkix
		if err := nc.SetPreviousEncryptionKey(old); err != nil {
			panic("sealed: SetPreviousEncryptionKey: " + err.Error())
		}
	}
	return nc
}

const sealedDay = 24 * time.Hour

// craftedRoots builds a root set with windows that make the next
// RotateRootCertificates call take the named branch (margins >= 1 h)
func (x *sealedScn) craftedRoots(mode string) *types.RootCertificates {
	now := time.Now()
	var w [4]time.Duration
	switch mode {
	case "promote": // both valid: next becomes current
		w = [4]time.Duration{-5 * sealedDay, 5 * sealedDay, -time.Hour, 12 * sealedDay}
	case "promote-expired": // current expired, next valid
		w = [4]time.Duration{-10 * sealedDay, -time.Hour, -2 * time.Hour, 10 * sealedDay}
	case "redo-next": // current valid, next expired
		w = [4]time.Duration{-5 * sealedDay, 5 * sealedDay, -9 * sealedDay, -2 * time.Hour}
	case "both-expired":
		w = [4]time.Duration{-10 * sealedDay, -2 * time.Hour, -8 * sealedDay, -time.Hour}
	default: // noop and direct cases: current valid, next not yet
		w = [4]time.Duration{-time.Hour, 14 * sealedDay, 7 * sealedDay, 21 * sealedDay}
	}
	ck, nk := world.NewKeys(), world.NewKeys()
	return &types.RootCertificates{
		Id:      nodeenrollment.RootsMessageId,
		Current: world.MintRoot(nodeenrollment.CurrentId, ck, now.Add(w[0]), now.Add(w[1])),
		Next:    world.MintRoot(nodeenrollment.NextId, nk, now.Add(w[2]), now.Add(w[3])),
	}
}

// libStore calls the library's Store of a record type through the recording storage
func (x *sealedScn) libStore(sd *sealedSide, m proto.Message) error {
	var err error
	p, st := engine.Guard(func() {
		switch v := m.(type) {
		case *types.NodeInformation:
			err = v.Store(x.ctx, sd.store, sd.opts()...)
		case *types.NodeCredentials:
			err = v.Store(x.ctx, sd.store, sd.opts()...)
		case *types.RootCertificates:
			if v.State != nil && x.sc.Variant%2 == 1 {
				// the state also travels as an option of the call (what RotateRootCertificates' callers do)
				x.r.Count("root_stores_with_state_option", 1)
				err = v.Store(x.ctx, sd.store, sd.opts(nodeenrollment.WithState(v.State))...)
			} else {
				err = v.Store(x.ctx, sd.store, sd.opts()...)
			}
		case *types.ServerLedActivationToken:
			err = v.Store(x.ctx, sd.store, sd.opts()...)
		default:
			err = fmt.Errorf("unknown type %T", m)
		}
	})
	if p != nil {
		x.r.Violation("panic:"+engine.LibraryFrame(st), fmt.Sprintf("Store panicked: %v", p), x.witness(sealedWitness{Record: sealedTypeOf(m)}))
		return fmt.Errorf("panic: %v", p)
	}
	return err
}

// ---------------------------------------------------------------------------
// direct cases: <Type>.Store with every combination of optional fields

func (x *sealedScn) runDirect() {
	sc := x.sc
	sw := world.NewAead("sw-" + hex.EncodeToString(world.RandBytes(4)))
	sd := x.newSide("direct", sw)
	store := func(m proto.Message) bool {
		before := proto.Clone(m)
		if err := x.libStore(sd, m); err != nil {
			x.failed = "Store of a harness-built " + sealedTypeOf(m) + " failed: " + err.Error()
			return false
		}
		// Store must not have sealed the caller's object (token: it fills creation_time_marshaled)
		if tok, ok := m.(*types.ServerLedActivationToken); ok {
			before.(*types.ServerLedActivationToken).CreationTimeMarshaled = tok.CreationTimeMarshaled
		}
		if !proto.Equal(before, m) {
			x.r.Count("store_changed_callers_object:"+sealedTypeOf(m), 1)
		}
		return true
	}
	switch sc.Type {
	case sealedNI:
		X, Y := x.makeInfo(sc.Prev), x.makeInfo(sc.Prev)
		x.secretsOfInfo(X)
		x.secretsOfInfo(Y)
		if !store(X) || !store(Y) {
			return
		}
		x.roundTrip(sd, X)
		x.roundTrip(sd, Y)
		x.transplantStored(sd, X, sd, Y)
		x.setLoads(sw, X, Y)
	case sealedNC:
		X, Y := x.makeCreds(nodeenrollment.CurrentId, sc.Prev), x.makeCreds(nodeenrollment.NextId, sc.Prev)
		x.secretsOfCreds(X)
		x.secretsOfCreds(Y)
		if !store(X) || !store(Y) {
			return
		}
		x.roundTrip(sd, X)
		x.roundTrip(sd, Y)
		x.transplantStored(sd, X, sd, Y)
	case sealedRoots:
		X := x.craftedRoots(sealedRootModes[x.sc.Variant%len(sealedRootModes)])
		if sc.State {
			X.State = x.state("roots")
		}
		x.secretsOfRoots(X)
		if !store(X) {
			return
		}
		x.roundTrip(sd, X)
		raw, err := sealedRawLoad(x.ctx, sd.inner, sealedRoots, X.Id)
		if err != nil {
			x.r.Broken("sealed: raw load: " + err.Error())
			return
		}
		x.transplant(sw, raw, X, raw)
		// a second, unrelated root set stored later: transplants across the two stored records
		Y := x.craftedRoots("noop")
		x.secretsOfRoots(Y)
		if !store(Y) {
			return
		}
		x.roundTrip(sd, Y)
		raw2, err := sealedRawLoad(x.ctx, sd.inner, sealedRoots, Y.Id)
		if err != nil {
			x.r.Broken("sealed: raw load: " + err.Error())
			return
		}
		x.transplant(sw, raw, X, raw2)
	case sealedTok:
		mk := func(off time.Duration) *types.ServerLedActivationToken {
			t := time.Now().Add(-off).Add(time.Duration(1+x.rng.Intn(999_999_000)) * time.Nanosecond)
			tok := &types.ServerLedActivationToken{Id: "tok" + hex.EncodeToString(world.RandBytes(12)), CreationTime: timestamppb.New(t)}
			if sc.State {
				tok.State = x.state("tok")
			}
			return tok
		}
		X, Y := mk(time.Duration(x.rng.Intn(48))*time.Hour), mk(time.Duration(x.rng.Intn(1000))*time.Minute)
		x.secretOfTokenTime(X.CreationTime)
		x.secretOfTokenTime(Y.CreationTime)
		if !store(X) || !store(Y) {
			return
		}
		x.roundTrip(sd, X)
		x.roundTrip(sd, Y)
		x.transplantStored(sd, X, sd, Y)
	default:
		x.failed = "unknown record type " + sc.Type
	}
}

// runNoKeyID: one record of the case's type stored under an aead wrapper that was given key bytes but no key
// ID (aead.NewWrapper + SetAesGcmKeyBytes without WithKeyId; KeyId() is ""). What is handed to storage is
// inspected like everywhere else. The loads get finding keys of their own (prefix wrapper-without-key-id):
// on the pinned tree the loaders take "wrapping_key_id is set" as the mark of a sealed record, so a record
// sealed by such a wrapper comes back still sealed and also loads without any wrapper - a recorded finding,
// see KNOWN_FINDINGS.txt - and that must not hide a different failure of the ordinary round trips.
func (x *sealedScn) runNoKeyID() {
	r := x.r
	sw := world.NewAead("")
	if kid, _ := sw.KeyId(x.ctx); kid != "" {
		r.Broken("sealed: aead wrapper built without a key ID reports " + kid)
		return
	}
	sd := x.newSide("direct-wrapper-without-key-id", sw)
	// twice with the same wrapper object: what the first Store learnt about the wrapper must not change what
	// the second one writes
	for round := 0; round < 2 && x.failed == ""; round++ {
		x.noKeyIDRound(sd, sw, round)
	}
}

func (x *sealedScn) noKeyIDRound(sd *sealedSide, sw wrapping.Wrapper, round int) {
	r := x.r
	sc := x.sc
	var X proto.Message
	switch sc.Type {
	case sealedNI:
		v := x.makeInfo(sc.Prev)
		x.secretsOfInfo(v)
		X = v
	case sealedNC:
		v := x.makeCreds([]nodeenrollment.KnownId{nodeenrollment.CurrentId, nodeenrollment.NextId}[round%2], sc.Prev)
		x.secretsOfCreds(v)
		X = v
	case sealedRoots:
		v := x.craftedRoots("noop")
		x.secretsOfRoots(v)
		X = v
	case sealedTok:
		v := &types.ServerLedActivationToken{Id: "tok" + hex.EncodeToString(world.RandBytes(12)), CreationTime: timestamppb.New(time.Now().Add(-time.Duration(1+x.rng.Intn(999_999_000)) * time.Nanosecond))}
		x.secretOfTokenTime(v.CreationTime)
		X = v
	default:
		x.failed = "unknown record type " + sc.Type
		return
	}
	clear := proto.Clone(X)
	if err := x.libStore(sd, X); err != nil {
		r.Violation("wrapper-without-key-id:store-refused:"+sc.Type, "Store under a wrapper without key ID failed: "+err.Error(), x.witness(sealedWitness{Side: sd.name, Record: sc.Type}))
		return
	}
	if tok, ok := X.(*types.ServerLedActivationToken); ok {
		clear.(*types.ServerLedActivationToken).CreationTimeMarshaled = tok.CreationTimeMarshaled
	}
	r.Count("stores_under_a_wrapper_without_key_id:"+sc.Type, 1)
	x.rtDone = true
	typ, id := sc.Type, sealedIDOf(clear)
	wit := func(d string) sealedWitness {
		return x.witness(sealedWitness{Side: sd.name, Record: typ + "/" + id, Detail: d})
	}
	got, err := sealedLibLoad(x.ctx, sd.inner, typ, id, nodeenrollment.WithStorageWrapper(sw))
	switch {
	case err != nil:
		r.Violation("wrapper-without-key-id:load-with-same-wrapper-failed:"+typ, "a record stored under a wrapper without key ID does not load with that wrapper: "+err.Error(), wit("same wrapper"))
	case len(sealedDiff(clear, got)) > 0:
		r.Violation("wrapper-without-key-id:load-with-same-wrapper-differs:"+typ, fmt.Sprintf("a %s record stored under a wrapper without key ID loads with that wrapper but differs from what was stored in fields %v (the sealed values come back unopened)", typ, sealedDiff(clear, got)), wit("same wrapper"))
	default:
		r.Count("wrapper_without_key_id:round_trip_equal:"+typ, 1)
	}
	if _, err := sealedLibLoad(x.ctx, sd.inner, typ, id); err == nil {
		r.Violation("wrapper-without-key-id:load-without-wrapper-succeeded:"+typ, fmt.Sprintf("a %s record stored under a wrapper without key ID loads without any wrapper", typ), wit("no wrapper"))
	} else {
		r.Count("wrapper_without_key_id:load_without_wrapper_refused:"+typ, 1)
	}
	if _, err := sealedLibLoad(x.ctx, sd.inner, typ, id, nodeenrollment.WithStorageWrapper(world.NewAead(""))); err == nil {
		r.Violation("wrapper-without-key-id:load-with-other-wrapper-succeeded:"+typ, fmt.Sprintf("a %s record stored under a wrapper without key ID loads with a different wrapper (another key, also without key ID)", typ), wit("other wrapper"))
	} else {
		r.Count("wrapper_without_key_id:load_with_other_wrapper_refused:"+typ, 1)
	}
}

// runPooled: records of the case's type stored under a pool of aead keys (multi.PooledWrapper) whose encrypting
// key the operator rolls over between the store and the load: the pool still holds the older key, and finds it
// through the key information that is stored with every sealed value - "loading with the same wrapper returns
// exactly what was stored" has to hold across the roll-over, for what was sealed before and after it.
func (x *sealedScn) runPooled() {
	r := x.r
	sc := x.sc
	pool, err := multi.NewPooledWrapper(x.ctx, world.NewAead("pool-"+hex.EncodeToString(world.RandBytes(4))))
	if err != nil {
		x.failed = "pooled wrapper: " + err.Error()
		return
	}
	sd := x.newSide("direct-pooled-wrapper", pool)
	mk := func(second bool) proto.Message {
		switch sc.Type {
		case sealedNI:
			v := x.makeInfo(sc.Prev)
			x.secretsOfInfo(v)
			return v
		case sealedNC:
			id := nodeenrollment.CurrentId
			if second {
				id = nodeenrollment.NextId
			}
			v := x.makeCreds(id, sc.Prev)
			x.secretsOfCreds(v)
			return v
		case sealedRoots:
			v := x.craftedRoots("noop")
			x.secretsOfRoots(v)
			return v
		case sealedTok:
			v := &types.ServerLedActivationToken{Id: "tok" + hex.EncodeToString(world.RandBytes(12)), CreationTime: timestamppb.New(time.Now().Add(-time.Duration(1+x.rng.Intn(999_999_000)) * time.Nanosecond))}
			x.secretOfTokenTime(v.CreationTime)
			return v
		}
		return nil
	}
	store := func(m proto.Message) (proto.Message, bool) {
		clear := proto.Clone(m)
		if err := x.libStore(sd, m); err != nil {
			x.failed = "Store of a harness-built " + sealedTypeOf(m) + " under a pooled wrapper failed: " + err.Error()
			return nil, false
		}
		if tok, ok := m.(*types.ServerLedActivationToken); ok {
			clear.(*types.ServerLedActivationToken).CreationTimeMarshaled = tok.CreationTimeMarshaled
		}
		return clear, true
	}
	X := mk(false)
	if X == nil {
		x.failed = "unknown record type " + sc.Type
		return
	}
	clearX, ok := store(X)
	if !ok {
		return
	}
	for i := 0; i <= sc.Variant%2; i++ {
		if _, err := pool.SetEncryptingWrapper(x.ctx, world.NewAead("pool-"+hex.EncodeToString(world.RandBytes(4)))); err != nil {
			panic(err)
		}
		r.Count("pooled_wrapper_key_rollovers_between_store_and_load", 1)
	}
	x.roundTrip(sd, clearX)
	if sc.Type == sealedRoots {
		// one root set per storage: nothing else to store next to it
		return
	}
	Y := mk(true)
	clearY, ok := store(Y)
	if !ok {
		return
	}
	x.roundTrip(sd, clearY)
	x.roundTrip(sd, clearX)
}

// runFlaky: the storage wrapper sits behind a key service that fails single calls. With the k-th Encrypt of a
// Store failing, nothing may reach storage in clear (everything handed to storage is inspected like everywhere
// else) and a Store that reports success must have stored what loads back equal; with the k-th Decrypt of a Load
// failing, the Load either fails or returns exactly what was stored - never a record with values still sealed.
func (x *sealedScn) runFlaky() {
	r := x.r
	sc := x.sc
	fw := &world.FlakyWrapper{Wrapper: world.NewAead("flaky-" + hex.EncodeToString(world.RandBytes(4)))}
	sd := x.newSide("direct-flaky-wrapper", fw)
	mk := func() proto.Message {
		switch sc.Type {
		case sealedNI:
			v := x.makeInfo(sc.Prev)
			x.secretsOfInfo(v)
			return v
		case sealedNC:
			v := x.makeCreds(nodeenrollment.CurrentId, sc.Prev)
			x.secretsOfCreds(v)
			return v
		case sealedRoots:
			v := x.craftedRoots("noop")
			x.secretsOfRoots(v)
			return v
		case sealedTok:
			v := &types.ServerLedActivationToken{Id: "tok" + hex.EncodeToString(world.RandBytes(12)), CreationTime: timestamppb.New(time.Now().Add(-time.Duration(1+x.rng.Intn(999_999_000)) * time.Nanosecond))}
			x.secretOfTokenTime(v.CreationTime)
			return v
		}
		return nil
	}
	if mk() == nil {
		x.failed = "unknown record type " + sc.Type
		return
	}
	x.rtDone = true
	// ---- Store while the wrapper cannot tell its key ID (it seals and opens all the same): the Store is refused,
	// or what it stored is a sealed record like any other
	{
		X := mk()
		clear := proto.Clone(X)
		fw.KeyIDFails = true
		err := x.libStore(sd, X)
		fw.KeyIDFails = false
		if tok, ok := X.(*types.ServerLedActivationToken); ok {
			clear.(*types.ServerLedActivationToken).CreationTimeMarshaled = tok.CreationTimeMarshaled
		}
		if err != nil {
			r.Count("flaky:store_refused_while_key_id_lookup_fails:"+sealedTypeOf(clear), 1)
		} else {
			r.Count("flaky:store_succeeded_while_key_id_lookup_fails:"+sealedTypeOf(clear), 1)
			x.roundTrip(sd, clear)
		}
	}
	// ---- the key service's current key version moves on between Store and Load (it reports another key ID and
	// still opens what it sealed before): the same wrapper returns what was stored
	{
		X := mk()
		clear := proto.Clone(X)
		if err := x.libStore(sd, X); err == nil {
			if tok, ok := X.(*types.ServerLedActivationToken); ok {
				clear.(*types.ServerLedActivationToken).CreationTimeMarshaled = tok.CreationTimeMarshaled
			}
			fw.KeyIDOverride = "key-version-" + hex.EncodeToString(world.RandBytes(3))
			typ, id := sealedTypeOf(clear), sealedIDOf(clear)
			got, lerr := sealedLibLoad(x.ctx, sd.inner, typ, id, nodeenrollment.WithStorageWrapper(fw))
			switch {
			case lerr != nil:
				r.Violation("roundtrip-load-failed:after-key-version-change:"+typ, fmt.Sprintf("a %s record does not load with the wrapper it was stored with after that wrapper's reported key ID moved on (it still opens the sealed values): %v", typ, lerr), x.witness(sealedWitness{Side: sd.name, Record: typ + "/" + id, Detail: "KeyId() changed between Store and Load"}))
			case !proto.Equal(got, clear):
				r.Violation("roundtrip-mismatch:after-key-version-change:"+typ, fmt.Sprintf("a %s record loaded after the wrapper's reported key ID moved on differs from what was stored in fields %v", typ, sealedDiff(clear, got)), x.witness(sealedWitness{Side: sd.name, Record: typ + "/" + id}))
			default:
				r.Count("flaky:round_trip_equal_after_key_version_change:"+typ, 1)
			}
			fw.KeyIDOverride = ""
		}
	}
	// ---- Store while the storage answers its first write with an error that calls itself temporary: whatever the
	// library does about it (give up, try again), what it hands to storage is sealed (inspected like everything else)
	{
		X := mk()
		sd.rec.Arm(1, recstore.FaultTemporary)
		err := x.libStore(sd, X)
		fired := sd.rec.Fired()
		sd.rec.Arm(0, "")
		switch {
		case !fired:
		case err != nil:
			r.Count("flaky:store_gave_up_on_a_temporary_storage_error:"+sealedTypeOf(X), 1)
		default:
			r.Count("flaky:store_succeeded_after_a_temporary_storage_error:"+sealedTypeOf(X), 1)
		}
	}
	// ---- Store with a failing Encrypt
	for k := 1; k <= 4; k++ {
		X := mk()
		clear := proto.Clone(X)
		fw.Arm(0, k)
		err := x.libStore(sd, X)
		failures, _, _ := fw.Delivered()
		fw.Arm(0, 0)
		if tok, ok := X.(*types.ServerLedActivationToken); ok {
			clear.(*types.ServerLedActivationToken).CreationTimeMarshaled = tok.CreationTimeMarshaled
		}
		typ, id := sealedTypeOf(clear), sealedIDOf(clear)
		wit := x.witness(sealedWitness{Side: sd.name, Record: typ + "/" + id, Detail: fmt.Sprintf("Encrypt call %d of the Store failed", k)})
		switch {
		case failures == 0:
			// the Store makes fewer than k Encrypt calls: an ordinary store
			r.Count("flaky:store_not_reached_by_the_fault:"+typ, 1)
		case err != nil:
			r.Count("flaky:store_failed_with_failing_encrypt:"+typ, 1)
			continue
		default:
			r.Count("flaky:store_succeeded_although_an_encrypt_failed:"+typ, 1)
		}
		if err != nil {
			x.failed = "Store of a harness-built " + typ + " under an unarmed flaky wrapper failed: " + err.Error()
			return
		}
		// reported success: it loads back equal (a value that could not be sealed was not dropped or mangled)
		got, lerr := sealedLibLoad(x.ctx, sd.inner, typ, id, nodeenrollment.WithStorageWrapper(fw))
		if lerr != nil || !proto.Equal(got, clear) {
			r.Violation("flaky-wrapper:stored-record-does-not-load-back:"+typ, fmt.Sprintf("a %s Store reported success (failing Encrypt delivered: %v) but the record does not load back equal with the same wrapper: %v %v", typ, failures > 0, lerr, sealedDiff(clear, got)), wit)
			continue
		}
		// ---- Load with a failing Decrypt
		for d := 1; d <= 4; d++ {
			fw.Arm(d, 0)
			got, lerr := sealedLibLoad(x.ctx, sd.inner, typ, id, nodeenrollment.WithStorageWrapper(fw))
			df, _, _ := fw.Delivered()
			fw.Arm(0, 0)
			switch {
			case lerr != nil && df > 0:
				r.Count("flaky:load_failed_with_failing_decrypt:"+typ, 1)
			case lerr != nil:
				r.Violation("flaky-wrapper:load-failed-without-fault:"+typ, fmt.Sprintf("loading a %s record with the wrapper it was stored with fails although no Decrypt call failed: %v", typ, lerr), wit)
			case !proto.Equal(got, clear):
				r.Violation("flaky-wrapper:load-succeeded-with-unopened-values:"+typ, fmt.Sprintf("Decrypt call %d of a %s Load failed and the Load reported success with a record that differs from what was stored in fields %v", d, typ, sealedDiff(clear, got)), wit)
			case df > 0:
				r.Count("flaky:load_succeeded_equal_although_a_decrypt_failed:"+typ, 1)
			default:
				r.Count("flaky:load_not_reached_by_the_fault:"+typ, 1)
			}
		}
		if sc.Type == sealedRoots {
			break
		}
	}
}

// ---------------------------------------------------------------------------
// flow cases

type sealedNode struct {
	side       *sealedSide
	creds      *types.NodeCredentials // working copy in clear (the object the library returned)
	freshRaw   proto.Message          // stored record right after NewNodeCredentials (carries the nonce)
	freshClear *types.NodeCredentials
	keyID      string
	token      string
}

type sealedServer struct {
	side *sealedSide
	rw   wrapping.Wrapper
}

func (s *sealedServer) opts(extra ...nodeenrollment.Option) []nodeenrollment.Option {
	var o []nodeenrollment.Option
	if s.rw != nil {
		o = append(o, nodeenrollment.WithRegistrationWrapper(s.rw))
	}
	o = append(o, extra...)
	return s.side.opts(o...)
}

// newNode creates node credentials through the library on a recorded storage
func (x *sealedScn) newNode(name string, nsw wrapping.Wrapper, token string) (*sealedNode, error) {
	n := &sealedNode{side: x.newSide(name, nsw), token: token}
	var extra []nodeenrollment.Option
	if token != "" {
		extra = append(extra, nodeenrollment.WithActivationToken(token))
	}
	creds, err := types.NewNodeCredentials(x.ctx, n.side.store, n.side.opts(extra...)...)
	if err != nil {
		return nil, fmt.Errorf("NewNodeCredentials: %w", err)
	}
	n.creds = creds
	n.freshClear = proto.Clone(creds).(*types.NodeCredentials)
	x.secretsOfCreds(creds)
	n.keyID, err = nodeenrollment.KeyIdFromPkix(creds.CertificatePublicKeyPkix)
	if err != nil {
		return nil, err
	}
	x.roundTrip(n.side, n.freshClear)
	if raw, err := sealedRawLoad(x.ctx, n.side.inner, sealedNC, creds.Id); err == nil {
		n.freshRaw = raw
	}
	return n, nil
}

func (n *sealedNode) tokenOpt() []nodeenrollment.Option {
	if n.token != "" {
		return []nodeenrollment.Option{nodeenrollment.WithActivationToken(n.token)}
	}
	return nil
}

// createToken creates an activation token through the library and checks its stored form
func (x *sealedScn) createToken(s *sealedServer, state *structpb.Struct) (id, tok string, clear *types.ServerLedActivationToken, err error) {
	var extra []nodeenrollment.Option
	if state != nil {
		extra = append(extra, nodeenrollment.WithState(state))
	}
	t0 := time.Now()
	id, tok, err = registration.CreateServerLedActivationToken(x.ctx, s.side.store, &types.ServerLedRegistrationRequest{}, s.opts(extra...)...)
	t1 := time.Now()
	if err != nil {
		return "", "", nil, fmt.Errorf("CreateServerLedActivationToken: %w", err)
	}
	x.r.Count("flow_step:create-token", 1)
	loaded, lerr := sealedLibLoad(x.ctx, s.side.inner, sealedTok, id, s.side.opts()...)
	if lerr != nil {
		x.r.Violation("roundtrip-load-failed:"+sealedTok, fmt.Sprintf("loading an activation token with the wrapper it was created with fails"),
			x.witness(sealedWitness{Side: "server", Record: sealedTok + "/" + id, Detail: lerr.Error()}))
		return id, tok, nil, nil
	}
	clear = loaded.(*types.ServerLedActivationToken)
	x.secretOfTokenTime(clear.CreationTime)
	ct := clear.CreationTime.AsTime()
	switch {
	case clear.CreationTime == nil || ct.Before(t0.Add(-time.Minute)) || ct.After(t1.Add(time.Minute)):
		x.r.Violation("roundtrip-mismatch:"+sealedTok, "activation token loaded with the same wrapper has a creation time that is not the time of its creation",
			x.witness(sealedWitness{Side: "server", Record: sealedTok + "/" + id, Detail: fmt.Sprintf("creation_time %v, created between %v and %v", ct, t0, t1)}))
	case !proto.Equal(clear.State, state) && !(state == nil && clear.State == nil):
		x.r.Violation("roundtrip-mismatch:"+sealedTok, "activation token loaded with the same wrapper has a different state",
			x.witness(sealedWitness{Side: "server", Record: sealedTok + "/" + id, Detail: "state"}))
	default:
		x.r.Count("roundtrips_equal:"+sealedTok, 1)
		x.r.Count("roundtrips_equal", 1)
	}
	x.rtDone = true
	x.refusals(s.side, sealedTok, id)
	return id, tok, clear, nil
}

// checkInfo loads the server's record of a node with the wrapper, registers its
// secrets, compares it with the clear object if the library returned one and
// otherwise with what the node was told (public half of the sealed key)
func (x *sealedScn) checkInfo(s *sealedServer, keyID string, returned *types.NodeInformation, serverPub []byte) *types.NodeInformation {
	if returned != nil {
		x.secretsOfInfo(returned)
		x.roundTrip(s.side, returned)
	}
	loaded, err := sealedLibLoad(x.ctx, s.side.inner, sealedNI, keyID, s.side.opts()...)
	if err != nil {
		if returned == nil {
			x.r.Violation("roundtrip-load-failed:"+sealedNI, fmt.Sprintf("loading a %s record with the wrapper it was stored with fails", sealedNI),
				x.witness(sealedWitness{Side: "server", Record: sealedNI + "/" + keyID, Detail: err.Error()}))
		}
		return nil
	}
	ni := loaded.(*types.NodeInformation)
	x.secretsOfInfo(ni)
	if returned == nil {
		if len(serverPub) > 0 && !bytes.Equal(world.X25519Pub(ni.ServerEncryptionPrivateKeyBytes), serverPub) {
			x.r.Violation("roundtrip-mismatch:"+sealedNI, fmt.Sprintf("a %s record loaded with the same wrapper has a server encryption private key that does not belong to the public key the node was given", sealedNI),
				x.witness(sealedWitness{Side: "server", Record: sealedNI + "/" + keyID, Detail: "server_encryption_private_key_bytes"}))
		} else {
			x.r.Count("roundtrips_checked_by_public_key:"+sealedNI, 1)
		}
		x.rtDone = true
		x.refusals(s.side, sealedNI, keyID)
	}
	return ni
}

// enroll runs one honest enrollment in the given flow with recording on both sides
func (x *sealedScn) enroll(s *sealedServer, flow, name string, nsw wrapping.Wrapper, state, params *structpb.Struct, via *sealedNode) (*sealedNode, *types.NodeInformation, error) {
	var n *sealedNode
	var err error
	var returned *types.NodeInformation
	var resp *types.FetchNodeCredentialsResponse
	fetch := func(req *types.FetchNodeCredentialsRequest) error {
		resp, err = registration.FetchNodeCredentials(x.ctx, s.side.store, req, s.opts()...)
		if err != nil {
			return fmt.Errorf("FetchNodeCredentials: %w", err)
		}
		if resp == nil || len(resp.EncryptedNodeCredentials) == 0 {
			return fmt.Errorf("FetchNodeCredentials: empty (unauthorized) response to an honest request")
		}
		return nil
	}
	switch flow {
	case world.FlowAuthorize:
		if n, err = x.newNode(name, nsw, ""); err != nil {
			return nil, nil, err
		}
		req, err := n.creds.CreateFetchNodeCredentialsRequest(x.ctx)
		if err != nil {
			return n, nil, err
		}
		var extra []nodeenrollment.Option
		if state != nil {
			extra = append(extra, nodeenrollment.WithState(state))
		}
		returned, err = registration.AuthorizeNode(x.ctx, s.side.store, req, s.opts(extra...)...)
		if err != nil {
			return n, nil, fmt.Errorf("AuthorizeNode: %w", err)
		}
		x.checkInfo(s, n.keyID, returned, nil)
		if err := fetch(req); err != nil {
			return n, nil, err
		}
	case world.FlowToken:
		_, tok, _, err := x.createToken(s, state)
		if err != nil {
			return nil, nil, err
		}
		if n, err = x.newNode(name, nsw, tok); err != nil {
			return nil, nil, err
		}
		req, err := n.creds.CreateFetchNodeCredentialsRequest(x.ctx, n.tokenOpt()...)
		if err != nil {
			return n, nil, err
		}
		if err := fetch(req); err != nil {
			return n, nil, err
		}
	case world.FlowWrapper:
		if n, err = x.newNode(name, nsw, ""); err != nil {
			return nil, nil, err
		}
		req, err := n.creds.CreateFetchNodeCredentialsRequest(x.ctx, nodeenrollment.WithRegistrationWrapper(s.rw), nodeenrollment.WithWrappingRegistrationFlowApplicationSpecificParams(params))
		if err != nil {
			return n, nil, err
		}
		if err := fetch(req); err != nil {
			return n, nil, err
		}
	case world.FlowRewrapped:
		if n, err = x.newNode(name, nsw, ""); err != nil {
			return nil, nil, err
		}
		req, err := n.creds.CreateFetchNodeCredentialsRequest(x.ctx)
		if err != nil {
			return n, nil, err
		}
		regInfo := &types.WrappingRegistrationFlowInfo{CertificatePublicKeyPkix: n.creds.CertificatePublicKeyPkix, Nonce: n.creds.RegistrationNonce, ApplicationSpecificParams: params}
		ct, err := nodeenrollment.EncryptMessage(x.ctx, regInfo, via.creds)
		if err != nil {
			return n, nil, err
		}
		req.RewrappedWrappingRegistrationFlowInfo = ct
		req.RewrappingKeyId = via.keyID
		if err := fetch(req); err != nil {
			return n, nil, err
		}
	default:
		return nil, nil, fmt.Errorf("unknown flow %q", flow)
	}
	x.r.Count("flow_step:fetch-"+flow, 1)
	out, err := n.creds.HandleFetchNodeCredentialsResponse(x.ctx, n.side.store, resp, n.side.opts(n.tokenOpt()...)...)
	if err != nil {
		return n, nil, fmt.Errorf("HandleFetchNodeCredentialsResponse: %w", err)
	}
	n.creds = out
	x.r.Count("flow_step:node-handle-response", 1)
	x.secretsOfCreds(out)
	x.roundTrip(n.side, out)
	var ni *types.NodeInformation
	if returned != nil {
		ni = returned
	} else {
		ni = x.checkInfo(s, n.keyID, nil, resp.ServerEncryptionPublicKeyBytes)
	}
	return n, ni, nil
}

// runFaultFlow: a server-side call is made under a storage wrapper while exactly
// one of its storage operations fails (position sc.Variant, error kind sc.Type),
// and is then repeated on working storage. Whatever the calls return, nothing
// they hand to storage may carry a secret in clear (the inspection at the end of
// the case reads every recorded Store). Secrets the library generated inside
// the calls are learnt afterwards by opening what is in storage with the wrapper.
func (x *sealedScn) runFaultFlow() {
	sc := x.sc
	r := x.r
	srv := &sealedServer{side: x.newSide("server", world.NewAead("srv-sw-"+hex.EncodeToString(world.RandBytes(4))))}
	if sc.Flow == world.FlowWrapper {
		srv.rw = world.NewAead("rw-" + hex.EncodeToString(world.RandBytes(4)))
	}
	roots, err := rotation.RotateRootCertificates(x.ctx, srv.side.store, srv.opts()...)
	if err != nil {
		x.failed = "RotateRootCertificates: " + err.Error()
		return
	}
	x.secretsOfRoots(roots)
	x.roundTrip(srv.side, roots)
	var call func() error
	switch sc.Flow {
	case "rotate-roots":
		// make the stored set promotable so that the call under test writes
		old := x.craftedRoots("promote")
		x.secretsOfRoots(old)
		if err := x.libStore(srv.side, old); err != nil {
			x.failed = "store crafted roots: " + err.Error()
			return
		}
		call = func() error {
			rr, err := rotation.RotateRootCertificates(x.ctx, srv.side.store, srv.opts()...)
			if err == nil {
				x.secretsOfRoots(rr)
			}
			return err
		}
	case world.FlowAuthorize, world.FlowToken, world.FlowWrapper:
		var n *sealedNode
		var req *types.FetchNodeCredentialsRequest
		var state *structpb.Struct
		if sc.State {
			state = x.state("fault")
		}
		switch sc.Flow {
		case world.FlowToken:
			_, tok, _, terr := x.createToken(srv, state)
			if terr != nil {
				x.failed = terr.Error()
				return
			}
			if n, err = x.newNode("node", nil, tok); err == nil {
				req, err = n.creds.CreateFetchNodeCredentialsRequest(x.ctx, n.tokenOpt()...)
			}
		case world.FlowWrapper:
			if n, err = x.newNode("node", nil, ""); err == nil {
				req, err = n.creds.CreateFetchNodeCredentialsRequest(x.ctx, nodeenrollment.WithRegistrationWrapper(srv.rw))
			}
		default:
			if n, err = x.newNode("node", nil, ""); err == nil {
				req, err = n.creds.CreateFetchNodeCredentialsRequest(x.ctx)
			}
		}
		if err != nil {
			x.failed = "node side: " + err.Error()
			return
		}
		if sc.Flow == world.FlowAuthorize {
			// the call under test is the authorization itself, followed by the fetch
			call = func() error {
				var extra []nodeenrollment.Option
				if state != nil {
					extra = append(extra, nodeenrollment.WithState(state))
				}
				if _, err := registration.AuthorizeNode(x.ctx, srv.side.store, req, srv.opts(extra...)...); err != nil {
					return err
				}
				_, err := registration.FetchNodeCredentials(x.ctx, srv.side.store, req, srv.opts()...)
				return err
			}
		} else {
			call = func() error {
				_, err := registration.FetchNodeCredentials(x.ctx, srv.side.store, req, srv.opts()...)
				return err
			}
		}
	default:
		x.failed = "unknown fault flow " + sc.Flow
		return
	}
	srv.side.rec.Arm(sc.Variant, sc.Type)
	ferr := call()
	fired := srv.side.rec.Fired()
	srv.side.rec.Arm(0, "")
	if !fired {
		r.Count("fault_flow_fault_not_reached", 1)
		return
	}
	r.Count("fault_flow_faults_delivered", 1)
	r.Count("fault_flow_faults_delivered:"+sc.Flow, 1)
	if ferr != nil {
		r.Count("fault_flow_call_failed", 1)
		if rerr := call(); rerr == nil {
			r.Count("fault_flow_retry_succeeded", 1)
		}
	}
	// learn what the library generated: open what is in storage now
	for _, typ := range []string{sealedNI, sealedTok} {
		ids, lerr := srv.side.inner.List(x.ctx, sealedNewMsg(typ, ""))
		if lerr != nil {
			continue
		}
		for _, id := range ids {
			m, oerr := sealedLibLoad(x.ctx, srv.side.inner, typ, id, srv.side.opts()...)
			if oerr != nil {
				continue
			}
			switch v := m.(type) {
			case *types.NodeInformation:
				x.secretsOfInfo(v)
			case *types.ServerLedActivationToken:
				x.secretOfTokenTime(v.CreationTime)
			}
		}
	}
	if m, oerr := sealedLibLoad(x.ctx, srv.side.inner, sealedRoots, string(nodeenrollment.RootsMessageId), srv.side.opts()...); oerr == nil {
		x.secretsOfRoots(m.(*types.RootCertificates))
	}
}

func (x *sealedScn) runFlow() {
	sc := x.sc
	r := x.r
	var srvWrap wrapping.Wrapper = world.NewAead("srv-sw-" + hex.EncodeToString(world.RandBytes(4)))
	rollover := func() {}
	if sc.Variant%3 == 1 {
		// the server's storage wrapper is a pool of aead keys whose encrypting key is rolled over
		// between the steps: what was sealed earlier must still open (and only with this pool)
		pool, err := multi.NewPooledWrapper(x.ctx, srvWrap)
		if err != nil {
			x.failed = "pooled wrapper: " + err.Error()
			return
		}
		srvWrap = pool
		rollover = func() {
			if _, err := pool.SetEncryptingWrapper(x.ctx, world.NewAead("srv-sw-"+hex.EncodeToString(world.RandBytes(4)))); err != nil {
				panic(err)
			}
			r.Count("server_wrapper_key_rollovers", 1)
		}
	}
	srv := &sealedServer{side: x.newSide("server", srvWrap)}
	if sc.Flow == world.FlowWrapper {
		srv.rw = world.NewAead("rw-" + hex.EncodeToString(world.RandBytes(4)))
	}
	fail := func(step string, err error) { x.failed = step + ": " + err.Error() }

	// ---- roots
	var oldRaw proto.Message
	var oldClear *types.RootCertificates
	if sc.Roots != "fresh" {
		oldClear = x.craftedRoots(sc.Roots)
		if sc.State {
			oldClear.State = x.state("roots")
		}
		x.secretsOfRoots(oldClear)
		if err := x.libStore(srv.side, oldClear); err != nil {
			fail("store crafted roots", err)
			return
		}
		x.roundTrip(srv.side, oldClear)
		oldRaw, _ = sealedRawLoad(x.ctx, srv.side.inner, sealedRoots, oldClear.Id)
	}
	roots, err := rotation.RotateRootCertificates(x.ctx, srv.side.store, srv.opts()...)
	if err != nil {
		fail("RotateRootCertificates", err)
		return
	}
	r.Count("flow_step:rotate-roots-"+sc.Roots, 1)
	rollover()
	x.secretsOfRoots(roots)
	x.roundTrip(srv.side, roots)
	if raw, err := sealedRawLoad(x.ctx, srv.side.inner, sealedRoots, roots.Id); err == nil {
		x.transplant(srv.side.sw, raw, roots, raw)
		if oldRaw != nil {
			x.transplant(srv.side.sw, oldRaw, oldClear, raw)
		}
	}

	// ---- enrollment of two nodes sharing one node-side wrapper
	var nsw wrapping.Wrapper
	if sc.NodeWrap {
		nsw = world.NewAead("node-sw-" + hex.EncodeToString(world.RandBytes(4)))
	}
	var state, params *structpb.Struct
	if sc.State {
		state = x.state("node")
	}
	if sc.Params {
		params = x.state("params")
	}
	if sc.Flow == world.FlowWrapper {
		// a third node registers through the wrapping flow and then once more with a fresh nonce (it lost
		// its credentials and started over with the same certificate key). On back ends that overwrite,
		// the record is replaced; the store-once back end refuses the second one. Either way nothing of
		// what is handed to storage may be in clear. The node is not used afterwards.
		if C, _, err := x.enroll(srv, world.FlowWrapper, "nodeC", nil, nil, params, nil); err == nil && C != nil {
			again := proto.Clone(C.creds).(*types.NodeCredentials)
			again.RegistrationNonce = world.RandBytes(nodeenrollment.NonceSize)
			again.CertificateBundles = nil
			if req, rerr := again.CreateFetchNodeCredentialsRequest(x.ctx, nodeenrollment.WithRegistrationWrapper(srv.rw)); rerr == nil {
				_, ferr := registration.FetchNodeCredentials(x.ctx, srv.side.store, req, srv.opts()...)
				r.Count(fmt.Sprintf("flow_step:wrapping-flow-re-registration(refused=%v)", ferr != nil), 1)
				if m, lerr := sealedLibLoad(x.ctx, srv.side.inner, sealedNI, C.keyID, srv.side.opts()...); lerr == nil {
					x.secretsOfInfo(m.(*types.NodeInformation))
				}
			}
		} else if err != nil {
			fail("enroll C (wrapper)", err)
			return
		}
		rollover()
	}
	var A, B *sealedNode
	var niA, niB *types.NodeInformation
	if sc.Flow == world.FlowRewrapped {
		if B, niB, err = x.enroll(srv, world.FlowAuthorize, "nodeB", nsw, state, nil, nil); err != nil {
			fail("enroll B (authorize)", err)
			return
		}
		if A, niA, err = x.enroll(srv, world.FlowRewrapped, "nodeA", nsw, nil, params, B); err != nil {
			fail("enroll A (rewrapped)", err)
			return
		}
	} else {
		if A, niA, err = x.enroll(srv, sc.Flow, "nodeA", nsw, state, params, nil); err != nil {
			fail("enroll A ("+sc.Flow+")", err)
			return
		}
		flowB := world.FlowAuthorize
		if sc.Variant%2 == 1 {
			flowB = world.FlowToken
		}
		if B, niB, err = x.enroll(srv, flowB, "nodeB", nsw, nil, nil, nil); err != nil {
			fail("enroll B ("+flowB+")", err)
			return
		}
	}
	// transplants: node-side records before (with nonce) and after registration, server-side records
	if nsw != nil && A.freshRaw != nil && B.freshRaw != nil {
		x.transplant(nsw, A.freshRaw, A.freshClear, B.freshRaw)
		x.transplant(nsw, B.freshRaw, B.freshClear, A.freshRaw)
	}
	x.transplantStored(A.side, A.creds, B.side, B.creds)
	if niA != nil && niB != nil {
		x.transplantStored(srv.side, niA, srv.side, niB)
	}

	// ---- two spare tokens (never used) for the token transplants
	_, _, t1, err := x.createToken(srv, x.state("spare"))
	if err != nil {
		fail("spare token", err)
		return
	}
	_, _, t2, err := x.createToken(srv, nil)
	if err != nil {
		fail("spare token", err)
		return
	}
	if t1 != nil && t2 != nil {
		x.transplantStored(srv.side, t1, srv.side, t2)
	}

	// ---- node credential rotation
	if !sc.Rotate {
		return
	}
	rollover()
	if sc.Variant%2 == 0 {
		// the application has tagged the node's record with a node ID of its own (the library never sets one)
		cur, err := sealedLibLoad(x.ctx, srv.side.inner, sealedNI, A.keyID, srv.side.opts()...)
		if err != nil {
			fail("load node information to tag it", err)
			return
		}
		tagged := cur.(*types.NodeInformation)
		tagged.NodeId = "node-" + hex.EncodeToString(world.RandBytes(3))
		x.secretsOfInfo(tagged)
		_ = srv.side.inner.Remove(x.ctx, &types.NodeInformation{Id: tagged.Id})
		if err := x.libStore(srv.side, tagged); err != nil {
			fail("store tagged node information", err)
			return
		}
		r.Count("flow_step:rotation-of-a-record-with-node-id", 1)
	}
	oldCreds := A.creds
	newCreds, err := types.NewNodeCredentials(x.ctx, A.side.store, nodeenrollment.WithSkipStorage(true))
	if err != nil {
		fail("NewNodeCredentials (rotation)", err)
		return
	}
	newCreds.PreviousCertificatePublicKeyPkix = oldCreds.CertificatePublicKeyPkix
	if sc.Retain {
		if err := newCreds.SetPreviousEncryptionKey(oldCreds); err != nil {
			fail("SetPreviousEncryptionKey (node)", err)
			return
		}
	}
	x.secretsOfCreds(newCreds)
	fetchReq, err := newCreds.CreateFetchNodeCredentialsRequest(x.ctx)
	if err != nil {
		fail("CreateFetchNodeCredentialsRequest (rotation)", err)
		return
	}
	encReq, err := nodeenrollment.EncryptMessage(x.ctx, fetchReq, oldCreds)
	if err != nil {
		fail("EncryptMessage (rotation)", err)
		return
	}
	rresp, err := rotation.RotateNodeCredentials(x.ctx, srv.side.store, &types.RotateNodeCredentialsRequest{
		CertificatePublicKeyPkix:             oldCreds.CertificatePublicKeyPkix,
		EncryptedFetchNodeCredentialsRequest: encReq,
	}, srv.opts()...)
	if err != nil {
		fail("RotateNodeCredentials", err)
		return
	}
	r.Count("flow_step:rotate-node-credentials", 1)
	fetchResp := new(types.FetchNodeCredentialsResponse)
	if err := nodeenrollment.DecryptMessage(x.ctx, rresp.EncryptedFetchNodeCredentialsResponse, oldCreds, fetchResp); err != nil {
		fail("DecryptMessage (rotation)", err)
		return
	}
	out, err := newCreds.HandleFetchNodeCredentialsResponse(x.ctx, A.side.store, fetchResp, A.side.opts()...)
	if err != nil {
		fail("HandleFetchNodeCredentialsResponse (rotation)", err)
		return
	}
	x.secretsOfCreds(out)
	x.roundTrip(A.side, out)
	newKeyID, _ := nodeenrollment.KeyIdFromPkix(out.CertificatePublicKeyPkix)
	newInfo := x.checkInfo(srv, newKeyID, nil, fetchResp.ServerEncryptionPublicKeyBytes)
	x.transplantStored(A.side, out, B.side, B.creds)
	if newInfo == nil {
		return
	}
	if sc.Retain {
		// the application keeps the previous key with the new record
		oldInfo, err := sealedLibLoad(x.ctx, srv.side.inner, sealedNI, A.keyID, srv.side.opts()...)
		if err != nil {
			fail("load old node information", err)
			return
		}
		if err := newInfo.SetPreviousEncryptionKey(oldInfo.(*types.NodeInformation)); err != nil {
			fail("SetPreviousEncryptionKey (server)", err)
			return
		}
		x.secretsOfInfo(newInfo)
		_ = srv.side.inner.Remove(x.ctx, &types.NodeInformation{Id: newInfo.Id}) // store-once back end: an update is remove + store
		if err := x.libStore(srv.side, newInfo); err != nil {
			fail("store node information with previous key", err)
			return
		}
		r.Count("flow_step:retain-previous-key", 1)
		x.roundTrip(srv.side, newInfo)
	}
	if niB != nil {
		x.transplantStored(srv.side, newInfo, srv.side, niB)
	}
}

// ---------------------------------------------------------------------------

func runSealedCase(c *engine.Ctx, sc sealedCase) {
	r := c.R
	x := &sealedScn{r: r, sc: sc, ctx: context.Background(), seen: map[string]bool{}, rng: c.Rng("sealed/" + engine.J(sc))}
	defer x.close()
	p, st := engine.Guard(func() {
		switch sc.Kind {
		case "direct":
			x.runDirect()
		case "flow":
			x.runFlow()
		case "faultflow":
			x.runFaultFlow()
		case "nokeyid":
			x.runNoKeyID()
		case "pooled":
			x.runPooled()
		case "flaky":
			x.runFlaky()
		default:
			x.failed = "unknown case kind " + sc.Kind
		}
	})
	// whatever happened, everything recorded so far is inspected
	ip, ist := engine.Guard(x.inspect)
	if p == nil {
		p, st = ip, ist
	}
	r.Eval(engine.J(sc), x.reached && x.rtDone)
	switch {
	case p != nil:
		if f := engine.LibraryFrame(st); f != "" {
			r.Violation("panic:"+f, fmt.Sprintf("panic in library code: %v", p), x.witness(sealedWitness{Detail: st}))
		} else {
			r.Broken(fmt.Sprintf("sealed: harness panic in case %s: %v\n%s", engine.J(sc), p, st))
		}
	case x.failed != "" && strings.Contains(x.failed, "(nodeenrollment."):
		// a library call of an honest flow under a storage wrapper returned an error: what was sealed
		// with the wrapper did not come back through it
		r.Count("scenario_failed", 1)
		step := x.failed
		if i := strings.Index(step, ":"); i > 0 {
			step = step[:i]
		}
		r.Violation("honest-flow-failed-under-wrapper:"+step, "an honest flow under a storage wrapper could not be completed: "+x.failed, x.witness(sealedWitness{Detail: x.failed}))
	case x.failed != "":
		r.Count("scenario_failed", 1)
		r.Broken("sealed: scenario " + engine.J(sc) + " could not be completed: " + x.failed)
	default:
		r.Count("scenarios_completed:"+sc.Kind, 1)
		r.Count("backend:"+sc.Backend, 1)
		if sc.Kind == "flow" {
			r.Count("flow:"+sc.Flow, 1)
			r.Count("root_mode:"+sc.Roots, 1)
		}
	}
}

func runSealed(c *engine.Ctx) engine.Result {
	r := c.R
	res := engine.Result{
		Rule: "case = (direct: record type x combination of optional fields {nonce, previous key, state, bundles} x back end, two harness-built records stored through <Type>.Store) or " +
			"(flow: enrollment flow x root rotation branch x back end x node wrapper x state/params x node rotation with/without retained previous keys, every record written by the library through recording storages on both sides). " +
			"Per case: every message handed to Storage.Store under a wrapper is searched for every registered secret (full-secret substring search; ed25519 keys as PKCS#8 and as raw seed); each record is loaded with the same wrapper (proto.Equal to the clear object), without a wrapper and with two other aead wrappers (must fail); " +
			"every sealed field of record X is copied into every sealed field of record Y of the same type (roots: between current and next and between two stored sets) and loaded (must fail). " +
			"non-trivial = at least one store under a wrapper was inspected and one round trip compared; distinct by descriptor.",
		Assumptions: []string{
			"the registration nonce is a secret of the node's storage only (the server's own copy in NodeInformation.registration_nonce is clear by design); the token creation time is searched in token records only",
			"accepting a record whose wrapping_key_id was cleared and whose fields were replaced by plaintext (un-sealing downgrade) is by design and not checked",
			"transplants between two places bound to the same public key / token id are skipped (the same root promoted from next to current legitimately opens)",
			"for flows in which the library does not return the clear record (token, wrapper, rotation) the server record is compared through the public half of the sealed key that the node received",
			"wrappers are go-kms-wrapping aead (AES-GCM) wrappers that authenticate the AAD; 'fails to open' means the library loader returned an error",
		},
	}
	if c.Replay != nil {
		var sc sealedCase
		if err := json.Unmarshal(c.Replay, &sc); err != nil {
			r.Broken("bad replay: " + err.Error())
			return res
		}
		runSealedCase(c, sc)
		return res
	}
	rng := c.Rng("sealed")
	var cases []sealedCase
	// a wrapper without key ID, each record type with and without a retained previous key
	for _, typ := range []string{sealedNI, sealedNC, sealedRoots, sealedTok} {
		for _, pv := range []bool{false, true} {
			for v := 0; v < c.Pick(1, 4); v++ {
				cases = append(cases, sealedCase{Kind: "nokeyid", Backend: world.Inmem, Type: typ, Prev: pv, Bundles: true, State: v%2 == 1, Variant: v})
			}
		}
	}
	// a pool of keys rolled over between store and load, each record type
	for _, typ := range []string{sealedNI, sealedNC, sealedRoots, sealedTok} {
		for _, pv := range []bool{false, true} {
			for v := 0; v < c.Pick(2, 6); v++ {
				cases = append(cases, sealedCase{Kind: "pooled", Backend: world.Backends[v%len(world.Backends)], Type: typ, Prev: pv, Bundles: true, State: v%2 == 1, Variant: v})
			}
		}
	}
	// a key service that fails single calls, each record type
	for _, typ := range []string{sealedNI, sealedNC, sealedRoots, sealedTok} {
		for _, pv := range []bool{false, true} {
			for v := 0; v < c.Pick(1, 4); v++ {
				cases = append(cases, sealedCase{Kind: "flaky", Backend: world.Backends[v%len(world.Backends)], Type: typ, Prev: pv, Bundles: true, State: v%2 == 1, Variant: v})
			}
		}
	}
	// direct cases
	nv := c.Pick(1, 8)
	for v := 0; v < nv; v++ {
		for _, be := range world.Backends {
			for m := 0; m < 16; m++ {
				for _, typ := range []string{sealedNI, sealedNC} {
					cases = append(cases, sealedCase{Kind: "direct", Backend: be, Type: typ, Nonce: m&1 != 0, Prev: m&2 != 0, State: m&4 != 0, Bundles: m&8 != 0, Variant: v})
				}
			}
			for _, st := range []bool{false, true} {
				cases = append(cases, sealedCase{Kind: "direct", Backend: be, Type: sealedRoots, State: st, Variant: v + rng.Intn(6)})
				cases = append(cases, sealedCase{Kind: "direct", Backend: be, Type: sealedTok, State: st, Variant: v})
			}
		}
	}
	nDirect := len(cases)
	// flow cases
	i := 0
	if c.Quick() {
		for _, be := range world.Backends {
			for _, fl := range world.Flows {
				for rot := 0; rot < 3; rot++ {
					cases = append(cases, sealedCase{Kind: "flow", Backend: be, Flow: fl, Roots: sealedRootModes[i%len(sealedRootModes)],
						NodeWrap: i%7 != 6, State: rng.Intn(2) == 0, Params: rng.Intn(2) == 0, Rotate: rot > 0, Retain: rot == 2, Variant: i})
					i++
				}
			}
		}
	} else {
		for v := 0; v < 3; v++ {
			for _, be := range world.Backends {
				for _, fl := range world.Flows {
					for rot := 0; rot < 3; rot++ {
						for _, rm := range sealedRootModes {
							for _, nw := range []bool{true, false} {
								for _, st := range []bool{false, true} {
									cases = append(cases, sealedCase{Kind: "flow", Backend: be, Flow: fl, Roots: rm, NodeWrap: nw, State: st,
										Params: rng.Intn(2) == 0, Rotate: rot > 0, Retain: rot == 2, Variant: i})
									i++
								}
							}
						}
					}
				}
			}
		}
	}
	// flows under single storage faults
	nFlow := len(cases) - nDirect
	for _, fl := range []string{world.FlowToken, world.FlowAuthorize, world.FlowWrapper, "rotate-roots"} {
		for pos := 1; pos <= 12; pos++ {
			for ki, kind := range recstore.FaultKinds {
				be := world.Backends[(pos+ki)%len(world.Backends)]
				cases = append(cases, sealedCase{Kind: "faultflow", Backend: be, Flow: fl, Type: kind, Variant: pos, State: (pos+ki)%2 == 0})
			}
		}
	}
	r.Set("fault_flow_cases", len(cases)-nDirect-nFlow)
	r.Set("direct_cases", nDirect)
	r.Set("flow_cases", nFlow)
	r.Sample(cases[3])
	r.Sample(cases[nDirect-1])
	r.Sample(cases[nDirect+5])
	r.Sample(cases[len(cases)-1])
	engine.ForEach(len(cases), engine.Workers(), func(i int) { runSealedCase(c, cases[i]) })

	for _, typ := range []string{sealedNI, sealedNC, sealedRoots, sealedTok} {
		r.Require("stores_inspected:"+typ, 50)
		r.Require("roundtrips_equal:"+typ, 20)
		r.Require("load_without_wrapper_refused:"+typ, 20)
		r.Require("load_with_other_wrapper_refused:"+typ, 40)
		r.Require("transplants_attempted:"+typ, 20)
		r.Require("stores_with_state:"+typ, 5)
	}
	r.Require("stores_with_previous_key:"+sealedNI, 10)
	r.Require("stores_with_previous_key:"+sealedNC, 10)
	r.Require("stores_with_nonce:"+sealedNC, 20)
	r.Require("stores_with_bundles:"+sealedNI, 20)
	r.Require("stores_with_bundles:"+sealedNC, 20)
	r.Require("secrets_registered", 500)
	r.Require("fault_flow_faults_delivered", 40)
	r.Require("substring_searches", 5000)
	r.Require("transplant_controls_ok", 100)
	r.Require("set_load_controls_ok", 4)
	r.Require("set_load_refused_without_the_wrapper", 12)
	r.Require("set_transplants_refused", 4)
	r.Require("flow_step:rotate-node-credentials", 10)
	r.Require("server_wrapper_key_rollovers", 10)
	r.Require("root_stores_with_state_option", 3)
	r.Require("flow_step:rotation-of-a-record-with-node-id", 4)
	r.Require("flow_step:retain-previous-key", 5)
	r.Require("flow_step:create-token", 30)
	for _, fl := range world.Flows {
		r.Require("flow_step:fetch-"+fl, 5)
	}
	for _, rm := range sealedRootModes {
		r.Require("flow_step:rotate-roots-"+rm, 3)
	}
	for _, be := range world.Backends {
		r.Require("backend:"+be, 30)
	}
	// per-kind summary of what was registered, for the evidence file
	var kinds []string
	for _, k := range []string{"root-private-key-pkcs8", "root-private-key-seed", "node-certificate-private-key-pkcs8", "node-certificate-private-key-seed",
		"node-encryption-private-key", "server-encryption-private-key", "previous-node-encryption-private-key", "previous-server-encryption-private-key",
		"node-registration-nonce", "token-creation-time"} {
		r.Require("secrets_registered:"+k, 10)
		kinds = append(kinds, k)
	}
	sort.Strings(kinds)
	r.Set("secret_kinds", kinds)
	return res
}
