package engines

// C04 — honest enrollment always completes with correctly bound credentials.
// Every flow x storage back end x wrapper combination is driven through the
// public API with fresh keys; the response, the issued certificates, the node
// record on the server and the node's stored credentials are judged against
// values recomputed from the keys the harness holds (crypto/x509, crypto/ed25519,
// crypto/ecdh + AES-GCM, proto.Equal), the node-side handler is fed substituted
// responses, and a real handshake against an InterceptingListener closes the run.

import (
	"bytes"
	"crypto/aes"
	"crypto/cipher"
	"crypto/ecdh"
	"crypto/ed25519"
	"crypto/x509"
	"encoding/json"
	"errors"
	"fmt"
	"math/rand"
	"strings"
	"time"

	wrapping "github.com/hashicorp/go-kms-wrapping/v2"
	"github.com/hashicorp/nodeenrollment"
	"github.com/hashicorp/nodeenrollment/protocol"
	"github.com/hashicorp/nodeenrollment/registration"
	nodetls "github.com/hashicorp/nodeenrollment/tls"
	"github.com/hashicorp/nodeenrollment/types"
	"google.golang.org/protobuf/proto"
	"google.golang.org/protobuf/types/known/structpb"

	"verifharness/engine"
	"verifharness/world"
)

func init() {
	engine.Register(&engine.Spec{Prop: "C04", Engine: "enroll", Level: "exploration", Fn: runEnroll})
}

type enrollCase struct {
	Flow        string `json:"flow"`
	Backend     string `json:"backend"`
	StorageWrap bool   `json:"storage_wrapper"`
	NodeWrap    bool   `json:"node_storage_wrapper"`
	RegWrap     bool   `json:"registration_wrapper"`
	State       string `json:"state_or_params"` // nil | empty | nested (state: authorize/token; params: wrapper/rewrapped)
	ViaFlow     string `json:"via_flow,omitempty"`
	Rep         int    `json:"rep"`
	Salt        int64  `json:"salt"` // seeds the choices inside the case (positions of flips, cuts, ...)
}

var enrollStateKinds = []string{"nil", "empty", "nested", "large"}

func enrollStruct(kind string, salt int64) *structpb.Struct {
	switch kind {
	case "empty":
		return &structpb.Struct{}
	case "nested":
		s, err := structpb.NewStruct(map[string]any{
			"name":    fmt.Sprintf("n-%d", salt&0xffff),
			"version": 3,
			"tags":    []any{"a", true, nil, 1.5},
			"inner":   map[string]any{"deep": map[string]any{"k": "v"}, "none": map[string]any{}},
		})
		if err != nil {
			panic(err)
		}
		return s
	case "large":
		// a few kilobytes of application data (labels, an inventory): opaque to the library, no documented limit
		var inv []any
		for i := 0; i < 40; i++ {
			inv = append(inv, fmt.Sprintf("item-%02d-%032x", i, salt+int64(i)))
		}
		s, err := structpb.NewStruct(map[string]any{
			"name":      fmt.Sprintf("n-%d", salt&0xffff),
			"blob":      strings.Repeat(fmt.Sprintf("%08x", salt&0xffffffff), 300),
			"inventory": inv,
		})
		if err != nil {
			panic(err)
		}
		return s
	}
	return nil
}

// enrollStructEq compares two structs, treating absent and empty alike (the
// statement does not distinguish them)
func enrollStructEq(a, b *structpb.Struct) bool {
	if a == nil {
		a = &structpb.Struct{}
	}
	if b == nil {
		b = &structpb.Struct{}
	}
	return proto.Equal(a, b)
}

// enrollOpen opens a library envelope without library code: X25519 between the
// given halves, AES-GCM with the 12-byte nonce in front of the ciphertext and
// the key ID as additional data
func enrollOpen(ct, priv, pub []byte, keyID string) (*types.NodeCredentials, bool) {
	pk, err := ecdh.X25519().NewPrivateKey(priv)
	if err != nil {
		return nil, false
	}
	pb, err := ecdh.X25519().NewPublicKey(pub)
	if err != nil {
		return nil, false
	}
	shared, err := pk.ECDH(pb)
	if err != nil {
		return nil, false
	}
	blob := new(wrapping.BlobInfo)
	if err := proto.Unmarshal(ct, blob); err != nil {
		return nil, false
	}
	if len(blob.Ciphertext) < 12 {
		return nil, false
	}
	blk, err := aes.NewCipher(shared)
	if err != nil {
		return nil, false
	}
	gcm, err := cipher.NewGCM(blk)
	if err != nil {
		return nil, false
	}
	var aad []byte
	if keyID != "" {
		aad = []byte(keyID)
	}
	pt, err := gcm.Open(nil, blob.Ciphertext[:12], blob.Ciphertext[12:], aad)
	if err != nil {
		return nil, false
	}
	out := new(types.NodeCredentials)
	if err := proto.Unmarshal(pt, out); err != nil {
		return nil, false
	}
	return out, true
}

// enrollFetch drives one honest flow up to (not including) the node-side
// handling of the response. step names the library call that failed.
func enrollFetch(s *world.Server, flow string, nodeWrap bool, state, params *structpb.Struct, via *world.Node, lateToken bool, fetchOpt ...nodeenrollment.Option) (res *world.EnrollResult, step string, err error) {
	res = &world.EnrollResult{}
	var stateOpt []nodeenrollment.Option
	if state != nil {
		stateOpt = append(stateOpt, nodeenrollment.WithState(state))
	}
	if flow == world.FlowToken {
		id, tok, err := registration.CreateServerLedActivationToken(s.Ctx, s.Store, &types.ServerLedRegistrationRequest{}, s.Opts(stateOpt...)...)
		if err != nil {
			return res, "create-token", err
		}
		res.Token, res.TokID = tok, id
		s.Rollover()
	}
	nodeTok := res.Token
	if lateToken {
		nodeTok = "" // the node generated its credentials before it was given the token
	}
	n, err := world.NewNode(nodeWrap, nodeTok)
	if err != nil {
		return res, "new-node-credentials", err
	}
	if lateToken && res.Token != "" {
		// the token is supplied at request and handling time (what protocol.Dial does)
		n.Token = res.Token
		n.Nonce = tokenBytes(res.Token)
	}
	res.Node = n
	switch flow {
	case world.FlowAuthorize:
		if res.Req, err = n.FetchRequest(); err != nil {
			return res, "create-request", err
		}
		if res.Auth, err = registration.AuthorizeNode(s.Ctx, s.Store, res.Req, s.Opts(stateOpt...)...); err != nil {
			return res, "authorize", err
		}
		s.Rollover()
	case world.FlowToken:
		if res.Req, err = n.FetchRequest(); err != nil {
			return res, "create-request", err
		}
	case world.FlowWrapper:
		if s.RW == nil {
			panic("enroll: wrapper flow without registration wrapper")
		}
		if res.Req, err = n.FetchRequest(nodeenrollment.WithRegistrationWrapper(s.NodeRegWrap()), nodeenrollment.WithWrappingRegistrationFlowApplicationSpecificParams(params)); err != nil {
			return res, "create-request", err
		}
	case world.FlowRewrapped:
		if via == nil {
			panic("enroll: rewrapped flow without a registered node")
		}
		if res.Req, err = n.FetchRequest(); err != nil {
			return res, "create-request", err
		}
		s.Rollover()
		regInfo := &types.WrappingRegistrationFlowInfo{CertificatePublicKeyPkix: n.K.Pkix, Nonce: n.Nonce, ApplicationSpecificParams: params}
		ct, err := nodeenrollment.EncryptMessage(s.Ctx, regInfo, via.Creds)
		if err != nil {
			return res, "rewrap", err
		}
		res.Req.RewrappedWrappingRegistrationFlowInfo = ct
		res.Req.RewrappingKeyId = via.K.KeyID
	default:
		panic("enroll: unknown flow " + flow)
	}
	if res.Resp, err = registration.FetchNodeCredentials(s.Ctx, s.Store, res.Req, s.Opts(fetchOpt...)...); err != nil {
		return res, "fetch", err
	}
	return res, "", nil
}

type enrollSub struct {
	Class string // other-key | nonce | corrupt | server-key
	Name  string
	Resp  *types.FetchNodeCredentialsResponse
}

func enrollFlip(b []byte, bit int) []byte {
	out := append([]byte{}, b...)
	if len(out) == 0 {
		return out
	}
	bit %= len(out) * 8
	out[bit/8] ^= 1 << (bit % 8)
	return out
}

func runEnrollCase(c *engine.Ctx, ec enrollCase) {
	p, st := engine.Guard(func() { enrollCaseBody(c, ec) })
	if p != nil {
		if f := engine.LibraryFrame(st); f != "" {
			c.R.Violation("panic:"+f, fmt.Sprintf("panic during honest enrollment (%s on %s): %v", ec.Flow, ec.Backend, p), ec)
		} else {
			c.R.Broken(fmt.Sprintf("enroll harness panic: %v\n%s", p, st))
		}
	}
}

func enrollCaseBody(c *engine.Ctx, ec enrollCase) {
	r := c.R
	rng := rand.New(rand.NewSource(ec.Salt))
	desc := engine.J(ec)
	reached := false
	defer func() { r.Eval(desc, reached) }()
	cfgs := fmt.Sprintf("%s on %s, storage wrapper %v, node wrapper %v, registration wrapper %v, state/params %s", ec.Flow, ec.Backend, ec.StorageWrap, ec.NodeWrap, ec.RegWrap, ec.State)
	viol := func(key, what string) { r.Violation(key, what+" ("+cfgs+")", ec) }

	// roots of different age: freshly created defaults, short-lived (1 h), and a pair that has been in
	// service for days (crafted windows, both valid now) - the leaf windows must follow the roots in all
	scfg := world.ServerCfg{Backend: ec.Backend, StorageWrap: ec.StorageWrap, RegWrap: ec.RegWrap}
	if ec.StorageWrap {
		// kinds of storage wrapper: a plain aead key, a pool whose encrypting key is rolled over between
		// the steps of the enrollment, envelope encryption (key information and IV stored with each value)
		scfg.StorageWrapKind = []string{"", world.WrapPooled, world.WrapEnvelope}[(ec.Rep+len(ec.Flow)+int(ec.Salt&3))%3]
		r.Count("storage_wrapper_kind:"+orDefault(scfg.StorageWrapKind, "aead"), 1)
	}
	if ec.RegWrap && (ec.Rep+int(ec.Salt&1))%2 == 0 {
		// the server's registration wrapper is a pool whose encrypting key was rolled over after the nodes
		// were provisioned; the nodes seal with the older key
		scfg.RegWrapKind = world.WrapPooled
	}
	if ec.RegWrap {
		r.Count("registration_wrapper_kind:"+orDefault(scfg.RegWrapKind, "aead"), 1)
	}
	rootsKind := []string{"fresh", "short-lived", "in-service-for-days"}[(ec.Rep+len(ec.Backend)+len(ec.Flow)+len(ec.State))%3]
	switch rootsKind {
	case "short-lived":
		scfg.RootOpts = []nodeenrollment.Option{nodeenrollment.WithCertificateLifetime(time.Hour)}
	case "in-service-for-days":
		scfg.NoRoots = true
	}
	s := world.MustServer(scfg)
	defer s.Close()
	if rootsKind == "in-service-for-days" {
		const day = 24 * time.Hour
		craftRoots(s, -10*day, 4*day, -3*day, 11*day)
	}
	r.Count("roots:"+rootsKind, 1)

	// the server's roots, parsed by the harness
	roots, err := s.Roots()
	if err != nil || roots.Current == nil || roots.Next == nil {
		r.Broken(fmt.Sprintf("enroll: cannot load roots: %v", err))
		return
	}
	rootList := []*types.RootCertificate{roots.Current, roots.Next}
	var rootCerts []*x509.Certificate
	var rootPubs []ed25519.PublicKey
	for _, rc := range rootList {
		cert, err := x509.ParseCertificate(rc.CertificateDer)
		if err != nil {
			r.Broken("enroll: cannot parse root certificate: " + err.Error())
			return
		}
		pub, ok := cert.PublicKey.(ed25519.PublicKey)
		if !ok {
			r.Broken("enroll: root key is not ed25519")
			return
		}
		rootCerts = append(rootCerts, cert)
		rootPubs = append(rootPubs, pub)
	}
	if bytes.Equal(rootPubs[0], rootPubs[1]) {
		r.Broken("enroll: current and next root share a key")
		return
	}
	var curPriv ed25519.PrivateKey
	if raw, err := x509.ParsePKCS8PrivateKey(roots.Current.PrivateKeyPkcs8); err == nil {
		curPriv, _ = raw.(ed25519.PrivateKey)
	}
	if curPriv == nil {
		r.Broken("enroll: cannot parse the current root's private key")
		return
	}

	// helpers: a registered node that re-wraps, and another enrolled node
	var via *world.Node
	if ec.Flow == world.FlowRewrapped {
		vr, err := world.Enroll(s, ec.ViaFlow, rng.Intn(2) == 0, nil, enrollStruct("nested", 7), nil)
		if err != nil {
			viol("honest-enrollment-error:"+ec.ViaFlow, "honest enrollment of the re-wrapping node failed: "+err.Error())
			return
		}
		via = vr.Node
	}
	otherFlow := world.FlowAuthorize
	if rng.Intn(2) == 0 {
		otherFlow = world.FlowToken
	}
	// (server side only: its response is kept unhandled, its record is in storage)
	other, ostep, err := enrollFetch(s, otherFlow, rng.Intn(2) == 0, nil, nil, nil, false)
	if err != nil {
		viol("honest-enrollment-error:"+otherFlow+":"+ostep, fmt.Sprintf("honest enrollment of a second node failed at %s: %v", ostep, err))
		return
	}
	if other.Resp == nil || len(other.Resp.EncryptedNodeCredentials) == 0 {
		viol("honest-enrollment-unauthorized:"+otherFlow, "a second honest node fetching after authorization got an empty response")
		return
	}

	// the flow under test, up to the response
	var state, params *structpb.Struct
	if ec.Flow == world.FlowAuthorize || ec.Flow == world.FlowToken {
		state = enrollStruct(ec.State, ec.Salt)
	} else {
		params = enrollStruct(ec.State, ec.Salt)
	}
	lateToken := ec.Flow == world.FlowToken && (ec.Rep+len(ec.Backend)+len(ec.State))%2 == 1
	if lateToken {
		r.Count("token_supplied_after_credential_generation", 1)
	}
	// the redeeming fetch call may itself carry a state option (a handler-wide
	// default, or an explicit nil); a token that carries state overrides it
	// (documented on FetchNodeCredentials), so the expected record is unchanged
	var fetchOpt []nodeenrollment.Option
	fetchState := "none"
	if ec.Flow == world.FlowToken && ec.State == "nested" {
		switch (ec.Rep + len(ec.Backend) + int(ec.Salt&1)) % 3 {
		case 1:
			fetchState = "handler-default"
			fetchOpt = append(fetchOpt, nodeenrollment.WithState(enrollStruct("nested", ec.Salt+7)))
		case 2:
			fetchState = "explicit-nil"
			fetchOpt = append(fetchOpt, nodeenrollment.WithState(nil))
		}
	}
	er, step, err := enrollFetch(s, ec.Flow, ec.NodeWrap, state, params, via, lateToken, fetchOpt...)
	if err != nil {
		viol("honest-enrollment-error:"+ec.Flow+":"+step, fmt.Sprintf("honest enrollment failed at %s: %v", step, err))
		return
	}
	n, req, resp := er.Node, er.Req, er.Resp
	if resp == nil || len(resp.EncryptedNodeCredentials) == 0 {
		viol("honest-enrollment-unauthorized:"+ec.Flow, "honest node fetching after authorization got an empty response")
		return
	}
	info := world.DecodeInfo(req)
	if info == nil {
		r.Broken("enroll: cannot decode the node's own request")
		return
	}
	// what the node signed: its keys and its nonce
	if !bytes.Equal(info.CertificatePublicKeyPkix, n.K.Pkix) || !bytes.Equal(info.EncryptionPublicKeyBytes, n.Enc.Pub) || !bytes.Equal(info.Nonce, n.Nonce) {
		viol("request-not-bound-to-node-keys", "the signed request does not carry the node's certificate key, encryption key and nonce")
		return
	}
	if !ed25519.Verify(n.K.Pub, req.Bundle, req.BundleSignature) {
		viol("request-not-bound-to-node-keys", "the request is not signed by the node's certificate key")
		return
	}
	keyID := n.K.KeyID
	x := types.KEYTYPE_X25519

	// ---- the response opens with the node's key and only with it -------------
	enc := resp.EncryptedNodeCredentials
	srvPub := resp.ServerEncryptionPublicKeyBytes
	if resp.ServerEncryptionPublicKeyType != x {
		viol("response-server-key-type", "response does not declare an X25519 server encryption key")
	}
	got, ok := enrollOpen(enc, n.Enc.Priv, srvPub, keyID)
	libGot := new(types.NodeCredentials)
	libErr := nodeenrollment.DecryptMessage(s.Ctx, enc, &types.NodeCredentials{
		EncryptionPrivateKeyBytes: n.Enc.Priv, EncryptionPrivateKeyType: x,
		ServerEncryptionPublicKeyBytes: srvPub, ServerEncryptionPublicKeyType: x,
		CertificatePublicKeyPkix: n.K.Pkix,
	}, libGot)
	if !ok || libErr != nil {
		viol("response-not-openable-by-node-key", fmt.Sprintf("the response does not open with the encryption key of the signed request (independent open ok=%v, DecryptMessage error=%v)", ok, libErr))
		return
	}
	if !proto.Equal(got, libGot) {
		viol("response-open-mismatch", "independent open and DecryptMessage disagree on the response contents")
		return
	}
	reached = true
	r.Count("responses_opened", 1)
	r.Count("flow:"+ec.Flow, 1)
	r.Count("backend:"+ec.Backend, 1)
	r.Count(fmt.Sprintf("storage_wrapper:%v", ec.StorageWrap), 1)
	r.Count(fmt.Sprintf("node_storage_wrapper:%v", ec.NodeWrap), 1)
	r.Count(fmt.Sprintf("registration_wrapper:%v", ec.RegWrap), 1)
	r.Count("state_or_params:"+ec.State, 1)
	r.Count(fmt.Sprintf("config:%s/%s/sw=%v", ec.Flow, ec.Backend, ec.StorageWrap), 1)

	fresh := world.NewX25519()
	type wrongKey struct {
		name      string
		priv, pub []byte
		pkix      []byte
	}
	wrong := []wrongKey{
		{"other-node-key-and-id", other.Node.Enc.Priv, srvPub, other.Node.K.Pkix},
		{"other-node-key-this-id", other.Node.Enc.Priv, srvPub, n.K.Pkix},
		{"fresh-key-this-id", fresh.Priv, srvPub, n.K.Pkix},
		{"this-key-other-certificate-key", n.Enc.Priv, srvPub, other.Node.K.Pkix},
		{"this-key-fresh-certificate-key", n.Enc.Priv, srvPub, world.NewKeys().Pkix},
		{"this-key-other-server-key", n.Enc.Priv, other.Resp.ServerEncryptionPublicKeyBytes, n.K.Pkix},
		{"other-node-full-credentials", other.Node.Enc.Priv, other.Resp.ServerEncryptionPublicKeyBytes, other.Node.K.Pkix},
	}
	if via != nil {
		wrong = append(wrong, wrongKey{"rewrapping-node-key", via.Enc.Priv, srvPub, via.K.Pkix})
	}
	for _, w := range wrong {
		kid, _ := nodeenrollment.KeyIdFromPkix(w.pkix)
		_, ok := enrollOpen(enc, w.priv, w.pub, kid)
		var lerr error
		p, st := engine.Guard(func() {
			lerr = nodeenrollment.DecryptMessage(s.Ctx, enc, &types.NodeCredentials{
				EncryptionPrivateKeyBytes: w.priv, EncryptionPrivateKeyType: x,
				ServerEncryptionPublicKeyBytes: w.pub, ServerEncryptionPublicKeyType: x,
				CertificatePublicKeyPkix: w.pkix,
			}, new(types.NodeCredentials))
		})
		if p != nil {
			viol("panic:"+engine.LibraryFrame(st), fmt.Sprintf("DecryptMessage panicked with a wrong key (%s): %v", w.name, p))
			continue
		}
		r.Count("wrong_keys_tried", 1)
		if ok || lerr == nil {
			viol("opened-with-wrong-key:"+w.name, fmt.Sprintf("the response opens with a key other than the one of the signed request (%s; independent open ok=%v, DecryptMessage error=%v)", w.name, ok, lerr))
		} else {
			r.Count("wrong_keys_refused", 1)
		}
	}

	// ---- nonce echo, signature, chains --------------------------------------
	if !bytes.Equal(got.RegistrationNonce, info.Nonce) {
		viol("nonce-not-echoed", "the decrypted credentials do not echo the nonce of the signed request")
	}
	r.Count("nonce_echo_checked", 1)
	sig := resp.EncryptedNodeCredentialsSignature
	if !ed25519.Verify(rootPubs[0], enc, sig) {
		viol("response-not-signed-by-current-root", "the response signature does not verify under the current root's key")
	} else {
		r.Count("signature_verified_current_root", 1)
	}
	if ed25519.Verify(rootPubs[1], enc, sig) {
		viol("response-signed-by-next-root", "the response signature verifies under the next root's key")
	}
	if len(got.CertificateBundles) != len(rootList) {
		viol("bundle-count", fmt.Sprintf("response carries %d certificate chains for %d server roots", len(got.CertificateBundles), len(rootList)))
	}
	for i, b := range got.CertificateBundles {
		if i >= len(rootList) {
			break
		}
		which := []string{"current", "next"}[i]
		if !bytes.Equal(b.CaCertificateDer, rootList[i].CertificateDer) {
			viol("bundle-ca-mismatch:"+which, "chain "+which+" does not carry the server's "+which+" root certificate")
			continue
		}
		leaf, err := x509.ParseCertificate(b.CertificateDer)
		if err != nil {
			viol("leaf-unparsable:"+which, "issued certificate does not parse: "+err.Error())
			continue
		}
		ca := rootCerts[i]
		r.Count("certificates_parsed", 1)
		if leaf.IsCA {
			viol("leaf-is-ca", "issued certificate ("+which+") is a CA certificate")
		}
		if len(leaf.ExtKeyUsage) != 1 || leaf.ExtKeyUsage[0] != x509.ExtKeyUsageClientAuth || len(leaf.UnknownExtKeyUsage) != 0 {
			viol("leaf-eku", fmt.Sprintf("issued certificate (%s) has extended key usages %v, wanted exactly client authentication", which, leaf.ExtKeyUsage))
		}
		if pub, ok := leaf.PublicKey.(ed25519.PublicKey); !ok || !bytes.Equal(pub, n.K.Pub) {
			viol("leaf-public-key", "issued certificate ("+which+") is not for the node's certificate key")
		}
		if !bytes.Equal(leaf.SubjectKeyId, n.K.Pkix) {
			viol("leaf-subject-key-id", "issued certificate ("+which+") has a subject key ID other than the node's PKIX key")
		}
		if leaf.Subject.CommonName != keyID {
			viol("leaf-common-name", fmt.Sprintf("issued certificate (%s) is named %q, not by the node's key ID", which, leaf.Subject.CommonName))
		}
		hasName := false
		for _, d := range leaf.DNSNames {
			if d == keyID {
				hasName = true
			}
		}
		if !hasName {
			viol("leaf-dns-name", fmt.Sprintf("issued certificate (%s) has DNS names %v without the node's key ID", which, leaf.DNSNames))
		}
		if leaf.NotBefore.Before(ca.NotBefore) || leaf.NotAfter.After(ca.NotAfter) {
			viol("leaf-outlives-root", fmt.Sprintf("issued certificate (%s) is valid %s..%s outside its root's %s..%s", which, leaf.NotBefore.UTC().Format(time.RFC3339), leaf.NotAfter.UTC().Format(time.RFC3339), ca.NotBefore.UTC().Format(time.RFC3339), ca.NotAfter.UTC().Format(time.RFC3339)))
		}
		if !leaf.NotAfter.After(leaf.NotBefore) {
			viol("leaf-empty-validity", "issued certificate ("+which+") has an empty validity window")
		}
		if err := leaf.CheckSignatureFrom(ca); err != nil {
			viol("leaf-not-signed-by-root", "issued certificate ("+which+") does not verify under its root: "+err.Error())
		} else {
			pool := x509.NewCertPool()
			pool.AddCert(ca)
			if _, err := leaf.Verify(x509.VerifyOptions{Roots: pool, CurrentTime: leaf.NotBefore.Add(time.Minute), KeyUsages: []x509.ExtKeyUsage{x509.ExtKeyUsageClientAuth}}); err != nil {
				viol("leaf-chain-not-valid-for-client-auth", "issued certificate ("+which+") does not chain to its root for client authentication: "+err.Error())
			}
		}
		if b.CertificateNotBefore == nil || b.CertificateNotAfter == nil || !b.CertificateNotBefore.AsTime().Equal(leaf.NotBefore) || !b.CertificateNotAfter.AsTime().Equal(leaf.NotAfter) {
			viol("bundle-validity-mismatch", "chain "+which+" states a validity other than its certificate's")
		}
	}

	// ---- the node record on the server --------------------------------------
	ni, err := s.LoadNode(keyID)
	if err != nil || ni == nil {
		viol("node-record-missing", fmt.Sprintf("no node record under the node's key ID after enrollment: %v", err))
		return
	}
	r.Count("stored_records_compared", 1)
	if len(ni.CertificateBundles) != len(got.CertificateBundles) {
		viol("record-bundles-differ", "the stored node record has a different number of chains than the response")
	} else {
		for i := range ni.CertificateBundles {
			if !proto.Equal(ni.CertificateBundles[i], got.CertificateBundles[i]) {
				viol("record-bundles-differ", "the stored node record's chains differ from the response's")
				break
			}
		}
	}
	storedSrvPub := world.X25519Pub(ni.ServerEncryptionPrivateKeyBytes)
	if storedSrvPub == nil || !bytes.Equal(storedSrvPub, srvPub) || !bytes.Equal(got.ServerEncryptionPublicKeyBytes, srvPub) {
		viol("record-server-key-differs", "the stored server encryption key is not the one the response was built with")
	}
	if !bytes.Equal(ni.CertificatePublicKeyPkix, info.CertificatePublicKeyPkix) || !bytes.Equal(ni.EncryptionPublicKeyBytes, info.EncryptionPublicKeyBytes) {
		viol("record-node-keys-differ", "the stored node record does not carry the request's keys")
	}
	if !bytes.Equal(ni.RegistrationNonce, info.Nonce) {
		viol("record-nonce-differs", "the stored node record does not carry the request's nonce")
	}
	switch ec.Flow {
	case world.FlowAuthorize, world.FlowToken:
		if !enrollStructEq(ni.State, state) {
			viol("record-state-differs:"+ec.Flow, "the stored node record's state is not the state given by the operator")
		}
		r.Count("state_compared:"+ec.State, 1)
		if ec.Flow == world.FlowToken && ec.State == "nested" {
			r.Count("token_state_vs_fetch_option:"+fetchState, 1)
		}
	default:
		wi := ni.WrappingRegistrationFlowInfo
		switch {
		case wi == nil:
			viol("record-wrapping-info-missing", "the stored node record has no wrapping-flow registration info")
		case !enrollStructEq(wi.ApplicationSpecificParams, params):
			viol("record-params-differ", "the stored wrapping-flow application params are not the ones the node sent")
		case !bytes.Equal(wi.Nonce, info.Nonce) || !bytes.Equal(wi.CertificatePublicKeyPkix, info.CertificatePublicKeyPkix):
			viol("record-wrapping-info-differs", "the stored wrapping-flow registration info does not carry the request's nonce and key")
		}
		r.Count("params_compared:"+ec.State, 1)
	}

	// ---- node side: substituted responses must be refused ---------------------
	before, err := n.Stored()
	if err != nil || len(before.CertificateBundles) != 0 {
		r.Broken(fmt.Sprintf("enroll: node storage not pristine before handling: %v", err))
		return
	}
	otherNI, err := s.LoadNode(other.Node.K.KeyID)
	if err != nil {
		r.Broken("enroll: cannot load the other node's record: " + err.Error())
		return
	}
	mk := func(msg *types.NodeCredentials, key *types.NodeInformation, pub []byte) *types.FetchNodeCredentialsResponse {
		ct, err := nodeenrollment.EncryptMessage(s.Ctx, msg, key)
		if err != nil {
			panic("enroll: cannot encrypt a substituted response: " + err.Error())
		}
		return &types.FetchNodeCredentialsResponse{EncryptedNodeCredentials: ct, EncryptedNodeCredentialsSignature: ed25519.Sign(curPriv, ct), ServerEncryptionPublicKeyBytes: pub, ServerEncryptionPublicKeyType: x}
	}
	withEnc := func(b []byte) *types.FetchNodeCredentialsResponse {
		h := proto.Clone(resp).(*types.FetchNodeCredentialsResponse)
		h.EncryptedNodeCredentials = b
		return h
	}
	var subs []enrollSub
	// (a) well-formed responses for another node's key
	otherSrvPub := world.X25519Pub(otherNI.ServerEncryptionPrivateKeyBytes)
	forOther := mk(got, otherNI, otherSrvPub)
	subs = append(subs, enrollSub{"other-key", "same-credentials-encrypted-for-another-node", forOther})
	subs = append(subs, enrollSub{"other-key", "another-node's-own-response", proto.Clone(other.Resp).(*types.FetchNodeCredentialsResponse)})
	mixed := proto.Clone(forOther).(*types.FetchNodeCredentialsResponse)
	mixed.ServerEncryptionPublicKeyBytes = srvPub
	subs = append(subs, enrollSub{"other-key", "encrypted-for-another-node-with-this-server-key", mixed})
	// (b) responses for this node's key that echo another nonce
	nonceVariants := []struct {
		name  string
		nonce []byte
	}{
		{"bit-flipped", enrollFlip(info.Nonce, rng.Intn(len(info.Nonce)*8))},
		{"empty", nil},
		{"other-node's", append([]byte{}, other.Node.Nonce...)},
		{"random", world.RandBytes(nodeenrollment.NonceSize)},
		{"shortened", append([]byte{}, info.Nonce[:len(info.Nonce)-1]...)},
		{"extended", append(append([]byte{}, info.Nonce...), byte(rng.Intn(256)))},
	}
	if ln := n.Creds.RegistrationNonce; len(ln) > 0 && !bytes.Equal(ln, info.Nonce) {
		// the node's locally generated nonce, which is not the one in its signed request
		nonceVariants = append(nonceVariants, struct {
			name  string
			nonce []byte
		}{"node's-unsent-local-nonce", append([]byte{}, ln...)})
	}
	for _, nv := range nonceVariants {
		m := proto.Clone(got).(*types.NodeCredentials)
		m.RegistrationNonce = nv.nonce
		subs = append(subs, enrollSub{"nonce", "nonce-" + nv.name, mk(m, ni, srvPub)})
	}
	// (c) damaged ciphertexts
	ctOff, ctLen := 0, len(enc)
	if blob := new(wrapping.BlobInfo); proto.Unmarshal(enc, blob) == nil {
		if i := bytes.Index(enc, blob.Ciphertext); i >= 0 && len(blob.Ciphertext) > 0 {
			ctOff, ctLen = i, len(blob.Ciphertext)
		}
	}
	for _, l := range []int{0, 1, len(enc) / 2, len(enc) - 1, ctOff + rng.Intn(ctLen)} {
		subs = append(subs, enrollSub{"corrupt", fmt.Sprintf("truncated-to-%d-of-%d", l, len(enc)), withEnc(append([]byte{}, enc[:l]...))})
	}
	for k := 0; k < 4; k++ {
		bit := (ctOff+rng.Intn(ctLen))*8 + rng.Intn(8)
		subs = append(subs, enrollSub{"corrupt", fmt.Sprintf("bit-%d-flipped", bit), withEnc(enrollFlip(enc, bit))})
	}
	subs = append(subs, enrollSub{"corrupt", "bit-flipped-anywhere", withEnc(enrollFlip(enc, rng.Intn(len(enc)*8)))})
	subs = append(subs, enrollSub{"corrupt", "extended", withEnc(append(append([]byte{}, enc...), byte(rng.Intn(256))))})
	// (d) the honest ciphertext next to a substituted server key
	for _, sk := range []struct {
		name string
		pub  []byte
	}{{"fresh", world.NewX25519().Pub}, {"other-node's", otherSrvPub}, {"node's-own-public-key", n.Enc.Pub}} {
		h := proto.Clone(resp).(*types.FetchNodeCredentialsResponse)
		h.ServerEncryptionPublicKeyBytes = sk.pub
		subs = append(subs, enrollSub{"server-key", "server-key-" + sk.name, h})
	}

	var tokOpt []nodeenrollment.Option
	if n.Token != "" {
		tokOpt = append(tokOpt, nodeenrollment.WithActivationToken(n.Token))
	}
	for _, sub := range subs {
		h := sub.Resp
		// oracle: the node's own key opens it and the nonce inside is the node's
		expectRefuse := true
		if o, ok := enrollOpen(h.EncryptedNodeCredentials, n.Enc.Priv, h.ServerEncryptionPublicKeyBytes, keyID); ok && bytes.Equal(o.RegistrationNonce, n.Nonce) && h.ServerEncryptionPublicKeyType == x {
			expectRefuse = false
		}
		clone := proto.Clone(n.Creds).(*types.NodeCredentials)
		var herr error
		p, st := engine.Guard(func() {
			_, herr = clone.HandleFetchNodeCredentialsResponse(n.Ctx, n.Store, h, n.NodeOpts(tokOpt...)...)
		})
		if p != nil {
			viol("panic:"+engine.LibraryFrame(st), fmt.Sprintf("HandleFetchNodeCredentialsResponse panicked on a substituted response (%s): %v", sub.Name, p))
			continue
		}
		after, lerr := n.Stored()
		storedSomething := lerr != nil || len(after.CertificateBundles) != 0
		if expectRefuse {
			r.Count("substitutions_tried:"+sub.Class, 1)
			switch {
			case herr == nil:
				viol("node-accepted:"+sub.Class, fmt.Sprintf("the node accepted a response that does not open under its key with its nonce (%s)", sub.Name))
			case storedSomething:
				viol("stored-on-refusal:"+sub.Class, fmt.Sprintf("the node refused a substituted response (%s) but its storage changed (load error %v)", sub.Name, lerr))
			default:
				r.Count("node_refusals:"+sub.Class, 1)
			}
		} else {
			r.Count("substitution_left_response_valid", 1)
		}
		if storedSomething {
			if err := n.Creds.Store(n.Ctx, n.Store, n.NodeOpts()...); err != nil {
				r.Broken("enroll: cannot restore node storage: " + err.Error())
				return
			}
		}
	}

	// ---- node side: a refused response first, on the node's own credentials object -------------------
	// (a node that was handed a wrong answer - another node's, or one whose server key was replaced on the
	// way - refuses it and then gets the right one; the refusal must not stand in the way of the honest answer)
	if (ec.Rep+int(ec.Salt&7))%2 == 0 {
		for _, sub := range subs {
			if sub.Class != "server-key" && sub.Class != "other-key" {
				continue
			}
			if o, ok := enrollOpen(sub.Resp.EncryptedNodeCredentials, n.Enc.Priv, sub.Resp.ServerEncryptionPublicKeyBytes, keyID); ok && bytes.Equal(o.RegistrationNonce, n.Nonce) {
				continue
			}
			var herr error
			if p, st := engine.Guard(func() { _, herr = n.Handle(sub.Resp) }); p != nil {
				viol("panic:"+engine.LibraryFrame(st), fmt.Sprintf("HandleFetchNodeCredentialsResponse panicked on a substituted response (%s): %v", sub.Name, p))
				return
			}
			if herr != nil {
				r.Count("refused_answer_before_the_honest_one:"+sub.Class, 1)
			}
			break
		}
	}

	// ---- node side: the honest response ---------------------------------------
	if _, err := n.Handle(resp); err != nil {
		viol("node-rejected-honest-response:"+ec.Flow, "the node refused the honest response: "+err.Error())
		return
	}
	r.Count("honest_responses_handled", 1)
	stored, err := n.Stored()
	if err != nil {
		viol("node-credentials-not-loadable", "the node's stored credentials do not load: "+err.Error())
		return
	}
	if len(stored.CertificateBundles) != 2 {
		viol("node-stored-bundle-count", fmt.Sprintf("the node stored %d certificate chains", len(stored.CertificateBundles)))
	} else {
		for i := range stored.CertificateBundles {
			if i < len(got.CertificateBundles) && !proto.Equal(stored.CertificateBundles[i], got.CertificateBundles[i]) {
				viol("node-stored-bundles-differ", "the node's stored chains differ from the response's")
				break
			}
		}
	}
	if len(stored.RegistrationNonce) != 0 {
		viol("node-nonce-not-cleared", "the node kept its registration nonce after enrollment")
	}
	if !bytes.Equal(stored.ServerEncryptionPublicKeyBytes, srvPub) {
		viol("node-server-key-not-stored", "the node did not store the server's encryption public key")
	}
	if !bytes.Equal(stored.CertificatePublicKeyPkix, n.K.Pkix) || !bytes.Equal(stored.CertificatePrivateKeyPkcs8, n.K.Pkcs8) || !bytes.Equal(stored.EncryptionPrivateKeyBytes, n.Enc.Priv) {
		viol("node-keys-changed", "the node's stored key material changed during enrollment")
	}
	cfgsTLS, err := nodetls.ClientConfigs(s.Ctx, stored)
	if err != nil || len(cfgsTLS) < 1 {
		viol("no-client-tls-config", fmt.Sprintf("the stored credentials yield %d client TLS configurations (error %v)", len(cfgsTLS), err))
		return
	}
	r.Count("client_tls_configs", int64(len(cfgsTLS)))
	// with the options an application passes when dialing (state, extra protocols) there must still be
	// one configuration per chain that is valid now, each naming its own chain's root in the
	// certificate-preference entry and carrying the extra protocols unchanged
	{
		now := time.Now()
		want := map[string]bool{}
		for _, b := range stored.CertificateBundles {
			leaf, e1 := x509.ParseCertificate(b.CertificateDer)
			ca, e2 := x509.ParseCertificate(b.CaCertificateDer)
			if e1 != nil || e2 != nil || now.Before(leaf.NotBefore) || now.After(leaf.NotAfter) || now.Before(ca.NotBefore) || now.After(ca.NotAfter) {
				continue
			}
			if pk, err := x509.MarshalPKIXPublicKey(ca.PublicKey); err == nil {
				if id, err := nodeenrollment.KeyIdFromPkix(pk); err == nil {
					want[id] = true
				}
			}
		}
		for k := 0; k <= 3; k++ {
			extras := []string{"app-1", "app-2", "app-3"}[:k]
			opts := []nodeenrollment.Option{nodeenrollment.WithState(enrollStruct("nested", ec.Salt+int64(k)))}
			if k > 0 {
				opts = append(opts, nodeenrollment.WithExtraAlpnProtos(extras))
			}
			cfgs2, err := nodetls.ClientConfigs(s.Ctx, stored, opts...)
			if err != nil {
				viol("no-client-tls-config", fmt.Sprintf("ClientConfigs with state and %d extra protocols fails: %v", k, err))
				break
			}
			got := map[string]int{}
			extrasOK := true
			for _, cfg := range cfgs2 {
				var rest []string
				for _, e := range cfg.NextProtos {
					switch {
					case strings.HasPrefix(e, nodeenrollment.CertificatePreferenceV1Prefix):
						got[strings.TrimPrefix(e, nodeenrollment.CertificatePreferenceV1Prefix)]++
					case !strings.HasPrefix(e, nodeenrollment.AuthenticateNodeNextProtoV1Prefix):
						rest = append(rest, e)
					}
				}
				if len(rest) != len(extras) {
					extrasOK = false
				}
				for i := range rest {
					if i < len(extras) && rest[i] != extras[i] {
						extrasOK = false
					}
				}
			}
			covered := len(got) == len(want) && len(cfgs2) == len(want)
			for id := range want {
				if got[id] != 1 {
					covered = false
				}
			}
			switch {
			case !covered:
				viol("client-configs-do-not-cover-each-valid-chain", fmt.Sprintf("with state and %d extra protocols the %d client configurations name the roots %v, the valid chains are under %d roots", k, len(cfgs2), got, len(want)))
			case !extrasOK:
				viol("client-configs-extra-protocols-differ", fmt.Sprintf("with %d extra protocols a client configuration does not carry exactly those protocols", k))
			default:
				r.Count(fmt.Sprintf("client_configs_with_options_cover_%d_valid_chains", len(want)), 1)
			}
		}
	}

	// ---- the application annotates the node's record and takes the annotation off again ------------
	// (two Store calls through the library, the second record much shorter than the first): the record
	// the rest of the flow relies on must be exactly the one written last
	if ec.Backend != world.StoreOnce {
		if cur, lerr := s.LoadNode(keyID); lerr == nil && cur != nil {
			orig := proto.Clone(cur).(*types.NodeInformation)
			note, _ := structpb.NewStruct(map[string]any{"annotation": strings.Repeat("n", 1500+97*(ec.Rep%7))})
			cur.State = note
			e1 := cur.Store(s.Ctx, s.Store, s.StoreOpts()...)
			e2 := orig.Store(s.Ctx, s.Store, s.StoreOpts()...)
			again, lerr2 := s.LoadNode(keyID)
			switch {
			case e1 != nil || e2 != nil:
				viol("record-update-failed", fmt.Sprintf("storing the node record again through NodeInformation.Store failed: %v / %v", e1, e2))
				return
			case lerr2 != nil || again == nil || !proto.Equal(again, orig):
				viol("record-update-not-reflected", fmt.Sprintf("after the node record was stored with an annotation and then without it, loading it does not return the record stored last (load err=%v)", lerr2))
				return
			default:
				r.Count("record_rewritten_longer_then_shorter", 1)
			}
		}
	}

	// ---- a real handshake -------------------------------------------------------
	s.Rollover()
	lw, err := world.NewLW(s, world.LWCfg{})
	if err != nil {
		r.Broken("enroll: cannot start listener: " + err.Error())
		return
	}
	defer lw.Close()
	conn, err := protocol.Dial(s.Ctx, n.Store, lw.Addr, n.NodeOpts()...)
	if err != nil {
		viol("handshake-failed", "the enrolled node cannot connect to a listener on the server's storage: "+err.Error())
		return
	}
	defer conn.Close()
	rec, werr := lw.Wait(conn.LocalAddr().String())
	if werr != nil {
		if errors.Is(werr, world.ErrWatchdog) {
			r.Inconclusive("watchdog while waiting for the server side of the enrolled node's connection")
		} else {
			r.Broken("enroll: wait: " + werr.Error())
		}
		return
	}
	if rec.Returned && rec.Conn != nil {
		defer rec.Conn.Close()
	}
	if !rec.Authenticated() {
		viol("handshake-not-authenticated", fmt.Sprintf("the enrolled node's connection was not accepted as authenticated (accept error %v, panic %v)", rec.AcceptErr, rec.Panic))
		return
	}
	if pc, ok := rec.Conn.(*protocol.Conn); ok && pc != nil && pc.Conn != nil {
		peers := pc.Conn.ConnectionState().PeerCertificates
		if len(peers) == 0 {
			viol("handshake-without-node-certificate", "the authenticated connection carries no client certificate")
		} else if pub, ok := peers[0].PublicKey.(ed25519.PublicKey); !ok || !bytes.Equal(pub, n.K.Pub) {
			viol("handshake-without-node-certificate", "the authenticated connection's client certificate is not for the node's key")
		} else if len(got.CertificateBundles) > 0 && bytes.Equal(peers[0].Raw, got.CertificateBundles[0].CertificateDer) {
			r.Count("handshakes_presenting_issued_current_certificate", 1)
		}
	}
	r.Count("real_handshakes", 1)
	r.Count("real_handshakes:"+ec.Flow, 1)

	// ---- the node repeats its fetch (e.g. it lost the first answer) -----------------------------------
	// Whatever the server answers must again be built from what it has stored: either no credentials,
	// or credentials that open with the node's key and equal the stored record.
	resp2, err2 := registration.FetchNodeCredentials(s.Ctx, s.Store, req, s.Opts()...)
	switch {
	case err2 != nil || resp2 == nil || len(resp2.EncryptedNodeCredentials) == 0:
		r.Count("repeated_fetch_refused:"+ec.Flow, 1)
		if err2 != nil && resp2 != nil {
			viol("repeat-fetch-error-with-response", "a repeated fetch returned an error together with a response")
		}
	default:
		r.Count("repeated_fetch_answered:"+ec.Flow, 1)
		ni2, lerr := s.LoadNode(keyID)
		if lerr != nil || ni2 == nil {
			viol("repeat-fetch-record-missing", fmt.Sprintf("after a repeated fetch that was answered the node record cannot be loaded: %v", lerr))
			break
		}
		if !bytes.Equal(world.X25519Pub(ni2.ServerEncryptionPrivateKeyBytes), resp2.ServerEncryptionPublicKeyBytes) {
			viol("repeat-fetch-server-key-differs", "a repeated fetch was answered with a server encryption key that is not the one in the stored node record")
			break
		}
		got2, ok2 := enrollOpen(resp2.EncryptedNodeCredentials, n.Enc.Priv, resp2.ServerEncryptionPublicKeyBytes, keyID)
		if !ok2 {
			viol("repeat-fetch-not-openable", "a repeated fetch was answered with credentials the node cannot open with its key")
			break
		}
		if len(got2.CertificateBundles) != len(ni2.CertificateBundles) {
			viol("repeat-fetch-bundles-differ", "a repeated fetch was answered with certificate chains that differ from the stored node record")
			break
		}
		for i := range got2.CertificateBundles {
			if !proto.Equal(got2.CertificateBundles[i], ni2.CertificateBundles[i]) {
				viol("repeat-fetch-bundles-differ", "a repeated fetch was answered with certificate chains that differ from the stored node record")
				break
			}
		}
	}
	// ---- the node asks again after it re-keyed: same certificate key, a new encryption key and a new nonce,
	// through the registration wrapper once more. Whatever the server makes of it (back ends differ on whether
	// the record may be replaced), an answer is for the request it answers: only the new encryption key opens
	// it and it echoes the new nonce.
	if ec.Flow == world.FlowWrapper && s.RW != nil {
		nenc, nnonce := world.NewX25519(), world.RandBytes(nodeenrollment.NonceSize)
		info := world.BaseInfo(n.K, nenc.Pub, nnonce)
		info.WrappedRegistrationInfo = world.SealRegInfo(s.NodeRegWrap(), &types.WrappingRegistrationFlowInfo{CertificatePublicKeyPkix: n.K.Pkix, Nonce: nnonce})
		req3 := world.Sign(info, n.K.Priv)
		var resp3 *types.FetchNodeCredentialsResponse
		var err3 error
		if p, st := engine.Guard(func() { resp3, err3 = registration.FetchNodeCredentials(s.Ctx, s.Store, req3, s.Opts()...) }); p != nil {
			viol("panic:"+engine.LibraryFrame(st), fmt.Sprintf("FetchNodeCredentials panicked on a re-keyed request of an enrolled node: %v", p))
			return
		}
		switch {
		case err3 != nil || resp3 == nil || len(resp3.EncryptedNodeCredentials) == 0:
			r.Count("rekeyed_refetch_refused:"+ec.Backend, 1)
		default:
			got3, ok3 := enrollOpen(resp3.EncryptedNodeCredentials, nenc.Priv, resp3.ServerEncryptionPublicKeyBytes, keyID)
			switch {
			case !ok3:
				old := "no"
				if _, okOld := enrollOpen(resp3.EncryptedNodeCredentials, n.Enc.Priv, resp3.ServerEncryptionPublicKeyBytes, keyID); okOld {
					old = "yes"
				}
				viol("opened-with-wrong-key:rekeyed-refetch", "a second, well-signed wrapper-flow request of an enrolled node with a new encryption key was answered with credentials that the key of that request cannot open (the superseded key can: "+old+")")
			case !bytes.Equal(got3.RegistrationNonce, nnonce):
				viol("nonce-not-echoed:rekeyed-refetch", "a second wrapper-flow request with a new nonce was answered with credentials that echo another nonce")
			default:
				r.Count("rekeyed_refetch_answered_for_the_new_key:"+ec.Backend, 1)
			}
		}
	}
}

func runEnroll(c *engine.Ctx) engine.Result {
	r := c.R
	res := engine.Result{
		Rule: "case = (flow, server back end, server storage wrapper, node storage wrapper, registration wrapper, kind of state/params, repetition with a salt that seeds the in-case choices); all combinations are enumerated (registration wrapper always on for the wrapper flow, on and off elsewhere) and repeated 2 (quick) / 25 (thorough) times with fresh keys. Non-trivial = the honest flow produced a response that the harness opened with the node's own key, so that every comparison (wrong keys, nonce, signature, chains, leaf fields, stored record, node-side substitutions, handshake) ran; distinct by descriptor.",
		Assumptions: []string{
			"cannot be opened with another key means: independent AES-GCM open and DecryptMessage both fail for each of the 7-8 other keys tried",
			"absent and empty state/params structs are treated as equal",
			"a substituted response is expected to be refused exactly when the harness's own X25519+AES-GCM open with the node's key fails or yields another nonce; substitutions that leave the envelope valid (e.g. a flipped bit in the clear key-info part) are not judged",
			"only the current root's chain is exercised in a handshake (the next root's window starts in the future); the next chain is judged from its parsed certificate",
			"trusts crypto/x509, crypto/ed25519, crypto/ecdh, crypto/aes and proto.Equal",
		},
	}
	if c.Replay != nil {
		var ec enrollCase
		if err := json.Unmarshal(c.Replay, &ec); err != nil {
			r.Broken("bad replay: " + err.Error())
			return res
		}
		runEnrollCase(c, ec)
		return res
	}
	reps := c.Pick(2, 25)
	rng := c.Rng("enroll")
	var cases []enrollCase
	perFlow := map[string]int{}
	for _, flow := range world.Flows {
		for _, be := range world.Backends {
			for _, sw := range []bool{false, true} {
				for _, nw := range []bool{false, true} {
					for _, rw := range []bool{false, true} {
						if flow == world.FlowWrapper && !rw {
							continue
						}
						for _, st := range enrollStateKinds {
							for rep := 0; rep < reps; rep++ {
								ec := enrollCase{Flow: flow, Backend: be, StorageWrap: sw, NodeWrap: nw, RegWrap: rw, State: st, Rep: rep, Salt: rng.Int63()}
								if flow == world.FlowRewrapped {
									vf := []string{world.FlowAuthorize, world.FlowToken}
									if rw {
										vf = append(vf, world.FlowWrapper)
									}
									ec.ViaFlow = vf[rng.Intn(len(vf))]
								}
								cases = append(cases, ec)
								perFlow[flow]++
							}
						}
					}
				}
			}
		}
	}
	r.Set("cases", len(cases))
	r.Set("repetitions_per_configuration", reps)
	r.Sample(cases[0])
	r.Sample(cases[len(cases)/2])
	r.Sample(cases[len(cases)-1])
	engine.ForEach(len(cases), engine.Workers(), func(i int) { runEnrollCase(c, cases[i]) })

	n := int64(len(cases))
	for _, flow := range world.Flows {
		r.Require("flow:"+flow, int64(perFlow[flow]))
		r.Require("real_handshakes:"+flow, int64(perFlow[flow]))
	}
	for _, be := range world.Backends {
		r.Require("backend:"+be, n/3)
	}
	for _, k := range []string{"storage_wrapper:true", "storage_wrapper:false", "node_storage_wrapper:true", "node_storage_wrapper:false"} {
		r.Require(k, n/2)
	}
	r.Require("registration_wrapper:false", int64(perFlow[world.FlowAuthorize]+perFlow[world.FlowToken]+perFlow[world.FlowRewrapped])/2)
	r.Require("token_supplied_after_credential_generation", int64(perFlow[world.FlowToken])/4)
	r.Require("registration_wrapper:true", int64(perFlow[world.FlowWrapper]))
	for _, st := range enrollStateKinds {
		r.Require("state_or_params:"+st, n/4)
		r.Require("state_compared:"+st, int64(perFlow[world.FlowAuthorize]+perFlow[world.FlowToken])/4)
		r.Require("params_compared:"+st, int64(perFlow[world.FlowWrapper]+perFlow[world.FlowRewrapped])/4)
	}
	for _, k := range []string{"none", "handler-default", "explicit-nil"} {
		r.Require("token_state_vs_fetch_option:"+k, int64(perFlow[world.FlowToken])/4/8)
	}
	r.Require("client_configs_with_options_cover_2_valid_chains", n/4)
	for _, k := range []string{"aead", world.WrapPooled, world.WrapEnvelope} {
		r.Require("storage_wrapper_kind:"+k, n/12)
	}
	r.Require("responses_opened", n)
	r.Require("certificates_parsed", 2*n)
	r.Require("wrong_keys_tried", 7*n)
	r.Require("wrong_keys_refused", 7*n)
	r.Require("signature_verified_current_root", n)
	r.Require("stored_records_compared", n)
	r.Require("node_refusals:other-key", 3*n)
	r.Require("node_refusals:nonce", 6*n)
	r.Require("node_refusals:corrupt", 8*n)
	r.Require("node_refusals:server-key", 3*n)
	r.Require("honest_responses_handled", n)
	r.Require("real_handshakes", n)
	return res
}
