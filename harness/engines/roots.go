package engines

// C08 — root rotation always leaves two well-formed, overlapping roots and
// current is valid. Real rotation.RotateRootCertificates on crafted stored
// states (every order type of the four validity instants relative to now),
// immediate second calls, and time-warped random walks.

import (
	"bytes"
	"context"
	"crypto/ed25519"
	"crypto/x509"
	"encoding/json"
	"fmt"
	"math/rand"
	"sort"
	"time"

	"github.com/hashicorp/nodeenrollment"
	"github.com/hashicorp/nodeenrollment/rotation"
	"github.com/hashicorp/nodeenrollment/types"
	"google.golang.org/protobuf/proto"

	"verifharness/engine"
	"verifharness/recstore"
	"verifharness/world"
)

func init() {
	engine.Register(&engine.Spec{Prop: "C08", Engine: "roots", Level: "exploration", Fn: runRoots})
}

type rootsCase struct {
	Kind string `json:"kind"` // order | walk | empty | halfmissing
	// order type: levels of (curNB, curNA, nextNB, nextNA) and the gap in which "now" lies
	Levels [4]int `json:"levels,omitempty"`
	NowGap int    `json:"now_gap"`
	// configuration
	LifetimeS int64  `json:"lifetime_s"`
	NbSkewS   int64  `json:"not_before_skew_s"`
	NaSkewS   int64  `json:"not_after_skew_s"`
	Reinit    bool   `json:"reinitialize"`
	Wrap      bool   `json:"storage_wrapper"`
	WrapKind  string `json:"storage_wrapper_kind,omitempty"` // with storage_wrapper: "" one aead key | nokeyid | pooled | envelope
	// NoOverwrite: the storage is insert-only for the roots record: a Store over an existing roots record is
	// refused with the library's duplicate-record error. A call that has to write then fails - or, if it
	// reports success, its result obeys the decision table like any other.
	NoOverwrite bool   `json:"storage_refuses_to_overwrite_roots,omitempty"`
	Backend     string `json:"backend"`
	// walk
	Steps int   `json:"steps,omitempty"`
	Seed  int64 `json:"seed,omitempty"`
	// halfmissing
	Missing string `json:"missing,omitempty"`
	// near: the four stored instants as offsets in seconds from now, one of them only seconds away
	// (the order types keep every instant an hour or more from now)
	OffsetsS [4]int64 `json:"offsets_s,omitempty"`
}

func (rc rootsCase) opts(s *world.Server) []nodeenrollment.Option {
	o := []nodeenrollment.Option{
		nodeenrollment.WithCertificateLifetime(time.Duration(rc.LifetimeS) * time.Second),
		nodeenrollment.WithNotBeforeClockSkew(time.Duration(rc.NbSkewS) * time.Second),
		nodeenrollment.WithNotAfterClockSkew(time.Duration(rc.NaSkewS) * time.Second),
	}
	if rc.Reinit {
		o = append(o, nodeenrollment.WithReinitializeRoots(true))
	}
	return s.Opts(o...)
}

// weakOrderings4 enumerates the order types of (curNB, curNA, nextNB, nextNA)
// with NotBefore <= NotAfter per root: each instant gets a level 0..L-1, all
// levels used
func weakOrderings4() [][4]int {
	var out [][4]int
	for a := 0; a < 4; a++ {
		for b := 0; b < 4; b++ {
			for c := 0; c < 4; c++ {
				for d := 0; d < 4; d++ {
					lv := [4]int{a, b, c, d}
					if a > b || c > d {
						continue
					}
					used := map[int]bool{a: true, b: true, c: true, d: true}
					max := 0
					for k := range used {
						if k > max {
							max = k
						}
					}
					if len(used) != max+1 {
						continue // levels must be contiguous from 0
					}
					out = append(out, lv)
				}
			}
		}
	}
	return out
}

func numLevels(lv [4]int) int {
	m := 0
	for _, x := range lv {
		if x > m {
			m = x
		}
	}
	return m + 1
}

// offsetOf maps a level to an offset from now: level i sits at position 2i, now
// at position 2*gap-1, one unit = 1 hour: every instant is >= 1 h from now and
// distinct levels are 2 h apart
func offsetOf(level, gap int) time.Duration {
	return time.Duration(2*level-(2*gap-1)) * time.Hour
}

// expectedAction is the decision table of the statement
func expectedAction(cnb, cna, nnb, nna, now time.Time) string {
	curNotYet, curExpired := cnb.After(now), cna.Before(now)
	curValid := !curNotYet && !curExpired
	nextNotYet, nextExpired := nnb.After(now), nna.Before(now)
	nextValid := !nextNotYet && !nextExpired
	switch {
	case curNotYet:
		return "startover"
	case curExpired && nextValid:
		return "promote"
	case curExpired:
		return "startover"
	case curValid && nextExpired:
		return "remint-next"
	case curValid && nextNotYet:
		return "nochange"
	default:
		return "promote"
	}
}

// nearNow reports whether any instant is within a minute of now (then the
// expected action is not asserted)
func nearNow(now time.Time, ts ...time.Time) bool {
	for _, t := range ts {
		d := t.Sub(now)
		if d < 0 {
			d = -d
		}
		if d < time.Minute {
			return true
		}
	}
	return false
}

type rootsChecker struct {
	c  *engine.Ctx
	rc rootsCase
	s  *world.Server
}

// rootsInsertOnly refuses to overwrite an existing roots record
type rootsInsertOnly struct{ nodeenrollment.Storage }

func (st rootsInsertOnly) Store(ctx context.Context, m nodeenrollment.MessageWithId) error {
	if rc, ok := m.(*types.RootCertificates); ok && rc != nil {
		if err := st.Storage.Load(ctx, &types.RootCertificates{Id: rc.GetId()}); err == nil {
			return new(types.DuplicateRecordError)
		}
	}
	return st.Storage.Store(ctx, m)
}

func (k *rootsChecker) viol(key, what string) { k.c.R.Violation(key, what, k.rc) }

// wellFormed checks a root this call minted (or, for carried roots, that it is unchanged elsewhere)
func (k *rootsChecker) wellFormed(r *types.RootCertificate, label string) bool {
	if r == nil {
		k.viol("root-missing:"+label, "returned root set lacks "+label)
		return false
	}
	if r.Id != label {
		k.viol("root-label", fmt.Sprintf("root in position %s is labelled %q", label, r.Id))
	}
	cert, err := x509.ParseCertificate(r.CertificateDer)
	if err != nil {
		k.viol("root-der", "root certificate does not parse: "+err.Error())
		return false
	}
	if !cert.IsCA || !cert.BasicConstraintsValid {
		k.viol("root-not-ca", label+" root is not a CA certificate")
	}
	if err := cert.CheckSignatureFrom(cert); err != nil {
		k.viol("root-not-self-signed", label+" root is not self-signed: "+err.Error())
	}
	pub, ok := cert.PublicKey.(ed25519.PublicKey)
	pk, _ := x509.MarshalPKIXPublicKey(cert.PublicKey)
	if !ok || !bytes.Equal(pk, r.PublicKeyPkix) {
		k.viol("root-key-mismatch", label+" root: public_key_pkix differs from the certificate's key")
	}
	if r.PrivateKeyType != types.KEYTYPE_ED25519 {
		k.viol("root-key-type", label+" root: private key type not set")
	}
	if raw, err := x509.ParsePKCS8PrivateKey(r.PrivateKeyPkcs8); err != nil {
		k.viol("root-private-key", label+" root: private key does not parse")
	} else if priv, ok2 := raw.(ed25519.PrivateKey); !ok2 || (ok && !bytes.Equal(priv.Public().(ed25519.PublicKey), pub)) {
		k.viol("root-key-mismatch", label+" root: private key does not belong to the certificate's public key")
	}
	// DER carries whole seconds
	if d := r.NotBefore.AsTime().Sub(cert.NotBefore); d < 0 || d >= time.Second {
		k.viol("root-window-mismatch", label+" root: not_before differs from the certificate's")
	}
	if d := r.NotAfter.AsTime().Sub(cert.NotAfter); d < 0 || d >= time.Second {
		k.viol("root-window-mismatch", label+" root: not_after differs from the certificate's")
	}
	return true
}

type preState struct {
	present  bool
	cur, nxt *types.RootCertificate
}

// call performs one rotation and checks every single-call clause. It returns
// the resulting root set (nil on error).
func (k *rootsChecker) call(pre preState, assertAction bool, stepDesc string) *types.RootCertificates {
	r := k.c.R
	L := time.Duration(k.rc.LifetimeS) * time.Second
	nb := time.Duration(k.rc.NbSkewS) * time.Second
	na := time.Duration(k.rc.NaSkewS) * time.Second
	t0 := time.Now()
	var ret *types.RootCertificates
	var err error
	if p, st := engine.Guard(func() { ret, err = rotation.RotateRootCertificates(k.s.Ctx, k.s.Store, k.rc.opts(k.s)...) }); p != nil {
		k.viol("panic:"+engine.LibraryFrame(st), fmt.Sprintf("RotateRootCertificates panicked: %v", p))
		return nil
	}
	t1 := time.Now()
	if err != nil {
		if ret != nil {
			k.viol("error-with-roots", "error returned together with a root set")
		}
		if k.rc.NoOverwrite {
			r.Count("calls_refused_on_insert_only_storage", 1)
			return nil
		}
		k.viol("rotation-failed", fmt.Sprintf("rotation call failed on a loadable state (%s): %v", stepDesc, err))
		return nil
	}
	r.Count("successful_calls", 1)
	if ret == nil || ret.Current == nil || ret.Next == nil {
		k.viol("incomplete-result", "successful call returned an incomplete root set")
		return nil
	}
	// returned == stored
	stored, lerr := k.s.Roots()
	if lerr != nil {
		k.viol("returned-not-stored", "after a successful call the stored roots cannot be loaded: "+lerr.Error())
		return ret
	}
	if !proto.Equal(stored.Current, ret.Current) || !proto.Equal(stored.Next, ret.Next) {
		k.viol("returned-not-stored", "returned root set differs from what storage holds after the call ("+stepDesc+")")
	} else {
		r.Count("returned_equals_stored", 1)
	}
	// which action was taken (by public keys)
	same := func(a, b *types.RootCertificate) bool {
		return a != nil && b != nil && bytes.Equal(a.PublicKeyPkix, b.PublicKeyPkix)
	}
	action := "startover"
	mintedCur, mintedNext := true, true
	switch {
	case pre.present && same(ret.Current, pre.cur) && same(ret.Next, pre.nxt):
		action, mintedCur, mintedNext = "nochange", false, false
	case pre.present && same(ret.Current, pre.nxt) && !same(ret.Next, pre.cur) && !same(ret.Next, pre.nxt):
		action, mintedCur = "promote", false
	case pre.present && same(ret.Current, pre.cur) && !same(ret.Next, pre.cur) && !same(ret.Next, pre.nxt):
		action, mintedCur = "remint-next", false
	case pre.present && (same(ret.Current, pre.cur) || same(ret.Current, pre.nxt) || same(ret.Next, pre.cur) || same(ret.Next, pre.nxt)):
		action = "other"
	}
	r.Count("action:"+action, 1)
	if action == "other" {
		k.viol("unknown-transition", "the call rearranged stored roots in a way that is none of no-change / promote / re-mint next / start over ("+stepDesc+")")
	}
	if k.rc.Reinit && action != "startover" {
		k.viol("reinitialize-kept-a-root", "reinitialization requested but an old root is still in place ("+action+")")
	}
	if assertAction && !k.rc.Reinit {
		want := "startover"
		if pre.present {
			mid := t0.Add(t1.Sub(t0) / 2)
			want = expectedAction(pre.cur.NotBefore.AsTime(), pre.cur.NotAfter.AsTime(), pre.nxt.NotBefore.AsTime(), pre.nxt.NotAfter.AsTime(), mid)
		}
		if action != want {
			k.viol(fmt.Sprintf("wrong-action:want=%s,got=%s", want, action), fmt.Sprintf("decision table: expected %s, the call did %s (%s)", want, action, stepDesc))
		} else {
			r.Count("action_as_expected:"+want, 1)
		}
	}
	// structure
	okC := k.wellFormed(ret.Current, "current")
	okN := k.wellFormed(ret.Next, "next")
	if !okC || !okN {
		return ret
	}
	cNB, cNA := ret.Current.NotBefore.AsTime(), ret.Current.NotAfter.AsTime()
	nNB, nNA := ret.Next.NotBefore.AsTime(), ret.Next.NotAfter.AsTime()
	// current valid at that moment
	if cNB.After(t1) || cNA.Before(t0) {
		k.viol("current-not-valid", fmt.Sprintf("after a successful call current is not valid at the time of the call (window %s .. %s relative to the call, action %s)", cNB.Sub(t0).Round(time.Second), cNA.Sub(t0).Round(time.Second), action))
	}
	// minted windows
	span := L + na - nb
	inBracket := func(t time.Time) bool { return !t.Before(t0.Add(-2*time.Second)) && !t.After(t1.Add(2*time.Second)) }
	if mintedCur {
		if cNA.Sub(cNB) != span {
			k.viol("minted-window-span:current", fmt.Sprintf("minted current spans %s, want lifetime+skews = %s", cNA.Sub(cNB), span))
		}
		if !inBracket(cNB.Add(-nb)) {
			k.viol("minted-window-start:current", fmt.Sprintf("minted current starts %s from the call, want the not-before skew %s", cNB.Sub(t0).Round(time.Second), nb))
		}
	}
	if mintedNext {
		if nNA.Sub(nNB) != span {
			k.viol("minted-window-span:next", fmt.Sprintf("minted next spans %s, want lifetime+skews = %s", nNA.Sub(nNB), span))
		}
		// NB = t + nb + (cNA - t)/2  =>  t = 2*(NB - nb) - cNA
		tImpl := nNB.Add(-nb).Add(nNB.Add(-nb).Sub(cNA))
		if !inBracket(tImpl) {
			gotShift := nNB.Add(-nb).Sub(t0)
			k.viol("minted-window-shift:next", fmt.Sprintf("minted next is shifted by about %s, want half of current's remaining life = %s", gotShift.Round(time.Second), (cNA.Sub(t0)/2).Round(time.Second)))
		} else {
			r.Count("next_shift_is_half_remaining_life", 1)
		}
		if !nNB.Before(cNA) {
			k.viol("no-overlap", "minted next does not begin before current ends")
		}
	}
	if !pre.present && !k.rc.Reinit || action == "startover" {
		if !(nNB.After(cNB) && nNA.After(cNA)) {
			k.viol("fresh-next-not-later", "starting over: next does not begin and end later than current")
		} else {
			r.Count("fresh_next_later_than_current", 1)
		}
	}
	return ret
}

// storeCrafted writes a root set with the given windows through the library's Store
func storeCrafted(s *world.Server, ck, nk *world.Keys, cnb, cna, nnb, nna time.Time) (*types.RootCertificates, error) {
	roots := &types.RootCertificates{
		Id:      nodeenrollment.RootsMessageId,
		Current: world.MintRoot(nodeenrollment.CurrentId, ck, cnb, cna),
		Next:    world.MintRoot(nodeenrollment.NextId, nk, nnb, nna),
	}
	return roots, roots.Store(s.Ctx, s.Inner, s.StoreOpts()...)
}

// age re-mints the stored roots shifted into the past by d (time-warp)
func ageRoots(s *world.Server, d time.Duration) (*types.RootCertificates, error) {
	cur, err := s.Roots()
	if err != nil {
		return nil, err
	}
	ck, err := world.KeysFromPkcs8(cur.Current.PrivateKeyPkcs8)
	if err != nil {
		return nil, err
	}
	nk, err := world.KeysFromPkcs8(cur.Next.PrivateKeyPkcs8)
	if err != nil {
		return nil, err
	}
	return storeCrafted(s, ck, nk,
		cur.Current.NotBefore.AsTime().Add(-d), cur.Current.NotAfter.AsTime().Add(-d),
		cur.Next.NotBefore.AsTime().Add(-d), cur.Next.NotAfter.AsTime().Add(-d))
}

// runRootsReinitFault: reinitialization is requested while exactly one storage
// operation of the call fails. The call may fail; if it reports success it must
// have replaced both roots and storage must hold what it returned ("always
// replaces both when reinitialization is requested" is stated for every
// successful call).
func runRootsReinitFault(c *engine.Ctx, rc rootsCase) {
	r := c.R
	for _, kind := range recstore.FaultKinds {
		for pos := 1; pos <= 12; pos++ {
			var rec *recstore.Rec
			s, err := world.NewServer(world.ServerCfg{Backend: rc.Backend, StorageWrap: rc.Wrap, NoRoots: true, Wrap: func(in nodeenrollment.Storage) nodeenrollment.Storage {
				rec = recstore.New(in)
				return rec.Wrap()
			}})
			if err != nil {
				r.Broken(err.Error())
				return
			}
			ck, nk := world.NewKeys(), world.NewKeys()
			now := time.Now()
			var pre *types.RootCertificates
			if rc.Missing == "promotable" {
				pre, err = storeCrafted(s, ck, nk, now.Add(-10*time.Hour), now.Add(2*time.Hour), now.Add(-time.Hour), now.Add(12*time.Hour))
			} else {
				pre, err = storeCrafted(s, ck, nk, now.Add(-time.Hour), now.Add(10*time.Hour), now.Add(5*time.Hour), now.Add(15*time.Hour))
			}
			if err != nil {
				r.Broken("crafted store: " + err.Error())
				s.Close()
				return
			}
			rec.Arm(pos, kind)
			var ret *types.RootCertificates
			var cerr error
			p, st := engine.Guard(func() { ret, cerr = rotation.RotateRootCertificates(s.Ctx, s.Store, rc.opts(s)...) })
			fired := rec.Fired()
			rec.Arm(0, "")
			wit := map[string]any{"case": rc, "fault_kind": kind, "fault_position": pos}
			switch {
			case p != nil:
				r.Violation("panic:"+engine.LibraryFrame(st), fmt.Sprintf("RotateRootCertificates panicked: %v", p), wit)
			case !fired:
				// past the last storage operation of the call
			case cerr != nil:
				r.Count("reinit_under_fault:refused", 1)
			default:
				r.Count("reinit_under_fault:success", 1)
				stored, lerr := s.Roots()
				kept := func(x *types.RootCertificate) bool {
					return x == nil || bytes.Equal(x.PublicKeyPkix, ck.Pkix) || bytes.Equal(x.PublicKeyPkix, nk.Pkix)
				}
				switch {
				case ret == nil || kept(ret.Current) || kept(ret.Next):
					r.Violation("reinitialize-kept-a-root:under-fault", fmt.Sprintf("reinitialization reported success after a failed storage operation (%s at position %d) but an old root is still in place", kind, pos), wit)
				case lerr != nil || !proto.Equal(stored.Current, ret.Current) || !proto.Equal(stored.Next, ret.Next):
					r.Violation("returned-not-stored", fmt.Sprintf("reinitialization reported success after a failed storage operation (%s at position %d) but storage does not hold the returned roots", kind, pos), wit)
				}
			}
			_ = pre
			s.Close()
			if !fired {
				break
			}
			r.Eval(fmt.Sprintf("%s|%s|%d", engine.J(rc), kind, pos), true)
			r.Count("reinit_under_fault:positions", 1)
		}
	}
}

// runRootsUnreadable: a periodic (not reinitializing) call on a stored pair that is in the
// steady state (current valid, next not yet valid: nothing is due) while the call cannot read
// the pair: because the wrapper it is given cannot open it, because it is given none, or
// because one storage operation fails with a generic or cancelled error (a not-found answer
// is what an empty storage gives, so that kind is not used here). The call may fail. If it
// reports success, the table applies: nothing was due, so storage must still hold the pair.
func runRootsUnreadable(c *engine.Ctx, rc rootsCase) {
	r := c.R
	type variant struct {
		name string
		kind string
		pos  int
	}
	vs := []variant{{name: "other-wrapper"}, {name: "no-wrapper"}, {name: "reinit-other-wrapper"}}
	for _, kind := range []string{recstore.FaultGeneric, recstore.FaultCancelled} {
		for pos := 1; pos <= 6; pos++ {
			vs = append(vs, variant{name: "fault", kind: kind, pos: pos})
		}
	}
	past := map[string]bool{} // fault kinds whose position has moved past the call's last storage operation
	for _, v := range vs {
		if past[v.kind] && v.name == "fault" {
			continue
		}
		var rec *recstore.Rec
		s, err := world.NewServer(world.ServerCfg{Backend: rc.Backend, StorageWrap: rc.Wrap || v.name != "fault", NoRoots: true, Wrap: func(in nodeenrollment.Storage) nodeenrollment.Storage {
			rec = recstore.New(in)
			return rec.Wrap()
		}})
		if err != nil {
			r.Broken(err.Error())
			return
		}
		ck, nk := world.NewKeys(), world.NewKeys()
		now := time.Now()
		if _, err := storeCrafted(s, ck, nk, now.Add(-time.Hour), now.Add(10*time.Hour), now.Add(5*time.Hour), now.Add(15*time.Hour)); err != nil {
			r.Broken("crafted store: " + err.Error())
			s.Close()
			return
		}
		before, berr := s.Roots()
		if berr != nil {
			r.Broken("crafted roots do not load: " + berr.Error())
			s.Close()
			return
		}
		opts := []nodeenrollment.Option{
			nodeenrollment.WithCertificateLifetime(time.Duration(rc.LifetimeS) * time.Second),
			nodeenrollment.WithNotBeforeClockSkew(time.Duration(rc.NbSkewS) * time.Second),
			nodeenrollment.WithNotAfterClockSkew(time.Duration(rc.NaSkewS) * time.Second),
		}
		switch v.name {
		case "reinit-other-wrapper":
			// the operator lost the wrapping key and starts over with a new one
			opts = append(opts, nodeenrollment.WithStorageWrapper(world.NewAead("the-new-key")), nodeenrollment.WithReinitializeRoots(true))
		case "other-wrapper":
			opts = append(opts, nodeenrollment.WithStorageWrapper(world.NewAead("some-other-key")))
		case "no-wrapper":
		default:
			opts = s.Opts(opts...)
			rec.Arm(v.pos, v.kind)
		}
		var ret *types.RootCertificates
		var cerr error
		p, st := engine.Guard(func() { ret, cerr = rotation.RotateRootCertificates(s.Ctx, s.Store, opts...) })
		fired := rec.Fired()
		rec.Arm(0, "")
		wit := map[string]any{"case": rc, "variant": v.name, "fault_kind": v.kind, "fault_position": v.pos}
		desc := fmt.Sprintf("%s|%s|%s|%d", engine.J(rc), v.name, v.kind, v.pos)
		switch {
		case p != nil:
			r.Violation("panic:"+engine.LibraryFrame(st), fmt.Sprintf("RotateRootCertificates panicked: %v", p), wit)
		case v.name == "fault" && !fired:
		case v.name == "reinit-other-wrapper":
			r.Eval(desc, true)
			kept := func(x *types.RootCertificate) bool {
				return x == nil || bytes.Equal(x.PublicKeyPkix, ck.Pkix) || bytes.Equal(x.PublicKeyPkix, nk.Pkix)
			}
			switch {
			case cerr != nil:
				r.Violation("reinitialize-refused:unreadable-record", "reinitialization was requested on a record the given wrapper cannot open and the call failed: "+cerr.Error(), wit)
			case ret == nil || kept(ret.Current) || kept(ret.Next):
				r.Violation("reinitialize-kept-a-root", "reinitialization over an unreadable record reported success but an old root is still in place", wit)
			default:
				r.Count("unreadable_roots:reinitialized", 1)
			}
		case cerr != nil:
			r.Eval(desc, true)
			r.Count("unreadable_roots:refused:"+v.name, 1)
			if ret != nil {
				r.Violation("error-with-roots", "error returned together with a root set", wit)
			}
		default:
			r.Eval(desc, true)
			r.Count("unreadable_roots:success:"+v.name, 1)
			after, aerr := s.Roots()
			if aerr != nil || !proto.Equal(after.Current, before.Current) || !proto.Equal(after.Next, before.Next) {
				r.Violation("wrong-action:want=nochange,got=replaced-unreadable-roots:"+v.name, fmt.Sprintf("a call that could not read the stored pair (%s %s %d) reported success and storage no longer holds the pair, although current is valid and next is not yet valid", v.name, v.kind, v.pos), wit)
			}
		}
		s.Close()
		if v.name == "fault" && !fired {
			past[v.kind] = true
		}
	}
}

func runRootsCase(c *engine.Ctx, rc rootsCase) {
	r := c.R
	if rc.Kind == "reinit-fault" {
		runRootsReinitFault(c, rc)
		return
	}
	if rc.Kind == "unreadable" {
		runRootsUnreadable(c, rc)
		return
	}
	scfg := world.ServerCfg{Backend: rc.Backend, StorageWrap: rc.Wrap, StorageWrapKind: rc.WrapKind, NoRoots: true}
	if rc.NoOverwrite {
		scfg.Wrap = func(in nodeenrollment.Storage) nodeenrollment.Storage { return rootsInsertOnly{in} }
	}
	s, err := world.NewServer(scfg)
	if err != nil {
		r.Broken(err.Error())
		return
	}
	defer s.Close()
	if rc.Wrap {
		r.Count("storage_wrapper_kind:"+orDefault(rc.WrapKind, "aead"), 1)
	}
	k := &rootsChecker{c: c, rc: rc, s: s}
	desc := engine.J(rc)
	switch rc.Kind {
	case "empty":
		r.Eval(desc, true)
		ret := k.call(preState{}, true, "empty storage")
		if ret != nil {
			// immediate second call
			k.second(ret)
		}
	case "halfmissing":
		r.Eval(desc, true)
		ck := world.NewKeys()
		now := time.Now()
		one := world.MintRoot(nodeenrollment.CurrentId, ck, now.Add(-time.Hour), now.Add(time.Hour))
		raw := &types.RootCertificates{Id: nodeenrollment.RootsMessageId}
		if rc.Missing == "next" {
			raw.Current = one
		} else {
			one.Id = string(nodeenrollment.NextId)
			raw.Next = one
		}
		if err := s.Inner.Store(s.Ctx, raw); err != nil {
			r.Broken("raw store: " + err.Error())
			return
		}
		var ret *types.RootCertificates
		var cerr error
		if p, st := engine.Guard(func() { ret, cerr = rotation.RotateRootCertificates(s.Ctx, s.Store, rc.opts(s)...) }); p != nil {
			k.viol("panic:"+engine.LibraryFrame(st), fmt.Sprintf("RotateRootCertificates panicked on a half-missing record: %v", p))
			return
		}
		if cerr != nil {
			r.Count("halfmissing_refused", 1)
			if ret != nil {
				k.viol("error-with-roots", "error returned together with a root set")
			}
			if rc.Reinit {
				// a reinitialization replaces whatever is stored, also a record that cannot be used
				k.viol("reinitialize-refused:half-missing-record", "reinitialization was requested on a half-missing root record and the call failed: "+cerr.Error())
			}
			return
		}
		// success is only acceptable as a start-over with two fresh roots
		if ret == nil || ret.Current == nil || ret.Next == nil || bytes.Equal(ret.Current.PublicKeyPkix, ck.Pkix) || bytes.Equal(ret.Next.PublicKeyPkix, ck.Pkix) {
			k.viol("halfmissing-kept", "a half-missing root record was neither refused nor replaced by two fresh roots")
		} else {
			r.Count("halfmissing_started_over", 1)
			k.wellFormed(ret.Current, "current")
			k.wellFormed(ret.Next, "next")
		}
	case "reinit-skip":
		// reinitialization requested by a caller that stores the result itself (WithSkipStorage): whatever
		// is stored, the call hands back two fresh roots; the option order must not matter
		r.Eval(desc, true)
		ck, nk := world.NewKeys(), world.NewKeys()
		now := time.Now()
		at := func(i int) time.Time { return now.Add(offsetOf(rc.Levels[i], rc.NowGap)) }
		if _, err := storeCrafted(s, ck, nk, at(0), at(1), at(2), at(3)); err != nil {
			r.Broken("crafted store: " + err.Error())
			return
		}
		o := rc.opts(s)
		if rc.Seed%2 == 0 {
			o = append(o, nodeenrollment.WithSkipStorage(true))
		} else {
			o = append([]nodeenrollment.Option{nodeenrollment.WithSkipStorage(true)}, o...)
		}
		var ret *types.RootCertificates
		var cerr error
		if p, st := engine.Guard(func() { ret, cerr = rotation.RotateRootCertificates(s.Ctx, s.Store, o...) }); p != nil {
			k.viol("panic:"+engine.LibraryFrame(st), fmt.Sprintf("RotateRootCertificates panicked (reinitialize, skip storage): %v", p))
			return
		}
		switch {
		case cerr != nil:
			k.viol("reinitialize-refused:skip-storage", "reinitialization with WithSkipStorage failed over readable roots: "+cerr.Error())
		case ret == nil || ret.Current == nil || ret.Next == nil:
			k.viol("reinitialize-incomplete:skip-storage", "reinitialization with WithSkipStorage did not return two roots")
		default:
			for _, rt := range []*types.RootCertificate{ret.Current, ret.Next} {
				if bytes.Equal(rt.PublicKeyPkix, ck.Pkix) || bytes.Equal(rt.PublicKeyPkix, nk.Pkix) {
					k.viol("reinitialize-kept-root:skip-storage", fmt.Sprintf("reinitialization was requested (with WithSkipStorage) and the returned %s root is one of the previous roots (levels %v, now in gap %d)", rt.Id, rc.Levels, rc.NowGap))
					return
				}
			}
			k.wellFormed(ret.Current, "current")
			k.wellFormed(ret.Next, "next")
			r.Count("reinit_with_skip_storage_replaced_both", 1)
		}
	case "near":
		r.Eval(desc, true)
		ck, nk := world.NewKeys(), world.NewKeys()
		now := time.Now()
		at := func(i int) time.Time { return now.Add(time.Duration(rc.OffsetsS[i]) * time.Second) }
		pre, err := storeCrafted(s, ck, nk, at(0), at(1), at(2), at(3))
		if err != nil {
			r.Broken("crafted store: " + err.Error())
			return
		}
		if time.Since(now) > 3*time.Second {
			r.Count("near_cases_skipped(setup took seconds)", 1)
			return
		}
		r.Count("near_boundary_cases", 1)
		k.call(preState{present: true, cur: pre.Current, nxt: pre.Next}, true, fmt.Sprintf("instants at %v s from now", rc.OffsetsS))
	case "order":
		r.Eval(desc, true)
		ck, nk := world.NewKeys(), world.NewKeys()
		now := time.Now()
		at := func(i int) time.Time { return now.Add(offsetOf(rc.Levels[i], rc.NowGap)) }
		pre, err := storeCrafted(s, ck, nk, at(0), at(1), at(2), at(3))
		if err != nil {
			r.Broken("crafted store: " + err.Error())
			return
		}
		ret := k.call(preState{present: true, cur: pre.Current, nxt: pre.Next}, true, fmt.Sprintf("levels %v now in gap %d", rc.Levels, rc.NowGap))
		if ret != nil {
			k.second(ret)
		}
	case "walk":
		rng := rand.New(rand.NewSource(rc.Seed))
		ret := k.call(preState{}, true, "walk start (empty)")
		L := time.Duration(rc.LifetimeS) * time.Second
		for step := 0; step < rc.Steps && ret != nil; step++ {
			// age by an arbitrary amount (not cadence-bound)
			var d time.Duration
			switch rng.Intn(6) {
			case 0:
				d = time.Duration(rng.Int63n(int64(L)/4 + 1))
			case 1:
				d = time.Duration(rng.Int63n(int64(L) + 1))
			case 2:
				d = L/2 + time.Duration(rng.Int63n(int64(L)/2+1))
			case 3:
				d = time.Duration(rng.Int63n(3*int64(L) + 1))
			case 4:
				d = 0
			default:
				d = time.Duration(rng.Int63n(int64(L)/16 + 1))
			}
			pre, err := ageRoots(s, d)
			if err != nil {
				r.Broken("age roots: " + err.Error())
				return
			}
			now := time.Now()
			assert := !nearNow(now, pre.Current.NotBefore.AsTime(), pre.Current.NotAfter.AsTime(), pre.Next.NotBefore.AsTime(), pre.Next.NotAfter.AsTime())
			if !assert {
				r.Count("walk_steps_too_close_to_a_boundary(action not asserted)", 1)
			}
			r.Eval(fmt.Sprintf("%s step %d", desc, step), true)
			r.Count("walk_steps", 1)
			ret = k.call(preState{present: true, cur: pre.Current, nxt: pre.Next}, assert, fmt.Sprintf("walk step %d after ageing by %s", step, d.Round(time.Second)))
		}
	}
}

// second performs the immediate second call: it must be judged by the same
// table on the state the first call left
func (k *rootsChecker) second(first *types.RootCertificates) {
	if k.rc.Reinit {
		return // a second reinitialization replaces both again; covered by the first call's clauses
	}
	now := time.Now()
	assert := !nearNow(now, first.Current.NotBefore.AsTime(), first.Current.NotAfter.AsTime(), first.Next.NotBefore.AsTime(), first.Next.NotAfter.AsTime())
	k.c.R.Count("second_calls", 1)
	ret := k.call(preState{present: true, cur: first.Current, nxt: first.Next}, assert, "immediate second call")
	if ret != nil && assert {
		want := expectedAction(first.Current.NotBefore.AsTime(), first.Current.NotAfter.AsTime(), first.Next.NotBefore.AsTime(), first.Next.NotAfter.AsTime(), now)
		if want == "nochange" {
			k.c.R.Count("second_call_was_noop", 1)
		}
	}
}

func runRoots(c *engine.Ctx) engine.Result {
	r := c.R
	res := engine.Result{
		Rule:        "case = (order type of the four stored validity instants relative to now | empty storage | half-missing record | time-warped random walk) x (lifetime, not-before skew, not-after skew, reinitialize, storage wrapper, back end); all order types are enumerated (weak orderings with NotBefore <= NotAfter per root, now strictly between levels, >= 1 h from every instant); each case is one real RotateRootCertificates call plus an immediate second call; non-trivial = the call was made on a loadable state; distinct by descriptor (walk steps individually). Oracle: decision table of the statement read off public keys; returned == stored; minted roots well-formed self-signed CAs with exact span and start inside a two-reading clock bracket +-2 s; next shifted by half of current's remaining life; current valid at the call.",
		Assumptions: []string{"ties between a stored instant and now are excluded (>= 1 min margin, else the action is not asserted)", "clauses about carried-over roots are not re-asserted on crafted pre-states that do not satisfy them", "lifetimes shorter than a call's duration are excluded"},
	}
	if c.Replay != nil {
		var mc rootsMigrateCase
		if err := json.Unmarshal(c.Replay, &mc); err == nil && mc.Kind == "slow-load" {
			runRootsSlowLoad(c, mc.Seq)
			return res
		}
		if err := json.Unmarshal(c.Replay, &mc); err == nil && mc.Kind == "migrate" {
			runRootsMigrate(c, mc)
			return res
		}
		var rc rootsCase
		if err := json.Unmarshal(c.Replay, &rc); err != nil {
			r.Broken("bad replay")
			return res
		}
		runRootsCase(c, rc)
		return res
	}
	type cfg struct {
		L, nb, na int64
		reinit    bool
		wrap      bool
		backend   string
	}
	var cfgs []cfg
	lifetimes := []int64{600, 3600, 14 * 86400, 365 * 86400}
	nbs := []int64{0, -300, -3600}
	nas := []int64{0, 300, 3600}
	if c.Quick() {
		cfgs = []cfg{
			{14 * 86400, -300, 300, false, false, world.Inmem},
			{3600, -3600, 0, false, true, world.Inmem},
			{600, 0, 3600, false, false, world.StoreOnce},
			{14 * 86400, -300, 300, true, true, world.Inmem},
			{365 * 86400, -3600, 3600, false, false, world.File},
		}
	} else {
		for _, L := range lifetimes {
			for _, nb := range nbs {
				for _, na := range nas {
					for _, re := range []bool{false, true} {
						for _, wr := range []bool{false, true} {
							be := world.Inmem
							switch (L/600 + nb + na) % 5 {
							case 1:
								be = world.StoreOnce
							case 3:
								be = world.File
							}
							cfgs = append(cfgs, cfg{L, nb, na, re, wr, be})
						}
					}
				}
			}
		}
	}
	var cases []rootsCase
	orderTypes := 0
	for _, lv := range weakOrderings4() {
		for gap := 0; gap <= numLevels(lv); gap++ {
			orderTypes++
			for _, cf := range cfgs {
				cases = append(cases, rootsCase{Kind: "order", Levels: lv, NowGap: gap, LifetimeS: cf.L, NbSkewS: cf.nb, NaSkewS: cf.na, Reinit: cf.reinit, Wrap: cf.wrap, Backend: cf.backend})
			}
		}
	}
	{
		n := 0
		for _, lv := range weakOrderings4() {
			for gap := 0; gap <= numLevels(lv); gap++ {
				n++
				cases = append(cases, rootsCase{Kind: "reinit-skip", Levels: lv, NowGap: gap, LifetimeS: 36000, NbSkewS: -300, NaSkewS: 300, Reinit: true, Wrap: n%3 == 0, Backend: world.Inmem, Seed: int64(n)})
			}
		}
	}
	for _, cf := range cfgs {
		cases = append(cases, rootsCase{Kind: "empty", LifetimeS: cf.L, NbSkewS: cf.nb, NaSkewS: cf.na, Reinit: cf.reinit, Wrap: cf.wrap, Backend: cf.backend})
		for _, miss := range []string{"next", "current"} {
			cases = append(cases, rootsCase{Kind: "halfmissing", Missing: miss, LifetimeS: cf.L, NbSkewS: cf.nb, NaSkewS: cf.na, Reinit: cf.reinit, Wrap: cf.wrap, Backend: cf.backend})
		}
	}
	for _, be := range []string{world.Inmem, world.File} {
		for _, wrap := range []bool{false, true} {
			for _, state := range []string{"steady", "promotable"} {
				cases = append(cases, rootsCase{Kind: "reinit-fault", Missing: state, LifetimeS: 36000, NbSkewS: -300, NaSkewS: 300, Reinit: true, Wrap: wrap, Backend: be})
			}
		}
	}
	// one instant only seconds from now, on either side (a tolerance slipped into one of the comparisons shows here)
	for _, m := range []int64{8, 20, 45} {
		for _, o := range [][4]int64{
			{+m, 36000, 18000, 54000}, {+m, 36000, -3600, 54000}, {+m, 36000, -7200, -3600}, {-m, 36000, 18000, 54000},
			{-36000, 18000, -m, 54000}, {-36000, 18000, +m, 54000}, {-36000, -m, -18000, 18000}, {-36000, +m, -18000, 18000},
			{-36000, 18000, -54000, -m}, {-36000, 18000, -54000, +m}, {-36000, -m, 18000, 54000}, {-54000, -36000, -18000, -m},
		} {
			cases = append(cases, rootsCase{Kind: "near", OffsetsS: o, LifetimeS: 36000, NbSkewS: -300, NaSkewS: 300, Backend: world.Inmem, Wrap: m == 20})
		}
	}
	for _, be := range []string{world.Inmem, world.File} {
		for _, wrap := range []bool{false, true} {
			cases = append(cases, rootsCase{Kind: "unreadable", LifetimeS: 36000, NbSkewS: -300, NaSkewS: 300, Wrap: wrap, Backend: be})
		}
	}
	rng := c.Rng("roots")
	walks := c.Pick(60, 1500)
	for i := 0; i < walks; i++ {
		L := lifetimes[rng.Intn(len(lifetimes))]
		cases = append(cases, rootsCase{Kind: "walk", LifetimeS: L, NbSkewS: nbs[rng.Intn(3)], NaSkewS: nas[rng.Intn(3)], Wrap: rng.Intn(3) == 0, Backend: world.Inmem, Steps: 10 + rng.Intn(21), Seed: rng.Int63()})
	}
	r.Set("order_types", orderTypes)
	r.Set("configurations", len(cfgs))
	r.Sample(cases[7])
	r.Sample(cases[len(cases)-1])
	// kinds of storage wrapper for the cases that run under one: a single aead key, an aead key without key
	// ID, a pool of keys, envelope encryption
	nw := 0
	for i := range cases {
		if cases[i].Wrap && cases[i].Kind != "reinit-fault" && cases[i].Kind != "unreadable" {
			cases[i].WrapKind = []string{"", world.WrapNoKeyID, world.WrapPooled, world.WrapEnvelope}[nw%4]
			nw++
		}
	}
	// every fourth order case once more on a storage that is insert-only for the roots record
	no := 0
	for _, cs := range append([]rootsCase{}, cases...) {
		if cs.Kind == "order" && !cs.Reinit {
			if no++; no%4 == 0 {
				cs.NoOverwrite = true
				cases = append(cases, cs)
			}
		}
	}
	sort.SliceStable(cases, func(i, j int) bool { return cases[i].Backend < cases[j].Backend })
	engine.ForEach(len(cases), engine.Workers(), func(i int) { runRootsCase(c, cases[i]) })
	runRootsMigrations(c)
	r.Require("migrate:returned_equals_stored", 3)
	r.Require("migrate:rotation-replaced-a-root", 2)
	r.Require("calls_refused_on_insert_only_storage", 20)
	for _, a := range []string{"nochange", "promote", "remint-next", "startover"} {
		r.Require("action_as_expected:"+a, 5)
	}
	r.Require("returned_equals_stored", 100)
	r.Require("next_shift_is_half_remaining_life", 100)
	r.Require("fresh_next_later_than_current", 10)
	r.Require("second_call_was_noop", 10)
	r.Require("walk_steps", 100)
	r.Require("halfmissing_refused", 1)
	r.Require("reinit_under_fault:positions", 24)
	r.Require("reinit_with_skip_storage_replaced_both", 50)
	r.Require("unreadable_roots:refused:other-wrapper", 4)
	r.Require("unreadable_roots:refused:no-wrapper", 4)
	r.Require("unreadable_roots:refused:fault", 8)
	r.Require("unreadable_roots:reinitialized", 4)
	r.Require("near_boundary_cases", 30)
	return res
}
