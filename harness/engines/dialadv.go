package engines

// C07 — a node connects only to a holder of a trusted root, and always to its
// own server. The real protocol.Dial against rogue TLS servers that log what
// they presented, against real listeners in every honest configuration, and
// along authorize / dial / rotate histories.

import (
	"crypto/tls"
	"crypto/x509"
	"encoding/base64"
	"encoding/json"
	"errors"
	"fmt"
	"io"
	"net"
	"os"
	"path/filepath"
	"strings"
	"sync"
	"sync/atomic"
	"time"

	"github.com/hashicorp/nodeenrollment"
	"github.com/hashicorp/nodeenrollment/protocol"
	"github.com/hashicorp/nodeenrollment/registration"
	"github.com/hashicorp/nodeenrollment/rotation"
	nodetls "github.com/hashicorp/nodeenrollment/tls"
	"github.com/hashicorp/nodeenrollment/types"
	"google.golang.org/protobuf/proto"
	"google.golang.org/protobuf/types/known/structpb"

	"verifharness/engine"
	"verifharness/world"
)

func init() {
	engine.Register(&engine.Spec{Prop: "C07", Engine: "dialadv", Level: "exploration", Fn: runDialAdv})
}

type dialCase struct {
	Kind string `json:"kind"` // rogue | honest | history
	// rogue
	Rogue    string `json:"rogue,omitempty"`
	World    string `json:"world,omitempty"` // normal | both | expired
	NodeWrap bool   `json:"node_storage_wrapper"`
	// honest
	Extras bool `json:"extra_alpn,omitempty"`
	State  bool `json:"client_state,omitempty"`
	// StateKind (with State): "" a nested struct | "empty" a struct without fields | "large" 12 kB
	StateKind string `json:"client_state_kind,omitempty"`
	Unix      bool   `json:"unix_socket,omitempty"`
	// history
	Ops      string `json:"ops,omitempty"`          // A authorize, D dial, R rotate roots
	NExtras  int    `json:"n_extra_alpn,omitempty"` // history: every dial passes client state and this many extra protocols
	DialReps int    `json:"dial_repetitions,omitempty"`
	// ZeroSkews: the listener's options set both clock skews to zero (an operator with synchronized clocks
	// who wants requests validated without tolerance)
	ZeroSkews bool `json:"listener_clock_skews_zero,omitempty"`
}

// presented records what a rogue server showed on one connection
type presented struct {
	rootInNodeCAs bool
	rootValid     bool
	nonceInLeaf   bool
	ekuOK         bool
	desc          string
}

// rogueServer is a TLS server whose certificate choice is scripted
type rogueServer struct {
	cas  *x509.CertPool // advertised as acceptable client CAs (public information)
	ln   net.Listener
	addr string
	mk   func(req *types.GenerateServerCertificatesRequest, hello *tls.ClientHelloInfo) (*tls.Certificate, presented, error)
	mu   sync.Mutex
	log  []presented
	done chan struct{}
	hs   atomic.Int64
}

func newRogueServer(mk func(*types.GenerateServerCertificatesRequest, *tls.ClientHelloInfo) (*tls.Certificate, presented, error)) (*rogueServer, error) {
	ln, err := net.Listen("tcp", "127.0.0.1:0")
	if err != nil {
		return nil, err
	}
	rs := &rogueServer{ln: ln, addr: ln.Addr().String(), mk: mk, done: make(chan struct{})}
	go rs.loop()
	return rs, nil
}

func (rs *rogueServer) loop() {
	defer close(rs.done)
	for {
		c, err := rs.ln.Accept()
		if err != nil {
			return
		}
		go func(c net.Conn) {
			defer c.Close()
			_ = c.SetDeadline(time.Now().Add(30 * time.Second))
			srv := tls.Server(c, &tls.Config{GetConfigForClient: func(h *tls.ClientHelloInfo) (*tls.Config, error) {
				// read the node's request from the ALPN list the way the real server does
				var sb strings.Builder
				first := ""
				for _, p := range h.SupportedProtos {
					if strings.HasPrefix(p, nodeenrollment.AuthenticateNodeNextProtoV1Prefix) {
						if first == "" {
							first = p
						}
						rest := strings.TrimPrefix(p, nodeenrollment.AuthenticateNodeNextProtoV1Prefix)
						if i := strings.IndexByte(rest, '-'); i >= 0 {
							sb.WriteString(rest[i+1:])
						}
					}
				}
				req := new(types.GenerateServerCertificatesRequest)
				if raw, err := base64.RawStdEncoding.DecodeString(sb.String()); err == nil {
					_ = proto.Unmarshal(raw, req)
				}
				cert, p, err := rs.mk(req, h)
				if err != nil {
					return nil, err
				}
				rs.mu.Lock()
				rs.log = append(rs.log, p)
				rs.mu.Unlock()
				cfg := &tls.Config{Certificates: []tls.Certificate{*cert}, ClientAuth: tls.RequestClientCert, ClientCAs: rs.cas, MinVersion: tls.VersionTLS13}
				if first != "" {
					cfg.NextProtos = []string{first}
				}
				return cfg, nil
			}})
			if srv.Handshake() == nil {
				rs.hs.Add(1)
				one := make([]byte, 1)
				_, _ = srv.Read(one)
			}
		}(c)
	}
}

func (rs *rogueServer) close() { rs.ln.Close(); <-rs.done }

func (rs *rogueServer) last() (presented, bool) {
	rs.mu.Lock()
	defer rs.mu.Unlock()
	if len(rs.log) == 0 {
		return presented{}, false
	}
	return rs.log[len(rs.log)-1], true
}

// dialWorld is a server with an enrolled node
type dialWorld struct {
	s        *world.Server
	node     *world.Node
	other    *world.Node
	roots    *types.RootCertificates
	curK     *world.Keys
	nextK    *world.Keys
	curCert  *x509.Certificate
	nextCert *x509.Certificate
}

func newDialWorld(kind string, nodeWrap bool) (*dialWorld, error) {
	w := &dialWorld{}
	const day = 24 * time.Hour
	switch kind {
	case "normal", "":
		w.s = world.MustServer(world.ServerCfg{Backend: world.Inmem, StorageWrap: nodeWrap})
	case "both":
		w.s = world.MustServer(world.ServerCfg{Backend: world.Inmem, NoRoots: true, StorageWrap: nodeWrap})
		craftRoots(w.s, -5*day, 5*day, -time.Hour, 12*day)
	case "expired":
		w.s = world.MustServer(world.ServerCfg{Backend: world.Inmem, NoRoots: true})
		craftRoots(w.s, -10*day, -time.Hour, -2*time.Hour, 10*day)
	}
	var err error
	w.roots, err = w.s.Roots()
	if err != nil {
		return nil, err
	}
	w.curK, _ = world.KeysFromPkcs8(w.roots.Current.PrivateKeyPkcs8)
	w.nextK, _ = world.KeysFromPkcs8(w.roots.Next.PrivateKeyPkcs8)
	w.curCert = world.ParseCert(w.roots.Current.CertificateDer)
	w.nextCert = world.ParseCert(w.roots.Next.CertificateDer)
	er, err := world.Enroll(w.s, world.FlowAuthorize, nodeWrap, nil, nil, nil)
	if err != nil {
		return nil, err
	}
	w.node = er.Node
	er2, err := world.Enroll(w.s, world.FlowAuthorize, false, nil, nil, nil)
	if err != nil {
		return nil, err
	}
	w.other = er2.Node
	return w, nil
}

var rogueKinds = []string{"foreign-world", "true-root-stale-nonce", "true-root-no-nonce", "true-root-wrong-eku", "self-signed-with-nonce", "other-nodes-client-leaf", "expired-root-in-bundle", "not-yet-valid-root-in-bundle", "honest-mint-control"}

func nonceName(req *types.GenerateServerCertificatesRequest) string {
	return base64.RawStdEncoding.EncodeToString(req.Nonce)
}

func runRogue(c *engine.Ctx, dc dialCase) {
	r := c.R
	wk := dc.World
	if dc.Rogue == "expired-root-in-bundle" {
		wk = "expired"
	}
	w, err := newDialWorld(wk, dc.NodeWrap)
	if err != nil {
		r.Broken("dial world: " + err.Error())
		return
	}
	defer w.s.Close()
	now := time.Now()
	validNow := func(cert *x509.Certificate) bool { return cert.NotBefore.Before(now) && cert.NotAfter.After(now) }
	srvKeys := world.NewKeys()
	leafUnder := func(ca *x509.Certificate, caK *world.Keys, names []string, eku []x509.ExtKeyUsage, req *types.GenerateServerCertificatesRequest) *tls.Certificate {
		der := world.MintLeaf(ca, caK.Priv, srvKeys.Pub, world.LeafSpec{SubjectKeyID: req.CertificatePublicKeyPkix, CommonName: "srv", DNSNames: names, EKU: eku, NotBefore: now.Add(-time.Hour), NotAfter: now.Add(time.Hour)})
		return &tls.Certificate{Certificate: [][]byte{der, ca.Raw}, PrivateKey: srvKeys.Priv}
	}
	serverAuth := []x509.ExtKeyUsage{x509.ExtKeyUsageServerAuth}
	// the CA the node can currently use
	usableCA, usableK := w.curCert, w.curK
	if !validNow(w.curCert) {
		usableCA, usableK = w.nextCert, w.nextK
	}
	var foreign *world.Server
	if dc.Rogue == "foreign-world" {
		foreign = world.MustServer(world.ServerCfg{Backend: world.Inmem})
		defer foreign.Close()
	}
	mk := func(req *types.GenerateServerCertificatesRequest, h *tls.ClientHelloInfo) (*tls.Certificate, presented, error) {
		p := presented{desc: dc.Rogue}
		switch dc.Rogue {
		case "foreign-world":
			// a complete second server world answers, verification waived
			req2 := proto.Clone(req).(*types.GenerateServerCertificatesRequest)
			req2.SkipVerification = true
			resp, err := nodetls.GenerateServerCertificates(foreign.Ctx, foreign.Store, req2)
			if err != nil {
				return nil, p, err
			}
			k, _ := world.KeysFromPkcs8(resp.CertificatePrivateKeyPkcs8)
			b := resp.CertificateBundles[0]
			p.nonceInLeaf, p.ekuOK, p.rootValid = true, true, true
			return &tls.Certificate{Certificate: [][]byte{b.CertificateDer, b.CaCertificateDer}, PrivateKey: k.Priv}, p, nil
		case "true-root-stale-nonce":
			p.rootInNodeCAs, p.rootValid, p.ekuOK = true, true, true
			return leafUnder(usableCA, usableK, []string{"srv", base64.RawStdEncoding.EncodeToString(world.RandBytes(32))}, serverAuth, req), p, nil
		case "true-root-no-nonce":
			p.rootInNodeCAs, p.rootValid, p.ekuOK = true, true, true
			return leafUnder(usableCA, usableK, []string{"srv", nodeenrollment.CommonDnsName}, serverAuth, req), p, nil
		case "true-root-wrong-eku":
			p.rootInNodeCAs, p.rootValid, p.nonceInLeaf = true, true, true
			return leafUnder(usableCA, usableK, []string{"srv", nonceName(req)}, []x509.ExtKeyUsage{x509.ExtKeyUsageCodeSigning}, req), p, nil
		case "self-signed-with-nonce":
			p.nonceInLeaf, p.ekuOK, p.rootValid = true, true, true
			der := world.MintSelfSigned(srvKeys, world.LeafSpec{SubjectKeyID: req.CertificatePublicKeyPkix, CommonName: "srv", DNSNames: []string{"srv", nonceName(req)}, EKU: serverAuth, NotBefore: now.Add(-time.Hour), NotAfter: now.Add(time.Hour)})
			return &tls.Certificate{Certificate: [][]byte{der}, PrivateKey: srvKeys.Priv}, p, nil
		case "other-nodes-client-leaf":
			// another registered node presents its own client certificate and key
			i := 0
			if !validNow(w.curCert) {
				i = 1
			}
			b := w.other.Creds.CertificateBundles[i]
			p.rootInNodeCAs, p.rootValid, p.ekuOK = true, true, true
			return &tls.Certificate{Certificate: [][]byte{b.CertificateDer, b.CaCertificateDer}, PrivateKey: w.other.K.Priv}, p, nil
		case "expired-root-in-bundle":
			// the root holder of the expired current root mints a fresh, nonce-carrying certificate
			p.rootInNodeCAs, p.nonceInLeaf, p.ekuOK = true, true, true
			return leafUnder(w.curCert, w.curK, []string{"srv", nonceName(req)}, serverAuth, req), p, nil
		case "not-yet-valid-root-in-bundle":
			// normal world: next is in the bundle but starts in the future
			p.rootInNodeCAs, p.nonceInLeaf, p.ekuOK = true, true, true
			p.rootValid = validNow(w.nextCert)
			return leafUnder(w.nextCert, w.nextK, []string{"srv", nonceName(req)}, serverAuth, req), p, nil
		case "honest-mint-control":
			// control: a correct certificate minted by the root holder must be accepted
			p.rootInNodeCAs, p.rootValid, p.nonceInLeaf, p.ekuOK = true, true, true, true
			return leafUnder(usableCA, usableK, []string{"srv", nonceName(req)}, serverAuth, req), p, nil
		}
		return nil, p, errors.New("unknown rogue kind")
	}
	rs, err := newRogueServer(mk)
	if err != nil {
		r.Broken(err.Error())
		return
	}
	rs.cas = x509.NewCertPool()
	rs.cas.AddCert(w.curCert)
	rs.cas.AddCert(w.nextCert)
	defer rs.close()
	conn, derr := protocol.Dial(w.s.Ctx, w.node.Store, rs.addr, w.node.NodeOpts()...)
	if conn != nil {
		defer conn.Close()
	}
	r.Eval(engine.J(dc), true)
	p, saw := rs.last()
	if !saw {
		r.Count("rogue_never_reached_certificate_choice", 1)
		return
	}
	allowed := p.rootInNodeCAs && p.rootValid && p.nonceInLeaf && p.ekuOK
	switch {
	case derr == nil && !allowed:
		r.Violation("connected-to-untrusted-peer:"+dc.Rogue, fmt.Sprintf("Dial completed against a peer presenting: root in node's bundles=%v, root valid=%v, nonce in leaf=%v, EKU ok=%v", p.rootInNodeCAs, p.rootValid, p.nonceInLeaf, p.ekuOK), dc)
	case derr == nil:
		r.Count("control_accepted", 1)
	case allowed:
		r.Count("control_REJECTED", 1)
		r.Sample(map[string]any{"control_rejected": dc, "err": derr.Error()})
	default:
		r.Count("rogue_rejected:"+dc.Rogue, 1)
	}
}

// runRogueAfterFetch: the one Dial that both fetches the credentials of a freshly authorized node and
// then connects: its first connection (the fetch) is relayed to the honest server, every later connection
// of the same Dial is answered by a rogue TLS server holding a foreign self-signed certificate.
func runRogueAfterFetch(c *engine.Ctx, dc dialCase) {
	r := c.R
	s := world.MustServer(world.ServerCfg{Backend: world.Inmem, StorageWrap: dc.NodeWrap})
	defer s.Close()
	lw, err := world.NewLW(s, world.LWCfg{})
	if err != nil {
		r.Broken(err.Error())
		return
	}
	defer lw.Close()
	n, err := world.NewNode(dc.NodeWrap, "")
	if err != nil {
		r.Broken(err.Error())
		return
	}
	req, _ := n.FetchRequest()
	if _, err := registration.AuthorizeNode(s.Ctx, s.Store, req, s.Opts()...); err != nil {
		r.Broken("authorize: " + err.Error())
		return
	}
	front, err := net.Listen("tcp", "127.0.0.1:0")
	if err != nil {
		r.Broken(err.Error())
		return
	}
	defer front.Close()
	rogueKeys := world.NewKeys()
	var rogueHandshakes atomic.Int64
	var conns atomic.Int64
	go func() {
		for {
			cn, err := front.Accept()
			if err != nil {
				return
			}
			if conns.Add(1) == 1 {
				// relay the fetch to the honest server
				go func(cn net.Conn) {
					defer cn.Close()
					up, err := net.Dial("tcp", lw.Addr)
					if err != nil {
						return
					}
					defer up.Close()
					done := make(chan struct{}, 2)
					go func() { _, _ = io.Copy(up, cn); done <- struct{}{} }()
					go func() { _, _ = io.Copy(cn, up); done <- struct{}{} }()
					<-done
				}(cn)
				continue
			}
			go func(cn net.Conn) {
				defer cn.Close()
				_ = cn.SetDeadline(time.Now().Add(30 * time.Second))
				now := time.Now()
				srv := tls.Server(cn, &tls.Config{GetConfigForClient: func(h *tls.ClientHelloInfo) (*tls.Config, error) {
					names := []string{"srv"}
					if dc.Rogue == "self-signed-with-nonce" {
						// read the nonce the way the real server does
						var sb strings.Builder
						for _, p := range h.SupportedProtos {
							if strings.HasPrefix(p, nodeenrollment.AuthenticateNodeNextProtoV1Prefix) {
								rest := strings.TrimPrefix(p, nodeenrollment.AuthenticateNodeNextProtoV1Prefix)
								if i := strings.IndexByte(rest, '-'); i >= 0 {
									sb.WriteString(rest[i+1:])
								}
							}
						}
						rq := new(types.GenerateServerCertificatesRequest)
						if raw, err := base64.RawStdEncoding.DecodeString(sb.String()); err == nil && proto.Unmarshal(raw, rq) == nil {
							names = append(names, nonceName(rq))
						}
					}
					der := world.MintSelfSigned(rogueKeys, world.LeafSpec{SubjectKeyID: rogueKeys.Pkix, CommonName: "srv", DNSNames: names, EKU: []x509.ExtKeyUsage{x509.ExtKeyUsageServerAuth}, NotBefore: now.Add(-time.Hour), NotAfter: now.Add(time.Hour)})
					roots, _ := s.Roots()
					cas := x509.NewCertPool()
					if roots != nil {
						cas.AddCert(world.ParseCert(roots.Current.CertificateDer))
						cas.AddCert(world.ParseCert(roots.Next.CertificateDer))
					}
					cfg := &tls.Config{Certificates: []tls.Certificate{{Certificate: [][]byte{der}, PrivateKey: rogueKeys.Priv}}, ClientAuth: tls.RequestClientCert, ClientCAs: cas, MinVersion: tls.VersionTLS13}
					for _, p := range h.SupportedProtos {
						if strings.HasPrefix(p, nodeenrollment.AuthenticateNodeNextProtoV1Prefix) {
							cfg.NextProtos = []string{p}
							break
						}
					}
					return cfg, nil
				}})
				if srv.Handshake() == nil {
					rogueHandshakes.Add(1)
					one := make([]byte, 1)
					_, _ = srv.Read(one)
				}
			}(cn)
		}
	}()
	conn, derr := protocol.Dial(s.Ctx, n.Store, front.Addr().String(), n.NodeOpts()...)
	if conn != nil {
		defer conn.Close()
	}
	r.Eval(engine.J(dc), true)
	stored, serr := n.Stored()
	switch {
	case derr == nil:
		r.Violation("connected-to-untrusted-peer:after-fetch:"+dc.Rogue, fmt.Sprintf("the Dial that fetched the node's credentials then completed a handshake with a peer holding a foreign self-signed certificate (rogue completed %d handshakes)", rogueHandshakes.Load()), dc)
	case conns.Load() < 2:
		r.Count("rogue_after_fetch_not_reached", 1)
	default:
		r.Count("rogue_rejected:after-fetch:"+dc.Rogue, 1)
	}
	if serr == nil && len(stored.CertificateBundles) == 2 {
		// the fetch itself was honest: a clean dial to the real server must now work
		n.Creds = stored
		c2, err := protocol.Dial(s.Ctx, n.Store, lw.Addr, n.NodeOpts()...)
		if err != nil {
			r.Violation("honest-dial-failed", "after a fetch through a relay the node could not connect to its own server: "+err.Error(), dc)
			return
		}
		defer c2.Close()
		if rec, werr := lw.Wait(c2.LocalAddr().String()); werr == nil {
			if rec.Returned && rec.Conn != nil {
				rec.Conn.Close()
			}
			if rec.Authenticated() {
				r.Count("clean_dial_after_relayed_fetch", 1)
			}
		}
	}
}

// ---------------------------------------------------------------------------

func runHonest(c *engine.Ctx, dc dialCase) {
	r := c.R
	w, err := newDialWorld(orDefault(dc.World, "normal"), dc.NodeWrap)
	if err != nil {
		r.Broken(err.Error())
		return
	}
	defer w.s.Close()
	lw, err := world.NewLW(w.s, world.LWCfg{Unix: dc.Unix})
	if err != nil {
		r.Broken(err.Error())
		return
	}
	defer lw.Close()
	var opts []nodeenrollment.Option
	var st *structpb.Struct
	if dc.State {
		switch dc.StateKind {
		case "empty":
			st = &structpb.Struct{}
		case "large":
			st, _ = structpb.NewStruct(map[string]any{"blob": strings.Repeat("s", 12000)})
		default:
			st, _ = structpb.NewStruct(map[string]any{"a": map[string]any{"b": []any{1.0, "x"}}})
		}
		opts = append(opts, nodeenrollment.WithState(st))
	}
	if dc.Extras {
		opts = append(opts, nodeenrollment.WithExtraAlpnProtos([]string{"x1", "x2"}))
	}
	before := lw.TL.Accepted()
	conn, derr := protocol.Dial(w.s.Ctx, w.node.Store, lw.Addr, w.node.NodeOpts(opts...)...)
	r.Eval(engine.J(dc), true)
	if derr != nil {
		r.Violation("honest-dial-failed", "a registered node with valid credentials could not connect to its own server: "+derr.Error(), dc)
		return
	}
	defer conn.Close()
	var rec *world.ConnRec
	var werr error
	if dc.Unix {
		// the last raw connection is the one Dial returned
		rec, werr = lw.WaitSeq(before + attemptsUsed(lw, before))
	} else {
		rec, werr = lw.Wait(conn.LocalAddr().String())
	}
	if werr != nil || rec == nil {
		r.Inconclusive("watchdog waiting for the server side of an honest dial")
		return
	}
	if rec.Returned && rec.Conn != nil {
		defer rec.Conn.Close()
	}
	if !rec.Authenticated() {
		r.Violation("honest-dial-not-authenticated", fmt.Sprintf("the server did not authenticate a registered node (accept error %v)", rec.AcceptErr), dc)
		return
	}
	r.Count("honest_dials_authenticated", 1)
	if dc.Unix {
		r.Count("honest_dials_over_unix_socket", 1)
	}
	if pc, ok := rec.Conn.(*protocol.Conn); ok && dc.State && !stateEqual(pc.ClientState(), st) {
		r.Violation("honest-dial-state-lost", "client state supplied to Dial did not arrive", dc)
	}
}

// attemptsUsed waits until the listener has seen the connections of one Dial
func attemptsUsed(lw *world.LW, before int) int {
	deadline := time.Now().Add(10 * time.Second)
	for time.Now().Before(deadline) {
		if n := lw.TL.Accepted() - before; n > 0 {
			return n
		}
		time.Sleep(time.Millisecond)
	}
	return 1
}

// ---------------------------------------------------------------------------

func runHistory(c *engine.Ctx, dc dialCase) {
	r := c.R
	const day = 24 * time.Hour
	var s *world.Server
	if dc.World == "both" {
		s = world.MustServer(world.ServerCfg{Backend: world.Inmem, NoRoots: true, StorageWrap: dc.NodeWrap})
		craftRoots(s, -5*day, 5*day, -time.Hour, 12*day)
	} else if dc.World == "lapsed" {
		// the current root ran out an hour ago, the next one is valid, the periodic rotation has not run yet
		s = world.MustServer(world.ServerCfg{Backend: world.Inmem, NoRoots: true, StorageWrap: dc.NodeWrap})
		craftRoots(s, -10*day, -time.Hour, -2*time.Hour, 10*day)
	} else {
		s = world.MustServer(world.ServerCfg{Backend: world.Inmem, StorageWrap: dc.NodeWrap})
	}
	defer s.Close()
	lcfg := world.LWCfg{}
	if dc.ZeroSkews {
		lcfg.Options = s.Opts(nodeenrollment.WithNotBeforeClockSkew(0), nodeenrollment.WithNotAfterClockSkew(0))
		r.Count("histories_on_a_listener_with_zero_clock_skews", 1)
	}
	lw, err := world.NewLW(s, lcfg)
	if err != nil {
		r.Broken(err.Error())
		return
	}
	defer lw.Close()
	n, err := world.NewNode(dc.NodeWrap, "")
	if err != nil {
		r.Broken(err.Error())
		return
	}
	origPkix := append([]byte{}, n.K.Pkix...)
	authorized, enrolled := false, false
	var heldRoots []string // public keys of the roots the node's chains are under
	setOf := func() (cur, next *types.RootCertificate) {
		rt, err := s.Roots()
		if err != nil {
			return nil, nil
		}
		return rt.Current, rt.Next
	}
	now := time.Now()
	validRoot := func(rc *types.RootCertificate) bool {
		return rc != nil && rc.NotBefore.AsTime().Before(now) && rc.NotAfter.AsTime().After(now)
	}
	var authRoots []string
	for step, op := range dc.Ops {
		desc := fmt.Sprintf("%s/%s step %d", dc.World, dc.Ops, step)
		switch op {
		case 'A':
			if authorized {
				continue
			}
			req, err := n.FetchRequest()
			if err != nil {
				r.Broken(err.Error())
				return
			}
			if _, err := registration.AuthorizeNode(s.Ctx, s.Store, req, s.Opts()...); err != nil {
				r.Violation("authorize-failed", "operator authorization of a pending node failed: "+err.Error(), dc)
				return
			}
			authorized = true
			cur, next := setOf()
			authRoots = []string{string(cur.PublicKeyPkix), string(next.PublicKeyPkix)}
		case 'R':
			if _, err := rotation.RotateRootCertificates(s.Ctx, s.Store, s.Opts()...); err != nil {
				r.Violation("rotation-failed", "root rotation failed: "+err.Error(), dc)
				return
			}
			r.Count("history_rotations", 1)
		case 'D':
			for rep := 0; rep < 1+dc.DialReps; rep++ {
				r.Eval(fmt.Sprintf("%s rep %d extras %d", desc, rep, dc.NExtras), true)
				var dopts []nodeenrollment.Option
				if dc.NExtras > 0 {
					st, _ := structpb.NewStruct(map[string]any{"history": dc.Ops, "padding": strings.Repeat("x", 40*dc.NExtras)})
					ex := []string{"ex-a", "ex-b", "ex-c", "ex-d"}[:dc.NExtras]
					dopts = append(dopts, nodeenrollment.WithState(st), nodeenrollment.WithExtraAlpnProtos(ex))
					r.Count("history_dials_with_state_and_extras", 1)
				}
				conn, derr := protocol.Dial(s.Ctx, n.Store, lw.Addr, n.NodeOpts(dopts...)...)
				stored, serr := n.Stored()
				if serr != nil {
					r.Violation("node-credentials-unloadable", "node credentials cannot be loaded after a dial: "+serr.Error(), dc)
					return
				}
				if string(stored.CertificatePublicKeyPkix) != string(origPkix) {
					r.Violation("node-key-changed", "the node's certificate key changed across dials", dc)
				}
				switch {
				case !authorized && !enrolled:
					if conn != nil {
						conn.Close()
					}
					if derr == nil || !errors.Is(derr, nodeenrollment.ErrNotAuthorized) {
						r.Violation("pending-node-wrong-result", fmt.Sprintf("dial of a not yet authorized node returned %v instead of the not-authorized error", derr), dc)
					} else {
						r.Count("pending_dials_report_not_authorized", 1)
					}
					if len(stored.CertificateBundles) != 0 {
						r.Violation("pending-node-stored-certificates", "a not yet authorized node stored certificate bundles", dc)
					}
					if ids := s.NodeIDs(); len(ids) != 0 {
						r.Violation("pending-node-registered", "a node record exists although nobody authorized the node", dc)
					}
				default:
					// precondition of the positive claim: a chain under a root the server still has, valid now
					roots := heldRoots
					if !enrolled {
						roots = authRoots
					}
					cur, next := setOf()
					pre := false
					for _, rk := range roots {
						if (cur != nil && rk == string(cur.PublicKeyPkix) && validRoot(cur)) || (next != nil && rk == string(next.PublicKeyPkix) && validRoot(next)) {
							pre = true
						}
					}
					if !pre {
						if conn != nil {
							conn.Close()
						}
						r.Count("dials_without_a_still_recognised_chain(not asserted)", 1)
						if derr == nil {
							enrolled = true
						}
						continue
					}
					if derr != nil {
						r.Violation("authorized-dial-failed", fmt.Sprintf("dial failed although the node is authorized and holds a chain under a root the server recognises (enrolled before=%v): %v", enrolled, derr), dc)
						return
					}
					rec, werr := lw.Wait(conn.LocalAddr().String())
					if werr != nil {
						conn.Close()
						r.Inconclusive("watchdog waiting for the server side in a history")
						return
					}
					if !rec.Authenticated() {
						r.Violation("authorized-dial-not-authenticated", fmt.Sprintf("server did not authenticate an authorized node (accept error %v)", rec.AcceptErr), dc)
					} else {
						r.Count("history_dials_authenticated", 1)
						if !enrolled {
							r.Count("pending_then_authorized_then_connected", 1)
						}
					}
					if rec.Returned && rec.Conn != nil {
						rec.Conn.Close()
					}
					conn.Close()
					if !enrolled {
						enrolled = true
						heldRoots = authRoots
						n.Creds, _ = n.Stored()
					}
				}
			}
		}
	}
	_ = filepath.Join
	_ = os.Remove
}

func genHistories(maxLen int) []string {
	var out []string
	var rec func(cur string)
	rec = func(cur string) {
		if strings.Contains(cur, "D") {
			out = append(out, cur)
		}
		if len(cur) == maxLen {
			return
		}
		for _, ch := range "ADR" {
			rec(cur + string(ch))
		}
	}
	rec("")
	return out
}

func runDialAdv(c *engine.Ctx) engine.Result {
	r := c.R
	res := engine.Result{
		Rule:        "case = one protocol.Dial (a) against a scripted rogue TLS server (9 constructions x node storage wrapper x repetitions), (b) against a real listener in every honest configuration {node storage wrapper, extra ALPN, client state, tcp/unix} x world {normal, both roots valid}, or (c) one D step of every history over {authorize, dial, rotate} up to length 5 (quick) / 6 (thorough) in both worlds; non-trivial = Dial was executed and its result judged; distinct by descriptor. Oracle: completes => presented root is in the node's bundles, valid, leaf carries this connection's nonce, EKU client/server; honest precondition => connects and is authenticated; pending node => ErrNotAuthorized, nothing stored, same key afterwards.",
		Assumptions: []string{"rogue constructions that need a root's private key model the holder of that root", "the positive claim is asserted only when the node holds a chain under a root the server still recognises and that is valid now"},
	}
	if c.Replay != nil {
		var dc dialCase
		if err := json.Unmarshal(c.Replay, &dc); err != nil {
			r.Broken("bad replay")
			return res
		}
		switch dc.Kind {
		case "rogue":
			runRogue(c, dc)
		case "rogue-after-fetch":
			runRogueAfterFetch(c, dc)
		case "honest":
			runHonest(c, dc)
		default:
			runHistory(c, dc)
		}
		return res
	}
	var cases []dialCase
	reps := c.Pick(3, 60)
	for rep := 0; rep < reps; rep++ {
		for _, k := range rogueKinds {
			for _, nw := range []bool{false, true} {
				for _, wk := range []string{"normal", "both"} {
					if k == "not-yet-valid-root-in-bundle" && wk == "both" {
						continue
					}
					cases = append(cases, dialCase{Kind: "rogue", Rogue: k, NodeWrap: nw, World: wk})
				}
			}
		}
		for _, nw := range []bool{false, true} {
			for _, k := range []string{"self-signed-no-nonce", "self-signed-with-nonce"} {
				cases = append(cases, dialCase{Kind: "rogue-after-fetch", Rogue: k, NodeWrap: nw})
			}
		}
		for _, nw := range []bool{false, true} {
			for _, ex := range []bool{false, true} {
				for _, st := range []bool{false, true} {
					for _, ux := range []bool{false, true} {
						for _, wk := range []string{"normal", "both"} {
							cases = append(cases, dialCase{Kind: "honest", NodeWrap: nw, Extras: ex, State: st, Unix: ux, World: wk})
							if st {
								cases = append(cases, dialCase{Kind: "honest", NodeWrap: nw, Extras: ex, State: true, StateKind: "empty", Unix: ux, World: wk})
								cases = append(cases, dialCase{Kind: "honest", NodeWrap: nw, Extras: ex, State: true, StateKind: "large", Unix: ux, World: wk})
							}
						}
					}
				}
			}
		}
	}
	for _, h := range genHistories(c.Pick(5, 6)) {
		for _, wk := range []string{"normal", "both", "lapsed"} {
			cases = append(cases, dialCase{Kind: "history", Ops: h, World: wk, NodeWrap: len(h)%2 == 0})
		}
		if len(h) <= c.Pick(4, 5) {
			cases = append(cases, dialCase{Kind: "history", Ops: h, World: "normal", ZeroSkews: true})
		}
		// both chains valid: dials that carry client state and 1..3 extra protocols, repeated (the order in
		// which the node tries its chains is not deterministic)
		if strings.Contains(h, "R") && len(h) <= c.Pick(4, 5) {
			for k := 1; k <= 3; k++ {
				cases = append(cases, dialCase{Kind: "history", Ops: h, World: "both", NExtras: k, DialReps: 5})
			}
		}
	}
	r.Sample(cases[0])
	r.Sample(cases[len(cases)-1])
	r.Set("cases", len(cases))
	engine.ForEach(len(cases), engine.Workers(), func(i int) {
		switch cases[i].Kind {
		case "rogue":
			runRogue(c, cases[i])
		case "rogue-after-fetch":
			runRogueAfterFetch(c, cases[i])
		case "honest":
			runHonest(c, cases[i])
		default:
			runHistory(c, cases[i])
		}
	})
	for _, k := range rogueKinds {
		if k != "honest-mint-control" {
			r.Require("rogue_rejected:"+k, 2)
		}
	}
	r.Require("control_accepted", 2)
	r.Require("rogue_rejected:after-fetch:self-signed-no-nonce", 2)
	r.Require("rogue_rejected:after-fetch:self-signed-with-nonce", 2)
	r.Require("clean_dial_after_relayed_fetch", 4)
	r.Require("honest_dials_authenticated", 20)
	r.Require("honest_dials_over_unix_socket", 4)
	r.Require("pending_dials_report_not_authorized", 10)
	r.Require("pending_then_authorized_then_connected", 10)
	r.Require("history_rotations", 10)
	r.Require("history_dials_with_state_and_extras", 50)
	if n := r.Counter("control_REJECTED"); n > 0 {
		r.Inconclusive(fmt.Sprintf("%d control connections (correct certificate minted by the root holder) were rejected: the rogue-server scaffolding is not faithful", n))
	}
	return res
}
