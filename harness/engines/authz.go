package engines

// C01 — node credentials are issued only for authorized enrollment requests.
// Interleaved histories of operator actions and well-signed fetch requests
// assembled from every combination of known/unknown keys, nonces, tokens,
// wrapped and re-wrapped blobs, against the real FetchNodeCredentials; the
// oracle is a shadow of what the harness itself did (who is registered, which
// tokens exist, what it sealed for whom).

import (
	"bytes"
	"context"
	"encoding/json"
	"fmt"
	"math/rand"
	"sort"
	"strings"
	"sync"
	"time"

	wrapping "github.com/hashicorp/go-kms-wrapping/v2"
	"github.com/hashicorp/go-kms-wrapping/v2/aead"
	"github.com/hashicorp/nodeenrollment"
	"github.com/hashicorp/nodeenrollment/registration"
	"github.com/hashicorp/nodeenrollment/rotation"
	"github.com/hashicorp/nodeenrollment/types"
	"github.com/mr-tron/base58"
	"google.golang.org/protobuf/proto"
	"google.golang.org/protobuf/types/known/structpb"
	"google.golang.org/protobuf/types/known/timestamppb"

	"verifharness/engine"
	"verifharness/recstore"
	"verifharness/world"
)

func init() {
	engine.Register(&engine.Spec{Prop: "C01", Engine: "authz", Level: "exploration", Fn: runAuthz})
}

type azCase struct {
	Backend string `json:"backend"`
	Wrap    bool   `json:"storage_wrapper"`
	Steps   int    `json:"steps"`
	Seed    int64  `json:"seed"`
	// Faults: one storage operation of some of the judged fetch calls fails (the only-if oracle
	// must hold whatever storage does: a failed lookup must never count as an authorization)
	Faults bool `json:"single_storage_faults,omitempty"`
	// TokLife: the server passes WithMaximumServerLedActivationTokenLifetime with this non-positive value
	// on every call: every token is past its lifetime the moment it exists ("" = default lifetime)
	TokLife string `json:"maximum_token_lifetime,omitempty"`
}

type azNode struct {
	n      *world.Node
	status string // authorized (record, not fetched) | enrolled | removed
	// answer: the ciphertext of the credentials the server sent this node when it enrolled (it travels in a
	// certificate's common name during the handshake, so anybody on the path has it)
	answer []byte
}

type azToken struct {
	id      string
	str     string
	nonce   []byte // decoded token = marshaled ServerLedActivationTokenNonce
	expired bool
}

type azWorld struct {
	gate      *azGate
	c         *engine.Ctx
	ac        azCase
	s         *world.Server
	rng       *rand.Rand
	nodes     []*azNode
	tokens    []*azToken
	wrapperOn bool
	foreignRW interface{}
	trace     []string
	rec       *recstore.Rec
	optSeq    int
}

func (w *azWorld) log(f string, a ...any) {
	w.trace = append(w.trace, fmt.Sprintf(f, a...))
	if len(w.trace) > 60 {
		w.trace = w.trace[len(w.trace)-60:]
	}
}

func (w *azWorld) callOpts(extra ...nodeenrollment.Option) []nodeenrollment.Option {
	var o []nodeenrollment.Option
	if w.s.SW != nil {
		o = append(o, nodeenrollment.WithStorageWrapper(w.s.SW))
	}
	w.optSeq++
	switch {
	case w.wrapperOn:
		o = append(o, nodeenrollment.WithRegistrationWrapper(w.s.RW))
	case w.optSeq%2 == 0:
		// the wrapper is omitted for this call by overriding the application's base list:
		// a later option replaces an earlier one, also with "none"
		var none wrapping.Wrapper
		if w.optSeq%4 == 0 {
			var typedNil *aead.Wrapper
			none = typedNil
		}
		o = append(o, nodeenrollment.WithRegistrationWrapper(w.s.RW), nodeenrollment.WithRegistrationWrapper(none))
		w.c.R.Count("registration_wrapper_switched_off_by_a_later_option", 1)
	}
	if w.ac.TokLife != "" {
		d, _ := time.ParseDuration(w.ac.TokLife)
		o = append(o, nodeenrollment.WithMaximumServerLedActivationTokenLifetime(d))
	}
	o = append(o, extra...)
	return o[:len(o):len(o)]
}

func (w *azWorld) pick(status ...string) *azNode {
	var c []*azNode
	for _, n := range w.nodes {
		for _, st := range status {
			if n.status == st {
				c = append(c, n)
			}
		}
	}
	if len(c) == 0 {
		return nil
	}
	return c[w.rng.Intn(len(c))]
}

func tokenBytes(tok string) []byte {
	b, _ := base58.FastBase58Decoding(strings.TrimPrefix(tok, nodeenrollment.ServerLedActivationTokenPrefix))
	return b
}

func (w *azWorld) tokenPresent(t *azToken) bool {
	err := w.s.Inner.Load(w.s.Ctx, &types.ServerLedActivationToken{Id: t.id})
	return err == nil
}

// operator performs one random operator action
func (w *azWorld) operator() {
	r := w.c.R
	switch w.rng.Intn(8) {
	case 0, 1: // authorize a new node
		n := world.MustNode(false, "")
		req, _ := n.FetchRequest()
		var st *structpb.Struct
		if w.rng.Intn(2) == 0 {
			st, _ = structpb.NewStruct(map[string]any{"op": "authorize"})
		}
		if _, err := registration.AuthorizeNode(w.s.Ctx, w.s.Store, req, w.callOpts(nodeenrollment.WithState(st))...); err != nil {
			r.Broken("operator authorize: " + err.Error())
			return
		}
		w.nodes = append(w.nodes, &azNode{n: n, status: "authorized"})
		w.log("authorize %s", n.K.KeyID)
	case 2: // create a token (fresh or aged beyond the default lifetime)
		var st *structpb.Struct
		if w.rng.Intn(2) == 0 {
			st, _ = structpb.NewStruct(map[string]any{"op": "token"})
		}
		id, tok, err := registration.CreateServerLedActivationToken(w.s.Ctx, w.s.Store, &types.ServerLedRegistrationRequest{}, w.callOpts(nodeenrollment.WithState(st))...)
		if err != nil {
			r.Broken("operator token: " + err.Error())
			return
		}
		t := &azToken{id: id, str: tok, nonce: tokenBytes(tok)}
		if w.ac.TokLife != "" {
			t.expired = true
			r.Count("token_under_non_positive_maximum_lifetime:"+w.ac.TokLife, 1)
		} else if w.rng.Intn(3) == 0 {
			// the server created it 15 days ago (default lifetime 14 days)
			rec, err := types.LoadServerLedActivationToken(w.s.Ctx, w.s.Inner, id, w.s.StoreOpts()...)
			if err != nil {
				r.Broken("load token: " + err.Error())
				return
			}
			// past the default lifetime of 14 days by a lot, a little (inside
			// the default clock skews, which have no say here) or a day
			over := []time.Duration{24 * time.Hour, time.Minute, 4 * time.Minute, 386 * 24 * time.Hour}[w.rng.Intn(4)]
			rec.CreationTime = timestamppb.New(time.Now().Add(-14*24*time.Hour - over))
			r.Count("token_aged_past_lifetime_by:"+over.String(), 1)
			if err := rec.Store(w.s.Ctx, w.s.Inner, w.s.StoreOpts()...); err != nil {
				r.Broken("age token: " + err.Error())
				return
			}
			t.expired = true
		}
		w.tokens = append(w.tokens, t)
		w.log("token %s expired=%v", id, t.expired)
	case 3: // remove a node
		if n := w.pick("authorized", "enrolled"); n != nil {
			_ = w.s.RemoveNode(n.n.K.KeyID)
			n.status = "removed"
			w.log("remove %s", n.n.K.KeyID)
		}
	case 4: // toggle the registration wrapper
		w.wrapperOn = !w.wrapperOn
		w.log("wrapper on=%v", w.wrapperOn)
	case 5: // an authorized node completes its enrollment
		if n := w.pick("authorized"); n != nil {
			req, _ := n.n.FetchRequest()
			resp, err := registration.FetchNodeCredentials(w.s.Ctx, w.s.Store, req, w.callOpts()...)
			if err == nil && resp != nil && len(resp.EncryptedNodeCredentials) > 0 {
				if _, err := n.n.Handle(resp); err == nil {
					n.status = "enrolled"
					n.answer = append([]byte{}, resp.EncryptedNodeCredentials...)
					r.Count("honest_enrollments:authorize", 1)
					w.log("enrolled %s", n.n.K.KeyID)
				}
			}
		}
	case 6: // a node rotates its credentials
		if old := w.pick("enrolled"); old != nil {
			nn := world.MustNode(false, "")
			freq, _ := nn.FetchRequest()
			payload, err := nodeenrollment.EncryptMessage(w.s.Ctx, freq, old.n.Creds)
			if err != nil {
				return
			}
			resp, err := rotation.RotateNodeCredentials(w.s.Ctx, w.s.Store, &types.RotateNodeCredentialsRequest{CertificatePublicKeyPkix: old.n.K.Pkix, EncryptedFetchNodeCredentialsRequest: payload}, w.callOpts()...)
			if err != nil || resp == nil {
				return
			}
			fr := new(types.FetchNodeCredentialsResponse)
			if nodeenrollment.DecryptMessage(w.s.Ctx, resp.EncryptedFetchNodeCredentialsResponse, old.n.Creds, fr) == nil {
				if _, err := nn.Handle(fr); err == nil {
					w.nodes = append(w.nodes, &azNode{n: nn, status: "enrolled"})
					r.Count("honest_enrollments:rotation", 1)
					w.log("rotated %s -> %s", old.n.K.KeyID, nn.K.KeyID)
				}
			}
		}
	case 7: // an honest token enrollment
		for _, t := range w.tokens {
			if !t.expired && w.tokenPresent(t) {
				n := world.MustNode(false, t.str)
				req, _ := n.FetchRequest()
				resp, err := registration.FetchNodeCredentials(w.s.Ctx, w.s.Store, req, w.callOpts()...)
				if err == nil && resp != nil && len(resp.EncryptedNodeCredentials) > 0 {
					if _, err := n.Handle(resp); err == nil {
						w.nodes = append(w.nodes, &azNode{n: n, status: "enrolled", answer: append([]byte{}, resp.EncryptedNodeCredentials...)})
						r.Count("honest_enrollments:token", 1)
						w.log("token-enrolled %s", n.K.KeyID)
					}
				}
				break
			}
		}
	}
}

var azNonceKinds = []string{"own", "own", "own", "other-node", "fresh32", "token-unused", "token-used", "token-expired", "token-never-issued", "garbage", "token-from-storage-id"}
var azWrappedKinds = []string{"none", "none", "none", "match", "other-nonce", "other-key", "foreign-wrapper", "garbage", "storage-wrapper"}
var azRewrappedKinds = []string{"none", "none", "none", "none", "match", "mismatch-nonce", "mismatch-key", "by-removed", "wrong-keyid", "garbage", "reflected-server-answer"}

type azFetch struct {
	Cert      string `json:"cert_key"` // authorized | enrolled | removed | fresh
	Enc       string `json:"enc_key"`  // own | fresh
	Nonce     string `json:"nonce"`
	Wrapped   string `json:"wrapped"`
	Rewrapped string `json:"rewrapped"`
	WrapperOn bool   `json:"registration_wrapper_configured"`
	FlowInfo  string `json:"unsealed_flow_info_in_bundle,omitempty"` // the bundle's own (unsealed) wrapping_registration_flow_info field set by the requester: empty | matching | other
	BundleID  string `json:"id_field_in_bundle,omitempty"`           // the bundle's id field (the server derives it; honest nodes leave it empty): own | other-node | arbitrary
	PrevKey   string `json:"previous_key_in_bundle,omitempty"`       // the bundle's previous_certificate_public_key_pkix set by the requester: other-node | random
}

// fetch assembles one well-signed request, predicts and judges
func (w *azWorld) fetch(step int) {
	r := w.c.R
	f := azFetch{WrapperOn: w.wrapperOn}
	// --- certificate key ---------------------------------------------------
	var keys *world.Keys
	var ownEnc, ownNonce []byte
	var id *azNode
	switch w.rng.Intn(5) {
	case 0:
		id = w.pick("authorized")
	case 1:
		id = w.pick("enrolled")
	case 2:
		id = w.pick("removed")
	case 3:
		id = w.pick("authorized", "enrolled")
	}
	if id != nil {
		keys, ownEnc, ownNonce, f.Cert = id.n.K, id.n.Enc.Pub, id.n.Nonce, id.status
	} else {
		keys, f.Cert = world.NewKeys(), "fresh"
		e := world.NewX25519()
		ownEnc, ownNonce = e.Pub, world.RandBytes(32)
	}
	// --- encryption key -----------------------------------------------------
	enc := ownEnc
	f.Enc = "own"
	if w.rng.Intn(4) == 0 {
		enc, f.Enc = world.NewX25519().Pub, "fresh"
	}
	// --- nonce ----------------------------------------------------------------
	f.Nonce = azNonceKinds[w.rng.Intn(len(azNonceKinds))]
	nonce := ownNonce
	var tok *azToken
	switch f.Nonce {
	case "own":
	case "other-node":
		if o := w.pick("authorized", "enrolled"); o != nil && o != id {
			nonce = o.n.Nonce
		} else {
			f.Nonce, nonce = "fresh32", world.RandBytes(32)
		}
	case "fresh32":
		nonce = world.RandBytes(32)
	case "token-unused", "token-used", "token-expired":
		for _, t := range w.tokens {
			present := w.tokenPresent(t)
			if (f.Nonce == "token-unused" && present && !t.expired) || (f.Nonce == "token-used" && !present) || (f.Nonce == "token-expired" && present && t.expired) {
				tok = t
			}
		}
		if tok == nil {
			f.Nonce = "token-never-issued"
			nonce, _ = proto.Marshal(&types.ServerLedActivationTokenNonce{Nonce: world.RandBytes(32), HmacKeyBytes: world.RandBytes(32)})
		} else {
			nonce = tok.nonce
		}
	case "token-never-issued":
		nonce, _ = proto.Marshal(&types.ServerLedActivationTokenNonce{Nonce: world.RandBytes(32), HmacKeyBytes: world.RandBytes(32)})
	case "token-from-storage-id":
		// what someone who can list the server's storage knows about an outstanding token - its storage ID -
		// dressed up as a token: the decoded ID (or its first half, the nonce) with a key of the presenter's
		// choosing. It is not a token created by this server.
		var src *azToken
		for _, t := range w.tokens {
			if w.tokenPresent(t) && !t.expired {
				src = t
			}
		}
		raw, ok := []byte(nil), false
		if src != nil {
			raw, ok = tokensBase58Decode(src.id)
		}
		if !ok || len(raw) < 32 {
			f.Nonce = "token-never-issued"
			nonce, _ = proto.Marshal(&types.ServerLedActivationTokenNonce{Nonce: world.RandBytes(32), HmacKeyBytes: world.RandBytes(32)})
			break
		}
		tn := &types.ServerLedActivationTokenNonce{Nonce: raw, HmacKeyBytes: world.RandBytes(32)}
		switch w.rng.Intn(4) {
		case 0:
			tn.Nonce = raw[:32]
		case 1:
			tn.HmacKeyBytes = raw[32:]
		case 2:
			tn.Nonce, tn.HmacKeyBytes = raw[:32], raw[32:]
		}
		nonce, _ = proto.Marshal(tn)
	case "garbage":
		nonce = world.RandBytes([]int{1, 16, 31, 33, 48}[w.rng.Intn(5)])
	}
	info := world.BaseInfo(keys, enc, nonce)
	// --- wrapped registration info ----------------------------------------------
	f.Wrapped = azWrappedKinds[w.rng.Intn(len(azWrappedKinds))]
	wrappedMatches := false
	switch f.Wrapped {
	case "match":
		info.WrappedRegistrationInfo = world.SealRegInfo(w.s.RW, &types.WrappingRegistrationFlowInfo{CertificatePublicKeyPkix: keys.Pkix, Nonce: nonce})
		wrappedMatches = true
	case "other-nonce":
		info.WrappedRegistrationInfo = world.SealRegInfo(w.s.RW, &types.WrappingRegistrationFlowInfo{CertificatePublicKeyPkix: keys.Pkix, Nonce: world.RandBytes(32)})
	case "other-key":
		info.WrappedRegistrationInfo = world.SealRegInfo(w.s.RW, &types.WrappingRegistrationFlowInfo{CertificatePublicKeyPkix: world.NewKeys().Pkix, Nonce: nonce})
	case "foreign-wrapper":
		info.WrappedRegistrationInfo = world.SealRegInfo(world.NewAead("foreign"), &types.WrappingRegistrationFlowInfo{CertificatePublicKeyPkix: keys.Pkix, Nonce: nonce})
	case "garbage":
		info.WrappedRegistrationInfo = world.RandBytes(40)
	case "storage-wrapper":
		// matching info sealed with the key the server uses for its storage: that key is not the registration
		// wrapper, whether or not one is configured
		if w.s.SW != nil {
			info.WrappedRegistrationInfo = world.SealRegInfo(w.s.SW, &types.WrappingRegistrationFlowInfo{CertificatePublicKeyPkix: keys.Pkix, Nonce: nonce})
		} else {
			f.Wrapped = "foreign-wrapper"
			info.WrappedRegistrationInfo = world.SealRegInfo(world.NewAead("foreign"), &types.WrappingRegistrationFlowInfo{CertificatePublicKeyPkix: keys.Pkix, Nonce: nonce})
		}
	}
	// --- the bundle's unsealed flow-info field (normally filled in by the server after unsealing) ---------
	switch w.rng.Intn(6) {
	case 0:
		f.FlowInfo = "empty"
		info.WrappingRegistrationFlowInfo = &types.WrappingRegistrationFlowInfo{}
	case 1:
		f.FlowInfo = "matching"
		info.WrappingRegistrationFlowInfo = &types.WrappingRegistrationFlowInfo{CertificatePublicKeyPkix: keys.Pkix, Nonce: nonce}
	case 2:
		f.FlowInfo = "other"
		info.WrappingRegistrationFlowInfo = &types.WrappingRegistrationFlowInfo{CertificatePublicKeyPkix: world.NewKeys().Pkix, Nonce: world.RandBytes(32)}
	}
	// --- fields of the bundle the server is meant to fill in or derive itself ---------------------------
	switch w.rng.Intn(8) {
	case 0:
		f.BundleID, info.Id = "own", keys.KeyID
	case 1:
		if o := w.pick("enrolled", "authorized"); o != nil && o != id {
			f.BundleID, info.Id = "other-node", o.n.K.KeyID
		} else {
			f.BundleID, info.Id = "arbitrary", fmt.Sprintf("not-a-key-id-%x", world.RandBytes(4))
		}
	case 2:
		f.BundleID, info.Id = "arbitrary", fmt.Sprintf("not-a-key-id-%x", world.RandBytes(4))
	}
	switch w.rng.Intn(8) {
	case 0:
		if o := w.pick("enrolled", "authorized"); o != nil && o != id {
			f.PrevKey, info.PreviousCertificatePublicKeyPkix = "other-node", o.n.K.Pkix
		}
	case 1:
		f.PrevKey, info.PreviousCertificatePublicKeyPkix = "random", world.NewKeys().Pkix
	}
	req := world.Sign(info, keys.Priv)
	// --- re-wrapped registration info ---------------------------------------------
	f.Rewrapped = azRewrappedKinds[w.rng.Intn(len(azRewrappedKinds))]
	rewrapMatches := false
	var via *azNode
	seal := func(v *azNode, pkix, n []byte) {
		ct, err := nodeenrollment.EncryptMessage(w.s.Ctx, &types.WrappingRegistrationFlowInfo{CertificatePublicKeyPkix: pkix, Nonce: n}, v.n.Creds)
		if err == nil {
			req.RewrappedWrappingRegistrationFlowInfo = ct
			req.RewrappingKeyId = v.n.K.KeyID
		}
	}
	switch f.Rewrapped {
	case "match", "mismatch-nonce", "mismatch-key", "wrong-keyid":
		via = w.pick("enrolled")
		if via == nil || via == id {
			f.Rewrapped = "none"
			break
		}
		switch f.Rewrapped {
		case "match":
			seal(via, keys.Pkix, nonce)
			rewrapMatches = true
		case "mismatch-nonce":
			seal(via, keys.Pkix, world.RandBytes(32))
		case "mismatch-key":
			seal(via, world.NewKeys().Pkix, nonce)
		case "wrong-keyid":
			seal(via, keys.Pkix, nonce)
			if o := w.pick("enrolled", "authorized"); o != nil && o != via {
				req.RewrappingKeyId = o.n.K.KeyID // sealed by one node, attributed to another
			} else {
				req.RewrappingKeyId = "no-such-key-id"
			}
		}
	case "by-removed":
		// a node that was enrolled and has been removed re-seals
		for _, n := range w.nodes {
			if n.status == "removed" && len(n.n.Creds.ServerEncryptionPublicKeyBytes) > 0 && n != id {
				via = n
			}
		}
		if via == nil {
			f.Rewrapped = "none"
		} else {
			seal(via, keys.Pkix, nonce)
		}
	case "garbage":
		req.RewrappedWrappingRegistrationFlowInfo = world.RandBytes(50)
		if o := w.pick("enrolled"); o != nil {
			req.RewrappingKeyId = o.n.K.KeyID
		}
	case "reflected-server-answer":
		// the server's own answer to this node, sent back as if the node had re-sealed registration info
		// for itself (same shared key, same associated data): it is no registration info
		if id == nil || len(id.answer) == 0 {
			f.Rewrapped = "none"
			break
		}
		req.RewrappedWrappingRegistrationFlowInfo = append([]byte{}, id.answer...)
		req.RewrappingKeyId = id.n.K.KeyID
	}

	// ---- oracle -----------------------------------------------------------------
	rec, _ := w.s.LoadNode(keys.KeyID)
	allowedA := rec != nil && bytes.Equal(rec.RegistrationNonce, nonce) && bytes.Equal(rec.EncryptionPublicKeyBytes, enc) && bytes.Equal(rec.CertificatePublicKeyPkix, keys.Pkix)
	allowedB := tok != nil && f.Nonce == "token-unused"
	allowedC := (wrappedMatches && w.wrapperOn) || (rewrapMatches && via != nil && via.status == "enrolled")
	allowed := allowedA || allowedB || allowedC
	before := map[string]bool{}
	others := map[string]*types.NodeInformation{} // every record but the one of this request's certificate key
	for _, idn := range w.s.NodeIDs() {
		before[idn] = true
		if idn != keys.KeyID {
			if o, _ := w.s.LoadNode(idn); o != nil {
				others[idn] = o
			}
		}
	}

	var resp *types.FetchNodeCredentialsResponse
	var err error
	desc := fmt.Sprintf("%s step %d %s", engine.J(w.ac), step, engine.J(f))
	faultDesc := ""
	if w.rec != nil && w.rng.Intn(2) == 0 {
		k, kind := 1+w.rng.Intn(7), recstore.FaultKinds[w.rng.Intn(len(recstore.FaultKinds))]
		w.rec.Arm(k, kind)
		faultDesc = fmt.Sprintf("%s at storage operation %d", kind, k)
	}
	fw, _ := w.s.SW.(*world.FlakyWrapper)
	if fw != nil && faultDesc == "" && w.rng.Intn(3) == 0 {
		// the key service behind the storage wrapper fails one call: a record that cannot be opened or sealed
		// right now is neither an authorization nor its absence
		if w.rng.Intn(3) == 0 {
			fw.Arm(0, 1+w.rng.Intn(2))
		} else {
			fw.Arm(1+w.rng.Intn(3), 0)
		}
	}
	p, st := engine.Guard(func() { resp, err = registration.FetchNodeCredentials(w.s.Ctx, w.s.Store, req, w.callOpts()...) })
	if fw != nil {
		if n, _, _ := fw.Delivered(); n > 0 {
			r.Count("fetches_judged_with_a_failing_storage_wrapper_call", 1)
			w.log("storage wrapper: one call failed")
		}
		fw.Arm(0, 0)
	}
	if w.rec != nil {
		if faultDesc != "" && w.rec.Fired() {
			r.Count("fetches_judged_with_a_storage_fault", 1)
			w.log("fault: %s", faultDesc)
		}
		w.rec.Arm(0, "")
	}
	if p != nil {
		r.Eval(desc, true)
		r.Violation("panic:"+engine.LibraryFrame(st), fmt.Sprintf("FetchNodeCredentials panicked: %v", p), w.witness(f))
		return
	}
	r.Eval(engine.J(f), true)
	got := err == nil && resp != nil && len(resp.EncryptedNodeCredentials) > 0
	if err != nil && resp != nil {
		r.Violation("error-with-response", "FetchNodeCredentials returned an error together with a response", w.witness(f))
	}
	var newIDs []string
	for _, idn := range w.s.NodeIDs() {
		if !before[idn] {
			newIDs = append(newIDs, idn)
		}
	}
	sort.Strings(newIDs)
	w.log("fetch %s -> creds=%v err=%v", engine.J(f), got, err != nil)
	// whatever the verdict on the request: a record it creates is the record of its certificate key (that is
	// what "a node record for its certificate key" means to every later request and to the operator who
	// removes a node by its key ID), and the records of other keys are not its business
	for _, idn := range newIDs {
		if idn != keys.KeyID {
			r.Violation("record-under-foreign-id:id-field="+orDefault(f.BundleID, "none")+",nonce="+f.Nonce+",wrapped="+f.Wrapped+",rewrapped="+f.Rewrapped, fmt.Sprintf("the request created a node record under ID %q, which is not the key ID %q of its certificate key", idn, keys.KeyID), w.witness(f))
		}
	}
	for idn, o := range others {
		if now, _ := w.s.LoadNode(idn); now == nil || !proto.Equal(o, now) {
			r.Violation("other-record-changed:id-field="+orDefault(f.BundleID, "none")+",nonce="+f.Nonce+",wrapped="+f.Wrapped+",rewrapped="+f.Rewrapped, fmt.Sprintf("the request (certificate key ID %q) changed or removed the stored record %q of another key (credentials issued=%v)", keys.KeyID, idn, got), w.witness(f))
		}
	}
	if f.BundleID != "" {
		r.Count("requests_with_id_field_set:"+f.BundleID, 1)
		if got {
			r.Count("requests_with_id_field_set:credentials_issued", 1)
		}
	}
	if f.PrevKey != "" {
		r.Count("requests_with_previous_key_set:"+f.PrevKey, 1)
	}
	switch {
	case got && !allowed:
		key := fmt.Sprintf("unauthorized-credentials:cert=%s,enc=%s,nonce=%s,wrapped=%s,rewrapped=%s,wrapper-configured=%v,unsealed-flow-info=%s", f.Cert, f.Enc, f.Nonce, f.Wrapped, f.Rewrapped, f.WrapperOn, orDefault(f.FlowInfo, "none"))
		r.Violation(key, "credentials were issued for a request that none of (a) matching existing record, (b) unused unexpired token, (c) matching sealed registration info authorizes", w.witness(f))
	case !allowed && len(newIDs) > 0:
		r.Violation("refused-request-left-a-record:nonce="+f.Nonce+",wrapped="+f.Wrapped+",rewrapped="+f.Rewrapped, fmt.Sprintf("a request that is not authorized left new node record(s) %v in storage", newIDs), w.witness(f))
	case got:
		switch {
		case allowedA:
			r.Count("issued_under:(a) existing matching record", 1)
		case allowedB:
			r.Count("issued_under:(b) unused unexpired token", 1)
		default:
			r.Count("issued_under:(c) sealed registration info", 1)
		}
		// the world changed: a new record may exist for this key
		if id == nil || id.status == "removed" {
			if rec2, _ := w.s.LoadNode(keys.KeyID); rec2 != nil && id == nil {
				// adopt the new identity into the cast (the harness holds its keys)
				nn := &world.Node{Ctx: w.s.Ctx, K: keys, Nonce: nonce, Enc: &world.X25519Pair{Pub: enc}}
				_ = nn
			}
		}
	default:
		r.Count("refused", 1)
		if allowed {
			r.Count("refused_although_allowed(only-if, not asserted)", 1)
		}
		r.Count("refused:nonce="+f.Nonce, 1)
		if f.Wrapped != "none" {
			r.Count("refused:wrapped="+f.Wrapped, 1)
		}
		if f.Rewrapped != "none" {
			r.Count("refused:rewrapped="+f.Rewrapped, 1)
		}
		if f.FlowInfo != "" {
			r.Count("refused:unsealed-flow-info="+f.FlowInfo, 1)
		}
	}
}

func (w *azWorld) witness(f azFetch) map[string]any {
	return map[string]any{"history": w.ac, "fetch": f, "trace_tail": append([]string{}, w.trace...)}
}

// azGate sits on top of the server storage. Armed, it parks the first load of a node record until released, so
// that a second call can be made while the first is provably in the middle of its work.
type azGate struct {
	nodeenrollment.Storage
	mu      sync.Mutex
	armed   bool
	seen    int
	arrived chan struct{}
	release chan struct{}
}

func (g *azGate) arm() {
	g.mu.Lock()
	g.armed, g.seen, g.arrived, g.release = true, 0, make(chan struct{}), make(chan struct{})
	g.mu.Unlock()
}

func (g *azGate) Load(ctx context.Context, m nodeenrollment.MessageWithId) error {
	if _, ok := m.(*types.NodeInformation); ok {
		g.mu.Lock()
		park := g.armed && g.seen == 0
		if g.armed {
			g.seen++
		}
		arrived, release := g.arrived, g.release
		g.mu.Unlock()
		if park {
			close(arrived)
			select {
			case <-release:
			case <-time.After(15 * time.Second):
			}
		}
	}
	return g.Storage.Load(ctx, m)
}

// concurrentPair: an authorized node's own fetch is in the middle of its work (parked on its first record load)
// when a second, well-signed request for the same certificate key arrives with another encryption key or another
// nonce. Each request is judged on its own: the altered one gets no credentials, whatever the first one is doing.
func (w *azWorld) concurrentPair(step int) {
	r := w.c.R
	id := w.pick("authorized")
	if id == nil || w.gate == nil {
		return
	}
	honest := world.Sign(world.BaseInfo(id.n.K, id.n.Enc.Pub, id.n.Nonce), id.n.K.Priv)
	what := []string{"encryption-key", "nonce", "both"}[w.rng.Intn(3)]
	enc, nonce := id.n.Enc.Pub, id.n.Nonce
	if what != "nonce" {
		enc = world.NewX25519().Pub
	}
	if what != "encryption-key" {
		nonce = world.RandBytes(32)
	}
	altered := world.Sign(world.BaseInfo(id.n.K, enc, nonce), id.n.K.Priv)
	type res struct {
		resp *types.FetchNodeCredentialsResponse
		err  error
		p    any
		st   string
	}
	run := func(req *types.FetchNodeCredentialsRequest, out chan res) {
		var x res
		x.p, x.st = engine.Guard(func() { x.resp, x.err = registration.FetchNodeCredentials(w.s.Ctx, w.s.Store, req, w.callOpts()...) })
		out <- x
	}
	w.gate.arm()
	hc, ac := make(chan res, 1), make(chan res, 1)
	go run(honest, hc)
	select {
	case <-w.gate.arrived:
	case h := <-hc:
		// the honest fetch never loaded a node record (refused earlier): nothing to learn here
		w.gate.mu.Lock()
		w.gate.armed = false
		w.gate.mu.Unlock()
		_ = h
		r.Count("concurrent_pairs_without_a_parked_fetch", 1)
		return
	case <-time.After(10 * time.Second):
		r.Inconclusive("authz: the honest fetch of a concurrent pair neither parked nor returned")
		return
	}
	go run(altered, ac)
	var a res
	gotA := false
	select {
	case a = <-ac:
		gotA = true
	case <-time.After(300 * time.Millisecond):
	}
	close(w.gate.release)
	w.gate.mu.Lock()
	w.gate.armed = false
	w.gate.mu.Unlock()
	if !gotA {
		select {
		case a = <-ac:
		case <-time.After(20 * time.Second):
			r.Inconclusive("authz: the altered fetch of a concurrent pair did not return")
			return
		}
		r.Count("concurrent_pairs_where_the_second_fetch_waited_for_the_first", 1)
	}
	h := <-hc
	desc := fmt.Sprintf("%s step %d concurrent pair altered=%s", engine.J(w.ac), step, what)
	r.Eval(desc, true)
	r.Count("concurrent_pairs_judged", 1)
	wit := map[string]any{"history": w.ac, "altered": what, "trace_tail": append([]string{}, w.trace...)}
	switch {
	case a.p != nil:
		r.Violation("panic:"+engine.LibraryFrame(a.st), fmt.Sprintf("FetchNodeCredentials panicked: %v", a.p), wit)
	case a.err == nil && a.resp != nil && len(a.resp.EncryptedNodeCredentials) > 0:
		r.Violation("unauthorized-credentials:altered-request-while-the-authorized-fetch-of-the-same-key-is-running,altered="+what, "a well-signed request whose "+what+" differs from the authorization was answered with credentials because the authorized node's own fetch was in progress at that moment", wit)
	default:
		r.Count("concurrent_pairs:altered_request_refused", 1)
	}
	if h.p == nil && h.err == nil && h.resp != nil && len(h.resp.EncryptedNodeCredentials) > 0 {
		r.Count("concurrent_pairs:honest_request_answered", 1)
	}
	w.log("concurrent pair (altered %s)", what)
}

func runAzCase(c *engine.Ctx, ac azCase) {
	var rec *recstore.Rec
	// the storage wrapper (where there is one) sits behind a key service that can be made to fail single calls
	cfg := world.ServerCfg{Backend: ac.Backend, StorageWrap: ac.Wrap, StorageWrapKind: world.WrapFlaky, RegWrap: true}
	if ac.Faults {
		cfg.Wrap = func(in nodeenrollment.Storage) nodeenrollment.Storage {
			rec = recstore.New(in)
			return rec.Wrap()
		}
	}
	var gate *azGate
	inner := cfg.Wrap
	cfg.Wrap = func(in nodeenrollment.Storage) nodeenrollment.Storage {
		if inner != nil {
			in = inner(in)
		}
		gate = &azGate{Storage: in}
		return gate
	}
	s, err := world.NewServer(cfg)
	if err != nil {
		c.R.Broken(err.Error())
		return
	}
	defer s.Close()
	w := &azWorld{c: c, ac: ac, s: s, rng: rand.New(rand.NewSource(ac.Seed)), wrapperOn: true, rec: rec, gate: gate}
	// seed the cast
	for i := 0; i < 3; i++ {
		w.operator()
	}
	for step := 0; step < ac.Steps; step++ {
		switch x := w.rng.Intn(20); {
		case x < 8:
			w.operator()
		case x == 8:
			w.concurrentPair(step)
		default:
			w.fetch(step)
		}
		if c.R.NumViolations() > 20 {
			return
		}
	}
}

func runAuthz(c *engine.Ctx) engine.Result {
	r := c.R
	res := engine.Result{
		Rule:        "case = one well-signed, fresh fetch request inside a random history of operator actions (authorize, create fresh/aged token, remove node, toggle registration wrapper, honest enrollment / rotation / token enrollment): product of certificate key {authorized, enrolled, removed, fresh} x encryption key {own, fresh} x nonce {own, another node's, fresh 32 B, unused / used / expired / never-issued token, garbage} x wrapped info {none, matching, other nonce, other key, foreign wrapper, garbage} x re-wrapped info {none, matching, mismatching nonce / key, by removed node, wrong key ID, garbage} x wrapper configured y/n; non-trivial = the request passed signature and freshness validation (all do); distinct by the fetch descriptor. Oracle (only-if): credentials => (a) or (b) or (c); not authorized => no new node record ID.",
		Assumptions: []string{"only the only-if direction is enforced (completeness is C04)", "token expiry uses ages of 0 or 15 d against the 14 d default, so wall-clock drift cannot change the expectation", "the harness holds every private key, including those of registered and removed nodes"},
	}
	if c.Replay != nil {
		var wr struct {
			History azCase `json:"history"`
		}
		if err := json.Unmarshal(c.Replay, &wr); err != nil || wr.History.Steps == 0 {
			r.Broken("bad replay")
			return res
		}
		runAzCase(c, wr.History)
		return res
	}
	rng := c.Rng("authz")
	n := c.Pick(1000, 6000)
	steps := c.Pick(30, 45)
	var cases []azCase
	for i := 0; i < n; i++ {
		be := world.Inmem
		if !c.Quick() || i%8 == 0 {
			be = []string{world.Inmem, world.File, world.StoreOnce}[i%3]
		}
		cases = append(cases, azCase{Backend: be, Wrap: i%4 == 1, Steps: steps, Seed: rng.Int63(), Faults: i%3 == 2, TokLife: []string{"", "", "", "", "", "0s", "-1h"}[i%7]})
	}
	r.Sample(cases[0])
	r.Sample(azFetch{Cert: "removed", Enc: "own", Nonce: "own", Wrapped: "none", Rewrapped: "match", WrapperOn: true})
	engine.ForEach(len(cases), engine.Workers(), func(i int) { runAzCase(c, cases[i]) })
	r.Require("issued_under:(a) existing matching record", 20)
	r.Require("issued_under:(b) unused unexpired token", 10)
	r.Require("fetches_judged_with_a_storage_fault", 50)
	r.Require("concurrent_pairs:altered_request_refused", 30)
	r.Require("fetches_judged_with_a_failing_storage_wrapper_call", 20)
	r.Require("issued_under:(c) sealed registration info", 20)
	r.Require("refused", 500)
	for _, k := range []string{"other-node", "fresh32", "token-used", "token-expired", "token-never-issued", "garbage"} {
		r.Require("refused:nonce="+k, 5)
	}
	for _, k := range []string{"other-nonce", "other-key", "foreign-wrapper", "garbage"} {
		r.Require("refused:wrapped="+k, 5)
	}
	for _, k := range []string{"mismatch-nonce", "mismatch-key", "by-removed", "wrong-keyid", "garbage"} {
		r.Require("refused:rewrapped="+k, 3)
	}
	for _, k := range []string{"empty", "matching", "other"} {
		r.Require("refused:unsealed-flow-info="+k, 20)
	}
	return res
}
