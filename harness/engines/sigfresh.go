package engines

// C03 — enrollment requests are processed only if authentically signed and fresh.
//
// Real code: registration.AuthorizeNode and registration.FetchNodeCredentials
// (both run validateFetchRequestCommon first) on a server world whose storage
// is wrapped by a recording storage, and types.NodeCredentials.
// CreateFetchNodeCredentialsRequest on the node side.
//
// Four phases:
//   control  the unmutated library-created request (and the same request
//            re-marshalled and re-signed by the harness) must be processed
//   mutation every single-bit flip / truncation of bundle and signature,
//            extensions, random splices, required fields removed and re-signed:
//            must be refused with an error, a nil response and not a single
//            storage operation
//   window   well-signed bundles with NotBefore = now+a, NotAfter = now+b under
//            skew configurations (nb, na): processed <=> a+nb <= 0 and b+na >= 0
//            (only points at least one minute away from both boundaries)
//   created  library-created requests: NotBefore inside the bracket of two clock
//            readings around the creation (±2 s), NotAfter-NotBefore == 24 h

import (
	"bytes"
	"context"
	"crypto/ecdsa"
	"crypto/ed25519"
	"crypto/elliptic"
	"crypto/rand"
	"crypto/tls"
	"crypto/x509"
	"encoding/base64"
	"encoding/hex"
	"encoding/json"
	"errors"
	"fmt"
	mrand "math/rand"
	"net"
	"strings"
	"sync"
	"sync/atomic"
	"time"

	"github.com/hashicorp/nodeenrollment"
	"github.com/hashicorp/nodeenrollment/protocol"
	"github.com/hashicorp/nodeenrollment/registration"
	"github.com/hashicorp/nodeenrollment/rotation"
	"github.com/hashicorp/nodeenrollment/types"
	"google.golang.org/protobuf/proto"
	"google.golang.org/protobuf/types/known/structpb"
	"google.golang.org/protobuf/types/known/timestamppb"

	"verifharness/engine"
	"verifharness/recstore"
	"verifharness/world"
)

// sigfreshExtraFields returns protobuf encodings of single fields of the request bundle (known and
// unknown field numbers)
func sigfreshExtraFields() [][]byte {
	st, _ := structpb.NewStruct(map[string]any{"role": "admin"})
	msgs := []*types.FetchNodeCredentialsInfo{
		{WrappingRegistrationFlowInfo: &types.WrappingRegistrationFlowInfo{}},
		{WrappingRegistrationFlowInfo: &types.WrappingRegistrationFlowInfo{ApplicationSpecificParams: st}},
		{WrappingRegistrationFlowInfo: &types.WrappingRegistrationFlowInfo{Nonce: world.RandBytes(32), CertificatePublicKeyPkix: world.NewKeys().Pkix}},
		{WrappedRegistrationInfo: world.RandBytes(40)},
		{Id: "some-id"},
		{PreviousCertificatePublicKeyPkix: world.NewKeys().Pkix},
		{Nonce: world.RandBytes(32)},
		{EncryptionPublicKeyBytes: world.NewX25519().Pub},
		{NotAfter: timestamppb.New(time.Now().Add(1000 * time.Hour))},
		{NotBefore: timestamppb.New(time.Now().Add(-1000 * time.Hour))},
		{CertificatePublicKeyType: types.KEYTYPE_ED25519},
	}
	var out [][]byte
	for _, m := range msgs {
		if b, err := proto.Marshal(m); err == nil && len(b) > 0 {
			out = append(out, b)
		}
	}
	out = append(out, []byte{0x78, 0x01}, []byte{0xc2, 0x3e, 0x03, 'a', 'b', 'c'}) // unknown fields 15 (varint) and 1000 (bytes)
	return out
}

func init() {
	engine.Register(&engine.Spec{Prop: "C03", Engine: "sigfresh", Level: "exploration", Fn: runSigFresh})
}

// targets: <call under test>/<request flavour>; the server is prepared so that
// the unmutated request WOULD be processed with a visible effect
const (
	sfFetchNodeLed = "fetch/nodeled"     // node already authorized: acceptance = credentials issued
	sfFetchToken   = "fetch/token"       // unused activation token on the server: acceptance = credentials issued, token consumed
	sfFetchWrapped = "fetch/wrapped"     // server holds the registration wrapper: acceptance = node registered and credentials issued
	sfAuthNodeLed  = "authorize/nodeled" // unknown node: acceptance = new node record
	sfAuthWrapped  = "authorize/wrapped" // unknown node, bundle carries wrapped registration info
	sfListener     = "listener/nodeled"  // the request arrives in the ALPN entries of a TLS handshake at an intercepting listener (node already authorized): acceptance = the handshake completes and carries credentials
	sfRotate       = "rotate/nodeled"    // the request travels inside a rotation request of an enrolled node: acceptance = new credentials issued
	sfDocLifetime  = 24 * time.Hour      // documented DefaultFetchCredentialsLifetime
	sfDocNotBefore = -5 * time.Minute    // documented default not-before skew
	sfDocNotAfter  = 5 * time.Minute     // documented default not-after skew
	sfMargin       = time.Minute
	sfCreatedSlack = 2 * time.Second
)

var sfMutationTargets = []string{sfFetchNodeLed, sfFetchToken, sfFetchWrapped, sfAuthNodeLed, sfAuthWrapped}
var sfWindowTargets = []string{sfFetchNodeLed, sfFetchToken, sfFetchWrapped, sfAuthNodeLed, sfRotate, sfListener}

// sfCase describes one executed case. Key material is fresh per run; the
// descriptor says what is done to it. Bundle/Sig are filled in only for
// witnesses (informational, ignored on replay).
type sfCase struct {
	Kind    string `json:"kind"` // control | mutation | resigned | window | created
	Target  string `json:"target"`
	Replica int    `json:"replica,omitempty"`

	// mutation / resigned
	Part  string `json:"part,omitempty"` // bundle | signature
	Mut   string `json:"mut,omitempty"`  // bitflip | truncate | extend | splice | name of the re-signed change
	Index int    `json:"index,omitempty"`
	Len   int    `json:"len,omitempty"`
	Data  string `json:"data,omitempty"` // hex of inserted bytes

	// window (seconds relative to the clock reading taken when the bundle is signed)
	A  int64 `json:"not_before_offset_s,omitempty"`
	B  int64 `json:"not_after_offset_s,omitempty"`
	NB int64 `json:"not_before_skew_s,omitempty"`
	NA int64 `json:"not_after_skew_s,omitempty"`
	// skew option not passed: the documented defaults (-5 min / +5 min) apply
	NBUnset bool `json:"not_before_skew_option_absent,omitempty"`
	NAUnset bool `json:"not_after_skew_option_absent,omitempty"`

	Bundle string `json:"witness_bundle_hex,omitempty"`
	Sig    string `json:"witness_signature_hex,omitempty"`
	KeyHex string `json:"witness_node_public_key_hex,omitempty"`
}

// ---------------------------------------------------------------------------
// worlds

type sfSrv struct {
	s   *world.Server
	rec *recstore.Rec
}

func sfNewSrv(regWrap bool) (*sfSrv, error) {
	out := &sfSrv{}
	s, err := world.NewServer(world.ServerCfg{Backend: world.Inmem, RegWrap: regWrap, Wrap: func(in nodeenrollment.Storage) nodeenrollment.Storage {
		out.rec = recstore.New(in)
		return out.rec.Wrap()
	}})
	if err != nil {
		return nil, err
	}
	out.s = s
	return out, nil
}

func sfNeedsRegWrap(target string) bool { return strings.HasSuffix(target, "/wrapped") }
func sfIsFetch(target string) bool      { return strings.HasPrefix(target, "fetch/") }

// sfWorld is a server plus one node whose library-created request base would
// be processed by the call under test
type sfWorld struct {
	target string
	srv    *sfSrv
	old    *world.Node // rotate: the enrolled node whose credentials carry the request
	n      *world.Node
	base   *types.FetchNodeCredentialsRequest
}

// errSfHonest marks a preparation failure that is itself the refusal of an
// honest, fresh, library-created request
var errSfHonest = errors.New("honest request refused")

func sfPrepare(srv *sfSrv, target string) (*sfWorld, error) {
	w := &sfWorld{target: target, srv: srv}
	s := srv.s
	var err error
	switch target {
	case sfFetchNodeLed, sfAuthNodeLed, sfListener:
		if w.n, err = world.NewNode(false, ""); err != nil {
			return nil, err
		}
		if w.base, err = w.n.FetchRequest(); err != nil {
			return nil, err
		}
		if target == sfFetchNodeLed || target == sfListener {
			var aerr error
			if p, _ := engine.Guard(func() { _, aerr = registration.AuthorizeNode(s.Ctx, s.Store, sfClone(w.base), s.Opts()...) }); p != nil {
				return nil, fmt.Errorf("%w: AuthorizeNode panicked on the unmutated request: %v", errSfHonest, p)
			}
			if aerr != nil {
				return nil, fmt.Errorf("%w: AuthorizeNode on the unmutated request of an unknown node: %v", errSfHonest, aerr)
			}
		}
	case sfRotate:
		er, eerr := world.Enroll(s, world.FlowAuthorize, false, nil, nil, nil)
		if eerr != nil {
			return nil, fmt.Errorf("%w: enrolling the node that will rotate: %v", errSfHonest, eerr)
		}
		w.old = er.Node
		if w.n, err = world.NewNode(false, ""); err != nil {
			return nil, err
		}
		if w.base, err = w.n.FetchRequest(); err != nil {
			return nil, err
		}
	case sfFetchToken:
		_, tok, terr := registration.CreateServerLedActivationToken(s.Ctx, s.Store, &types.ServerLedRegistrationRequest{}, s.Opts()...)
		if terr != nil {
			return nil, fmt.Errorf("create token: %v", terr)
		}
		if w.n, err = world.NewNode(false, tok); err != nil {
			return nil, err
		}
		if w.base, err = w.n.FetchRequest(); err != nil {
			return nil, err
		}
	case sfFetchWrapped, sfAuthWrapped:
		if s.RW == nil {
			return nil, errors.New("wrapped target on a server without registration wrapper")
		}
		if w.n, err = world.NewNode(false, ""); err != nil {
			return nil, err
		}
		if w.base, err = w.n.FetchRequest(nodeenrollment.WithRegistrationWrapper(s.RW)); err != nil {
			return nil, err
		}
	default:
		return nil, fmt.Errorf("unknown target %q", target)
	}
	if world.DecodeInfo(w.base) == nil {
		return nil, errors.New("library-created bundle does not decode")
	}
	return w, nil
}

func sfNewWorld(target string) (*sfWorld, error) {
	srv, err := sfNewSrv(sfNeedsRegWrap(target))
	if err != nil {
		return nil, err
	}
	return sfPrepare(srv, target)
}

func sfClone(req *types.FetchNodeCredentialsRequest) *types.FetchNodeCredentialsRequest {
	return &types.FetchNodeCredentialsRequest{
		Bundle:                                append([]byte(nil), req.Bundle...),
		BundleSignature:                       append([]byte(nil), req.BundleSignature...),
		RewrappedWrappingRegistrationFlowInfo: append([]byte(nil), req.RewrappedWrappingRegistrationFlowInfo...),
		RewrappingKeyId:                       req.RewrappingKeyId,
	}
}

type sfOutcome struct {
	err     error
	respNil bool
	issued  bool // fetch: credentials in the response; authorize: a node record returned
	ops     []recstore.Op
	panicV  any
	stack   string
}

func (w *sfWorld) call(req *types.FetchNodeCredentialsRequest, extra ...nodeenrollment.Option) sfOutcome {
	s := w.srv.s
	in := sfClone(req)
	w.srv.rec.Reset()
	var o sfOutcome
	o.panicV, o.stack = engine.Guard(func() {
		if w.target == sfListener {
			w.callThroughListener(in, &o, extra...)
			return
		}
		if w.target == sfRotate {
			ct, eerr := nodeenrollment.EncryptMessage(s.Ctx, in, w.old.Creds)
			if eerr != nil {
				o.err = fmt.Errorf("harness: encrypting the rotation payload: %w", eerr)
				return
			}
			rreq := &types.RotateNodeCredentialsRequest{CertificatePublicKeyPkix: w.old.K.Pkix, EncryptedFetchNodeCredentialsRequest: ct}
			resp, err := rotation.RotateNodeCredentials(s.Ctx, s.Store, rreq, s.Opts(extra...)...)
			o.err, o.respNil = err, resp == nil
			o.issued = err == nil && resp != nil && len(resp.EncryptedFetchNodeCredentialsResponse) > 0
		} else if sfIsFetch(w.target) {
			resp, err := registration.FetchNodeCredentials(s.Ctx, s.Store, in, s.Opts(extra...)...)
			o.err, o.respNil = err, resp == nil
			o.issued = err == nil && resp != nil && len(resp.EncryptedNodeCredentials) > 0
		} else {
			ni, err := registration.AuthorizeNode(s.Ctx, s.Store, in, s.Opts(extra...)...)
			o.err, o.respNil = err, ni == nil
			o.issued = err == nil && ni != nil
		}
	})
	o.ops = w.srv.rec.Ops()
	return o
}

// callThroughListener sends the request the way protocol.Dial does: as ALPN entries of a TLS 1.3
// handshake at an intercepting listener configured with the options under test. Processed means:
// the handshake completed (the server made a certificate for this request); issued: that
// certificate carries credentials.
func (w *sfWorld) callThroughListener(in *types.FetchNodeCredentialsRequest, o *sfOutcome, extra ...nodeenrollment.Option) {
	s := w.srv.s
	lw, err := world.NewLW(s, world.LWCfg{Options: s.Opts(extra...), OptionsSet: true})
	if err != nil {
		o.err = fmt.Errorf("harness: listener: %w", err)
		return
	}
	defer lw.Close()
	w.fetchHandshake(lw, in, o)
}

// fetchHandshake presents the request to the given listener in a TLS handshake
func (w *sfWorld) fetchHandshake(lw *world.LW, in *types.FetchNodeCredentialsRequest, o *sfOutcome) {
	w.srv.rec.Reset()
	now := time.Now()
	self := world.MintSelfSigned(w.n.K, world.LeafSpec{SubjectKeyID: w.n.K.Pkix, DNSNames: []string{nodeenrollment.CommonDnsName}, NotBefore: now.Add(-5 * time.Minute), NotAfter: now.Add(5 * time.Minute), EKU: []x509.ExtKeyUsage{x509.ExtKeyUsageClientAuth}})
	cert := &tls.Certificate{Certificate: [][]byte{self}, PrivateKey: w.n.K.Priv}
	cfg := &tls.Config{NextProtos: world.FetchProtos(in), InsecureSkipVerify: true, MinVersion: tls.VersionTLS13,
		GetClientCertificate: func(*tls.CertificateRequestInfo) (*tls.Certificate, error) { return cert, nil }}
	raw, err := net.Dial("tcp", lw.Addr)
	if err != nil {
		o.err = fmt.Errorf("harness: dial: %w", err)
		return
	}
	defer raw.Close()
	_ = raw.SetDeadline(time.Now().Add(30 * time.Second))
	tc := tls.Client(raw, cfg)
	herr := tc.Handshake()
	rec, werr := lw.Wait(raw.LocalAddr().String())
	if werr != nil {
		o.err = fmt.Errorf("harness: watchdog: %w", werr)
		return
	}
	if rec.Panic != nil {
		panic(fmt.Sprintf("Accept panicked: %v\n%s", rec.Panic, rec.Stack))
	}
	o.respNil = true
	if herr != nil {
		o.err = herr
		return
	}
	// the handshake completed: the request went on to the authorization decision
	o.respNil = false
	if pcs := tc.ConnectionState().PeerCertificates; len(pcs) > 0 {
		if b, derr := base64.RawStdEncoding.DecodeString(pcs[0].Subject.CommonName); derr == nil {
			resp := new(types.FetchNodeCredentialsResponse)
			o.issued = proto.Unmarshal(b, resp) == nil && len(resp.EncryptedNodeCredentials) > 0
		}
	}
}

// sfRunListenerRepeats: one listener serves an honest, authorized fetch handshake; the same bundle is then
// presented to that same listener again with a signature that does not verify. What a listener remembers of
// requests it has served must not stand in for the signature check.
func sfRunListenerRepeats(c *engine.Ctx, replica int) {
	r := c.R
	w, err := sfNewWorld(sfListener)
	if err != nil {
		sfPrepareFailed(c, sfCase{Kind: "listener-repeat", Target: sfListener, Replica: replica}, err)
		return
	}
	defer w.srv.s.Close()
	lw, err := world.NewLW(w.srv.s, world.LWCfg{})
	if err != nil {
		r.Broken("sigfresh: listener: " + err.Error())
		return
	}
	defer lw.Close()
	var first sfOutcome
	first.panicV, first.stack = engine.Guard(func() { w.fetchHandshake(lw, sfClone(w.base), &first) })
	sc := sfCase{Kind: "listener-repeat", Target: sfListener, Replica: replica, Part: "signature"}
	if first.panicV != nil || !first.issued {
		r.Violation("in-window-request-rejected", fmt.Sprintf("the listener did not serve an honest, authorized fetch handshake (err=%v)", first.err), sfWitness(sc, w, w.base))
		return
	}
	r.Count("listener_served_then_repeated", 1)
	rng := c.Rng(fmt.Sprintf("sigfresh/listener-repeat/%d", replica))
	for k := 0; k < 12; k++ {
		req := sfClone(w.base)
		var what string
		switch k % 4 {
		case 0:
			i := rng.Intn(len(req.BundleSignature) * 8)
			req.BundleSignature[i/8] ^= 1 << (i % 8)
			what = fmt.Sprintf("signature bit %d flipped", i)
		case 1:
			req.BundleSignature = req.BundleSignature[:rng.Intn(len(req.BundleSignature))]
			what = fmt.Sprintf("signature truncated to %d bytes", len(req.BundleSignature))
		case 2:
			req.BundleSignature = world.RandBytes(64)
			what = "random signature"
		default:
			req.BundleSignature = ed25519.Sign(world.NewKeys().Priv, req.Bundle)
			what = "signature by another key"
		}
		sc.Mut, sc.Index = what, k
		var o sfOutcome
		o.panicV, o.stack = engine.Guard(func() { w.fetchHandshake(lw, req, &o) })
		r.Eval(engine.J(sc), true)
		switch {
		case o.panicV != nil:
			r.Violation("panic:"+engine.LibraryFrame(o.stack), fmt.Sprintf("the listener panicked on a repeated bundle with %s: %v", what, o.panicV), sfWitness(sc, w, req))
		case o.err == nil:
			r.Violation("accepted-after-mutation:signature:repeated-at-one-listener", fmt.Sprintf("a listener that had served this bundle before processed it again with %s (credentials issued: %v)", what, o.issued), sfWitness(sc, w, req))
		default:
			r.Count("listener_repeats_rejected", 1)
		}
	}
}

// sfRunRotateNamingRegistered: the must-reject requests again inside rotation payloads, this time naming a
// key that is registered (another node the operator authorized, whose request the sender has seen): the
// rejection must come before any storage write, so that node's record is still there, byte for byte.
func sfRunRotateNamingRegistered(c *engine.Ctx, replica int) {
	r := c.R
	w, err := sfNewWorld(sfRotate)
	if err != nil {
		sfPrepareFailed(c, sfCase{Kind: "rotate-naming-registered", Target: sfRotate, Replica: replica}, err)
		return
	}
	s := w.srv.s
	defer s.Close()
	victim, err := world.NewNode(false, "")
	if err != nil {
		r.Broken("sigfresh: node: " + err.Error())
		return
	}
	vreq, err := victim.FetchRequest()
	if err == nil {
		_, err = registration.AuthorizeNode(s.Ctx, s.Store, sfClone(vreq), s.Opts()...)
	}
	if err != nil {
		r.Broken("sigfresh: authorizing the named node: " + err.Error())
		return
	}
	before := &types.NodeInformation{Id: victim.K.KeyID}
	if err := s.Inner.Load(s.Ctx, before); err != nil {
		r.Broken("sigfresh: raw load: " + err.Error())
		return
	}
	rng := c.Rng(fmt.Sprintf("sigfresh/rotate-naming-registered/%d", replica))
	for k := 0; k < 10; k++ {
		req := sfClone(vreq)
		var what string
		switch k % 5 {
		case 0:
			i := rng.Intn(len(req.BundleSignature) * 8)
			req.BundleSignature[i/8] ^= 1 << (i % 8)
			what = fmt.Sprintf("signature bit %d flipped", i)
		case 1:
			req.BundleSignature = req.BundleSignature[:rng.Intn(len(req.BundleSignature))]
			what = fmt.Sprintf("signature truncated to %d bytes", len(req.BundleSignature))
		case 2:
			// a well-formed unknown field appended after signing: nonce and key still decode
			req.Bundle = append(req.Bundle, 0xf8, 0x07, 0x01)
			what = "bundle extended after signing"
		case 3:
			req = world.Resign(vreq, victim.K.Priv, func(i *types.FetchNodeCredentialsInfo) {
				i.NotBefore, i.NotAfter = timestamppb.New(time.Now().Add(-72*time.Hour)), timestamppb.New(time.Now().Add(-48*time.Hour))
			})
			what = "authentic bundle whose window ended 48 h ago"
		default:
			req = world.Resign(vreq, victim.K.Priv, func(i *types.FetchNodeCredentialsInfo) {
				i.NotBefore, i.NotAfter = timestamppb.New(time.Now().Add(48*time.Hour)), timestamppb.New(time.Now().Add(72*time.Hour))
			})
			what = "authentic bundle whose window begins in 48 h"
		}
		sc := sfCase{Kind: "rotate-naming-registered", Target: sfRotate, Replica: replica, Part: "signature", Mut: what, Index: k}
		o := w.call(req)
		r.Eval(engine.J(sc), true)
		after := &types.NodeInformation{Id: victim.K.KeyID}
		lerr := s.Inner.Load(s.Ctx, after)
		var writes []string
		for _, op := range o.ops {
			if op.Kind == "store" || op.Kind == "remove" {
				writes = append(writes, op.Kind+"-"+op.Type)
			}
		}
		switch {
		case o.panicV != nil:
			r.Violation("panic:"+engine.LibraryFrame(o.stack), fmt.Sprintf("RotateNodeCredentials panicked on an inner request with %s: %v", what, o.panicV), sfWitness(sc, w, req))
			return
		case o.err == nil:
			r.Violation("accepted-after-mutation:signature:rotation-naming-a-registered-key", fmt.Sprintf("a rotation whose inner request names a registered key and has %s was not rejected", what), sfWitness(sc, w, req))
			return
		case len(writes) > 0 || lerr != nil || !proto.Equal(before, after):
			r.Violation("storage-op-before-rejection:rotation-naming-a-registered-key", fmt.Sprintf("a rotation whose inner request (%s) had to be rejected wrote to storage first (%v); the record of the key it names: load err=%v, unchanged=%v", what, writes, lerr, lerr == nil && proto.Equal(before, after)), sfWitness(sc, w, req))
			return
		default:
			r.Count("rotation_naming_registered_key_rejected_without_writes", 1)
		}
	}
}

func sfOpName(target string) string {
	if target == sfListener {
		return "the intercepting listener (fetch handshake)"
	}
	if target == sfRotate {
		return "RotateNodeCredentials"
	}
	if sfIsFetch(target) {
		return "FetchNodeCredentials"
	}
	return "AuthorizeNode"
}

// processed says whether the outcome shows that the request passed validation
// with the visible effect the world was prepared for
func (w *sfWorld) processed(o sfOutcome) bool {
	if !o.issued {
		return false
	}
	if sfIsFetch(w.target) || w.target == sfRotate || w.target == sfListener {
		return true
	}
	// authorize: the record of this node must have been written
	for _, op := range o.ops {
		if op.Kind == "store" && op.Type == "NodeInformation" && op.ID == w.n.K.KeyID && op.Err == "" {
			return true
		}
	}
	return false
}

func sfWitness(sc sfCase, w *sfWorld, req *types.FetchNodeCredentialsRequest) sfCase {
	if req != nil {
		sc.Bundle = hex.EncodeToString(req.Bundle)
		sc.Sig = hex.EncodeToString(req.BundleSignature)
	}
	if w != nil && w.n != nil {
		sc.KeyHex = hex.EncodeToString(w.n.K.Pub)
	}
	return sc
}

func sfOpsString(ops []recstore.Op) string {
	var parts []string
	for i, op := range ops {
		if i == 6 {
			parts = append(parts, "...")
			break
		}
		parts = append(parts, op.Kind+" "+op.Type)
	}
	return strings.Join(parts, ", ")
}

// checkRejected applies the refusal oracle: error, nil response, no storage
// operation at all
func (w *sfWorld) checkRejected(c *engine.Ctx, sc sfCase, req *types.FetchNodeCredentialsRequest, o sfOutcome, acceptKey, what string) {
	r := c.R
	if o.panicV != nil {
		r.Violation("panic:"+engine.LibraryFrame(o.stack), fmt.Sprintf("%s panicked on %s: %v", sfOpName(w.target), what, o.panicV), sfWitness(sc, w, req))
		return
	}
	if o.err == nil {
		effect := "no error, empty response (the request went on to the authorization decision)"
		if o.issued {
			effect = "no error and the request was processed (credentials / node record produced)"
		}
		r.Count("accepted_but_expected_rejection", 1)
		r.Violation(acceptKey, fmt.Sprintf("%s on %s [%s]: %s; storage saw: %s", sfOpName(w.target), what, w.target, effect, sfOpsString(o.ops)), sfWitness(sc, w, req))
		return
	}
	r.Count("rejected_as_expected", 1)
	if !o.respNil {
		r.Violation("response-with-error", fmt.Sprintf("%s returned an error together with a response object on %s", sfOpName(w.target), what), sfWitness(sc, w, req))
	}
	r.Count("storage_ops_during_rejections", int64(len(o.ops)))
	if len(o.ops) == 0 {
		r.Count("rejections_with_zero_storage_ops", 1)
		return
	}
	for _, op := range o.ops {
		cls := op.Kind + "-" + op.Type
		if w.target == sfRotate && op.Kind != "store" && op.Kind != "remove" {
			// the request is inside an encrypted payload: the rotating node's record has to be
			// read before the request can even be seen; only writes count here
			continue
		}
		r.Violation("storage-op-before-rejection:"+cls, fmt.Sprintf("%s refused %s [%s] (%v) only after touching storage: %s", sfOpName(w.target), what, w.target, o.err, sfOpsString(o.ops)), sfWitness(sc, w, req))
	}
}

// ---------------------------------------------------------------------------
// mutations

// sfReachesSigCheck is the harness's own reading of a request: true when only
// the signature comparison can refuse it (used to classify cases, never for a verdict)
func sfReachesSigCheck(req *types.FetchNodeCredentialsRequest) bool {
	if len(req.Bundle) == 0 || len(req.BundleSignature) == 0 {
		return false
	}
	info := new(types.FetchNodeCredentialsInfo)
	if err := proto.Unmarshal(req.Bundle, info); err != nil {
		return false
	}
	if len(info.CertificatePublicKeyPkix) == 0 || info.CertificatePublicKeyType != types.KEYTYPE_ED25519 ||
		len(info.Nonce) == 0 || len(info.EncryptionPublicKeyBytes) == 0 || info.EncryptionPublicKeyType != types.KEYTYPE_X25519 {
		return false
	}
	now := time.Now()
	if info.NotBefore.AsTime().Add(sfDocNotBefore).After(now) || info.NotAfter.AsTime().Add(sfDocNotAfter).Before(now) {
		return false
	}
	pk, err := x509.ParsePKIXPublicKey(info.CertificatePublicKeyPkix)
	if err != nil {
		return false
	}
	_, ok := pk.(ed25519.PublicKey)
	return ok
}

// sfApply applies a byte-level mutation; ok=false when the result equals the original
func sfApply(base *types.FetchNodeCredentialsRequest, sc sfCase) (*types.FetchNodeCredentialsRequest, bool) {
	out := sfClone(base)
	src := out.Bundle
	if sc.Part == "signature" {
		src = out.BundleSignature
	}
	orig := append([]byte(nil), src...)
	data, _ := hex.DecodeString(sc.Data)
	var mut []byte
	switch sc.Mut {
	case "bitflip":
		if len(src) == 0 {
			return out, false
		}
		i := sc.Index % (len(src) * 8)
		mut = append([]byte(nil), src...)
		mut[i/8] ^= 1 << uint(i%8)
	case "truncate":
		l := sc.Index
		if l > len(src) {
			l = len(src)
		}
		mut = append([]byte(nil), src[:l]...)
	case "extend":
		mut = append(append([]byte(nil), src...), data...)
	case "splice":
		off := sc.Index
		if off > len(src) {
			off = len(src)
		}
		l := sc.Len
		if off+l > len(src) {
			l = len(src) - off
		}
		mut = append(append(append([]byte(nil), src[:off]...), data...), src[off+l:]...)
	default:
		return out, false
	}
	if sc.Part == "signature" {
		out.BundleSignature = mut
	} else {
		out.Bundle = mut
	}
	return out, !bytes.Equal(orig, mut)
}

func (w *sfWorld) runMutation(c *engine.Ctx, sc sfCase) {
	r := c.R
	req, changed := sfApply(w.base, sc)
	if !changed {
		r.Count("mutation_without_effect_skipped", 1)
		return
	}
	reaches := sfReachesSigCheck(req)
	o := w.call(req)
	r.Eval(engine.J(sc), reaches)
	r.Count("case_"+sc.Part+"_"+sc.Mut, 1)
	if reaches {
		r.Count("mutant_refusable_only_by_signature_check", 1)
	} else {
		r.Count("mutant_also_malformed_or_incomplete", 1)
	}
	what := fmt.Sprintf("a request whose %s was changed (%s, index %d, len %d, data %q) without re-signing", sc.Part, sc.Mut, sc.Index, sc.Len, sc.Data)
	w.checkRejected(c, sc, req, o, "accepted-after-mutation:"+sc.Part, what)
}

// re-signed structural changes: name -> (finding key on acceptance, change)
type sfResigned struct {
	name string
	key  string
	// mutate changes the decoded bundle; signer nil = the node's own key
	mutate func(info *types.FetchNodeCredentialsInfo)
	other  bool // sign with a fresh key that is NOT the one named in the bundle
}

func sfEcdsaPkix() []byte {
	k, err := ecdsa.GenerateKey(elliptic.P256(), rand.Reader)
	if err != nil {
		panic(err)
	}
	b, err := x509.MarshalPKIXPublicKey(&k.PublicKey)
	if err != nil {
		panic(err)
	}
	return b
}

var sfResignedList = []sfResigned{
	{name: "certificate-key-empty", key: "accepted-with-missing-field:certificate_public_key_pkix", mutate: func(i *types.FetchNodeCredentialsInfo) { i.CertificatePublicKeyPkix = nil }},
	{name: "nonce-empty", key: "accepted-with-missing-field:nonce", mutate: func(i *types.FetchNodeCredentialsInfo) { i.Nonce = nil }},
	{name: "encryption-key-empty", key: "accepted-with-missing-field:encryption_public_key_bytes", mutate: func(i *types.FetchNodeCredentialsInfo) { i.EncryptionPublicKeyBytes = nil }},
	{name: "certificate-key-type-unspecified", key: "accepted-with-unsupported-key-type:certificate", mutate: func(i *types.FetchNodeCredentialsInfo) { i.CertificatePublicKeyType = types.KEYTYPE_UNSPECIFIED }},
	{name: "certificate-key-type-x25519", key: "accepted-with-unsupported-key-type:certificate", mutate: func(i *types.FetchNodeCredentialsInfo) { i.CertificatePublicKeyType = types.KEYTYPE_X25519 }},
	{name: "certificate-key-type-unknown-7", key: "accepted-with-unsupported-key-type:certificate", mutate: func(i *types.FetchNodeCredentialsInfo) { i.CertificatePublicKeyType = types.KEYTYPE(7) }},
	{name: "encryption-key-type-unspecified", key: "accepted-with-unsupported-key-type:encryption", mutate: func(i *types.FetchNodeCredentialsInfo) { i.EncryptionPublicKeyType = types.KEYTYPE_UNSPECIFIED }},
	{name: "encryption-key-type-ed25519", key: "accepted-with-unsupported-key-type:encryption", mutate: func(i *types.FetchNodeCredentialsInfo) { i.EncryptionPublicKeyType = types.KEYTYPE_ED25519 }},
	{name: "encryption-key-type-unknown-7", key: "accepted-with-unsupported-key-type:encryption", mutate: func(i *types.FetchNodeCredentialsInfo) { i.EncryptionPublicKeyType = types.KEYTYPE(7) }},
	{name: "key-types-swapped", key: "accepted-with-unsupported-key-type:swapped", mutate: func(i *types.FetchNodeCredentialsInfo) {
		i.CertificatePublicKeyType, i.EncryptionPublicKeyType = types.KEYTYPE_X25519, types.KEYTYPE_ED25519
	}},
	{name: "certificate-key-not-ed25519", key: "accepted-with-non-ed25519-key", mutate: func(i *types.FetchNodeCredentialsInfo) { i.CertificatePublicKeyPkix = sfEcdsaPkix() }},
	{name: "certificate-key-garbage", key: "accepted-with-non-ed25519-key", mutate: func(i *types.FetchNodeCredentialsInfo) { i.CertificatePublicKeyPkix = world.RandBytes(44) }},
	// an absent timestamp is protobuf's zero value, the Unix epoch: a window that ends there ended long ago
	{name: "not-after-absent", key: "accepted-outside-window:not_after-absent", mutate: func(i *types.FetchNodeCredentialsInfo) { i.NotAfter = nil }},
	{name: "not-after-zero", key: "accepted-outside-window:not_after-zero", mutate: func(i *types.FetchNodeCredentialsInfo) { i.NotAfter = &timestamppb.Timestamp{} }},
	{name: "both-timestamps-absent", key: "accepted-outside-window:not_after-absent", mutate: func(i *types.FetchNodeCredentialsInfo) { i.NotBefore, i.NotAfter = nil, nil }},
	// the node's own ed25519 key bytes inside a SubjectPublicKeyInfo that declares another algorithm (X25519: the OID
	// differs in its last byte); the bundle is signed with the matching ed25519 private key and still says "ed25519"
	// in its type field. The key named inside the bundle is then not an Ed25519 key.
	{name: "certificate-key-pkix-declares-x25519", key: "accepted-with-non-ed25519-key:pkix-declares-x25519", mutate: func(i *types.FetchNodeCredentialsInfo) {
		if b := i.CertificatePublicKeyPkix; len(b) == 44 && b[8] == 0x70 {
			nb := append([]byte{}, b...)
			nb[8] = 0x6e
			i.CertificatePublicKeyPkix = nb
		}
	}},
	{name: "signed-by-key-not-named-in-bundle", key: "accepted-signature-of-foreign-key", other: true},
}

func sfFindResigned(name string) *sfResigned {
	for i := range sfResignedList {
		if sfResignedList[i].name == name {
			return &sfResignedList[i]
		}
	}
	return nil
}

func (w *sfWorld) runResigned(c *engine.Ctx, sc sfCase) {
	r := c.R
	rs := sfFindResigned(sc.Mut)
	if rs == nil {
		r.Broken("sigfresh: unknown re-signed change " + sc.Mut)
		return
	}
	priv := w.n.K.Priv
	if rs.other {
		priv = world.NewKeys().Priv
	}
	req := world.Resign(w.base, priv, rs.mutate)
	o := w.call(req)
	r.Eval(engine.J(sc), true)
	r.Count("case_resigned_"+sc.Mut, 1)
	r.Count("case_resigned", 1)
	w.checkRejected(c, sc, req, o, rs.key, "a well-formed bundle with "+sc.Mut+", signed with "+map[bool]string{false: "the node's key", true: "a key other than the one it names"}[rs.other])
}

// runWorld runs the complete mutation list of one world sequentially
func sfRunWorld(c *engine.Ctx, target string, replica, nsplice int) {
	r := c.R
	w, err := sfNewWorld(target)
	if err != nil {
		sfPrepareFailed(c, sfCase{Kind: "mutation", Target: target, Replica: replica}, err)
		return
	}
	defer w.srv.s.Close()
	rng := c.Rng(fmt.Sprintf("sigfresh/mut/%s/%d", target, replica))
	mk := func(part, mut string, idx, l int, data []byte) sfCase {
		return sfCase{Kind: "mutation", Target: target, Replica: replica, Part: part, Mut: mut, Index: idx, Len: l, Data: hex.EncodeToString(data)}
	}
	rb := func(n int) []byte {
		b := make([]byte, n)
		rng.Read(b)
		return b
	}
	parts := map[string]int{"bundle": len(w.base.Bundle), "signature": len(w.base.BundleSignature)}
	if parts["signature"] != ed25519.SignatureSize {
		r.Broken(fmt.Sprintf("sigfresh: library-created signature has %d bytes", parts["signature"]))
		return
	}
	r.Count("worlds", 1)
	engine.LogInput("C03 mutation world %s replica %d: bundle %d bytes", target, replica, parts["bundle"])
	r.Count("bundle_bits_total", int64(parts["bundle"]*8))
	for _, part := range []string{"bundle", "signature"} {
		n := parts[part]
		for i := 0; i < n*8; i++ {
			w.runMutation(c, mk(part, "bitflip", i, 0, nil))
		}
		for l := 0; l < n; l++ {
			w.runMutation(c, mk(part, "truncate", l, 0, nil))
		}
		for k := 1; k <= 8; k++ {
			w.runMutation(c, mk(part, "extend", 0, 0, rb(k)))
		}
	}
	// well-formed extra fields appended to / put in front of the signed bundle (protobuf concatenation
	// merges them into the decoded message) while the original signature is kept
	for _, extra := range sigfreshExtraFields() {
		w.runMutation(c, mk("bundle", "extend", 0, 0, extra))
		w.runMutation(c, mk("bundle", "splice", 0, 0, extra))
		r.Count("case_bundle_wellformed_extra_field", 2)
	}
	for i := 0; i < nsplice; i++ {
		part := "bundle"
		if rng.Intn(5) == 0 {
			part = "signature"
		}
		n := parts[part]
		off := rng.Intn(n + 1)
		l := rng.Intn(9)
		d := rb(rng.Intn(9))
		if rng.Intn(4) == 0 && l > 0 {
			d = rb(l) // same-length overwrite
		}
		w.runMutation(c, mk(part, "splice", off, l, d))
	}
	for _, rs := range sfResignedList {
		w.runResigned(c, sfCase{Kind: "resigned", Target: target, Replica: replica, Part: "bundle", Mut: rs.name})
	}
}

func sfPrepareFailed(c *engine.Ctx, sc sfCase, err error) {
	if errors.Is(err, errSfHonest) {
		c.R.Count("skipped_because_honest_request_refused", 1)
		c.R.Violation("honest-request-rejected", fmt.Sprintf("preparing %s: %v", sc.Target, err), sc)
		return
	}
	c.R.Broken("sigfresh: preparing " + sc.Target + ": " + err.Error())
}

// ---------------------------------------------------------------------------
// controls

func sfRunControl(c *engine.Ctx, sc sfCase) {
	r := c.R
	w, err := sfNewWorld(sc.Target)
	if err != nil {
		r.Eval(engine.J(sc), true)
		sfPrepareFailed(c, sc, err)
		return
	}
	defer w.srv.s.Close()
	req := w.base
	if sc.Mut == "resigned-unchanged" {
		req = world.Resign(w.base, w.n.K.Priv, nil)
	}
	o := w.call(req)
	r.Eval(engine.J(sc), true)
	if o.panicV != nil {
		r.Violation("panic:"+engine.LibraryFrame(o.stack), fmt.Sprintf("%s panicked on an unmutated request: %v", sfOpName(sc.Target), o.panicV), sfWitness(sc, w, req))
		return
	}
	if !w.processed(o) {
		if sc.Mut == "resigned-unchanged" && r.Counter("control_processed:"+sc.Target) > 0 {
			// the library's own encoding passes and the harness's re-encoding does not: harness problem
			r.Broken(fmt.Sprintf("sigfresh: request re-signed by the harness without change refused on %s: %v", sc.Target, o.err))
			return
		}
		r.Violation("honest-request-rejected", fmt.Sprintf("%s [%s] did not process a library-created, unmutated, seconds-old request under default skews: err=%v issued=%v", sfOpName(sc.Target), sc.Target, o.err, o.issued), sfWitness(sc, w, req))
		return
	}
	if sc.Mut == "resigned-unchanged" {
		r.Count("control_resigned_processed:"+sc.Target, 1)
	} else {
		r.Count("control_processed:"+sc.Target, 1)
	}
	r.Count("control_processed", 1)
}

// ---------------------------------------------------------------------------
// validity windows

func sfSkew(v int64, unset bool, doc time.Duration) (time.Duration, bool) {
	if unset {
		return doc, false
	}
	return time.Duration(v) * time.Second, true
}

// sfWindowExpect: arithmetic on offsets only. ok=false: too close to a boundary
func sfWindowExpect(sc sfCase) (accept bool, side string, ok bool) {
	a, b := time.Duration(sc.A)*time.Second, time.Duration(sc.B)*time.Second
	nb, _ := sfSkew(sc.NB, sc.NBUnset, sfDocNotBefore)
	na, _ := sfSkew(sc.NA, sc.NAUnset, sfDocNotAfter)
	x, y := a+nb, b+na
	if x > -sfMargin && x < sfMargin || y > -sfMargin && y < sfMargin || a >= b {
		return false, "", false
	}
	switch {
	case x > 0 && y < 0:
		return false, "both", true
	case x > 0:
		return false, "not-before", true
	case y < 0:
		return false, "not-after", true
	}
	return true, "", true
}

func sfRunWindow(c *engine.Ctx, sc sfCase, srv *sfSrv) {
	r := c.R
	accept, side, ok := sfWindowExpect(sc)
	if !ok {
		r.Count("window_point_too_close_to_boundary_skipped", 1)
		return
	}
	w, err := sfPrepare(srv, sc.Target)
	if err != nil {
		sfPrepareFailed(c, sc, err)
		return
	}
	var opts []nodeenrollment.Option
	nb, nbSet := sfSkew(sc.NB, sc.NBUnset, sfDocNotBefore)
	na, naSet := sfSkew(sc.NA, sc.NAUnset, sfDocNotAfter)
	// applications assemble option lists whose optional members stay nil when a feature is off; the library
	// skips nil entries, and the configured skews count wherever they stand in the list
	nils := (sc.A+sc.B+sc.NB+sc.NA)%3 == 0
	if nils {
		opts = append(opts, nil)
		r.Count("window_cases_with_nil_entries_in_front_of_the_skew_options", 1)
	}
	if nbSet {
		opts = append(opts, nodeenrollment.WithNotBeforeClockSkew(nb))
	}
	if nils {
		opts = append(opts, nil)
	}
	if naSet {
		opts = append(opts, nodeenrollment.WithNotAfterClockSkew(na))
	}
	now := time.Now()
	req := world.Resign(w.base, w.n.K.Priv, func(i *types.FetchNodeCredentialsInfo) {
		i.NotBefore = timestamppb.New(now.Add(time.Duration(sc.A) * time.Second))
		i.NotAfter = timestamppb.New(now.Add(time.Duration(sc.B) * time.Second))
	})
	o := w.call(req, opts...)
	r.Eval(engine.J(sc), true)
	r.Count("case_window", 1)
	a, b := time.Duration(sc.A)*time.Second, time.Duration(sc.B)*time.Second
	if accept {
		r.Count("window_expect_accept", 1)
		if a > 0 {
			r.Count("window_accept_only_thanks_to_not_before_skew", 1)
		}
		if b < 0 {
			r.Count("window_accept_only_thanks_to_not_after_skew", 1)
		}
		if o.panicV != nil {
			r.Violation("panic:"+engine.LibraryFrame(o.stack), fmt.Sprintf("%s panicked on an in-window request: %v", sfOpName(sc.Target), o.panicV), sfWitness(sc, w, req))
			return
		}
		if !w.processed(o) {
			r.Violation("in-window-request-rejected", fmt.Sprintf("%s [%s] refused a well-signed request with NotBefore=now%+v NotAfter=now%+v under skews (%v,%v): window widened by the skews contains now with >= 1 min to spare; err=%v issued=%v", sfOpName(sc.Target), sc.Target, a, b, nb, na, o.err, o.issued), sfWitness(sc, w, req))
			return
		}
		r.Count("window_accepted_as_expected", 1)
		return
	}
	r.Count("window_expect_reject_"+side, 1)
	if side == "not-before" && nb < 0 {
		r.Count("window_reject_not_before_despite_skew", 1)
	}
	if side == "not-after" && na > 0 {
		r.Count("window_reject_not_after_despite_skew", 1)
	}
	what := fmt.Sprintf("a well-signed request with NotBefore=now%+v NotAfter=now%+v under skews (%v,%v), i.e. outside the widened window (%s side) by >= 1 min", a, b, nb, na, side)
	w.checkRejected(c, sc, req, o, "out-of-window-request-accepted:"+side, what)
	if o.panicV == nil && o.err != nil {
		r.Count("window_rejected_as_expected", 1)
	}
}

func sfWindowCases(c *engine.Ctx) []sfCase {
	mins := []int64{-2880, -1500, -120, -20, -2, 2, 20, 120, 1500, 2880}
	const unset = int64(1) // not a grid value: stands for "option absent"
	// the usual sign widens the window; a server that wants a stricter window configures the other sign (the
	// skews are added to the bounds as they are)
	nbs := []int64{unset, 0, -5 * 60, -3600, -86400, 3600}
	nas := []int64{unset, 0, 5 * 60, 3600, 86400, -3600}
	var out []sfCase
	for _, t := range sfWindowTargets {
		for _, a := range mins {
			for _, b := range mins {
				if a >= b {
					continue
				}
				for _, nb := range nbs {
					for _, na := range nas {
						sc := sfCase{Kind: "window", Target: t, A: a * 60, B: b * 60, NB: nb, NA: na}
						if nb == unset {
							sc.NB, sc.NBUnset = 0, true
						}
						if na == unset {
							sc.NA, sc.NAUnset = 0, true
						}
						if _, _, ok := sfWindowExpect(sc); ok {
							out = append(out, sc)
						}
					}
				}
			}
		}
	}
	// random points (seconds resolution), same margin rule
	rng := c.Rng("sigfresh/window")
	n := c.Pick(400, 40000)
	span := int64(72 * 3600)
	for i := 0; i < n; {
		a := rng.Int63n(2*span) - span
		b := rng.Int63n(2*span) - span
		if a > b {
			a, b = b, a
		}
		sc := sfCase{Kind: "window", Target: sfWindowTargets[rng.Intn(len(sfWindowTargets))], A: a, B: b, NB: -rng.Int63n(span), NA: rng.Int63n(span)}
		switch rng.Intn(6) {
		case 0:
			sc.NB, sc.NBUnset = 0, true
		case 1:
			sc.NA, sc.NAUnset = 0, true
		case 2:
			// put the not-before edge near (but >= 1 min from) the boundary
			sc.NB = -a + sfNear(rng)
			if sc.NB > 0 {
				sc.NB = 0
			}
		case 3:
			sc.NA = -b + sfNear(rng)
			if sc.NA < 0 {
				sc.NA = 0
			}
		}
		if _, _, ok := sfWindowExpect(sc); !ok {
			continue
		}
		out = append(out, sc)
		i++
	}
	return out
}

// sfNear returns an offset of 60..600 s with random sign
func sfNear(rng *mrand.Rand) int64 {
	v := 60 + rng.Int63n(541)
	if rng.Intn(2) == 0 {
		return -v
	}
	return v
}

// ---------------------------------------------------------------------------
// library-created requests

// sfRunDialRetries: a node that is not authorized yet dials the same listener several times (what a worker
// waiting for its operator does); the server-side fetch function records the request each attempt presents.
// Every attempt's request must have been created for that attempt: a bundle that is byte-identical to the
// one of an earlier attempt and whose NotBefore lies before the attempt began is a request that is no longer
// valid "from creation". After the operator authorizes the node the next attempt must enroll it.
func sfRunDialRetries(c *engine.Ctx, replica int, srv *sfSrv) {
	r := c.R
	sc := sfCase{Kind: "created", Target: "created/dial-retry", Replica: replica}
	var mu sync.Mutex
	var seen []*types.FetchNodeCredentialsRequest
	fetchFn := func(ctx context.Context, st nodeenrollment.Storage, req *types.FetchNodeCredentialsRequest, opt ...nodeenrollment.Option) (*types.FetchNodeCredentialsResponse, error) {
		mu.Lock()
		seen = append(seen, proto.Clone(req).(*types.FetchNodeCredentialsRequest))
		mu.Unlock()
		return registration.FetchNodeCredentials(ctx, st, req, opt...)
	}
	lw, err := world.NewLW(srv.s, world.LWCfg{FetchFn: fetchFn})
	if err != nil {
		r.Broken("sigfresh: listener: " + err.Error())
		return
	}
	defer lw.Close()
	n, err := world.NewNode(replica%2 == 1, "")
	if err != nil {
		r.Broken("sigfresh: new node: " + err.Error())
		return
	}
	attempts := 3 + replica%3
	var prev [][]byte
	r.Eval(engine.J(sc), true)
	for a := 0; a <= attempts; a++ {
		if a == attempts {
			// the operator authorizes the node with the request of the last refused attempt
			mu.Lock()
			last := seen[len(seen)-1]
			mu.Unlock()
			if _, aerr := registration.AuthorizeNode(srv.s.Ctx, srv.s.Store, last, srv.s.Opts()...); aerr != nil {
				r.Violation("honest-request-rejected", "AuthorizeNode refused the request an honest node presented seconds ago: "+aerr.Error(), sfWitness(sc, nil, last))
				return
			}
		}
		mu.Lock()
		before := len(seen)
		mu.Unlock()
		t0 := time.Now().Round(0)
		var conn net.Conn
		var derr error
		p, st := engine.Guard(func() { conn, derr = protocol.Dial(n.Ctx, n.Store, lw.Addr, n.NodeOpts()...) })
		if p != nil {
			r.Violation("panic:"+engine.LibraryFrame(st), fmt.Sprintf("protocol.Dial panicked: %v", p), sc)
			return
		}
		if conn != nil {
			if rec, werr := lw.Wait(conn.LocalAddr().String()); werr == nil && rec.Conn != nil {
				rec.Conn.Close()
			}
			conn.Close()
		}
		mu.Lock()
		got := append([]*types.FetchNodeCredentialsRequest{}, seen[before:]...)
		mu.Unlock()
		if len(got) == 0 {
			r.Violation("dial-attempt-presented-no-request", fmt.Sprintf("attempt %d of an unauthorized node's Dial presented no fetch request to the server (err=%v)", a, derr), sc)
			return
		}
		for _, req := range got {
			info := world.DecodeInfo(req)
			if info == nil || info.NotBefore == nil {
				r.Violation("created-request-without-window", "the request a dial attempt presented does not decode or carries no validity window", sfWitness(sc, nil, req))
				return
			}
			reused := false
			for _, pb := range prev {
				if bytes.Equal(pb, req.Bundle) {
					reused = true
				}
			}
			if reused && info.NotBefore.AsTime().Before(t0) {
				r.Violation("created-request-not-valid-from-creation:dial-retry", fmt.Sprintf("dial attempt %d presented the signed bundle of an earlier attempt: its NotBefore=%s lies before the attempt began (%s), so its remaining validity is shorter than the documented lifetime", a, info.NotBefore.AsTime().Format(time.RFC3339Nano), t0.UTC().Format(time.RFC3339Nano)), sfWitness(sc, nil, req))
				return
			}
			prev = append(prev, req.Bundle)
		}
		if a == attempts {
			if derr != nil {
				r.Violation("honest-request-rejected", fmt.Sprintf("the dial after authorization (attempt %d of the same node) did not enroll it: %v", a, derr), sc)
				return
			}
			r.Count("dial_retry_enrolled_after_authorization", 1)
		} else if derr == nil {
			r.Violation("unauthorized-dial-succeeded", fmt.Sprintf("dial attempt %d of a node nobody authorized succeeded", a), sc)
			return
		}
		r.Count("dial_attempts_with_fresh_request", 1)
	}
}

var sfCreatedSeq int64

func sfRunCreated(c *engine.Ctx, sc sfCase, srv *sfSrv) {
	r := c.R
	var n *world.Node
	var err error
	var opts []nodeenrollment.Option
	switch sc.Target {
	case "created/plain":
		n, err = world.NewNode(false, "")
	case "created/token":
		_, tok, terr := registration.CreateServerLedActivationToken(srv.s.Ctx, srv.s.Store, &types.ServerLedRegistrationRequest{}, srv.s.Opts()...)
		if terr != nil {
			r.Broken("sigfresh: create token: " + terr.Error())
			return
		}
		n, err = world.NewNode(false, tok)
	case "created/wrapped":
		n, err = world.NewNode(false, "")
		opts = append(opts, nodeenrollment.WithRegistrationWrapper(srv.s.RW))
	default:
		r.Broken("sigfresh: unknown creation flavour " + sc.Target)
		return
	}
	if err != nil {
		r.Broken("sigfresh: new node: " + err.Error())
		return
	}
	var req *types.FetchNodeCredentialsRequest
	var cerr error
	// two creations in three happen under a context that has a deadline (what a dialing application passes: a
	// connect timeout of a minute or a few hours); how long the caller is willing to wait is not the request's lifetime
	if k := atomic.AddInt64(&sfCreatedSeq, 1) % 3; k != 0 {
		cctx, cancel := context.WithTimeout(n.Ctx, []time.Duration{0, 90 * time.Second, 3 * time.Hour}[k])
		defer cancel()
		n.Ctx = cctx
		r.Count("created_under_a_context_with_deadline", 1)
	}
	t0 := time.Now().Round(0)
	p, st := engine.Guard(func() { req, cerr = n.FetchRequest(opts...) })
	t1 := time.Now().Round(0)
	r.Eval(engine.J(sc), true)
	r.Count("case_created", 1)
	if p != nil {
		r.Violation("panic:"+engine.LibraryFrame(st), fmt.Sprintf("CreateFetchNodeCredentialsRequest panicked: %v", p), sc)
		return
	}
	if cerr != nil || req == nil {
		r.Violation("request-creation-failed", fmt.Sprintf("CreateFetchNodeCredentialsRequest failed for fresh node credentials (%s): %v", sc.Target, cerr), sc)
		return
	}
	info := world.DecodeInfo(req)
	if info == nil || info.NotBefore == nil || info.NotAfter == nil {
		r.Violation("created-request-without-window", "library-created bundle does not decode or carries no validity window", sfWitness(sc, nil, req))
		return
	}
	nb, na := info.NotBefore.AsTime(), info.NotAfter.AsTime()
	if nb.Before(t0.Add(-sfCreatedSlack)) || nb.After(t1.Add(sfCreatedSlack)) {
		r.Violation("created-request-not-valid-from-creation", fmt.Sprintf("NotBefore=%s is not inside the creation bracket [%s, %s] (±2 s)", nb.Format(time.RFC3339Nano), t0.UTC().Format(time.RFC3339Nano), t1.UTC().Format(time.RFC3339Nano)), sfWitness(sc, nil, req))
	} else {
		r.Count("created_not_before_in_bracket", 1)
	}
	if d := na.Sub(nb); d != sfDocLifetime {
		r.Violation("created-request-lifetime-not-24h", fmt.Sprintf("NotAfter-NotBefore = %v, documented fetch lifetime is %v", d, sfDocLifetime), sfWitness(sc, nil, req))
	} else {
		r.Count("created_lifetime_exactly_24h", 1)
	}
	if !bytes.Equal(info.CertificatePublicKeyPkix, n.K.Pkix) || !ed25519.Verify(n.K.Pub, req.Bundle, req.BundleSignature) {
		r.Violation("created-request-not-signed-by-node-key", "library-created request does not name / is not signed by the node's certificate key", sfWitness(sc, nil, req))
	} else {
		r.Count("created_signed_by_node_key", 1)
	}
}

// ---------------------------------------------------------------------------

type sfPool struct {
	plain, wrapped chan *sfSrv
}

func sfNewPool(n int) (*sfPool, error) {
	p := &sfPool{plain: make(chan *sfSrv, n), wrapped: make(chan *sfSrv, n)}
	for i := 0; i < n; i++ {
		a, err := sfNewSrv(false)
		if err != nil {
			return nil, err
		}
		b, err := sfNewSrv(true)
		if err != nil {
			return nil, err
		}
		p.plain <- a
		p.wrapped <- b
	}
	return p, nil
}

func (p *sfPool) with(regWrap bool, fn func(*sfSrv)) {
	ch := p.plain
	if regWrap {
		ch = p.wrapped
	}
	s := <-ch
	defer func() { ch <- s }()
	fn(s)
}

func sfRunOne(c *engine.Ctx, sc sfCase, pool *sfPool) {
	switch sc.Kind {
	case "control":
		sfRunControl(c, sc)
	case "window":
		pool.with(sfNeedsRegWrap(sc.Target), func(s *sfSrv) { sfRunWindow(c, sc, s) })
	case "created":
		pool.with(true, func(s *sfSrv) { sfRunCreated(c, sc, s) })
	case "mutation", "resigned":
		w, err := sfNewWorld(sc.Target)
		if err != nil {
			sfPrepareFailed(c, sc, err)
			return
		}
		defer w.srv.s.Close()
		if sc.Kind == "mutation" {
			w.runMutation(c, sc)
		} else {
			w.runResigned(c, sc)
		}
	default:
		c.R.Broken("sigfresh: unknown case kind " + sc.Kind)
	}
}

func runSigFresh(c *engine.Ctx) engine.Result {
	r := c.R
	res := engine.Result{
		Rule: "mutation case = (call under test x request flavour, part, mutation, index/bytes) applied to a library-created request of a world in which the unmutated request is processed with a visible effect (control cases prove that); all single-bit flips and all truncation lengths of bundle and signature of every world are enumerated, plus extensions, random splices and re-signed bundles lacking a required field / naming an unsupported key type; a mutation case is counted non-trivial when the harness's own decoding says that only the signature comparison can refuse it (all others count as evaluations only); window case = (target, NotBefore/NotAfter offsets, skew options), minted and signed by the harness, always non-trivial; created case = one CreateFetchNodeCredentialsRequest bracketed by two clock readings. Oracle: mutated or out-of-window => error, nil response, zero storage operations; in-window (>= 1 min margins) => processed.",
		Assumptions: []string{
			"ties between a validity boundary and the present are not generated: every window point is >= 1 minute away from both widened boundaries",
			"only non-positive not-before skews and non-negative not-after skews are configured",
			"an absent NotAfter is read as protobuf's zero timestamp (the Unix epoch), i.e. a window that has ended: such a re-signed bundle must be rejected; an absent NotBefore (window open since the epoch) is not judged",
			"creation bracket uses ±2 s slack around two wall-clock readings",
			"trusts crypto/ed25519, crypto/x509, protobuf decoding and the recording storage wrapper",
		},
	}
	if c.Replay != nil {
		var sc sfCase
		if err := json.Unmarshal(c.Replay, &sc); err != nil {
			r.Broken("bad replay: " + err.Error())
			return res
		}
		pool, err := sfNewPool(1)
		if err != nil {
			r.Broken("sigfresh: pool: " + err.Error())
			return res
		}
		sfRunOne(c, sc, pool)
		return res
	}

	// zero-valued counters that must stay zero, so that they show in the evidence
	r.Count("storage_ops_during_rejections", 0)
	r.Count("accepted_but_expected_rejection", 0)

	// ---- phase 1: controls --------------------------------------------------
	var controls []sfCase
	for _, t := range sfMutationTargets {
		for k := 0; k < 3; k++ {
			controls = append(controls, sfCase{Kind: "control", Target: t, Replica: k})
		}
	}
	engine.ForEach(len(controls), engine.Workers(), func(i int) { sfRunControl(c, controls[i]) })
	// the re-signing path of the harness, after the library-created controls are known
	var controls2 []sfCase
	for _, t := range sfMutationTargets {
		controls2 = append(controls2, sfCase{Kind: "control", Target: t, Mut: "resigned-unchanged"})
	}
	engine.ForEach(len(controls2), engine.Workers(), func(i int) { sfRunControl(c, controls2[i]) })
	r.Sample(controls[0])

	// ---- phase 2: mutations (one world = one sequential exhaustive list) ------
	replicas := c.Pick(2, 4)
	nsplice := c.Pick(500, 20000) / replicas
	type wjob struct {
		target  string
		replica int
	}
	var jobs []wjob
	for _, t := range sfMutationTargets {
		for k := 0; k < replicas; k++ {
			jobs = append(jobs, wjob{t, k})
		}
	}
	engine.ForEach(len(jobs), engine.Workers(), func(i int) { sfRunWorld(c, jobs[i].target, jobs[i].replica, nsplice) })
	r.Sample(sfCase{Kind: "mutation", Target: sfFetchNodeLed, Part: "bundle", Mut: "bitflip", Index: 77})
	r.Sample(sfCase{Kind: "resigned", Target: sfAuthNodeLed, Part: "bundle", Mut: sfResignedList[3].name})

	// the same bundle a second time at one listener, with signatures that do not verify
	nrep := c.Pick(4, 40)
	engine.ForEach(nrep, engine.Workers(), func(i int) { sfRunListenerRepeats(c, i) })
	engine.ForEach(nrep, engine.Workers(), func(i int) { sfRunRotateNamingRegistered(c, i) })
	r.Require("rotation_naming_registered_key_rejected_without_writes", int64(nrep*8))
	r.Require("listener_repeats_rejected", int64(nrep*8))

	// ---- phase 3: windows ---------------------------------------------------------
	pool, err := sfNewPool(engine.Workers())
	if err != nil {
		r.Broken("sigfresh: pool: " + err.Error())
		return res
	}
	wcases := sfWindowCases(c)
	r.Set("window_cases", len(wcases))
	r.Sample(wcases[len(wcases)/3])
	r.Sample(wcases[len(wcases)-1])
	engine.ForEach(len(wcases), engine.Workers(), func(i int) { sfRunOne(c, wcases[i], pool) })

	// ---- phase 4: library-created requests -----------------------------------------
	flavours := []string{"created/plain", "created/token", "created/wrapped"}
	ncreate := c.Pick(201, 3000)
	engine.ForEach(ncreate, engine.Workers(), func(i int) {
		sfRunOne(c, sfCase{Kind: "created", Target: flavours[i%3], Replica: i}, pool)
	})
	r.Sample(sfCase{Kind: "created", Target: flavours[1], Replica: 1})
	{
		dsrv, derr := sfNewSrv(false)
		if derr != nil {
			r.Broken("sigfresh: dial-retry server: " + derr.Error())
			return res
		}
		nretry := c.Pick(12, 120)
		engine.ForEach(nretry, engine.Workers(), func(i int) { sfRunDialRetries(c, i, dsrv) })
		dsrv.s.Close()
		r.Require("dial_attempts_with_fresh_request", int64(nretry*3))
		r.Require("dial_retry_enrolled_after_authorization", int64(nretry))
	}

	// ---- promised coverage ------------------------------------------------------------
	nw := int64(len(jobs))
	r.Set("mutation_worlds", nw)
	r.Set("exhaustive_subspaces", []string{"single-bit flips of bundle and signature of each mutation world", "truncation lengths of bundle and signature of each mutation world"})
	r.Require("control_processed", int64(len(controls)+len(controls2)))
	r.Require("worlds", nw)
	r.Require("case_bundle_bitflip", r.Counter("bundle_bits_total"))
	r.Require("case_bundle_bitflip", 1000*nw)
	r.Require("case_signature_bitflip", 512*nw)
	r.Require("case_bundle_truncate", 120*nw)
	r.Require("case_signature_truncate", 64*nw)
	r.Require("case_bundle_extend", 8*nw)
	r.Require("case_signature_extend", 8*nw)
	r.Require("case_bundle_splice", int64(nsplice)*nw/2)
	r.Require("case_signature_splice", int64(nsplice)*nw/20)
	r.Require("case_resigned", int64(len(sfResignedList))*nw)
	r.Require("mutant_refusable_only_by_signature_check", 600*nw)
	r.Require("rejections_with_zero_storage_ops", 1800*nw)
	r.Require("window_expect_accept", 200)
	r.Require("window_accepted_as_expected", 200)
	r.Require("window_expect_reject_not-before", 200)
	r.Require("window_expect_reject_not-after", 200)
	r.Require("window_rejected_as_expected", 400)
	r.Require("window_accept_only_thanks_to_not_before_skew", 50)
	r.Require("window_accept_only_thanks_to_not_after_skew", 50)
	r.Require("window_reject_not_before_despite_skew", 50)
	r.Require("window_reject_not_after_despite_skew", 50)
	r.Require("created_not_before_in_bracket", int64(ncreate))
	r.Require("created_lifetime_exactly_24h", int64(ncreate))
	return res
}
