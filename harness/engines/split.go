package engines

// C17 — the split listener gives authenticated sub-listeners only
// authenticated connections. Every topology of registered sub-listeners x
// native setting x client kind; deliveries are attributed through a marker the
// client writes after the handshake.

import (
	"crypto/tls"
	"encoding/json"
	"errors"
	"fmt"
	"io"
	"net"
	"os"
	"runtime"
	"sort"
	"strings"
	"sync"
	"sync/atomic"
	"time"

	"github.com/hashicorp/nodeenrollment"
	nodenet "github.com/hashicorp/nodeenrollment/net"
	"github.com/hashicorp/nodeenrollment/protocol"
	nodetls "github.com/hashicorp/nodeenrollment/tls"

	"verifharness/engine"
	"verifharness/world"
)

func init() {
	engine.Register(&engine.Spec{Prop: "C17", Engine: "split", Level: "exploration", Fn: runSplit})
}

type splitCase struct {
	Topology []string `json:"registered_sublisteners"`
	Native   bool     `json:"native_conns"`
	Order    int      `json:"registration_order_seed"`
	// the base listener reports its closure with its own sentinel error instead of net.ErrClosed
	OwnSentinel bool `json:"base_listener_closes_with_own_sentinel,omitempty"`
	// LateConsumerMs: the applications behind the sub-listeners call Accept for the first time only this
	// long after the split listener started routing (a consumer that starts late, or backs off); a
	// routed connection has to wait for them
	LateConsumerMs int `json:"consumers_start_accepting_after_ms,omitempty"`
	// RegisterAfterStart: Start is already running when the sub-listeners are registered
	RegisterAfterStart bool `json:"sub_listeners_registered_after_start,omitempty"`
	// CloseLookedUp: a second handle for this registered name is obtained (other native setting) and closed
	// before routing starts
	CloseLookedUp string `json:"second_handle_closed_for,omitempty"`
	// IdleSub: one more sub-listener ("idle-sub") is registered whose application is not accepting at the moment
	// and for which no client asks; it only matters at the stop
	IdleSub bool `json:"one_registered_sublistener_without_consumer,omitempty"`
}

func registered0(names []string, n string) bool {
	for _, x := range names {
		if x == n {
			return true
		}
	}
	return false
}

type splitClient struct {
	Name   string   `json:"name"`
	Kind   string   `json:"kind"` // auth | base | fetch
	Extras []string `json:"protocols"`
	// Pref: where an authenticating client puts the library's certificate-preference entry:
	// "" last (as the library builds the list) | first | before-extras
	Pref string `json:"certificate_preference_position,omitempty"`
}

// splitFillers are n protocol names nobody registers
func splitFillers(n int) []string {
	out := make([]string, n)
	for i := range out {
		out[i] = fmt.Sprintf("unregistered-%02d", i)
	}
	return out
}

var splitClients = []splitClient{
	{Name: "auth-A-pref-first", Kind: "auth", Extras: []string{"A"}, Pref: "first"},
	{Name: "auth-B-A-pref-before-extras", Kind: "auth", Extras: []string{"B", "A"}, Pref: "before-extras"},
	{Name: "auth-C-pref-before-extras", Kind: "auth", Extras: []string{"C"}, Pref: "before-extras"},
	{Name: "auth-none-pref-first", Kind: "auth", Pref: "first"},
	{Name: "auth-many-then-A", Kind: "auth", Extras: append(splitFillers(24), "A")},
	{Name: "auth-many-then-B-pref-before-extras", Kind: "auth", Extras: append(splitFillers(40), "B"), Pref: "before-extras"},
	// a peer that breaks the handshake off with a fatal alert (it does not trust the certificate the server
	// presents for a fetch): the listener sees a network-level "remote error"; everybody after it must still be served
	{Name: "fetch-peer-sends-fatal-alert", Kind: "fetch-alert", Extras: nil},
	{Name: "auth-none", Kind: "auth", Extras: nil},
	{Name: "auth-A", Kind: "auth", Extras: []string{"A"}},
	{Name: "auth-B-A", Kind: "auth", Extras: []string{"B", "A"}},
	{Name: "auth-C", Kind: "auth", Extras: []string{"C"}},
	{Name: "auth-__AUTH__", Kind: "auth", Extras: []string{"__AUTH__"}},
	{Name: "auth-__UNAUTH__", Kind: "auth", Extras: []string{"__UNAUTH__"}},
	{Name: "base-none", Kind: "base", Extras: nil},
	{Name: "base-h2", Kind: "base", Extras: []string{"h2"}},
	{Name: "base-A", Kind: "base", Extras: []string{"A"}},
	{Name: "base-reserved", Kind: "base", Extras: []string{"__AUTH__", "__UNAUTH__"}},
	{Name: "base-B-then-__AUTH__", Kind: "base", Extras: []string{"B", "__AUTH__"}},
	{Name: "base-certpref", Kind: "base", Extras: []string{nodeenrollment.CertificatePreferenceV1Prefix + "zzz", "A"}},
	// base-TLS clients whose protocol names share the library's name space without being one of its three prefixes
	{Name: "base-namespace-lookalike-h2", Kind: "base", Extras: []string{"v1-nodee-healthcheck", "h2"}},
	{Name: "base-bare-namespace-A", Kind: "base", Extras: []string{"v1-nodee-", "A"}},
	{Name: "base-cut-short-authenticate-prefix", Kind: "base", Extras: []string{"v1-nodee-authenticate", "h2"}},
	{Name: "fetch-only", Kind: "fetch", Extras: nil},
	// fetch requests whose ClientHello lists other names in front of the request's entries
	{Name: "fetch-after-A", Kind: "fetch-extras-first", Extras: []string{"A"}},
	{Name: "fetch-after-unregistered-name", Kind: "fetch-extras-first", Extras: []string{"some-unregistered-name"}},
	// a peer without node credentials: its own (unauthorized) fetch request first, then the authentication
	// entries of an enrolled node copied from that node's ClientHello (they travel in clear), then a registered name
	{Name: "fetch-then-replayed-auth-A", Kind: "fetch-replay", Extras: []string{"A"}},
	{Name: "fetch-then-replayed-auth", Kind: "fetch-replay", Extras: nil},
}

type delivery struct {
	connID   string // identity of the delivered connection object
	listener string
	marker   string
	connType string
	negProto string
}

// splitStalledCases counts the cases in which a client met a listener that no longer answered
var splitStalledCases atomic.Int64

// runSplitConcurrentGet: several goroutines ask one split listener for the sub-listener of the same protocol for
// the first time, at the same moment. The registry is get-or-create: all of them must be handed the one
// listener that is registered (the one a later call returns, and the one connections are routed to).
func runSplitConcurrentGet(c *engine.Ctx, s *world.Server, trials, callers int) {
	r := c.R
	lw, err := world.NewLW(s, world.LWCfg{BaseTLS: baseTLSConfig(), NoAccept: true})
	if err != nil {
		r.Broken("listener: " + err.Error())
		return
	}
	defer lw.Close()
	for t := 0; t < trials; t++ {
		sl, err := nodenet.NewSplitListener(lw.IL)
		if err != nil {
			r.Broken("split listener: " + err.Error())
			return
		}
		name := fmt.Sprintf("proto-%d", t)
		got := make([]net.Listener, callers)
		errs := make([]error, callers)
		var ready, wg sync.WaitGroup
		start := make(chan struct{})
		for i := 0; i < callers; i++ {
			ready.Add(1)
			wg.Add(1)
			go func(i int) {
				defer wg.Done()
				ready.Done()
				<-start
				got[i], errs[i] = sl.GetListener(name, nodeenrollment.WithNativeConns(i%2 == 0))
			}(i)
		}
		ready.Wait()
		close(start)
		wg.Wait()
		registered, rerr := sl.GetListener(name)
		r.Eval(fmt.Sprintf("concurrent-get trial=%d callers=%d", t, callers), true)
		bad := false
		for i := range got {
			switch {
			case errs[i] != nil || rerr != nil:
				r.Violation("concurrent-get-listener-failed", fmt.Sprintf("GetListener failed under %d simultaneous first-time calls: %v %v", callers, errs[i], rerr), map[string]any{"trial": t, "callers": callers})
				bad = true
			case got[i] != registered:
				r.Violation("sub-listener-registry-not-get-or-create", fmt.Sprintf("of %d simultaneous first-time GetListener calls for one protocol, caller %d was handed a listener that is not the registered one: connections for that protocol never reach it", callers, i), map[string]any{"trial": t, "callers": callers})
				bad = true
			}
			if bad {
				break
			}
		}
		if !bad {
			r.Count("concurrent_first_time_lookups_all_got_the_registered_listener", 1)
		}
		_ = registered.Close()
		for _, l := range got {
			if l != nil && l != registered {
				_ = l.Close()
			}
		}
		if bad {
			return
		}
	}
}

func runSplitCase(c *engine.Ctx, s *world.Server, node *world.Node, sc splitCase) {
	r := c.R
	engine.LogInput("C17 %s", engine.J(sc))
	lc := world.LWCfg{BaseTLS: baseTLSConfig(), NoAccept: true}
	if sc.OwnSentinel {
		// a base listener that announces closure with its own error (as multiplexing and
		// in-memory listeners do), not one wrapping net.ErrClosed
		lc.BaseCloseErr = errors.New("mux: listener closed")
	}
	if sc.Order%3 == 2 {
		// the application shares one option list between its upstream Dial and this listener: it carries extra
		// protocol names (registered ones among them); routing goes by what each client offered, not by this
		lc.Options = s.Opts(nodeenrollment.WithExtraAlpnProtos([]string{"A", "B", "C"}))
		lc.OptionsSet = true
		r.Count("topologies_with_extra_protocols_in_listener_options", 1)
	}
	lw, err := world.NewLW(s, lc)
	if err != nil {
		r.Broken("listener: " + err.Error())
		return
	}
	sl, err := nodenet.NewSplitListener(lw.IL)
	if err != nil {
		r.Broken("split listener: " + err.Error())
		return
	}
	// register sub-listeners (order shuffled by seed)
	names := append([]string{}, sc.Topology...)
	rng := c.Rng(fmt.Sprintf("split-order-%d", sc.Order))
	rng.Shuffle(len(names), func(i, j int) { names[i], names[j] = names[j], names[i] })
	subs := map[string]net.Listener{}
	var mu sync.Mutex
	var deliveries []delivery
	var held []net.Conn
	closedReports := map[string]error{}
	var subWG sync.WaitGroup
	startDone := make(chan error, 1)
	if sc.RegisterAfterStart {
		// the application starts routing first and registers its sub-listeners while Start is already running
		// (GetListener allows that until the base listener is closed)
		go func() { startDone <- sl.Start() }()
		time.Sleep(150 * time.Millisecond)
		r.Count("topologies_registered_after_start", 1)
	}
	for _, name := range names {
		ln, err := sl.GetListener(name, nodeenrollment.WithNativeConns(sc.Native))
		if err != nil {
			r.Broken("GetListener: " + err.Error())
			return
		}
		subs[name] = ln
		subWG.Add(1)
		go func(name string, ln net.Listener) {
			defer subWG.Done()
			if sc.LateConsumerMs > 0 {
				time.Sleep(time.Duration(sc.LateConsumerMs) * time.Millisecond)
			}
			for {
				conn, err := ln.Accept()
				if err != nil {
					mu.Lock()
					closedReports[name] = err
					mu.Unlock()
					return
				}
				d := delivery{listener: name, connType: fmt.Sprintf("%T", conn), connID: fmt.Sprintf("%p", conn)}
				switch tc := conn.(type) {
				case *protocol.Conn:
					d.negProto = tc.Conn.ConnectionState().NegotiatedProtocol
				case *tls.Conn:
					d.negProto = tc.ConnectionState().NegotiatedProtocol
				}
				_ = conn.SetDeadline(time.Now().Add(20 * time.Second))
				buf := make([]byte, 16)
				if _, err := io.ReadFull(conn, buf); err == nil {
					d.marker = strings.TrimSpace(string(buf))
				}
				mu.Lock()
				deliveries = append(deliveries, d)
				held = append(held, conn) // keeps the object alive, so that its address identifies it for the whole case
				mu.Unlock()
				_, _ = conn.Write([]byte("K"))
				conn.Close()
			}
		}(name, ln)
	}
	if sc.IdleSub {
		ln, err := sl.GetListener("idle-sub", nodeenrollment.WithNativeConns(sc.Native))
		if err != nil {
			r.Broken("GetListener (idle): " + err.Error())
			return
		}
		subs["idle-sub"] = ln
		r.Count("topologies_with_an_idle_sublistener", 1)
	}
	if sc.Order%2 == 1 {
		// another component looks the registered names up again, without or with the opposite native-connection
		// setting, and does not use what it gets: the sub-listeners keep what they were registered with
		for _, name := range names {
			if _, err := sl.GetListener(name, nodeenrollment.WithNativeConns(!sc.Native)); err != nil {
				r.Broken("second GetListener: " + err.Error())
				return
			}
			if _, err := sl.GetListener(name); err != nil {
				r.Broken("third GetListener: " + err.Error())
				return
			}
		}
		r.Count("topologies_with_repeated_lookups", 1)
	}
	if sc.CloseLookedUp != "" && registered0(names, sc.CloseLookedUp) {
		// another component looks a registered name up with the other native setting and closes what it got:
		// whatever that handle is, connections for that name are from now on closed, and nothing else changes
		if h, err := sl.GetListener(sc.CloseLookedUp, nodeenrollment.WithNativeConns(!sc.Native)); err == nil {
			_ = h.Close()
			r.Count("topologies_with_a_closed_second_handle", 1)
		}
	}
	if !sc.RegisterAfterStart {
		go func() { startDone <- sl.Start() }()
	}

	roots, _ := s.Roots()
	_ = roots
	registered := map[string]bool{}
	for _, n := range sc.Topology {
		registered[n] = true
	}
	closedName := ""
	if sc.CloseLookedUp != "" && registered[sc.CloseLookedUp] {
		closedName = sc.CloseLookedUp
	}

	stalled := false
	for ci, cl := range splitClients {
		marker := fmt.Sprintf("%-16s", fmt.Sprintf("m%d-%s", ci, cl.Name))[:16]
		var cfg *tls.Config
		switch cl.Kind {
		case "auth":
			var opts []nodeenrollment.Option
			if cl.Extras != nil {
				opts = append(opts, nodeenrollment.WithExtraAlpnProtos(cl.Extras))
			}
			cfgs, err := nodetls.ClientConfigs(s.Ctx, node.Creds, opts...)
			if err != nil || len(cfgs) == 0 {
				r.Broken(fmt.Sprintf("client configs: %v", err))
				continue
			}
			cfg = cfgs[0]
			if cl.Pref != "" {
				cfg = cfg.Clone()
				var pref string
				var rest []string
				for _, e := range cfg.NextProtos {
					if strings.HasPrefix(e, nodeenrollment.CertificatePreferenceV1Prefix) && pref == "" {
						pref = e
						continue
					}
					rest = append(rest, e)
				}
				switch {
				case pref == "":
				case cl.Pref == "first":
					cfg.NextProtos = append([]string{pref}, rest...)
				default:
					k := len(rest) - len(cl.Extras)
					cfg.NextProtos = append(append(append([]string{}, rest[:k]...), pref), rest[k:]...)
				}
			}
		case "base":
			cfg = &tls.Config{NextProtos: cl.Extras, InsecureSkipVerify: true, MinVersion: tls.VersionTLS12}
		case "fetch", "fetch-alert", "fetch-replay", "fetch-extras-first":
			n := world.MustNode(false, "")
			req, _ := n.FetchRequest()
			cs := world.ClientSpec{Protos: world.FetchProtos(req)}
			if cl.Kind == "fetch-extras-first" {
				cs.Protos = append(append([]string{}, cl.Extras...), cs.Protos...)
			}
			if cl.Kind == "fetch-replay" {
				if cfgs, err := nodetls.ClientConfigs(s.Ctx, node.Creds); err == nil && len(cfgs) > 0 {
					for _, e := range cfgs[0].NextProtos {
						if strings.HasPrefix(e, nodeenrollment.AuthenticateNodeNextProtoV1Prefix) {
							cs.Protos = append(cs.Protos, e)
						}
					}
				}
				cs.Protos = append(cs.Protos, cl.Extras...)
			}
			cfg = &tls.Config{NextProtos: cs.Protos, InsecureSkipVerify: true, MinVersion: tls.VersionTLS13}
			k := n.K
			now := time.Now()
			der := world.MintSelfSigned(k, world.LeafSpec{SubjectKeyID: k.Pkix, DNSNames: []string{nodeenrollment.CommonDnsName}, NotBefore: now.Add(-time.Minute), NotAfter: now.Add(time.Minute)})
			cert := &tls.Certificate{Certificate: [][]byte{der}, PrivateKey: k.Priv}
			cfg.GetClientCertificate = func(*tls.CertificateRequestInfo) (*tls.Certificate, error) { return cert, nil }
			if cl.Kind == "fetch-alert" {
				cfg.InsecureSkipVerify, cfg.ServerName = false, "not-the-name-in-the-server-certificate.example"
			}
		}
		raw, err := net.Dial("tcp", lw.Addr)
		if err != nil {
			r.Broken("dial: " + err.Error())
			continue
		}
		// generous for the first client that meets a listener that no longer answers, short after that:
		// the verdicts do not depend on it, and a dead listener must not eat the watchdog's budget
		wait := 30 * time.Second
		switch {
		case stalled:
			wait = time.Second
		case splitStalledCases.Load() >= 3:
			wait = 3 * time.Second
		}
		_ = raw.SetDeadline(time.Now().Add(wait))
		tc := tls.Client(raw, cfg)
		acked := false
		herr := tc.Handshake()
		var ne net.Error
		if errors.As(herr, &ne) && ne.Timeout() {
			if !stalled {
				splitStalledCases.Add(1)
			}
			stalled = true
			r.Count("client_handshakes_timed_out", 1)
		}
		if err := herr; err == nil {
			if _, err := tc.Write([]byte(marker)); err == nil {
				one := make([]byte, 1)
				if n, _ := tc.Read(one); n == 1 && one[0] == 'K' {
					acked = true
				}
			}
		}
		raw.Close()

		// ---- verdict for this client -----------------------------------------
		desc := fmt.Sprintf("%v native=%v %s", sc.Topology, sc.Native, cl.Name)
		r.Eval(desc, true)
		mu.Lock()
		var mine []delivery
		for _, d := range deliveries {
			if d.marker == strings.TrimSpace(marker) {
				mine = append(mine, d)
			}
		}
		mu.Unlock()
		witness := map[string]any{"topology": sc, "client": cl}
		var allowed []string
		switch cl.Kind {
		case "auth":
			for _, e := range cl.Extras {
				if registered[e] {
					allowed = append(allowed, e)
				}
			}
			if len(allowed) == 0 && registered[nodenet.AuthenticatedNonSpecificNextProto] {
				allowed = []string{nodenet.AuthenticatedNonSpecificNextProto}
			}
		case "base":
			if registered[nodenet.UnauthenticatedNextProto] {
				allowed = []string{nodenet.UnauthenticatedNextProto}
			}
		}
		if closedName != "" {
			// the sub-listener the router would pick first may be the closed one: then the connection is closed
			touches := false
			for _, a := range allowed {
				if a == closedName {
					touches = true
				}
			}
			if touches {
				if len(mine) == 0 {
					r.Count("closed_because_the_sub_listener_was_closed", 1)
					continue
				}
				if mine[0].listener == closedName {
					r.Violation("delivered-by-closed-sub-listener", fmt.Sprintf("%s came out of sub-listener %q after it had been closed", cl.Name, closedName), witness)
					continue
				}
			}
		}
		if len(mine) > 1 {
			r.Violation("delivered-twice", fmt.Sprintf("connection of %s was delivered %d times", cl.Name, len(mine)), witness)
		}
		if len(mine) == 0 {
			if len(allowed) > 0 {
				r.Violation("not-delivered:"+cl.Kind, fmt.Sprintf("%s should have been delivered to one of %v but was closed (acked=%v)", cl.Name, allowed, acked), witness)
			} else {
				r.Count("closed_as_expected:"+cl.Kind, 1)
			}
			continue
		}
		d := mine[0]
		ok := false
		for _, a := range allowed {
			if a == d.listener {
				ok = true
			}
		}
		if !ok {
			r.Violation("misrouted:"+cl.Kind+"->"+classOfListener(d.listener), fmt.Sprintf("%s was delivered to sub-listener %q; allowed: %v", cl.Name, d.listener, allowed), witness)
		} else {
			r.Count("delivered_as_expected:"+cl.Kind+"->"+classOfListener(d.listener), 1)
		}
		if d.listener != nodenet.UnauthenticatedNextProto && !strings.HasPrefix(d.negProto, nodeenrollment.AuthenticateNodeNextProtoV1Prefix) {
			r.Violation("unauthenticated-on-authenticated-sublistener", fmt.Sprintf("sub-listener %q handed out a connection that negotiated %q", d.listener, d.negProto), witness)
		}
		wantType := "*tls.Conn"
		if sc.Native {
			wantType = "*protocol.Conn"
		}
		if d.connType != wantType {
			r.Violation("wrong-conn-type:native="+fmt.Sprint(sc.Native), fmt.Sprintf("sub-listener %q returned %s, want %s", d.listener, d.connType, wantType), witness)
		} else {
			r.Count("conn_type_as_requested", 1)
		}
	}

	// one connection object must come out of one sub-listener only
	mu.Lock()
	seenConn := map[string]string{}
	for _, d := range deliveries {
		if prev, dup := seenConn[d.connID]; dup && prev != d.listener {
			r.Violation("delivered-twice", fmt.Sprintf("one connection was handed out by two sub-listeners (%q and %q)", prev, d.listener), sc)
			break
		}
		seenConn[d.connID] = d.listener
	}
	_ = held
	mu.Unlock()

	// ---- shutdown: every sub-listener must report closed -----------------------
	_ = lw.IL.Close()
	watchdog := time.After(30 * time.Second)
waitStart:
	for {
		select {
		case <-startDone:
			break waitStart
		case <-watchdog:
			r.Inconclusive("SplitListener.Start did not return 30 s after the base listener was closed")
			return
		case <-time.After(2 * time.Millisecond):
			// decided on steps, not on time: Start has called Accept on the closed base listener
			// a thousand times and is still running, so it will never close the sub-listeners
			if n := lw.TL.AcceptsAfterClose.Load(); n >= 1000 {
				r.Violation("sublistener-not-closed:start-keeps-accepting", fmt.Sprintf("after the base listener was closed (closure reported with its own sentinel: %v) Start kept calling Accept (%d calls) instead of closing the sub-listeners", sc.OwnSentinel, n), sc)
				return
			}
		}
	}
	if sc.OwnSentinel {
		r.Count("base_listener_closed_with_own_sentinel", 1)
	}
	if sc.LateConsumerMs > 0 {
		r.Count("topologies_with_late_consumers", 1)
	}
	done := make(chan struct{})
	go func() { subWG.Wait(); close(done) }()
	select {
	case <-done:
		mu.Lock()
		for name, err := range closedReports {
			if !errors.Is(err, net.ErrClosed) {
				r.Violation("sublistener-close-error", fmt.Sprintf("sub-listener %q reported %v instead of net.ErrClosed after the base listener closed", name, err), sc)
			} else {
				r.Count("sublisteners_reported_closed", 1)
			}
		}
		mu.Unlock()
	case <-time.After(30 * time.Second):
		r.Violation("sublistener-not-closed", "a sub-listener's Accept did not return after the base listener was closed and Start returned", sc)
	}
	// ---- after the stop: a connection the application still hands to a sub-listener (IngressConn is its
	// public entry) is closed at once; no consumer accepts any more, so a sender that gets parked now stays parked
	for name, ln := range subs {
		mx, ok := ln.(*nodenet.MultiplexingListener)
		if !ok {
			continue
		}
		a, b := net.Pipe()
		ret := make(chan struct{})
		go func() { mx.IngressConn(a, nil); close(ret) }()
		select {
		case <-ret:
			_ = b.SetReadDeadline(time.Now().Add(20 * time.Second))
			if _, err := b.Read(make([]byte, 1)); err == nil || errors.Is(err, os.ErrDeadlineExceeded) {
				r.Violation("ingress-after-stop-not-closed", fmt.Sprintf("a connection handed to sub-listener %q after Start had returned (base listener closed with its own sentinel: %v) was taken and not closed, and no consumer is left to accept it", name, sc.OwnSentinel), sc)
			} else {
				r.Count("ingress_after_stop_closed", 1)
			}
		case <-time.After(20 * time.Second):
			if strings.Contains(splitGoroutines(), "MultiplexingListener).IngressConn") {
				r.Violation("ingress-after-stop-stranded", fmt.Sprintf("IngressConn on sub-listener %q, called after Start had returned (base listener closed with its own sentinel: %v), is parked on the sub-listener's channel: the sub-listener was never closed, nobody accepts from it any more, and the connection is neither returned nor closed", name, sc.OwnSentinel), sc)
			} else {
				r.Inconclusive("IngressConn after the stop did not return within 20 s and is not parked in the library")
			}
			_ = a.Close()
		}
		_ = b.Close()
	}
	if _, err := sl.GetListener("late"); err == nil {
		// documented as "don't"; not part of the statement, only counted
		r.Count("getlistener_after_close_succeeded", 1)
	}
}

func classOfListener(n string) string {
	switch n {
	case nodenet.UnauthenticatedNextProto:
		return "unauth"
	case nodenet.AuthenticatedNonSpecificNextProto:
		return "nonspecific"
	}
	return "specific"
}

func runSplit(c *engine.Ctx) engine.Result {
	r := c.R
	res := engine.Result{
		Rule:        "case = (set of registered sub-listeners out of {A, B, __AUTH__, __UNAUTH__}, native setting, client kind out of 13) = one real connection through InterceptingListener + SplitListener; all 16 x 2 x 13 combinations are run; non-trivial = all (each connection's fate is attributed through its marker); distinct by descriptor.",
		Exhaustive:  true,
		Assumptions: []string{"the application's base TLS configuration offers the names h2, A, B, C, __AUTH__, __UNAUTH__ but no library-prefixed name", "an authenticated client that itself offers a reserved name that is registered may be delivered there (the statement allows it)"},
	}
	s := world.MustServer(world.ServerCfg{Backend: world.Inmem})
	defer s.Close()
	er, err := world.Enroll(s, world.FlowAuthorize, false, nil, nil, nil)
	if err != nil {
		r.Broken(err.Error())
		return res
	}
	if c.Replay != nil {
		var w struct {
			Topology splitCase `json:"topology"`
		}
		var sc splitCase
		if json.Unmarshal(c.Replay, &w) == nil && (len(w.Topology.Topology) > 0 || w.Topology.Native) {
			sc = w.Topology
		} else {
			_ = json.Unmarshal(c.Replay, &sc)
		}
		runSplitCase(c, s, er.Node, sc)
		return res
	}
	all := []string{"A", "B", nodenet.AuthenticatedNonSpecificNextProto, nodenet.UnauthenticatedNextProto}
	var cases []splitCase
	reps := c.Pick(4, 40)
	for rep := 0; rep < reps; rep++ {
		for mask := 0; mask < 16; mask++ {
			var topo []string
			for i, n := range all {
				if mask&(1<<i) != 0 {
					topo = append(topo, n)
				}
			}
			sort.Strings(topo)
			for _, native := range []bool{false, true} {
				cases = append(cases, splitCase{Topology: topo, Native: native, Order: rep, OwnSentinel: (mask+rep)%2 == 1})
			}
		}
	}
	// consumers that start accepting late: 3 s once (quick), and 3 s and 7 s in three topologies (thorough)
	late := []splitCase{{Topology: []string{"A", nodenet.AuthenticatedNonSpecificNextProto, nodenet.UnauthenticatedNextProto}, LateConsumerMs: 3000}}
	if !c.Quick() {
		late = append(late, splitCase{Topology: []string{"A", "B"}, Native: true, LateConsumerMs: 7000},
			splitCase{Topology: []string{nodenet.AuthenticatedNonSpecificNextProto}, LateConsumerMs: 3000, OwnSentinel: true})
	}
	cases = append(cases, late...)
	// a registered sub-listener nobody is accepting from when the base listener goes away (both ways of going away)
	for i, topo := range [][]string{{"A", nodenet.AuthenticatedNonSpecificNextProto}, {nodenet.UnauthenticatedNextProto}, {"A", "B", nodenet.AuthenticatedNonSpecificNextProto, nodenet.UnauthenticatedNextProto}} {
		cases = append(cases, splitCase{Topology: topo, Native: i%2 == 0, Order: 50 + i, OwnSentinel: true, IdleSub: true},
			splitCase{Topology: topo, Native: i%2 == 1, Order: 60 + i, IdleSub: true})
	}
	// sub-listeners registered while Start is already running
	for i, topo := range [][]string{
		{"A", nodenet.AuthenticatedNonSpecificNextProto, nodenet.UnauthenticatedNextProto},
		{nodenet.AuthenticatedNonSpecificNextProto},
		{nodenet.UnauthenticatedNextProto, "B"},
		{"A", "B", "C"},
	} {
		cases = append(cases, splitCase{Topology: topo, Native: i%2 == 1, RegisterAfterStart: true, Order: i})
	}
	for _, n := range []string{"A", nodenet.AuthenticatedNonSpecificNextProto, nodenet.UnauthenticatedNextProto} {
		for _, native := range []bool{false, true} {
			cases = append(cases, splitCase{Topology: []string{"A", "B", nodenet.AuthenticatedNonSpecificNextProto, nodenet.UnauthenticatedNextProto}, Native: native, CloseLookedUp: n})
		}
	}
	r.Sample(cases[5])
	r.Sample(map[string]any{"clients": splitClients})
	engine.ForEach(len(cases), engine.Workers(), func(i int) { runSplitCase(c, s, er.Node, cases[i]) })
	runSplitConcurrentGet(c, s, c.Pick(300, 3000), 8)
	r.Require("concurrent_first_time_lookups_all_got_the_registered_listener", 100)
	r.Require("delivered_as_expected:auth->specific", 10)
	r.Require("delivered_as_expected:auth->nonspecific", 10)
	r.Require("delivered_as_expected:base->unauth", 10)
	r.Require("closed_as_expected:auth", 5)
	r.Require("closed_as_expected:base", 5)
	r.Require("closed_as_expected:fetch", 5)
	r.Require("sublisteners_reported_closed", 10)
	r.Require("base_listener_closed_with_own_sentinel", 10)
	r.Require("topologies_with_late_consumers", 1)
	r.Require("topologies_registered_after_start", 4)
	r.Require("topologies_with_repeated_lookups", 10)
	r.Require("topologies_with_extra_protocols_in_listener_options", 10)
	r.Require("topologies_with_a_closed_second_handle", 6)
	return res
}

func splitGoroutines() string {
	buf := make([]byte, 8<<20)
	return string(buf[:runtime.Stack(buf, true)])
}
