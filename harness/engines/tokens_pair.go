//go:build verif

package engines

import (
	"context"
	"fmt"
	"sync"
	"time"

	"github.com/hashicorp/nodeenrollment"
	"github.com/hashicorp/nodeenrollment/registration"
	"github.com/hashicorp/nodeenrollment/types"

	"verifharness/engine"
	"verifharness/world"
)

// tokens_pair.go : one token presented by two node keys whose fetches overlap. The library removes the token
// before it authorizes and relies on the storage to report a removal of something that is no longer there
// (register_server_led.go says so); the file back end does report it, so there the second removal fails and the
// token enrolls one node whatever the interleaving. The in-memory back end's Remove of an absent entry succeeds,
// which the library documents as the storage's business: there the outcome is only counted.
//
// The schedule is fixed, not timed: fetch A is parked at its removal of the token record (after it loaded and
// accepted the token), fetch B runs to its end, then A goes on.

type tkPairGate struct {
	nodeenrollment.Storage
	mu      sync.Mutex
	armed   bool
	arrived chan struct{}
	release chan struct{}
}

func (g *tkPairGate) Remove(ctx context.Context, m nodeenrollment.MessageWithId) error {
	if _, ok := m.(*types.ServerLedActivationToken); ok {
		g.mu.Lock()
		park := g.armed
		g.armed = false
		arrived, release := g.arrived, g.release
		g.mu.Unlock()
		if park {
			close(arrived)
			<-release
		}
	}
	return g.Storage.Remove(ctx, m)
}

type tkPairCase struct {
	Backend string `json:"backend"`
	Wrap    bool   `json:"storage_wrapper"`
	Seq     int    `json:"seq"`
}

func runTokensPair(c *engine.Ctx, pc tkPairCase) {
	r := c.R
	be := world.Inmem
	if pc.Backend == "file" {
		be = world.File
	}
	gate := &tkPairGate{}
	s, err := world.NewServer(world.ServerCfg{Backend: be, StorageWrap: pc.Wrap, Wrap: func(in nodeenrollment.Storage) nodeenrollment.Storage {
		gate.Storage = in
		return gate
	}})
	if err != nil {
		r.Broken("tokens pair: server world: " + err.Error())
		return
	}
	defer s.Close()
	_, tok, err := registration.CreateServerLedActivationToken(s.Ctx, s.Store, &types.ServerLedRegistrationRequest{}, s.Opts()...)
	if err != nil {
		r.Broken("tokens pair: create token: " + err.Error())
		return
	}
	mk := func() (*world.Node, *types.FetchNodeCredentialsRequest) {
		n, err := world.NewNode(false, "")
		if err != nil {
			return nil, nil
		}
		req, err := n.Creds.CreateFetchNodeCredentialsRequest(s.Ctx, nodeenrollment.WithActivationToken(tok))
		if err != nil {
			return nil, nil
		}
		return n, req
	}
	na, reqA := mk()
	nb, reqB := mk()
	if reqA == nil || reqB == nil {
		r.Broken("tokens pair: node / request creation failed")
		return
	}
	type out struct {
		ok bool
		p  any
	}
	fetch := func(req *types.FetchNodeCredentialsRequest) out {
		var resp *types.FetchNodeCredentialsResponse
		var ferr error
		p, _ := engine.Guard(func() {
			resp, ferr = registration.FetchNodeCredentials(s.Ctx, s.Store, req, s.Opts()...)
		})
		return out{ok: p == nil && ferr == nil && resp != nil && len(resp.EncryptedNodeCredentials) > 0, p: p}
	}
	gate.mu.Lock()
	gate.armed, gate.arrived, gate.release = true, make(chan struct{}), make(chan struct{})
	gate.mu.Unlock()
	aDone := make(chan out, 1)
	go func() { aDone <- fetch(reqA) }()
	var a, b out
	select {
	case <-gate.arrived:
		b = fetch(reqB)
		close(gate.release)
		select {
		case a = <-aDone:
		case <-time.After(60 * time.Second):
			r.Inconclusive("tokens pair: the parked fetch did not finish 60 s after its release")
			return
		}
	case a = <-aDone:
		// the first fetch never came to remove the token (refused earlier): nothing was interleaved
		r.Count("pair:first-fetch-ended-before-its-token-removal", 1)
		close(gate.release)
		b = fetch(reqB)
	case <-time.After(60 * time.Second):
		r.Inconclusive("tokens pair: the first fetch neither reached its token removal nor ended within 60 s")
		close(gate.release)
		return
	}
	recs := 0
	for _, n := range []*world.Node{na, nb} {
		id, _ := nodeenrollment.KeyIdFromPkix(n.K.Pkix)
		if err := gate.Storage.Load(s.Ctx, &types.NodeInformation{Id: id}); err == nil {
			recs++
		}
	}
	r.Eval(engine.J(pc), true)
	r.Count("pair:histories:"+pc.Backend, 1)
	enrolled := 0
	if a.ok {
		enrolled++
	}
	if b.ok {
		enrolled++
	}
	r.Count(fmt.Sprintf("pair:%s:enrolled=%d,records=%d", pc.Backend, enrolled, recs), 1)
	if enrolled < 2 && recs < 2 {
		if enrolled == 0 {
			r.Count("pair:token-enrolled-nobody:"+pc.Backend, 1)
		}
		return
	}
	if pc.Backend == "file" {
		r.Violation("token-enrolled-two-nodes:overlapping-fetches:file",
			fmt.Sprintf("on the file back end, which reports the removal of a record that is already gone, one token presented by two node keys in overlapping fetches (the first parked at its removal of the token, the second run to its end, the first released) produced %d credential responses and %d node records", enrolled, recs), pc)
		return
	}
	// in-memory back end: removing what is not there succeeds, and the library leaves single use under
	// overlapping fetches to the storage (register_server_led.go: "it's up to the storage implementation")
	r.Count("observation:overlapping-fetches-one-token-two-nodes:inmem", 1)
}

func runTokensPairs(c *engine.Ctx) {
	n := c.Pick(12, 60)
	var cases []tkPairCase
	for i := 0; i < n; i++ {
		be := "file"
		if i%3 == 2 {
			be = "inmem"
		}
		cases = append(cases, tkPairCase{Backend: be, Wrap: i%2 == 0, Seq: i})
	}
	engine.ForEach(len(cases), engine.Workers(), func(i int) { runTokensPair(c, cases[i]) })
}
