//go:build verif

package engines

import (
	"bytes"
	"context"
	"crypto/x509"
	"fmt"
	"sync"
	"time"

	"github.com/hashicorp/nodeenrollment"
	"github.com/hashicorp/nodeenrollment/registration"
	"github.com/hashicorp/nodeenrollment/types"
	"google.golang.org/protobuf/proto"

	"verifharness/engine"
	"verifharness/world"
)

// tokens_pair.go : one token presented by two node keys whose fetches overlap. The library removes the token
// before it authorizes and relies on the storage to report a removal of something that is no longer there
// (register_server_led.go says so); the file back end does report it, so there the second removal fails and the
// token enrolls one node whatever the interleaving. The in-memory back end's Remove of an absent entry succeeds,
// which the library documents as the storage's business: there the outcome is only counted.
//
// The schedule is fixed, not timed: fetch A is parked at its removal of the token record (after it loaded and
// accepted the token), fetch B runs to its end, then A goes on.

type tkPairGate struct {
	nodeenrollment.Storage
	mu      sync.Mutex
	armed   bool
	arrived chan struct{}
	release chan struct{}
}

func (g *tkPairGate) Remove(ctx context.Context, m nodeenrollment.MessageWithId) error {
	if _, ok := m.(*types.ServerLedActivationToken); ok {
		g.mu.Lock()
		park := g.armed
		g.armed = false
		arrived, release := g.arrived, g.release
		g.mu.Unlock()
		if park {
			close(arrived)
			<-release
		}
	}
	return g.Storage.Remove(ctx, m)
}

type tkPairCase struct {
	Backend string `json:"backend"`
	Wrap    bool   `json:"storage_wrapper"`
	Seq     int    `json:"seq"`
}

func runTokensPair(c *engine.Ctx, pc tkPairCase) {
	r := c.R
	be := world.Inmem
	if pc.Backend == "file" {
		be = world.File
	}
	gate := &tkPairGate{}
	s, err := world.NewServer(world.ServerCfg{Backend: be, StorageWrap: pc.Wrap, Wrap: func(in nodeenrollment.Storage) nodeenrollment.Storage {
		gate.Storage = in
		return gate
	}})
	if err != nil {
		r.Broken("tokens pair: server world: " + err.Error())
		return
	}
	defer s.Close()
	_, tok, err := registration.CreateServerLedActivationToken(s.Ctx, s.Store, &types.ServerLedRegistrationRequest{}, s.Opts()...)
	if err != nil {
		r.Broken("tokens pair: create token: " + err.Error())
		return
	}
	mk := func() (*world.Node, *types.FetchNodeCredentialsRequest) {
		n, err := world.NewNode(false, "")
		if err != nil {
			return nil, nil
		}
		req, err := n.Creds.CreateFetchNodeCredentialsRequest(s.Ctx, nodeenrollment.WithActivationToken(tok))
		if err != nil {
			return nil, nil
		}
		return n, req
	}
	na, reqA := mk()
	nb, reqB := mk()
	if reqA == nil || reqB == nil {
		r.Broken("tokens pair: node / request creation failed")
		return
	}
	type out struct {
		ok bool
		p  any
	}
	fetch := func(req *types.FetchNodeCredentialsRequest) out {
		var resp *types.FetchNodeCredentialsResponse
		var ferr error
		p, _ := engine.Guard(func() {
			resp, ferr = registration.FetchNodeCredentials(s.Ctx, s.Store, req, s.Opts()...)
		})
		return out{ok: p == nil && ferr == nil && resp != nil && len(resp.EncryptedNodeCredentials) > 0, p: p}
	}
	gate.mu.Lock()
	gate.armed, gate.arrived, gate.release = true, make(chan struct{}), make(chan struct{})
	gate.mu.Unlock()
	aDone := make(chan out, 1)
	go func() { aDone <- fetch(reqA) }()
	var a, b out
	select {
	case <-gate.arrived:
		b = fetch(reqB)
		close(gate.release)
		select {
		case a = <-aDone:
		case <-time.After(60 * time.Second):
			r.Inconclusive("tokens pair: the parked fetch did not finish 60 s after its release")
			return
		}
	case a = <-aDone:
		// the first fetch never came to remove the token (refused earlier): nothing was interleaved
		r.Count("pair:first-fetch-ended-before-its-token-removal", 1)
		close(gate.release)
		b = fetch(reqB)
	case <-time.After(60 * time.Second):
		r.Inconclusive("tokens pair: the first fetch neither reached its token removal nor ended within 60 s")
		close(gate.release)
		return
	}
	// a third key presents the token once both have ended: however the pair went, the token has been spent
	if nc, reqC := mk(); reqC != nil {
		if third := fetch(reqC); third.ok {
			r.Violation("token-reused:after-overlapping-fetches:"+pc.Backend, fmt.Sprintf("after two overlapping fetches had presented the token (first: answered=%v, second: answered=%v) a third key presented it and was answered with credentials: the token was spent and is usable again", a.ok, b.ok), pc)
			return
		}
		_ = nc
		r.Count("pair:third_presentation_refused", 1)
	}
	recs := 0
	for _, n := range []*world.Node{na, nb} {
		id, _ := nodeenrollment.KeyIdFromPkix(n.K.Pkix)
		if err := gate.Storage.Load(s.Ctx, &types.NodeInformation{Id: id}); err == nil {
			recs++
		}
	}
	r.Eval(engine.J(pc), true)
	r.Count("pair:histories:"+pc.Backend, 1)
	enrolled := 0
	if a.ok {
		enrolled++
	}
	if b.ok {
		enrolled++
	}
	r.Count(fmt.Sprintf("pair:%s:enrolled=%d,records=%d", pc.Backend, enrolled, recs), 1)
	if enrolled < 2 && recs < 2 {
		if enrolled == 0 {
			r.Count("pair:token-enrolled-nobody:"+pc.Backend, 1)
		}
		return
	}
	if pc.Backend == "file" {
		r.Violation("token-enrolled-two-nodes:overlapping-fetches:file",
			fmt.Sprintf("on the file back end, which reports the removal of a record that is already gone, one token presented by two node keys in overlapping fetches (the first parked at its removal of the token, the second run to its end, the first released) produced %d credential responses and %d node records", enrolled, recs), pc)
		return
	}
	// in-memory back end: removing what is not there succeeds, and the library leaves single use under
	// overlapping fetches to the storage (register_server_led.go: "it's up to the storage implementation")
	r.Count("observation:overlapping-fetches-one-token-two-nodes:inmem", 1)
}

func runTokensPairs(c *engine.Ctx) {
	n := c.Pick(12, 60)
	var cases []tkPairCase
	for i := 0; i < n; i++ {
		be := "file"
		if i%3 == 2 {
			be = "inmem"
		}
		cases = append(cases, tkPairCase{Backend: be, Wrap: i%2 == 0, Seq: i})
	}
	engine.ForEach(len(cases), engine.Workers(), func(i int) { runTokensPair(c, cases[i]) })
	for i := 0; i < c.Pick(6, 30); i++ {
		runTokensReencodedKey(c, i)
		runTokensRefusedAuthorization(c, i)
	}
	c.R.Require("reencoded:existing_record_unchanged", int64(c.Pick(5, 25)))
}

// runTokensReencodedKey: "it cannot enroll a key that already has a node record", for a presenter that writes
// the registered key in another DER encoding (an extra NULL at the end of the SubjectPublicKeyInfo sequence, which
// crypto/x509 parses to the very same key). Whatever the library makes of such a request - the unchanged tree
// treats the bytes as another key and files a second record under their own ID, which is counted as an
// observation - the record the key already has must stay as it is.
func runTokensReencodedKey(c *engine.Ctx, seq int) {
	r := c.R
	be := []string{world.Inmem, world.File, world.StoreOnce}[seq%3]
	var inner nodeenrollment.Storage
	s, err := world.NewServer(world.ServerCfg{Backend: be, StorageWrap: seq%2 == 0, Wrap: func(in nodeenrollment.Storage) nodeenrollment.Storage {
		inner = in
		return in
	}})
	if err != nil {
		r.Broken("tokens reencoded: server world: " + err.Error())
		return
	}
	defer s.Close()
	n, err := world.NewNode(false, "")
	if err != nil {
		r.Broken("tokens reencoded: node: " + err.Error())
		return
	}
	newTok := func() string {
		_, tok, err := registration.CreateServerLedActivationToken(s.Ctx, s.Store, &types.ServerLedRegistrationRequest{}, s.Opts()...)
		if err != nil {
			return ""
		}
		return tok
	}
	t1, t2 := newTok(), newTok()
	if t1 == "" || t2 == "" {
		r.Broken("tokens reencoded: token creation failed")
		return
	}
	req1, err := n.Creds.CreateFetchNodeCredentialsRequest(s.Ctx, nodeenrollment.WithActivationToken(t1))
	if err != nil {
		r.Broken("tokens reencoded: request: " + err.Error())
		return
	}
	if resp, err := registration.FetchNodeCredentials(s.Ctx, s.Store, req1, s.Opts()...); err != nil || resp == nil || len(resp.EncryptedNodeCredentials) == 0 {
		r.Broken(fmt.Sprintf("tokens reencoded: first enrollment failed: %v", err))
		return
	}
	id, _ := nodeenrollment.KeyIdFromPkix(n.K.Pkix)
	rawOf := func() []byte {
		ni := &types.NodeInformation{Id: id}
		if err := inner.Load(s.Ctx, ni); err != nil {
			return nil
		}
		b, _ := proto.MarshalOptions{Deterministic: true}.Marshal(ni)
		return b
	}
	before := rawOf()
	if before == nil || n.K.Pkix[0] != 0x30 || n.K.Pkix[1] >= 0x7e {
		r.Broken("tokens reencoded: no stored record / unexpected key encoding")
		return
	}
	re := append(append([]byte{}, n.K.Pkix...), 0x05, 0x00)
	re[1] += 2
	if pk, err := x509.ParsePKIXPublicKey(re); err != nil || !n.K.Pub.Equal(pk) {
		r.Count("reencoded:encoding-not-accepted-by-crypto-x509", 1)
		return
	}
	req2, err := n.Creds.CreateFetchNodeCredentialsRequest(s.Ctx, nodeenrollment.WithActivationToken(t2))
	if err != nil {
		r.Broken("tokens reencoded: second request: " + err.Error())
		return
	}
	req2 = world.Resign(req2, n.K.Priv, func(in *types.FetchNodeCredentialsInfo) { in.CertificatePublicKeyPkix = re })
	var resp *types.FetchNodeCredentialsResponse
	var ferr error
	p, stack := engine.Guard(func() { resp, ferr = registration.FetchNodeCredentials(s.Ctx, s.Store, req2, s.Opts()...) })
	tc := map[string]any{"kind": "reencoded-key", "backend": be, "seq": seq}
	r.Eval(engine.J(tc), true)
	if p != nil {
		r.Violation("panic:"+engine.LibraryFrame(stack), fmt.Sprintf("FetchNodeCredentials panicked on a re-encoded key: %v", p), tc)
		return
	}
	after := rawOf()
	answered := ferr == nil && resp != nil && len(resp.EncryptedNodeCredentials) > 0
	if !bytes.Equal(before, after) {
		r.Violation("token-replaced-existing-record:reencoded-key", fmt.Sprintf("a second token presented with the registered key written in another DER encoding (trailing NULL in the SubjectPublicKeyInfo) changed the node record the key already had (record still present: %v; request answered with credentials: %v)", after != nil, answered), tc)
		return
	}
	if answered {
		r.Count("observation:reencoded-registered-key-enrolled-under-a-second-id", 1)
	} else {
		r.Count("reencoded:refused", 1)
	}
	r.Count("reencoded:existing_record_unchanged", 1)
}

// runTokensRefusedAuthorization: a token is presented, accepted and removed, and then the authorization step fails
// (the server has lost its roots record). Whatever the library does with the token afterwards - the unchanged tree
// leaves it consumed - with a storage wrapper nothing it puts into storage for that token may carry the creation
// time in clear: the expiry of a token stays governed by the sealed value.
func runTokensRefusedAuthorization(c *engine.Ctx, seq int) {
	r := c.R
	be := []string{world.Inmem, world.File}[seq%2]
	var inner nodeenrollment.Storage
	s, err := world.NewServer(world.ServerCfg{Backend: be, StorageWrap: true, Wrap: func(in nodeenrollment.Storage) nodeenrollment.Storage {
		inner = in
		return in
	}})
	if err != nil {
		r.Broken("tokens refused authorization: server world: " + err.Error())
		return
	}
	defer s.Close()
	id, tok, err := registration.CreateServerLedActivationToken(s.Ctx, s.Store, &types.ServerLedRegistrationRequest{}, s.Opts()...)
	if err != nil {
		r.Broken("tokens refused authorization: create token: " + err.Error())
		return
	}
	n, err := world.NewNode(false, "")
	if err != nil {
		r.Broken("tokens refused authorization: node: " + err.Error())
		return
	}
	req, err := n.Creds.CreateFetchNodeCredentialsRequest(s.Ctx, nodeenrollment.WithActivationToken(tok))
	if err != nil {
		r.Broken("tokens refused authorization: request: " + err.Error())
		return
	}
	if err := inner.Remove(s.Ctx, &types.RootCertificates{Id: string(nodeenrollment.RootsMessageId)}); err != nil {
		r.Broken("tokens refused authorization: remove roots: " + err.Error())
		return
	}
	var resp *types.FetchNodeCredentialsResponse
	var ferr error
	p, stack := engine.Guard(func() { resp, ferr = registration.FetchNodeCredentials(s.Ctx, s.Store, req, s.Opts()...) })
	tc := map[string]any{"kind": "refused-authorization", "backend": be, "seq": seq}
	r.Eval(engine.J(tc), true)
	if p != nil {
		r.Violation("panic:"+engine.LibraryFrame(stack), fmt.Sprintf("FetchNodeCredentials panicked on a server without roots: %v", p), tc)
		return
	}
	if ferr == nil && resp != nil && len(resp.EncryptedNodeCredentials) > 0 {
		r.Count("refused-authorization:answered-without-roots(not asserted here)", 1)
		return
	}
	raw := &types.ServerLedActivationToken{Id: id}
	if err := inner.Load(s.Ctx, raw); err != nil {
		r.Count("refused-authorization:token_consumed_by_the_failed_attempt", 1)
		return
	}
	if raw.CreationTime != nil || raw.WrappingKeyId == "" {
		r.Violation("clear-token-creation-time-in-storage:after-refused-fetch", fmt.Sprintf("after a fetch that accepted the token and then failed at the authorization step, the token record is back in storage without sealing although a storage wrapper is configured (wrapping key id %q, clear creation time present: %v): editing that record extends the token", raw.WrappingKeyId, raw.CreationTime != nil), tc)
		return
	}
	r.Count("refused-authorization:token_back_and_sealed", 1)
}
