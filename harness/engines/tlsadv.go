package engines

// C02 — the intercepting listener authenticates only registered nodes that
// prove key possession. Adversarial TLS clients against a real
// InterceptingListener; the oracle is computed from what the harness knows
// (who holds which key, what is registered, which roots are valid).

import (
	"context"
	"crypto"
	"crypto/ed25519"
	"crypto/tls"
	"crypto/x509"
	"encoding/base64"
	"encoding/json"
	"fmt"
	"math/rand"
	"strings"
	"sync"
	"sync/atomic"
	"time"

	"github.com/hashicorp/nodeenrollment"
	"github.com/hashicorp/nodeenrollment/registration"
	"github.com/hashicorp/nodeenrollment/rotation"
	nodetls "github.com/hashicorp/nodeenrollment/tls"
	"github.com/hashicorp/nodeenrollment/types"
	"google.golang.org/protobuf/proto"
	"google.golang.org/protobuf/types/known/structpb"

	"verifharness/engine"
	"verifharness/recstore"
	"verifharness/world"
)

func init() {
	engine.Register(&engine.Spec{Prop: "C02", Engine: "tlsadv", Level: "exploration", Fn: runTLSAdv})
}

// advCase is one adversarial client (JSON-able: it is also the replay format)
type advCase struct {
	Kind string `json:"kind"` // product | mutate | seq | basefall

	// product
	World     string `json:"world,omitempty"`    // normal | both | expired
	Storage   string `json:"storage,omitempty"`  // inmem | ordered
	Identity  string `json:"identity,omitempty"` // A (registered) | R (removed) | U (never registered)
	Cert      string `json:"cert,omitempty"`     // cur | next | otherleaf | foreign | selfsigned | serverauth
	HoldsKey  bool   `json:"holds_key"`
	NonceSig  string `json:"nonce_sig,omitempty"` // self | other | unreg | missing
	Skip      bool   `json:"skip_verification"`
	Hint      string `json:"hint,omitempty"`      // none | match | foreign
	StateSig  string `json:"state_sig,omitempty"` // none | valid | forged | missing
	Pref      string `json:"pref,omitempty"`      // valid | garbage | absent
	CN        string `json:"common_name,omitempty"`
	BaseTLS   bool   `json:"base_tls"`
	FetchMode bool   `json:"fetch_prefix,omitempty"`   // use the fetch prefix instead (must never yield a connection)
	Mixed     string `json:"mixed_prefixes,omitempty"` // fetch-first | auth-first: a fetch request and the authentication request in one ALPN list

	// mutate
	Level string `json:"level,omitempty"` // proto | alpn
	Pos   int    `json:"pos,omitempty"`
	Mut   string `json:"mut,omitempty"` // flip0..7 | zero | ff | rand | appendskip
	RandB byte   `json:"rand_byte,omitempty"`

	// seq
	Ops string `json:"ops,omitempty"` // e.g. "RCXC" per node: R register, X remove, C connect (node 1), r/x/c node 2

	// basefall
	Protos []string `json:"protos,omitempty"`
}

// advWorld is one server world with a listener and its cast
type advWorld struct {
	name    string
	storage string
	s       *world.Server
	lw      *world.LW
	lwBase  *world.LW // same server, listener with a base TLS configuration
	ownSeq  atomic.Int64
	lwOwn   *world.LW // same server, listener configured with the application's own fetch / generate functions (which delegate to the library's)
	A, B, R *world.Node
	U       *world.Keys
	foreign struct {
		root *world.Keys
		cert *x509.Certificate
	}
	curID, nextID string
	roots         *types.RootCertificates
	ol            *world.OrderedLoader
}

func baseTLSConfig() *tls.Config {
	k := world.NewKeys()
	now := time.Now()
	der := world.MintSelfSigned(k, world.LeafSpec{SubjectKeyID: k.Pkix, CommonName: "base", DNSNames: []string{"base"}, NotBefore: now.Add(-time.Hour), NotAfter: now.Add(24 * time.Hour), EKU: []x509.ExtKeyUsage{x509.ExtKeyUsageServerAuth}})
	inner := &tls.Config{
		Certificates: []tls.Certificate{{Certificate: [][]byte{der}, PrivateKey: k.Priv}},
		NextProtos:   []string{"h2", "A", "B", "__AUTH__", "__UNAUTH__", "C"},
		MinVersion:   tls.VersionTLS12,
	}
	seq := baseTLSSeq.Add(1)
	if seq%3 == 2 {
		// the usual certificate-only configuration: no protocol names of its own, so no protocol is negotiated
		// with base-TLS clients whatever they offer
		inner.NextProtos = nil
	}
	if seq%2 == 0 {
		// an application whose base configuration chooses the real one per client
		return &tls.Config{MinVersion: tls.VersionTLS12, GetConfigForClient: func(*tls.ClientHelloInfo) (*tls.Config, error) { return inner, nil }}
	}
	return inner
}

var baseTLSSeq atomic.Int64

// craftRoots stores a root set with chosen windows (offsets relative to now)
func craftRoots(s *world.Server, curNB, curNA, nextNB, nextNA time.Duration) (*types.RootCertificates, *world.Keys, *world.Keys) {
	now := time.Now()
	ck, nk := world.NewKeys(), world.NewKeys()
	roots := &types.RootCertificates{
		Id:      nodeenrollment.RootsMessageId,
		Current: world.MintRoot(nodeenrollment.CurrentId, ck, now.Add(curNB), now.Add(curNA)),
		Next:    world.MintRoot(nodeenrollment.NextId, nk, now.Add(nextNB), now.Add(nextNA)),
	}
	if err := roots.Store(s.Ctx, s.Store, s.StoreOpts()...); err != nil {
		panic(err)
	}
	return roots, ck, nk
}

var advOrderedWorlds atomic.Int64

func newAdvWorld(name, storage string, wrap ...bool) *advWorld {
	w := &advWorld{name: name, storage: storage}
	cfg := world.ServerCfg{Backend: storage, StorageWrap: len(wrap) > 0 && wrap[0]}
	const day = 24 * time.Hour
	switch name {
	case "normal":
		w.s = world.MustServer(cfg)
	case "both":
		cfg.NoRoots = true
		w.s = world.MustServer(cfg)
		craftRoots(w.s, -5*day, 5*day, -time.Hour, 12*day)
	case "expired":
		cfg.NoRoots = true
		w.s = world.MustServer(cfg)
		craftRoots(w.s, -10*day, -time.Hour, -2*time.Hour, 10*day)
	}
	if ol, ok := w.s.Inner.(*world.OrderedLoader); ok {
		w.ol = ol
		// every other such world answers an unknown node ID the way a database does: no records, no error
		ol.EmptyIsNil = advOrderedWorlds.Add(1)%2 == 0
	}
	var err error
	w.roots, err = w.s.Roots()
	if err != nil {
		panic(err)
	}
	w.curID, _ = nodeenrollment.KeyIdFromPkix(w.roots.Current.PublicKeyPkix)
	w.nextID, _ = nodeenrollment.KeyIdFromPkix(w.roots.Next.PublicKeyPkix)
	enroll := func() *world.Node {
		r, err := world.Enroll(w.s, world.FlowAuthorize, false, nil, nil, nil)
		if err != nil {
			panic(fmt.Sprintf("advWorld %s/%s enroll: %v", name, storage, err))
		}
		return r.Node
	}
	w.A, w.B, w.R = enroll(), enroll(), enroll()
	if w.ol != nil {
		w.ol.SetOrder("node-A", []string{w.A.K.KeyID})
		w.ol.SetOrder("node-B", []string{w.B.K.KeyID})
		w.ol.SetOrder("node-R", []string{w.R.K.KeyID})
	}
	if err := w.s.RemoveNode(w.R.K.KeyID); err != nil {
		panic(err)
	}
	w.U = world.NewKeys()
	w.foreign.root = world.NewKeys()
	now := time.Now()
	w.foreign.cert = world.ParseCert(world.MintRootDER(w.foreign.root, now.Add(-day), now.Add(10*day)))
	w.lw, err = world.NewLW(w.s, world.LWCfg{})
	if err != nil {
		panic(err)
	}
	w.lwBase, err = world.NewLW(w.s, world.LWCfg{BaseTLS: baseTLSConfig()})
	if err != nil {
		panic(err)
	}
	// the documented extension point: the application's own functions around the library's
	// ... and an option list with unset (nil) entries, as an application that fills optional options
	// conditionally produces: nil entries are skipped, nothing after them is lost
	w.lwOwn, err = world.NewLW(w.s, world.LWCfg{
		// ... and, in every other world, the server name spelled out (the library's common name: what its
		// certificates carry anyway)
		Options: advOwnOptions(w.s),
		FetchFn: func(ctx context.Context, st nodeenrollment.Storage, req *types.FetchNodeCredentialsRequest, opt ...nodeenrollment.Option) (*types.FetchNodeCredentialsResponse, error) {
			return registration.FetchNodeCredentials(ctx, st, req, opt...)
		},
		GenFn: func(ctx context.Context, st nodeenrollment.Storage, req *types.GenerateServerCertificatesRequest, opt ...nodeenrollment.Option) (*types.GenerateServerCertificatesResponse, error) {
			return nodetls.GenerateServerCertificates(ctx, st, req, opt...)
		},
	})
	if err != nil {
		panic(err)
	}
	return w
}

var advOwnSeq atomic.Int64

func advOwnOptions(s *world.Server) []nodeenrollment.Option {
	o := append(append([]nodeenrollment.Option{nil}, s.Opts()...), nil)
	if advOwnSeq.Add(1)%2 == 0 {
		o = append(o, nodeenrollment.WithServerName(nodeenrollment.CommonDnsName))
	}
	return o
}

func (w *advWorld) close() {
	w.lw.Close()
	w.lwBase.Close()
	w.lwOwn.Close()
	w.s.Close()
}

// rootValidNow reports whether a stored root is inside its validity window
// with a margin (worlds are crafted with >= 1 h margins)
func rootValidNow(r *types.RootCertificate) bool {
	now := time.Now()
	return r.NotBefore.AsTime().Before(now) && r.NotAfter.AsTime().After(now)
}

type advVerdict struct {
	mayAuth  bool
	n1, n2   bool
	sigOK    bool
	why      string
	positive bool // fully honest: must authenticate for the run to be non-vacuous
}

// serverAuthChain obtains a certificate minted by the server for the given
// subject key through a fetch handshake (public information)
func (w *advWorld) serverAuthChain(subject *world.Keys) [][]byte {
	enc := world.NewX25519()
	req := world.Sign(world.BaseInfo(subject, enc.Pub, world.RandBytes(32)), subject.Priv)
	now := time.Now()
	self := world.MintSelfSigned(subject, world.LeafSpec{SubjectKeyID: subject.Pkix, DNSNames: []string{nodeenrollment.CommonDnsName}, NotBefore: now.Add(-5 * time.Minute), NotAfter: now.Add(5 * time.Minute), EKU: []x509.ExtKeyUsage{x509.ExtKeyUsageClientAuth}})
	cs := world.ClientSpec{Protos: world.FetchProtos(req), Chain: [][]byte{self}, Signer: subject.Priv}
	res := cs.Connect(w.lw.Addr)
	var chain [][]byte
	if res.Conn != nil {
		for _, c := range res.State.PeerCertificates {
			chain = append(chain, c.Raw)
		}
		res.Conn.Close()
	}
	if res.Local != "" {
		if rec, err := w.lw.Wait(res.Local); err == nil && rec.Returned && rec.Conn != nil {
			rec.Conn.Close()
		}
	}
	return chain
}

func identityOf(w *advWorld, id string) (*world.Keys, *world.Node) {
	switch id {
	case "A":
		return w.A.K, w.A
	case "R":
		return w.R.K, w.R
	}
	return w.U, nil
}

// buildProduct turns a product case into a client and the oracle's verdict
func (w *advWorld) buildProduct(c advCase) (world.ClientSpec, advVerdict, bool) {
	var v advVerdict
	k, node := identityOf(w, c.Identity)
	var chain [][]byte
	var leafRoot *types.RootCertificate
	var stackedSigner ed25519.PrivateKey
	now := time.Now()
	switch c.Cert {
	case "cur", "next":
		if node == nil {
			return world.ClientSpec{}, v, false // U has no server-issued leaf
		}
		i := 0
		leafRoot = w.roots.Current
		if c.Cert == "next" {
			i, leafRoot = 1, w.roots.Next
		}
		b := node.Creds.CertificateBundles[i]
		chain = [][]byte{b.CertificateDer, b.CaCertificateDer}
	case "otherleaf", "otherleaf-then-named-leaf":
		// the valid leaf (and key) of another registered node, while the request names this identity
		i := 0
		leafRoot = w.roots.Current
		if !rootValidNow(w.roots.Current) {
			i, leafRoot = 1, w.roots.Next
		}
		b := w.B.Creds.CertificateBundles[i]
		chain = [][]byte{b.CertificateDer, b.CaCertificateDer}
		if c.Cert == "otherleaf-then-named-leaf" {
			// ... and behind its own leaf the peer lists the genuine certificate of the node it names (public
			// material): the key it proves possession of is still its own, not the named one
			if node == nil || len(node.Creds.CertificateBundles) <= i {
				return world.ClientSpec{}, v, false
			}
			chain = [][]byte{b.CertificateDer, node.Creds.CertificateBundles[i].CertificateDer, b.CaCertificateDer}
		}
	case "foreign":
		leaf := world.MintLeaf(w.foreign.cert, w.foreign.root.Priv, k.Pub, world.LeafSpec{SubjectKeyID: k.Pkix, CommonName: k.KeyID, DNSNames: []string{k.KeyID}, EKU: []x509.ExtKeyUsage{x509.ExtKeyUsageClientAuth}, NotBefore: now.Add(-time.Hour), NotAfter: now.Add(24 * time.Hour)})
		chain = [][]byte{leaf, w.foreign.cert.Raw}
	case "selfsigned":
		chain = [][]byte{world.MintSelfSigned(k, world.LeafSpec{SubjectKeyID: k.Pkix, CommonName: k.KeyID, DNSNames: []string{k.KeyID}, EKU: []x509.ExtKeyUsage{x509.ExtKeyUsageClientAuth}, NotBefore: now.Add(-time.Hour), NotAfter: now.Add(24 * time.Hour)})}
	case "serverauth":
		chain = w.serverAuthChain(k)
		if len(chain) == 0 {
			return world.ClientSpec{}, v, false
		}
	case "stacked-ca", "stacked-leaf", "stacked-issued-by-node":
		// the peer's own certificate first (TLS proves possession of that one only), a registered
		// node's genuine chain behind it: public material, no root-certified key is held
		if node == nil {
			return world.ClientSpec{}, v, false
		}
		i := 0
		leafRoot = w.roots.Current
		if !rootValidNow(w.roots.Current) {
			i, leafRoot = 1, w.roots.Next
		}
		b := node.Creds.CertificateBundles[i]
		own := world.NewKeys()
		stackedSigner = own.Priv
		var first []byte
		if c.Cert == "stacked-issued-by-node" {
			// a certificate for the peer's own throw-away key that claims the named node's key as its subject key
			// ID, issued with the key of another registered node (whose genuine certificate follows as if it were an
			// intermediate): node certificates certify nothing
			ob := w.B.Creds.CertificateBundles[i]
			first = world.MintLeaf(world.ParseCert(ob.CertificateDer), w.B.K.Priv, own.Pub, world.LeafSpec{SubjectKeyID: k.Pkix, CommonName: k.KeyID, DNSNames: []string{k.KeyID}, EKU: []x509.ExtKeyUsage{x509.ExtKeyUsageClientAuth}, NotBefore: now.Add(-time.Hour), NotAfter: now.Add(24 * time.Hour)})
			b = ob
		} else if c.Cert == "stacked-ca" {
			first = world.MintSelfSigned(own, world.LeafSpec{SubjectKeyID: own.Pkix, CommonName: own.KeyID, DNSNames: []string{own.KeyID}, EKU: []x509.ExtKeyUsage{x509.ExtKeyUsageClientAuth}, NotBefore: now.Add(-time.Hour), NotAfter: now.Add(24 * time.Hour)})
		} else {
			first = world.MintLeaf(w.foreign.cert, w.foreign.root.Priv, own.Pub, world.LeafSpec{SubjectKeyID: own.Pkix, CommonName: own.KeyID, DNSNames: []string{own.KeyID}, EKU: []x509.ExtKeyUsage{x509.ExtKeyUsageClientAuth}, NotBefore: now.Add(-time.Hour), NotAfter: now.Add(24 * time.Hour)})
		}
		chain = [][]byte{first, b.CertificateDer, b.CaCertificateDer}
	}
	var signer crypto.Signer = k.Priv
	holds := c.HoldsKey && c.Cert != "serverauth" // nobody outside the server holds the key of a server-minted certificate
	leafPub, leafRegistered := k.Pub, c.Identity == "A"
	if c.Cert == "otherleaf" || c.Cert == "otherleaf-then-named-leaf" {
		signer = w.B.K.Priv
		leafPub, leafRegistered = w.B.K.Pub, true
	}
	if !c.HoldsKey {
		signer = world.NewKeys().Priv
	}
	if stackedSigner != nil {
		// the key of the first certificate: the handshake itself succeeds, but no key certified by a root is proven
		signer, holds = stackedSigner, false
	}
	nonce := world.RandBytes(nodeenrollment.NonceSize)
	var nonceSigner ed25519.PrivateKey
	switch c.NonceSig {
	case "self":
		nonceSigner = k.Priv
	case "other":
		nonceSigner = w.B.K.Priv
	case "unreg":
		nonceSigner = world.NewKeys().Priv
	}
	req := &types.GenerateServerCertificatesRequest{
		CertificatePublicKeyPkix: k.Pkix,
		Nonce:                    nonce,
		SkipVerification:         c.Skip,
		CommonName:               c.CN,
	}
	if nonceSigner != nil {
		req.NonceSignature = ed25519.Sign(nonceSigner, nonce)
	}
	hintNode := ""
	switch c.Hint {
	case "match":
		hintNode = "node-" + c.Identity
	case "foreign":
		hintNode = "node-B"
	case "near-miss":
		// not the string the node is registered under, but one a trimming lookup would map onto it
		hintNode = "node-" + c.Identity + " "
	}
	req.NodeId = hintNode
	if c.StateSig != "none" && c.StateSig != "" {
		st, _ := structpb.NewStruct(map[string]any{"who": c.Identity, "n": 7})
		req.ClientState, _ = proto.Marshal(st)
		switch c.StateSig {
		case "valid":
			if nonceSigner != nil {
				req.ClientStateSignature = ed25519.Sign(nonceSigner, req.ClientState)
			} else {
				req.ClientStateSignature = ed25519.Sign(k.Priv, req.ClientState)
			}
		case "forged":
			req.ClientStateSignature = ed25519.Sign(world.NewKeys().Priv, req.ClientState)
		}
	}
	var protos []string
	if c.FetchMode {
		// a fetch-prefixed handshake carrying a self-signed fetch request of this identity
		enc := world.NewX25519()
		protos = world.FetchProtos(world.Sign(world.BaseInfo(k, enc.Pub, nonce), k.Priv))
	} else {
		protos = world.AuthProtos(req)
	}
	if c.Mixed != "" && !c.FetchMode {
		enc := world.NewX25519()
		fp := world.FetchProtos(world.Sign(world.BaseInfo(k, enc.Pub, world.RandBytes(32)), k.Priv))
		if c.Mixed == "fetch-first" {
			protos = append(fp, protos...)
		} else {
			protos = append(protos, fp...)
		}
	}
	// an unrelated protocol name, behind the request's entries (where the library's dialer puts extras) or in front of them
	if w.ownSeq.Load()%2 == 0 {
		protos = append(protos, "h2")
	} else {
		protos = append([]string{"h2"}, protos...)
	}
	switch c.Pref {
	case "valid":
		id := w.curID
		if c.Cert == "next" || !rootValidNow(w.roots.Current) {
			id = w.nextID
		}
		protos = append(protos, world.CertPref(id))
	case "garbage":
		protos = append(protos, world.CertPref("not-a-known-key-id"))
	}

	// ---- oracle -----------------------------------------------------------
	v.n1 = holds
	v.n2 = leafRoot != nil && rootValidNow(leafRoot)
	// which records may vouch for the nonce
	type recT struct {
		pub     ed25519.PublicKey
		present bool
	}
	var recs []recT
	if w.ol != nil && hintNode != "" {
		switch hintNode {
		case "node-A":
			recs = append(recs, recT{w.A.K.Pub, true})
		case "node-B":
			recs = append(recs, recT{w.B.K.Pub, true})
		case "node-R", "node-U":
			// R's record was removed; U never had one
		}
	} else if c.Cert != "serverauth" {
		// key-ID path: the record of the certificate key the peer proved possession of
		recs = append(recs, recT{leafPub, leafRegistered})
	}
	for _, r := range recs {
		if r.present && len(req.NonceSignature) > 0 && ed25519.Verify(r.pub, req.Nonce, req.NonceSignature) {
			v.sigOK = true
		}
	}
	// with the fetch request listed first the server handles the connection as a credential fetch
	v.mayAuth = v.n1 && v.n2 && v.sigOK && !c.FetchMode && c.Mixed != "fetch-first"
	v.why = fmt.Sprintf("possession=%v validroot=%v record+sig=%v", v.n1, v.n2, v.sigOK)
	v.positive = v.mayAuth && c.Identity == "A" && c.NonceSig == "self" && c.Cert != "otherleaf" && c.Cert != "otherleaf-then-named-leaf" && !c.Skip && c.Pref == "valid" &&
		(c.StateSig == "none" || c.StateSig == "valid") && c.CN == "" && (c.Hint == "none" || (c.Hint == "match"))
	return world.ClientSpec{Protos: protos, Chain: chain, Signer: signer}, v, true
}

// runClient connects and returns the server-side record
func runClient(c *engine.Ctx, lw *world.LW, cs world.ClientSpec) (*world.ConnRec, *world.ClientResult, bool) {
	res := cs.Connect(lw.Addr)
	if res.Local == "" {
		c.R.Broken("could not dial the listener: " + fmt.Sprint(res.HandshakeErr))
		return nil, res, false
	}
	rec, err := lw.Wait(res.Local)
	if err != nil {
		c.R.Inconclusive("watchdog while waiting for the server side of a connection")
		if res.Conn != nil {
			res.Conn.Close()
		}
		return nil, res, false
	}
	return rec, res, true
}

func finishConn(rec *world.ConnRec, res *world.ClientResult) {
	if rec != nil && rec.Returned && rec.Conn != nil {
		rec.Conn.Close()
	}
	if res != nil && res.Conn != nil {
		res.Conn.Close()
	}
}

func (w *advWorld) judge(c *engine.Ctx, ac advCase, v advVerdict, rec *world.ConnRec, fetch bool) {
	r := c.R
	if rec.Panic != nil {
		r.Violation("panic-in-accept:"+engine.LibraryFrame(rec.Stack), fmt.Sprintf("Accept panicked: %v", rec.Panic), ac)
		return
	}
	auth := rec.Authenticated()
	switch {
	case fetch && rec.Returned:
		r.Violation("fetch-handshake-returned-connection", "a credential-fetch handshake yielded a connection from Accept (negotiated "+rec.NegotiatedProtocol()+")", ac)
	case auth && !v.mayAuth:
		key := fmt.Sprintf("unauthorized-auth:possession=%v,validroot=%v,record+sig=%v,skip=%v,nodeid-path=%v", v.n1, v.n2, v.sigOK, ac.Skip, w.ol != nil && ac.Hint != "none" && ac.Hint != "")
		r.Violation(key, "listener returned an authenticated connection although the oracle forbids it: "+v.why, ac)
	case auth:
		r.Count("authenticated_as_allowed", 1)
	case rec.Returned:
		r.Count("returned_unauthenticated(base tls)", 1)
	default:
		r.Count("rejected", 1)
	}
	if v.positive {
		if auth {
			r.Count("positive_control_authenticated", 1)
		} else {
			r.Count("positive_control_REJECTED", 1)
		}
	}
	if !v.mayAuth {
		switch {
		case !v.n1:
			r.Count("oracle_forbids:no_key_possession", 1)
		case !v.n2:
			r.Count("oracle_forbids:no_valid_root", 1)
		case !v.sigOK:
			r.Count("oracle_forbids:no_record_or_bad_signature", 1)
		}
	}
}

func (w *advWorld) runProduct(c *engine.Ctx, ac advCase) {
	cs, v, ok := w.buildProduct(ac)
	if !ok {
		return
	}
	lw := w.lw
	if ac.BaseTLS {
		lw = w.lwBase
	} else if w.ownSeq.Add(1)%3 == 0 {
		lw = w.lwOwn
		c.R.Count("product_cases_on_a_listener_with_the_applications_own_functions", 1)
	}
	rec, res, ok := runClient(c, lw, cs)
	if !ok {
		return
	}
	// reached the authorization comparison iff the request got past decoding; all product cases do
	c.R.Eval(engine.J(ac), true)
	if ac.Mixed != "" {
		c.R.Count("mixed_prefix_lists:"+ac.Mixed, 1)
	}
	w.judge(c, ac, v, rec, ac.FetchMode || ac.Mixed == "fetch-first")
	finishConn(rec, res)
}

// ---------------------------------------------------------------------------
// mutations of an honest request

func (w *advWorld) honestReq() (*types.GenerateServerCertificatesRequest, []byte) {
	nonce := world.RandBytes(nodeenrollment.NonceSize)
	req := &types.GenerateServerCertificatesRequest{
		CertificatePublicKeyPkix: w.A.K.Pkix,
		Nonce:                    nonce,
		NonceSignature:           ed25519.Sign(w.A.K.Priv, nonce),
	}
	b, _ := proto.Marshal(req)
	return req, b
}

func applyMut(b []byte, ac advCase) []byte {
	out := append([]byte{}, b...)
	if ac.Mut == "appendskip" {
		return append(out, 0xC8, 0x01, 0x01) // field 25 (skip_verification) varint true
	}
	if ac.Pos >= len(out) {
		return out
	}
	switch {
	case strings.HasPrefix(ac.Mut, "flip"):
		out[ac.Pos] ^= 1 << uint(ac.Mut[4]-'0')
	case ac.Mut == "zero":
		out[ac.Pos] = 0
	case ac.Mut == "ff":
		out[ac.Pos] = 0xff
	case ac.Mut == "rand":
		out[ac.Pos] = ac.RandB
	}
	return out
}

func (w *advWorld) runMutate(c *engine.Ctx, ac advCase) {
	_, hb := w.honestReq()
	b := w.A.Creds.CertificateBundles[0]
	if !rootValidNow(w.roots.Current) {
		b = w.A.Creds.CertificateBundles[1]
	}
	chain := [][]byte{b.CertificateDer, b.CaCertificateDer}
	var protos []string
	var decoded *types.GenerateServerCertificatesRequest
	nontrivial := false
	switch ac.Level {
	case "proto":
		mb := applyMut(hb, ac)
		var err error
		protos, err = nodetls.BreakIntoNextProtos(nodeenrollment.AuthenticateNodeNextProtoV1Prefix, base64.RawStdEncoding.EncodeToString(mb))
		if err != nil {
			return
		}
		d := new(types.GenerateServerCertificatesRequest)
		if proto.Unmarshal(mb, d) == nil {
			decoded = d
		}
	case "alpn":
		protos, _ = nodetls.BreakIntoNextProtos(nodeenrollment.AuthenticateNodeNextProtoV1Prefix, base64.RawStdEncoding.EncodeToString(hb))
		// mutate one character of the ALPN text (position counted over the concatenation)
		pos := ac.Pos
		for i := range protos {
			if pos < len(protos[i]) {
				e := []byte(protos[i])
				e2 := applyMut(e, advCase{Pos: pos, Mut: ac.Mut, RandB: ac.RandB})
				if len(e2) > 0 && len(e2) <= 255 {
					protos[i] = string(e2)
				}
				break
			}
			pos -= len(protos[i])
		}
		// decode as the server will
		if s, err := combineLikeServer(protos); err == nil {
			if raw, err := base64.RawStdEncoding.DecodeString(s); err == nil {
				d := new(types.GenerateServerCertificatesRequest)
				if proto.Unmarshal(raw, d) == nil {
					decoded = d
				}
			}
		}
	}
	for _, p := range protos {
		if len(p) == 0 || len(p) > 255 {
			return
		}
	}
	pref := w.curID
	if !rootValidNow(w.roots.Current) {
		pref = w.nextID
	}
	cs := world.ClientSpec{Protos: append(protos, world.CertPref(pref)), Chain: chain, Signer: w.A.K.Priv}
	var v advVerdict
	v.n1, v.n2 = true, true
	if decoded != nil {
		nontrivial = true
		// A is registered, holds its key and a valid leaf: only the signed nonce can fail
		v.sigOK = len(decoded.NonceSignature) > 0 && ed25519.Verify(w.A.K.Pub, decoded.Nonce, decoded.NonceSignature)
		if w.ol != nil && decoded.NodeId != "" {
			v.sigOK = false // a mutated hint names no known node id
		}
	}
	v.mayAuth = v.sigOK
	v.why = fmt.Sprintf("mutated request decodes=%v nonce signature valid=%v", decoded != nil, v.sigOK)
	rec, res, ok := runClient(c, w.lw, cs)
	if !ok {
		return
	}
	c.R.Eval(engine.J(ac), nontrivial)
	if decoded != nil {
		c.R.Count("mutations_that_still_decode", 1)
	}
	w.judge(c, ac, v, rec, false)
	finishConn(rec, res)
}

// combineLikeServer mirrors the documented wire format (prefix, decimal index, hyphen, payload)
func combineLikeServer(protos []string) (string, error) {
	var sb strings.Builder
	for _, p := range protos {
		if !strings.HasPrefix(p, nodeenrollment.AuthenticateNodeNextProtoV1Prefix) {
			continue
		}
		rest := strings.TrimPrefix(p, nodeenrollment.AuthenticateNodeNextProtoV1Prefix)
		i := strings.IndexByte(rest, '-')
		if i < 0 {
			return "", fmt.Errorf("malformed")
		}
		sb.WriteString(rest[i+1:])
	}
	return sb.String(), nil
}

// runStoreOnceNodeIDs: the listener over the library's own store-once back end (the NodeIdLoader it ships), two
// registered nodes whose records sit under node IDs that differ only in letter case or by padding. A client is
// authenticated under a named node ID only if a record under exactly that ID holds the key that signed the nonce.
func runStoreOnceNodeIDs(c *engine.Ctx, wrap bool) {
	r := c.R
	s := world.MustServer(world.ServerCfg{Backend: world.StoreOnce, StorageWrap: wrap})
	defer s.Close()
	ids := []string{"worker-alpha", "WORKER-ALPHA"}
	var nodes []*world.Node
	for _, id := range ids {
		er, err := world.Enroll(s, world.FlowAuthorize, false, nil, nil, nil)
		if err != nil {
			r.Broken("store-once node ids: enroll: " + err.Error())
			return
		}
		ni, err := types.LoadNodeInformation(s.Ctx, s.Inner, er.Node.K.KeyID, s.StoreOpts()...)
		if err != nil {
			r.Broken("store-once node ids: load: " + err.Error())
			return
		}
		_ = s.RemoveNode(er.Node.K.KeyID)
		ni.NodeId = id
		if err := ni.Store(s.Ctx, s.Store, s.StoreOpts()...); err != nil {
			r.Broken("store-once node ids: store: " + err.Error())
			return
		}
		nodes = append(nodes, er.Node)
	}
	lw, err := world.NewLW(s, world.LWCfg{})
	if err != nil {
		r.Broken(err.Error())
		return
	}
	defer lw.Close()
	roots, _ := s.Roots()
	curID, _ := nodeenrollment.KeyIdFromPkix(roots.Current.PublicKeyPkix)
	for who, n := range nodes {
		for _, named := range []string{"", ids[who], ids[1-who], ids[who] + " ", " " + ids[who], "worker-Alpha", "worker-alph", "worker-alpha-2"} {
			nonce := world.RandBytes(nodeenrollment.NonceSize)
			req := &types.GenerateServerCertificatesRequest{CertificatePublicKeyPkix: n.K.Pkix, Nonce: nonce, NonceSignature: ed25519.Sign(n.K.Priv, nonce), NodeId: named}
			b := n.Creds.CertificateBundles[0]
			cs := world.ClientSpec{Protos: append(world.AuthProtos(req), world.CertPref(curID)), Chain: [][]byte{b.CertificateDer, b.CaCertificateDer}, Signer: n.K.Priv}
			rec, cres, ok := runClient(c, lw, cs)
			if !ok {
				continue
			}
			ac := advCase{Kind: "storeonce-nodeid", Storage: world.StoreOnce, Hint: named, Identity: ids[who]}
			r.Eval(engine.J(ac), true)
			may := named == "" || named == ids[who]
			switch {
			case rec.Panic != nil:
				r.Violation("panic-in-accept:"+engine.LibraryFrame(rec.Stack), fmt.Sprintf("Accept panicked: %v", rec.Panic), ac)
			case rec.Authenticated() && !may:
				r.Violation("unauthorized-auth:no-record-under-the-named-node-id", fmt.Sprintf("the node registered under %q was authenticated while naming node ID %q: no record under that ID holds its key", ids[who], named), ac)
			case rec.Authenticated():
				r.Count("storeonce_nodeid:authenticated_under_own_id_or_key_id", 1)
			case may:
				r.Count("storeonce_nodeid:honest_rejected(not asserted)", 1)
			default:
				r.Count("storeonce_nodeid:foreign_or_near_miss_id_rejected", 1)
			}
			finishConn(rec, cres)
		}
	}
}

// runResumption: a TLS client that keeps session tickets. An honest registered node connects with a session
// cache, reads (so that the tickets the server sends after the handshake are taken in) and leaves; then a peer
// that holds no certificate and no key offers whatever that cache holds together with a replay of the node's
// ALPN-carried request. Possession of a certificate key is proved per connection: a ticket is not such a proof.
// Variants: the same, after the node's record was removed; and with the node's own certificate chain but a
// signer that is not its key (the client presents the chain and cannot sign).
func runResumption(c *engine.Ctx, backend string, wrap bool, seq int) {
	r := c.R
	s := world.MustServer(world.ServerCfg{Backend: backend, StorageWrap: wrap})
	defer s.Close()
	er, err := world.Enroll(s, world.FlowAuthorize, false, nil, nil, nil)
	if err != nil {
		r.Broken("resumption: enroll: " + err.Error())
		return
	}
	n := er.Node
	lw, err := world.NewLW(s, world.LWCfg{})
	if err != nil {
		r.Broken(err.Error())
		return
	}
	defer lw.Close()
	roots, _ := s.Roots()
	curID, _ := nodeenrollment.KeyIdFromPkix(roots.Current.PublicKeyPkix)
	nonce := world.RandBytes(nodeenrollment.NonceSize)
	req := &types.GenerateServerCertificatesRequest{CertificatePublicKeyPkix: n.K.Pkix, Nonce: nonce, NonceSignature: ed25519.Sign(n.K.Priv, nonce)}
	b := n.Creds.CertificateBundles[0]
	protos := append(world.AuthProtos(req), world.CertPref(curID))
	sni := fmt.Sprintf("resume-%d.example", seq)
	// a peer that replays the node's request in a ClientHello and hangs up (FIN) before its certificate flight:
	// the server's handshake ends without any proof of possession, whatever the protocol it had already selected
	for k := 0; k < 3; k++ {
		ac := advCase{Kind: "hangup-after-hello", Storage: backend, Identity: fmt.Sprint(k)}
		rec, cres, ok := runClient(c, lw, world.ClientSpec{Protos: protos, SNI: sni, HangUpAfterHello: true})
		if !ok {
			return
		}
		r.Eval(engine.J(ac), true)
		switch {
		case rec.Panic != nil:
			r.Violation("panic-in-accept:"+engine.LibraryFrame(rec.Stack), fmt.Sprintf("Accept panicked: %v", rec.Panic), ac)
		case rec.Authenticated():
			r.Violation("unauthorized-auth:possession=false,hung-up-after-hello", "a peer that sent a ClientHello replaying a registered node's request and then ended the stream, without certificate or proof of possession, was returned by Accept as a connection negotiated as the node-authentication protocol", ac)
		default:
			r.Count("hangup_after_hello_not_authenticated", 1)
		}
		finishConn(rec, cres)
	}
	for round, variant := range []string{"no-certificate", "no-certificate-after-record-removed"} {
		cache := tls.NewLRUClientSessionCache(8)
		honest := world.ClientSpec{Protos: protos, Chain: [][]byte{b.CertificateDer, b.CaCertificateDer}, Signer: n.K.Priv, SNI: sni, Sessions: cache}
		rec, cres, ok := runClient(c, lw, honest)
		if !ok {
			return
		}
		ac := advCase{Kind: "resumption", Storage: backend, Identity: variant}
		if !rec.Authenticated() || cres.Conn == nil {
			r.Count("resumption:honest_first_connection_not_authenticated", 1)
			finishConn(rec, cres)
			return
		}
		// one byte from the server so that the client's Read also takes in the post-handshake messages
		_, _ = rec.Conn.Write([]byte("k"))
		_ = cres.Conn.SetReadDeadline(time.Now().Add(20 * time.Second))
		_, _ = cres.Conn.Read(make([]byte, 1))
		finishConn(rec, cres)
		if _, have := cache.Get(sni); have {
			r.Count("resumption:client_holds_a_session_ticket", 1)
		} else {
			r.Count("resumption:server_sent_no_usable_ticket", 1)
		}
		if round == 1 {
			if err := s.RemoveNode(n.K.KeyID); err != nil {
				r.Broken("resumption: remove node: " + err.Error())
				return
			}
		}
		keyless := world.ClientSpec{Protos: protos, SNI: sni, Sessions: cache}
		rec2, cres2, ok := runClient(c, lw, keyless)
		if !ok {
			return
		}
		r.Eval(engine.J(ac), true)
		switch {
		case rec2.Panic != nil:
			r.Violation("panic-in-accept:"+engine.LibraryFrame(rec2.Stack), fmt.Sprintf("Accept panicked: %v", rec2.Panic), ac)
		case rec2.Authenticated():
			resumed := cres2.Conn != nil && cres2.State.DidResume
			r.Violation("unauthorized-auth:possession=false,resumed-session", fmt.Sprintf("a peer holding no certificate and no private key was returned as an authenticated connection: it offered the session ticket an honest node's client had kept from an earlier connection to this listener, plus a replay of that node's request (TLS session resumed: %v; variant %s)", resumed, variant), ac)
		default:
			r.Count("resumption:keyless_peer_with_ticket_rejected", 1)
		}
		finishConn(rec2, cres2)
		if round == 1 {
			return
		}
	}
}

// ---------------------------------------------------------------------------
// register / remove / connect sequences

func runSeq(c *engine.Ctx, ac advCase) {
	var frec *recstore.Rec
	s := world.MustServer(world.ServerCfg{Backend: world.Inmem, Wrap: func(in nodeenrollment.Storage) nodeenrollment.Storage {
		frec = recstore.New(in)
		return frec.Wrap()
	}})
	defer s.Close()
	lw, err := world.NewLW(s, world.LWCfg{})
	if err != nil {
		c.R.Broken(err.Error())
		return
	}
	defer lw.Close()
	roots, _ := s.Roots()
	curID, _ := nodeenrollment.KeyIdFromPkix(roots.Current.PublicKeyPkix)
	type ns struct {
		n          *world.Node
		registered bool
		everHad    bool
	}
	nodes := []*ns{{}, {}}
	for i := range nodes {
		n, err := world.NewNode(false, "")
		if err != nil {
			c.R.Broken(err.Error())
			return
		}
		nodes[i].n = n
	}
	for step, op := range ac.Ops {
		idx := 0
		if op >= 'a' && op <= 'z' {
			idx = 1
			op -= 'a' - 'A'
		}
		st := nodes[idx]
		switch op {
		case 'R': // operator registers the node (authorize + fetch)
			if st.registered {
				continue
			}
			// a node that lost its registration asks again with a fresh nonce
			st.n.Creds.RegistrationNonce = world.RandBytes(nodeenrollment.NonceSize)
			st.n.Creds.CertificateBundles = nil
			req, err := st.n.FetchRequest()
			if err != nil {
				c.R.Broken("fetch request: " + err.Error())
				return
			}
			if _, err := registration.AuthorizeNode(s.Ctx, s.Store, req, s.Opts()...); err != nil {
				c.R.Broken("authorize in sequence: " + err.Error())
				return
			}
			resp, err := registration.FetchNodeCredentials(s.Ctx, s.Store, req, s.Opts()...)
			if err != nil {
				c.R.Broken("fetch in sequence: " + err.Error())
				return
			}
			if _, err := st.n.Handle(resp); err != nil {
				c.R.Broken("handle in sequence: " + err.Error())
				return
			}
			st.registered, st.everHad = true, true
		case 'X':
			if st.registered && step%2 == 1 {
				// the operator's removal runs under a context that is already done (a request that timed
				// out): the node counts as removed exactly when storage said so
				dctx, cancel := context.WithCancel(s.Ctx)
				cancel()
				if err := s.Store.Remove(dctx, &types.NodeInformation{Id: st.n.K.KeyID}); err == nil {
					st.registered = false
					c.R.Count("seq_removal_under_done_context_reported_success", 1)
				} else {
					c.R.Count("seq_removal_under_done_context_reported_error", 1)
				}
			} else if st.registered {
				_ = s.RemoveNode(st.n.K.KeyID)
				st.registered = false
			}
		case 'C':
			nonce := world.RandBytes(nodeenrollment.NonceSize)
			req := &types.GenerateServerCertificatesRequest{CertificatePublicKeyPkix: st.n.K.Pkix, Nonce: nonce, NonceSignature: ed25519.Sign(st.n.K.Priv, nonce)}
			var chain [][]byte
			if st.everHad {
				b := st.n.Creds.CertificateBundles[0]
				chain = [][]byte{b.CertificateDer, b.CaCertificateDer}
			} else {
				now := time.Now()
				chain = [][]byte{world.MintSelfSigned(st.n.K, world.LeafSpec{SubjectKeyID: st.n.K.Pkix, NotBefore: now.Add(-time.Hour), NotAfter: now.Add(time.Hour), EKU: []x509.ExtKeyUsage{x509.ExtKeyUsageClientAuth}})}
			}
			if !st.registered && frec != nil {
				// first: the connection attempt while the server's storage has a hiccup: the first (or second)
				// storage operation of the handshake fails with an error that says nothing about absence. A node
				// without a record is not authenticated on the strength of what the server saw earlier.
				for _, pos := range []int{1, 2} {
					nonce := world.RandBytes(nodeenrollment.NonceSize)
					req := &types.GenerateServerCertificatesRequest{CertificatePublicKeyPkix: st.n.K.Pkix, Nonce: nonce, NonceSignature: ed25519.Sign(st.n.K.Priv, nonce)}
					cs := world.ClientSpec{Protos: append(world.AuthProtos(req), world.CertPref(curID)), Chain: chain, Signer: st.n.K.Priv}
					frec.Arm(pos, recstore.FaultGeneric)
					rec, res, ok := runClient(c, lw, cs)
					fired := frec.Fired()
					frec.Arm(0, "")
					if !ok {
						return
					}
					c.R.Eval(fmt.Sprintf("seq %s step %d storage fault at %d", ac.Ops, step, pos), true)
					if rec.Authenticated() {
						c.R.Violation(fmt.Sprintf("unauthorized-auth:sequence,storage-fault,everRegistered=%v", st.everHad), fmt.Sprintf("node authenticated at step %d of %q although its record is not in storage (storage operation %d of the handshake failed with a generic error: %v)", step, ac.Ops, pos, fired), ac)
					} else if fired {
						c.R.Count("seq_unregistered_rejected_under_a_storage_fault", 1)
					}
					finishConn(rec, res)
				}
				// then a credential fetch of this key (what a node without a record keeps doing: refused), and then an
				// authentication request that repeats what the fetch made the server see - same key, the fetch's nonce,
				// the common name of an unauthorized fetch - with a signature that is no signature. Nothing a fetch
				// handshake left behind on the listener authenticates anybody.
				pollCreds := proto.Clone(st.n.Creds).(*types.NodeCredentials)
				pollCreds.RegistrationNonce = world.RandBytes(nodeenrollment.NonceSize)
				if freq, ferr := pollCreds.CreateFetchNodeCredentialsRequest(s.Ctx); ferr == nil {
					fcs := world.ClientSpec{Protos: world.FetchProtos(freq), Chain: [][]byte{world.MintSelfSigned(st.n.K, world.LeafSpec{SubjectKeyID: st.n.K.Pkix, DNSNames: []string{nodeenrollment.CommonDnsName}, NotBefore: time.Now().Add(-time.Minute), NotAfter: time.Now().Add(time.Minute), EKU: []x509.ExtKeyUsage{x509.ExtKeyUsageClientAuth}})}, Signer: st.n.K.Priv}
					if rec, res, ok := runClient(c, lw, fcs); ok {
						finishConn(rec, res)
					}
					finfo := new(types.FetchNodeCredentialsInfo)
					_ = proto.Unmarshal(freq.Bundle, finfo)
					for _, sig := range [][]byte{world.RandBytes(64), nil} {
						areq := &types.GenerateServerCertificatesRequest{CertificatePublicKeyPkix: st.n.K.Pkix, Nonce: finfo.Nonce, CommonName: nodeenrollment.CommonDnsName, NonceSignature: sig}
						acs := world.ClientSpec{Protos: append(world.AuthProtos(areq), world.CertPref(curID)), Chain: chain, Signer: st.n.K.Priv}
						rec, res, ok := runClient(c, lw, acs)
						if !ok {
							return
						}
						c.R.Eval(fmt.Sprintf("seq %s step %d authentication repeating a fetch (signature %d bytes)", ac.Ops, step, len(sig)), true)
						if rec.Authenticated() {
							c.R.Violation(fmt.Sprintf("unauthorized-auth:sequence,repeats-a-fetch,everRegistered=%v", st.everHad), fmt.Sprintf("node authenticated at step %d of %q although its record is not in storage: its request repeated key, nonce and common name of its earlier credential fetch and carried no valid signature", step, ac.Ops), ac)
						} else {
							c.R.Count("seq_unregistered_rejected_when_repeating_a_fetch", 1)
						}
						finishConn(rec, res)
					}
				}
			}
			cs := world.ClientSpec{Protos: append(world.AuthProtos(req), world.CertPref(curID)), Chain: chain, Signer: st.n.K.Priv}
			rec, res, ok := runClient(c, lw, cs)
			if !ok {
				return
			}
			desc := fmt.Sprintf("seq %s step %d", ac.Ops, step)
			c.R.Eval(desc, true)
			auth := rec.Authenticated()
			if auth && !st.registered {
				c.R.Violation(fmt.Sprintf("unauthorized-auth:sequence,everRegistered=%v", st.everHad), fmt.Sprintf("node authenticated at step %d of %q although its record is not in storage", step, ac.Ops), ac)
			}
			if st.registered {
				if auth {
					c.R.Count("seq_registered_connects", 1)
				} else {
					c.R.Count("seq_registered_REJECTED", 1)
				}
			} else if !auth {
				c.R.Count("seq_unregistered_rejected", 1)
			}
			finishConn(rec, res)
		}
	}
}

// runReinit: a registered node connects (so the process has seen the server's CA certificates), the
// operator re-initialises the roots (e.g. after a compromise) and keeps the node record; the node then
// presents its old chain. The old roots are no longer roots of this server. A second variant presents a
// chain issued by another server of the same process whose listener has handled connections before.
func runReinit(c *engine.Ctx, ac advCase) {
	r := c.R
	w := newAdvWorld("normal", world.Inmem, ac.BaseTLS)
	defer w.close()
	connect := func(lw *world.LW, n *world.Node, pref string) (*world.ConnRec, bool) {
		nonce := world.RandBytes(nodeenrollment.NonceSize)
		req := &types.GenerateServerCertificatesRequest{CertificatePublicKeyPkix: n.K.Pkix, Nonce: nonce, NonceSignature: ed25519.Sign(n.K.Priv, nonce)}
		b := n.Creds.CertificateBundles[0]
		protos := world.AuthProtos(req)
		if pref != "" {
			protos = append(protos, world.CertPref(pref))
		}
		cs := world.ClientSpec{Protos: protos, Chain: [][]byte{b.CertificateDer, b.CaCertificateDer}, Signer: n.K.Priv}
		rec, res, ok := runClient(c, lw, cs)
		if !ok {
			return nil, false
		}
		auth := rec.Authenticated()
		finishConn(rec, res)
		_ = auth
		return rec, true
	}
	// 1. honest connection under the original roots
	rec, ok := connect(w.lw, w.A, w.curID)
	if !ok {
		return
	}
	if !rec.Authenticated() {
		r.Count("positive_control_REJECTED", 1)
		return
	}
	switch ac.Mut {
	case "reinitialize":
		if _, err := rotation.RotateRootCertificates(w.s.Ctx, w.s.Store, w.s.Opts(nodeenrollment.WithReinitializeRoots(true))...); err != nil {
			r.Broken("reinitialize: " + err.Error())
			return
		}
		for _, pref := range []string{"", w.curID} {
			rec, ok := connect(w.lw, w.A, pref)
			if !ok {
				return
			}
			r.Eval(engine.J(ac)+pref, true)
			if rec.Authenticated() {
				r.Violation("unauthorized-auth:chain-under-roots-replaced-by-reinitialization", "after the roots were re-initialised the listener still authenticated a certificate issued by the replaced roots (node record kept, key held)", ac)
			} else {
				r.Count("replaced_roots_rejected", 1)
			}
		}
	case "other-server":
		// a second server in the same process; the node's key is registered there as well
		w2 := newAdvWorld("normal", world.Inmem, ac.BaseTLS)
		defer w2.close()
		rec2, ok := connect(w2.lw, w2.A, w2.curID) // w2's own traffic
		if !ok || !rec2.Authenticated() {
			return
		}
		n := world.MustNode(false, "")
		n.K, n.Creds.CertificatePublicKeyPkix = w.A.K, w.A.K.Pkix // same certificate key as A on server 1
		n.Creds.CertificatePrivateKeyPkcs8 = w.A.K.Pkcs8
		req, err := n.FetchRequest()
		if err != nil {
			r.Broken(err.Error())
			return
		}
		if _, err := registration.AuthorizeNode(w2.s.Ctx, w2.s.Store, req, w2.s.Opts()...); err != nil {
			r.Broken("authorize on second server: " + err.Error())
			return
		}
		for _, pref := range []string{"", w2.curID} {
			rec, ok := connect(w2.lw, w.A, pref) // A presents the chain issued by server 1
			if !ok {
				return
			}
			r.Eval(engine.J(ac)+pref, true)
			if rec.Authenticated() {
				r.Violation("unauthorized-auth:chain-under-another-servers-roots", "the listener authenticated a certificate issued by the roots of another server in the same process (key registered, key held)", ac)
			} else {
				r.Count("other_servers_roots_rejected", 1)
			}
		}
	}
}

func genSeqs(alphabet string, maxLen int) []string {
	var out []string
	var rec func(cur string)
	rec = func(cur string) {
		if len(cur) > 0 && strings.ContainsAny(cur, "Cc") {
			out = append(out, cur)
		}
		if len(cur) == maxLen {
			return
		}
		for _, ch := range alphabet {
			rec(cur + string(ch))
		}
	}
	rec("")
	return out
}

// ---------------------------------------------------------------------------

func runTLSAdv(c *engine.Ctx) engine.Result {
	r := c.R
	res := engine.Result{
		Rule: "case = one adversarial TLS client (capability product, byte mutation of an honest ALPN request, or a step of a register/remove/connect sequence) against a real InterceptingListener; non-trivial = the request decoded on the server side so that the authorization comparison was reached; distinct by case descriptor. Oracle: authenticated => key possession AND leaf under a currently valid server root AND nonce signed by the key of a record present (by key ID, or under the named node ID on a NodeIdLoader).",
		Assumptions: []string{
			"only-if direction is enforced; honest clients are a positive control (run is inconclusive if they cannot authenticate)",
			"validity margins of crafted roots are >= 1 h, so wall-clock drift during the run cannot change the oracle",
			"trusts crypto/tls, crypto/x509, crypto/ed25519 for the harness's own classification",
		},
	}

	if c.Replay != nil {
		var ac advCase
		if err := json.Unmarshal(c.Replay, &ac); err != nil {
			r.Broken("bad replay: " + err.Error())
			return res
		}
		switch ac.Kind {
		case "reinit":
			runReinit(c, ac)
		case "seq":
			runSeq(c, ac)
		case "resumption", "hangup-after-hello":
			runResumption(c, orDefault(ac.Storage, world.Inmem), false, 0)
		default:
			w := newAdvWorld(orDefault(ac.World, "normal"), orDefault(ac.Storage, world.Inmem))
			defer w.close()
			if ac.Kind == "mutate" {
				w.runMutate(c, ac)
			} else {
				w.runProduct(c, ac)
			}
		}
		return res
	}

	// ---- case lists ---------------------------------------------------------
	var product []advCase
	for _, wn := range []string{"normal", "both", "expired"} {
		for _, st := range []string{world.Inmem, world.Ordered} {
			for _, id := range []string{"A", "R", "U"} {
				for _, cert := range []string{"cur", "next", "otherleaf", "foreign", "selfsigned", "serverauth", "stacked-ca", "stacked-leaf", "stacked-issued-by-node", "otherleaf-then-named-leaf"} {
					if id == "U" && (cert == "cur" || cert == "next") {
						continue
					}
					for _, holds := range []bool{true, false} {
						for _, ns := range []string{"self", "other", "unreg", "missing"} {
							for _, skip := range []bool{false, true} {
								for _, hint := range []string{"none", "match", "foreign", "near-miss"} {
									for _, ss := range []string{"none", "valid", "forged", "missing"} {
										for _, pref := range []string{"valid", "garbage", "absent"} {
											for _, cn := range []string{"", "evil.example"} {
												product = append(product, advCase{Kind: "product", World: wn, Storage: st, Identity: id, Cert: cert, HoldsKey: holds, NonceSig: ns, Skip: skip, Hint: hint, StateSig: ss, Pref: pref, CN: cn})
											}
										}
									}
								}
							}
						}
					}
				}
			}
		}
	}
	rng := c.Rng("tlsadv")
	full := len(product)
	if c.Quick() {
		// stratified sample: shuffle, then take a prefix, then add every case of the
		// security-critical sub-product (pref valid, no CN, state none) so that every
		// value of every factor and the pairs skip x record, hint x signature occur
		rng.Shuffle(len(product), func(i, j int) { product[i], product[j] = product[j], product[i] })
		var pick []advCase
		seen := map[string]bool{}
		for _, pc := range product {
			core := pc.Pref == "valid" && pc.CN == "" && pc.StateSig == "none" && pc.Cert != "serverauth" && pc.World != "expired"
			if core || len(pick) < 4000 {
				k := engine.J(pc)
				if !seen[k] {
					seen[k] = true
					pick = append(pick, pc)
				}
			}
		}
		product = pick
	} else {
		// the full product is large; thorough runs all of it except that the serverauth
		// certificate kind (one extra handshake each) is sampled 1 in 4
		var keep []advCase
		for _, pc := range product {
			if pc.Cert == "serverauth" && rng.Intn(4) != 0 {
				continue
			}
			keep = append(keep, pc)
		}
		product = keep
	}
	// base-TLS and fetch-prefix variants of a sample
	n := len(product)
	for i := 0; i < n; i += 7 {
		pc := product[i]
		pc.BaseTLS = true
		product = append(product, pc)
	}
	for i := 3; i < n; i += 11 {
		pc := product[i]
		pc.FetchMode = true
		product = append(product, pc)
	}
	for i := 5; i < n; i += 9 {
		pc := product[i]
		pc.Mixed = []string{"fetch-first", "auth-first"}[(i/9)%2]
		product = append(product, pc)
	}
	// every identity / certificate kind with both mixed orders in the plainest setting
	for _, wn := range []string{"normal", "both"} {
		for _, id := range []string{"A", "R", "U"} {
			for _, cert := range []string{"cur", "selfsigned", "foreign"} {
				if id == "U" && cert == "cur" {
					continue
				}
				for _, mx := range []string{"fetch-first", "auth-first"} {
					for _, ns := range []string{"self", "unreg"} {
						product = append(product, advCase{Kind: "product", World: wn, Storage: world.Inmem, Identity: id, Cert: cert, HoldsKey: true, NonceSig: ns, Hint: "none", StateSig: "none", Pref: "valid", Mixed: mx})
					}
				}
			}
		}
	}
	r.Set("product_space", map[string]any{"full_product": full, "run": len(product), "all": !c.Quick()})

	// group by world so that each worker builds each world once
	type wkey struct{ w, s string }
	groups := map[wkey][]advCase{}
	for _, pc := range product {
		groups[wkey{pc.World, pc.Storage}] = append(groups[wkey{pc.World, pc.Storage}], pc)
	}
	var mu sync.Mutex
	sampled := 0
	workers := engine.Workers()
	for k, list := range groups {
		k, list := k, list
		// split the list across workers, each with its own world
		parts := workers
		if parts > len(list) {
			parts = len(list)
		}
		var wg sync.WaitGroup
		for p := 0; p < parts; p++ {
			wg.Add(1)
			go func(p int) {
				defer wg.Done()
				w := newAdvWorld(k.w, k.s, p%2 == 1) // every second world seals its records with a storage wrapper
				defer w.close()
				if p%2 == 1 {
					r.Count("worlds_with_storage_wrapper", 1)
				}
				for i := p; i < len(list); i += parts {
					w.runProduct(c, list[i])
					mu.Lock()
					if sampled < 3 && list[i].Skip && list[i].Identity == "R" {
						sampled++
						r.Sample(list[i])
					}
					mu.Unlock()
				}
			}(p)
		}
		wg.Wait()
	}

	// ---- mutations ----------------------------------------------------------
	{
		probe := newAdvWorld("normal", world.Inmem)
		_, hb := probe.honestReq()
		probe.close()
		var muts []advCase
		kinds := []string{"flip0", "flip1", "flip2", "flip3", "flip4", "flip5", "flip6", "flip7", "zero", "ff", "rand"}
		if c.Quick() {
			kinds = []string{"flip0", "flip7", "zero", "ff", "rand"}
		}
		for pos := 0; pos < len(hb); pos++ {
			for _, k := range kinds {
				muts = append(muts, advCase{Kind: "mutate", Level: "proto", Pos: pos, Mut: k, RandB: byte(rng.Intn(256)), World: "normal", Storage: world.Inmem})
			}
		}
		alpnLen := len(hb)*4/3 + 40
		step := 1
		if c.Quick() {
			step = 3
		}
		for pos := 0; pos < alpnLen; pos += step {
			for _, k := range []string{"flip0", "flip5", "rand"} {
				muts = append(muts, advCase{Kind: "mutate", Level: "alpn", Pos: pos, Mut: k, RandB: byte(33 + rng.Intn(90)), World: "normal", Storage: world.Inmem})
			}
		}
		for _, st := range []string{world.Inmem, world.Ordered} {
			muts = append(muts, advCase{Kind: "mutate", Level: "proto", Mut: "appendskip", World: "normal", Storage: st})
		}
		r.Set("mutation_cases", len(muts))
		r.Sample(muts[len(muts)/3])
		parts := workers
		var wg sync.WaitGroup
		for p := 0; p < parts; p++ {
			wg.Add(1)
			go func(p int) {
				defer wg.Done()
				ws := map[string]*advWorld{}
				defer func() {
					for _, w := range ws {
						w.close()
					}
				}()
				for i := p; i < len(muts); i += parts {
					w := ws[muts[i].Storage]
					if w == nil {
						w = newAdvWorld("normal", muts[i].Storage)
						ws[muts[i].Storage] = w
					}
					w.runMutate(c, muts[i])
				}
			}(p)
		}
		wg.Wait()
	}

	// ---- sequences ----------------------------------------------------------
	{
		seqs := genSeqs("RXC", c.Pick(5, 6))
		two := genSeqs("RXCrxc", c.Pick(3, 4))
		for _, s := range two {
			if strings.ContainsAny(s, "rxc") {
				seqs = append(seqs, s)
			}
		}
		r.Set("sequences", len(seqs))
		r.Sample(map[string]any{"kind": "seq", "ops": seqs[len(seqs)/2], "legend": "R register, X remove, C connect; lower case = second node"})
		engine.ForEach(len(seqs), workers, func(i int) { runSeq(c, advCase{Kind: "seq", Ops: seqs[i]}) })
	}

	// ---- roots replaced after the process has seen them -------------------------
	{
		var cs []advCase
		for i := 0; i < c.Pick(6, 40); i++ {
			cs = append(cs, advCase{Kind: "reinit", Mut: "reinitialize", BaseTLS: i%2 == 1}, advCase{Kind: "reinit", Mut: "other-server", BaseTLS: i%2 == 1})
		}
		engine.ForEach(len(cs), workers, func(i int) { runReinit(c, cs[i]) })
	}

	// ---- node IDs on the library's own store-once back end ---------------------
	for i := 0; i < c.Pick(2, 8); i++ {
		runStoreOnceNodeIDs(c, i%2 == 1)
	}

	// ---- clients that keep TLS session tickets ----------------------------------
	for i := 0; i < c.Pick(4, 16); i++ {
		runResumption(c, []string{world.Inmem, world.File, world.StoreOnce}[i%3], i%2 == 1, i)
	}
	r.Require("resumption:keyless_peer_with_ticket_rejected", int64(c.Pick(6, 24)))
	r.Require("hangup_after_hello_not_authenticated", int64(c.Pick(9, 36)))

	{
		w := newAdvWorld("normal", world.Inmem)
		for _, protos := range [][]string{nil, {"h2"}, {world.CertPref(w.curID)}, {"h2", world.CertPref("zz")}, {"__AUTH__"}, {"v1-nodee-"}} {
			for _, lw := range []*world.LW{w.lw, w.lwBase} {
				ac := advCase{Kind: "basefall", Protos: protos, BaseTLS: lw == w.lwBase}
				b := w.A.Creds.CertificateBundles[0]
				cs := world.ClientSpec{Protos: protos, Chain: [][]byte{b.CertificateDer, b.CaCertificateDer}, Signer: w.A.K.Priv}
				rec, cres, ok := runClient(c, lw, cs)
				if !ok {
					continue
				}
				r.Eval(engine.J(ac), true)
				w.judge(c, ac, advVerdict{why: "client offers no library request prefix"}, rec, false)
				finishConn(rec, cres)
			}
		}
		w.close()
	}

	r.Require("positive_control_authenticated", 10)
	r.Require("oracle_forbids:no_key_possession", 10)
	r.Require("oracle_forbids:no_valid_root", 10)
	r.Require("oracle_forbids:no_record_or_bad_signature", 10)
	r.Require("mutations_that_still_decode", 10)
	r.Require("seq_registered_connects", 10)
	r.Require("seq_unregistered_rejected_under_a_storage_fault", 20)
	r.Require("seq_unregistered_rejected_when_repeating_a_fetch", 20)
	r.Require("worlds_with_storage_wrapper", 3)
	r.Require("replaced_roots_rejected", 4)
	r.Require("other_servers_roots_rejected", 4)
	r.Require("mixed_prefix_lists:fetch-first", 10)
	r.Require("mixed_prefix_lists:auth-first", 10)
	r.Require("storeonce_nodeid:authenticated_under_own_id_or_key_id", 6)
	r.Require("storeonce_nodeid:foreign_or_near_miss_id_rejected", 20)
	if n := r.Counter("positive_control_REJECTED"); n > 0 {
		r.Inconclusive(fmt.Sprintf("%d fully honest clients were rejected: the authentication path is not functional, so 'only registered nodes authenticate' cannot be judged", n))
	}
	_ = rand.Int
	return res
}

func orDefault(s, d string) string {
	if s == "" {
		return d
	}
	return s
}
