package engines

// C16 — connection metadata given to the application is exactly what the node
// sent. Honest and rogue clients against a real InterceptingListener; the
// oracle knows the offered ALPN list and the supplied state because the
// harness performs the client side of the handshake itself with the
// configuration the library produced.

import (
	"context"
	"crypto/ed25519"
	"crypto/tls"
	"encoding/json"
	"fmt"
	"math/rand"
	"net"
	"reflect"
	"strings"
	"time"

	"github.com/hashicorp/nodeenrollment"
	nodenet "github.com/hashicorp/nodeenrollment/net"
	"github.com/hashicorp/nodeenrollment/protocol"
	nodetls "github.com/hashicorp/nodeenrollment/tls"
	"github.com/hashicorp/nodeenrollment/types"
	"google.golang.org/protobuf/proto"
	"google.golang.org/protobuf/types/known/structpb"

	"verifharness/engine"
	"verifharness/world"
)

func init() {
	engine.Register(&engine.Spec{Prop: "C16", Engine: "meta", Level: "exploration", Fn: runMeta})
}

type metaCase struct {
	Kind    string `json:"kind"` // honest | rogue
	State   string `json:"state"`
	Extras  string `json:"extras"`
	Storage string `json:"storage"`
	Hint    bool   `json:"node_id_hint,omitempty"`
	// rogue
	StateSig string `json:"state_sig,omitempty"` // forged | missing | other-node | valid
	Skip     bool   `json:"skip_flag,omitempty"`
	Seed     int64  `json:"seed"`
	PrefPos  string `json:"certificate_preference_position,omitempty"` // last (as the library builds it) | first | middle | then-appended
	// OwnFn: the listener is configured with the application's own certificate-generation function (the
	// multi-hop hook): it authenticates the node's nonce with the library's function but does not look at the
	// client state and returns none. Whatever state the request carried is then unverified.
	OwnFn bool `json:"listener_uses_own_certificate_function,omitempty"`
}

func nestedState(depth int, rng *rand.Rand) map[string]any {
	m := map[string]any{"leaf": rng.Int63(), "s": fmt.Sprintf("v%d", rng.Intn(1000)), "b": rng.Intn(2) == 0, "nil": nil}
	if depth > 0 {
		m["child"] = nestedState(depth-1, rng)
		m["list"] = []any{float64(rng.Intn(10)), "x", nestedState(0, rng), []any{true, nil}}
	}
	return m
}

func makeState(kind string, rng *rand.Rand) *structpb.Struct {
	var m map[string]any
	switch kind {
	case "absent":
		return nil
	case "empty":
		return &structpb.Struct{}
	case "flat":
		m = map[string]any{"id": "node-7", "n": 42.5, "ok": true}
	case "nested":
		m = nestedState(4, rng)
	case "lists":
		m = map[string]any{"l": []any{1.0, 2.0, []any{"a", []any{"b"}}, map[string]any{"k": []any{}}}, "e": []any{}}
	case "8k", "30k":
		n := 8000
		if kind == "30k" {
			n = 30000
		}
		m = map[string]any{}
		for i := 0; len(m) < n/40; i++ {
			m[fmt.Sprintf("key-%05d", i)] = fmt.Sprintf("value-%020d", rng.Int63())
		}
	}
	st, err := structpb.NewStruct(m)
	if err != nil {
		panic(err)
	}
	return st
}

func makeExtras(kind string, rng *rand.Rand) []string {
	switch kind {
	case "none":
		return nil
	case "one":
		return []string{"my-proto"}
	case "twenty":
		var out []string
		for i := 0; i < 20; i++ {
			out = append(out, fmt.Sprintf("proto-%d-%d", i, rng.Intn(100)))
		}
		return out
	case "duplicates":
		return []string{"dup", "h2", "dup", "dup", "h2"}
	case "lookalikes":
		return []string{"v1-nodee-", "v1-nodee-fetch-node-creds", "v1-nodee-authenticate-node", "v1-nodee-certificate-preferenc", "V1-NODEE-AUTHENTICATE-NODE-00-AAAA", "00-abc", "-"}
	case "reserved":
		return []string{"__AUTH__", "__UNAUTH__", "A"}
	case "odd-bytes":
		// entries are opaque byte strings: padding, case, control and non-ASCII bytes are reported as offered
		return []string{"plain", " padded", "trailing\t", " v1-nodee-certificate-preference-lookalike", "MiXeD-Case", "nbsp\u00a0", "a\x00b", "\xff\xfe", "h2 ", "last"}
	}
	return nil
}

func stateEqual(a, b *structpb.Struct) bool {
	an := a == nil || len(a.Fields) == 0
	bn := b == nil || len(b.Fields) == 0
	if an || bn {
		return an && bn
	}
	return proto.Equal(a, b)
}

type metaWorld struct {
	s  *world.Server
	lw *world.LW
	A  *world.Node
	B  *world.Node
	ol *world.OrderedLoader
}

// newMetaWorld: wrap[0] = storage wrapper, wrap[1] = both roots valid now (the node then holds two
// valid chains and ClientConfigs produces two configurations), wrap[2] = the listener's own options carry a
// WithState option (state the operator wants attached to nodes that get authorized through the listener): it is
// configuration, not something a node sent, and must never show up as client state
// metaStateBlindFn authenticates the nonce like the library's function and neither verifies nor returns state
func metaStateBlindFn(ctx context.Context, st nodeenrollment.Storage, req *types.GenerateServerCertificatesRequest, opt ...nodeenrollment.Option) (*types.GenerateServerCertificatesResponse, error) {
	bare := proto.Clone(req).(*types.GenerateServerCertificatesRequest)
	bare.ClientState, bare.ClientStateSignature = nil, nil
	resp, err := nodetls.GenerateServerCertificates(ctx, st, bare, opt...)
	if resp != nil {
		resp.ClientState = nil
	}
	return resp, err
}

// runMetaViaSplit: the application takes its connections from sub-listeners of a split listener, with native
// connections requested: what such a *protocol.Conn reports is the same metadata (state the node signed, the
// protocol list it offered minus the certificate preference), also when the node offered names the split
// listener itself uses for its special sub-listeners.
func runMetaViaSplit(c *engine.Ctx) {
	r := c.R
	s := world.MustServer(world.ServerCfg{Backend: world.Inmem})
	defer s.Close()
	er, err := world.Enroll(s, world.FlowAuthorize, false, nil, nil, nil)
	if err != nil {
		r.Broken("meta via split: enroll: " + err.Error())
		return
	}
	node := er.Node
	lw, err := world.NewLW(s, world.LWCfg{BaseTLS: baseTLSConfig(), NoAccept: true})
	if err != nil {
		r.Broken("meta via split: listener: " + err.Error())
		return
	}
	defer lw.Close()
	sl, err := nodenet.NewSplitListener(lw.IL)
	if err != nil {
		r.Broken("meta via split: " + err.Error())
		return
	}
	type got struct {
		from string
		conn net.Conn
	}
	out := make(chan got, 64)
	for _, name := range []string{nodenet.AuthenticatedNonSpecificNextProto, nodenet.UnauthenticatedNextProto, "svc"} {
		ln, err := sl.GetListener(name, nodeenrollment.WithNativeConns(true))
		if err != nil {
			r.Broken("meta via split: GetListener: " + err.Error())
			return
		}
		go func(name string, ln net.Listener) {
			for {
				cn, err := ln.Accept()
				if err != nil {
					return
				}
				out <- got{name, cn}
			}
		}(name, ln)
	}
	go func() { _ = sl.Start() }()
	rng := rand.New(rand.NewSource(c.Rng("meta-split").Int63()))
	reserved := [][]string{nil, {"svc"}, {"x-one", nodenet.AuthenticatedNonSpecificNextProto}, {nodenet.UnauthenticatedNextProto, "y-two"}, {"a", nodenet.UnauthenticatedNextProto, nodenet.AuthenticatedNonSpecificNextProto, "svc"}, {"unregistered-1", "unregistered-2"}}
	for rep := 0; rep < c.Pick(1, 6); rep++ {
		for _, sk := range []string{"absent", "flat", "nested", "8k"} {
			for ei, extras := range reserved {
				state := makeState(sk, rng)
				var opts []nodeenrollment.Option
				if state != nil {
					opts = append(opts, nodeenrollment.WithState(state))
				}
				if extras != nil {
					opts = append(opts, nodeenrollment.WithExtraAlpnProtos(extras))
				}
				cfgs, err := nodetls.ClientConfigs(s.Ctx, node.Creds, opts...)
				if err != nil || len(cfgs) == 0 {
					r.Broken(fmt.Sprintf("meta via split: ClientConfigs: %v", err))
					return
				}
				mc := metaCase{Kind: "honest-via-split-listener", State: sk, Extras: fmt.Sprint(extras), Seed: int64(ei)}
				raw, err := net.Dial("tcp", lw.Addr)
				if err != nil {
					r.Broken("meta via split: dial: " + err.Error())
					return
				}
				_ = raw.SetDeadline(time.Now().Add(30 * time.Second))
				tc := tls.Client(raw, cfgs[0])
				herr := tc.Handshake()
				r.Eval(engine.J(mc), true)
				var g got
				select {
				case g = <-out:
				case <-time.After(20 * time.Second):
					raw.Close()
					r.Count("via_split:not_delivered(handshake error "+fmt.Sprint(herr != nil)+")", 1)
					continue
				}
				pc, ok := g.conn.(*protocol.Conn)
				switch {
				case !ok:
					r.Violation("wrong-conn-type", fmt.Sprintf("sub-listener %q, asked for native connections, handed out %T", g.from, g.conn), mc)
				default:
					expected := stripPref(append([]string{}, cfgs[0].NextProtos...))
					if gotP := pc.ClientNextProtos(); !reflect.DeepEqual(append([]string{}, gotP...), expected) {
						r.Violation("client-next-protos-differ:via-split-listener", fmt.Sprintf("the connection handed out by sub-listener %q reports %d protocols, the node offered %d besides the certificate preference (extras %v)", g.from, len(gotP), len(expected), extras), map[string]any{"case": mc, "got_head": head(gotP, 6), "expected_head": head(expected, 6)})
					} else if !stateEqual(pc.ClientState(), state) {
						r.Violation("client-state-differs:via-split-listener:"+sk, fmt.Sprintf("the connection handed out by sub-listener %q reports a client state that differs from what the node supplied (state kind %s, extras %v)", g.from, sk, extras), mc)
					} else {
						r.Count("via_split:metadata_equal", 1)
						if ei >= 2 && ei <= 4 {
							r.Count("via_split:metadata_equal:node_offered_a_reserved_name", 1)
						}
					}
				}
				g.conn.Close()
				raw.Close()
			}
		}
	}
	_ = lw.IL.Close()
}

func newMetaWorld(storage string, wrap ...bool) *metaWorld {
	both := len(wrap) > 1 && wrap[1]
	w := &metaWorld{s: world.MustServer(world.ServerCfg{Backend: storage, StorageWrap: len(wrap) > 0 && wrap[0], NoRoots: both})}
	if both {
		const day = 24 * time.Hour
		craftRoots(w.s, -10*day, 4*day, -3*day, 11*day)
	}
	for _, np := range []**world.Node{&w.A, &w.B} {
		// the operator recorded state of its own with each node at authorization (server-side
		// bookkeeping, not something the node sent): it must never show up as client state
		opState, _ := structpb.NewStruct(map[string]any{"operator_note": "registered by the harness", "record_version": 3})
		er, err := world.Enroll(w.s, world.FlowAuthorize, false, opState, nil, nil)
		if err != nil {
			panic(err)
		}
		*np = er.Node
	}
	if ol, ok := w.s.Inner.(*world.OrderedLoader); ok {
		w.ol = ol
		ol.SetOrder("node-A", []string{w.B.K.KeyID, w.A.K.KeyID}) // the verifying record is not the first one
	}
	var err error
	cfg := world.LWCfg{}
	if len(wrap) > 2 && wrap[2] {
		lst, _ := structpb.NewStruct(map[string]any{"origin": "listener-configuration", "tier": 2})
		cfg.Options = w.s.Opts(nodeenrollment.WithState(lst))
	}
	if len(wrap) > 3 && wrap[3] {
		cfg.GenFn = metaStateBlindFn
	}
	w.lw, err = world.NewLW(w.s, cfg)
	if err != nil {
		panic(err)
	}
	return w
}

func (w *metaWorld) close() { w.lw.Close(); w.s.Close() }

// runDials: the same comparison for connections made by the library's own dialer (protocol.Dial builds the
// request, splits it and picks the chain itself): the state and the extra protocols handed to Dial are what
// the application on the server side must see
func (w *metaWorld) runDials(c *engine.Ctx, seed int64) {
	r := c.R
	rng := rand.New(rand.NewSource(seed))
	for _, sk := range []string{"absent", "empty", "flat", "nested", "lists", "8k", "30k"} {
		for _, ek := range []string{"none", "one", "twenty", "odd-bytes"} {
			state := makeState(sk, rng)
			extras := makeExtras(ek, rng)
			var opts []nodeenrollment.Option
			if state != nil {
				opts = append(opts, nodeenrollment.WithState(state))
			}
			if extras != nil {
				opts = append(opts, nodeenrollment.WithExtraAlpnProtos(extras))
			}
			desc := fmt.Sprintf("dial|state %s|extras %s", sk, ek)
			mc := metaCase{Kind: "honest-dial", State: sk, Extras: ek}
			conn, derr := protocol.Dial(w.s.Ctx, w.A.Store, w.lw.Addr, w.A.NodeOpts(opts...)...)
			r.Eval(desc, true)
			if derr != nil {
				r.Count("honest_client_not_authenticated", 1)
				r.Sample(map[string]any{"dial_failed": mc, "error": derr.Error()})
				continue
			}
			rec, werr := w.lw.Wait(conn.LocalAddr().String())
			if werr != nil {
				conn.Close()
				r.Inconclusive("watchdog waiting for server side of a dial")
				return
			}
			pc, ok := rec.Conn.(*protocol.Conn)
			if !rec.Authenticated() || !ok {
				conn.Close()
				r.Count("honest_client_not_authenticated", 1)
				continue
			}
			var listed []string
			for _, e := range pc.ClientNextProtos() {
				if !strings.HasPrefix(e, nodeenrollment.AuthenticateNodeNextProtoV1Prefix) {
					listed = append(listed, e)
				}
			}
			switch {
			case len(listed) != len(extras) || (len(extras) > 0 && !reflect.DeepEqual(listed, extras)):
				r.Violation("client-next-protos-differ:dial", fmt.Sprintf("the extra protocols reported for a connection made by Dial (%d) are not the ones handed to Dial (%d)", len(listed), len(extras)), mc)
			case !stateEqual(pc.ClientState(), state):
				r.Violation("client-state-differs:dial:"+sk, "ClientState differs from the state handed to Dial (state kind "+sk+")", mc)
			default:
				r.Count("dials_with_equal_metadata:"+sk, 1)
			}
			rec.Conn.Close()
			conn.Close()
		}
	}
	// one state object kept by the node and updated in place between its dials (a session counter, a changed
	// label, a removed field): every connection carries the state as it is when that connection is dialed
	live, _ := structpb.NewStruct(map[string]any{"session": "one", "attempt": 1.0, "labels": []any{"a"}})
	for round := 1; round <= 4; round++ {
		switch round {
		case 2:
			live.Fields["session"], live.Fields["attempt"] = structpb.NewStringValue("two"), structpb.NewNumberValue(2)
		case 3:
			delete(live.Fields, "labels")
		case 4:
			live.Fields["nested"] = structpb.NewStructValue(&structpb.Struct{Fields: map[string]*structpb.Value{"k": structpb.NewBoolValue(true)}})
		}
		want := proto.Clone(live).(*structpb.Struct)
		mc := metaCase{Kind: "honest-dial", State: fmt.Sprintf("same-object-updated-in-place(round %d)", round), Extras: "none"}
		conn, derr := protocol.Dial(w.s.Ctx, w.A.Store, w.lw.Addr, w.A.NodeOpts(nodeenrollment.WithState(live))...)
		r.Eval("dial|state object reused|round "+fmt.Sprint(round), true)
		if derr != nil {
			r.Count("honest_client_not_authenticated", 1)
			continue
		}
		rec, werr := w.lw.Wait(conn.LocalAddr().String())
		if werr != nil {
			conn.Close()
			r.Inconclusive("watchdog waiting for server side of a dial")
			return
		}
		if pc, ok := rec.Conn.(*protocol.Conn); ok && rec.Authenticated() {
			if !stateEqual(pc.ClientState(), want) {
				r.Violation("client-state-differs:dial:state-object-updated-in-place", fmt.Sprintf("the node updated its state object in place and dialed again (round %d): the connection reports a state that is not the one the node supplied for this connection", round), mc)
			} else {
				r.Count("dials_with_equal_metadata:state-object-updated-in-place", 1)
			}
			rec.Conn.Close()
		} else {
			r.Count("honest_client_not_authenticated", 1)
		}
		conn.Close()
	}
}

func stripPref(in []string) []string {
	out := []string{}
	for _, p := range in {
		if strings.HasPrefix(p, nodeenrollment.CertificatePreferenceV1Prefix) {
			continue
		}
		out = append(out, p)
	}
	return out
}

func (w *metaWorld) run(c *engine.Ctx, mc metaCase) {
	r := c.R
	rng := rand.New(rand.NewSource(mc.Seed))
	state := makeState(mc.State, rng)
	extras := makeExtras(mc.Extras, rng)
	var cfg *tls.Config
	expectState := state
	mustNotDeliver := false
	switch mc.Kind {
	case "honest":
		var opts []nodeenrollment.Option
		if state != nil {
			opts = append(opts, nodeenrollment.WithState(state))
		}
		if extras != nil {
			opts = append(opts, nodeenrollment.WithExtraAlpnProtos(extras))
		}
		cfgs, err := nodetls.ClientConfigs(w.s.Ctx, w.A.Creds, opts...)
		if err != nil || len(cfgs) == 0 {
			r.Broken(fmt.Sprintf("ClientConfigs: %v (%d configs)", err, len(cfgs)))
			return
		}
		cfg = cfgs[rng.Intn(len(cfgs))]
		r.Count(fmt.Sprintf("honest_client_configs:%d", len(cfgs)), 1)
		// what the node asked to have listed must be what its configuration lists
		var listed []string
		for _, e := range cfg.NextProtos {
			if !strings.HasPrefix(e, nodeenrollment.AuthenticateNodeNextProtoV1Prefix) && !strings.HasPrefix(e, nodeenrollment.CertificatePreferenceV1Prefix) {
				listed = append(listed, e)
			}
		}
		if len(listed) != len(extras) || (len(extras) > 0 && !reflect.DeepEqual(listed, extras)) {
			r.Violation("client-config-extras-differ", fmt.Sprintf("the configuration ClientConfigs built lists %d extra protocols, the node asked for %d (%d configurations)", len(listed), len(extras), len(cfgs)), mc)
		}
	case "rogue":
		// built by hand: valid nonce signature by A, state signature as chosen
		nonce := world.RandBytes(nodeenrollment.NonceSize)
		req := &types.GenerateServerCertificatesRequest{CertificatePublicKeyPkix: w.A.K.Pkix, Nonce: nonce, NonceSignature: ed25519.Sign(w.A.K.Priv, nonce), SkipVerification: mc.Skip}
		if mc.Hint {
			req.NodeId = "node-A"
		}
		if state == nil {
			state = makeState("flat", rng)
		}
		req.ClientState, _ = proto.Marshal(state)
		switch mc.StateSig {
		case "valid":
			req.ClientStateSignature = ed25519.Sign(w.A.K.Priv, req.ClientState)
			expectState = state
		case "forged":
			req.ClientStateSignature = ed25519.Sign(world.NewKeys().Priv, req.ClientState)
			mustNotDeliver = true
		case "other-node":
			req.ClientStateSignature = ed25519.Sign(w.B.K.Priv, req.ClientState)
			mustNotDeliver = true
			if mc.Hint && w.ol != nil {
				// B is a record under node-A in this world: nonce by A and state by B are two
				// different records of the lookup set; the statement leaves that open
				mustNotDeliver = false
				expectState = nil
			}
		case "missing":
			mustNotDeliver = true
		}
		roots, _ := w.s.Roots()
		curID, _ := nodeenrollment.KeyIdFromPkix(roots.Current.PublicKeyPkix)
		protos := append(world.AuthProtos(req), extras...)
		protos = append(protos, world.CertPref(curID))
		b := w.A.Creds.CertificateBundles[0]
		cert := &tls.Certificate{Certificate: [][]byte{b.CertificateDer, b.CaCertificateDer}, PrivateKey: w.A.K.Priv}
		cfg = &tls.Config{NextProtos: protos, InsecureSkipVerify: true, MinVersion: tls.VersionTLS13,
			GetClientCertificate: func(*tls.CertificateRequestInfo) (*tls.Certificate, error) { return cert, nil }}
	}
	// the application may modify the configuration the library produced: move the internal
	// certificate-preference entry, or append its own protocols after it
	if mc.PrefPos != "" && mc.PrefPos != "last" {
		var pref string
		var rest []string
		for _, p := range cfg.NextProtos {
			if strings.HasPrefix(p, nodeenrollment.CertificatePreferenceV1Prefix) && pref == "" {
				pref = p
			} else {
				rest = append(rest, p)
			}
		}
		if pref != "" {
			switch mc.PrefPos {
			case "first":
				cfg.NextProtos = append([]string{pref}, rest...)
			case "middle":
				k := len(rest) / 2
				cfg.NextProtos = append(append(append([]string{}, rest[:k]...), pref), rest[k:]...)
			case "lead-extra":
				// the application also puts a protocol of its own in front of everything
				cfg.NextProtos = append(append([]string{"app-lead-proto"}, rest...), pref)
			case "then-appended":
				cfg.NextProtos = append(append(append([]string{}, rest...), pref), "late-1", "late-2")
			}
		}
	}
	if mc.OwnFn {
		// nobody verified the state of this connection: none may be delivered, whatever its signature says
		mustNotDeliver = true
	}
	offered := append([]string{}, cfg.NextProtos...)
	expected := stripPref(offered)

	raw, err := net.Dial("tcp", w.lw.Addr)
	if err != nil {
		r.Broken("dial: " + err.Error())
		return
	}
	defer raw.Close()
	_ = raw.SetDeadline(time.Now().Add(60 * time.Second))
	tc := tls.Client(raw, cfg)
	herr := tc.Handshake()
	rec, werr := w.lw.Wait(raw.LocalAddr().String())
	if werr != nil {
		r.Inconclusive("watchdog waiting for server side")
		return
	}
	if rec.Returned && rec.Conn != nil {
		defer rec.Conn.Close()
	}
	desc := engine.J(mc)
	if rec.Panic != nil {
		r.Eval(desc, true)
		r.Violation("panic-in-accept:"+engine.LibraryFrame(rec.Stack), fmt.Sprintf("Accept panicked: %v", rec.Panic), mc)
		return
	}
	auth := rec.Authenticated()
	r.Eval(desc, auth || mustNotDeliver)
	if !auth {
		if mc.Kind == "honest" || (mc.Kind == "rogue" && mc.StateSig == "valid") {
			r.Count("honest_client_not_authenticated", 1)
			r.Sample(map[string]any{"not_authenticated": mc, "client_err": fmt.Sprint(herr), "accept_err": fmt.Sprint(rec.AcceptErr)})
		} else {
			r.Count("rogue_state_rejected", 1)
		}
		return
	}
	pc, ok := rec.Conn.(*protocol.Conn)
	if !ok {
		r.Violation("wrong-conn-type", fmt.Sprintf("Accept returned %T", rec.Conn), mc)
		return
	}
	r.Count("authenticated_connections_inspected", 1)
	got := pc.ClientNextProtos()
	if !reflect.DeepEqual(append([]string{}, got...), expected) && !(len(got) == 0 && len(expected) == 0) {
		lead := 0
		for lead < len(got) && got[lead] == "" {
			lead++
		}
		r.Violation("client-next-protos-differ", fmt.Sprintf("ClientNextProtos has %d entries (%d leading empty strings), the client offered %d besides the certificate preference", len(got), lead, len(expected)),
			map[string]any{"case": mc, "got_head": head(got, 6), "expected_head": head(expected, 6)})
	} else {
		r.Count("protocol_lists_equal", 1)
	}
	// defensive copy
	if len(got) > 0 {
		got[0] = "tampered-by-application"
		again := pc.ClientNextProtos()
		if len(again) == 0 || again[0] == "tampered-by-application" {
			r.Violation("client-next-protos-not-a-copy", "modifying the slice returned by ClientNextProtos changed what a second call returns", mc)
		} else {
			r.Count("returned_list_is_a_copy", 1)
		}
	}
	gs := pc.ClientState()
	switch {
	case mustNotDeliver && gs != nil && len(gs.Fields) > 0 && mc.OwnFn:
		r.Violation("unverified-state-delivered:own-function:"+orDefault(mc.StateSig, "honest"), "client state was delivered on a listener whose own certificate function neither verified nor returned any (state signature in the request: "+orDefault(mc.StateSig, "by the node")+")", mc)
	case mustNotDeliver && mc.OwnFn:
		r.Count("own_function:no_state_delivered:"+orDefault(mc.StateSig, "honest"), 1)
	case mustNotDeliver && gs != nil && len(gs.Fields) > 0:
		r.Violation("unverified-state-delivered:"+mc.StateSig, "client state was delivered although its signature does not verify under the authenticating record ("+mc.StateSig+")", mc)
	case mustNotDeliver:
		r.Count("unverified_state_withheld", 1)
	case mc.Kind == "rogue" && mc.StateSig == "other-node":
		r.Count("state_signed_by_other_record_of_node_id(unconstrained)", 1)
	case !stateEqual(gs, expectState):
		r.Violation("client-state-differs:"+mc.State, "ClientState differs from the state the node supplied (state kind "+mc.State+")", mc)
	default:
		r.Count("states_equal:"+mc.State, 1)
		// what the connection reports about its client does not change when the application closes it (a handler
		// that logs "who was that" in a deferred call after its deferred Close)
		before := pc.ClientNextProtos()
		_ = pc.Close()
		if after := pc.ClientNextProtos(); !reflect.DeepEqual(before, after) {
			r.Violation("client-next-protos-differ:after-close", fmt.Sprintf("ClientNextProtos reported %d entries while the connection was open and %d after the application closed it", len(before), len(after)), mc)
		} else if !stateEqual(pc.ClientState(), expectState) {
			r.Violation("client-state-differs:after-close", "ClientState differs from the state the node supplied once the application has closed the connection (state kind "+mc.State+")", mc)
		} else {
			r.Count("metadata_unchanged_after_close", 1)
		}
	}
}

func head(s []string, n int) []string {
	if len(s) > n {
		s = s[:n]
	}
	out := make([]string, len(s))
	for i, e := range s {
		if len(e) > 60 {
			e = e[:60] + "…"
		}
		out[i] = e
	}
	return out
}

func runMeta(c *engine.Ctx) engine.Result {
	r := c.R
	res := engine.Result{
		Rule:        "case = one connection: (honest configuration from tls.ClientConfigs | hand-built request) x state kind x extra-protocol list x storage kind x state-signature kind; non-trivial = the connection was authenticated and its metadata compared, or a must-not-deliver case was decided; distinct by descriptor. Oracle: ClientNextProtos == offered list minus certificate-preference entries (order, duplicates), defensive copy, ClientState == supplied state and absent when unverified.",
		Assumptions: []string{"an empty Struct and an absent state are treated as equal", "extras that themselves carry a full library prefix are not generated (the statement does not define them)"},
	}
	if c.Replay != nil {
		var mc metaCase
		if err := json.Unmarshal(c.Replay, &mc); err != nil {
			// violation replays may nest the case
			var wrap struct {
				Case metaCase `json:"case"`
			}
			if json.Unmarshal(c.Replay, &wrap) != nil {
				r.Broken("bad replay")
				return res
			}
			mc = wrap.Case
		}
		if mc.Kind == "" {
			var wrap struct {
				Case metaCase `json:"case"`
			}
			_ = json.Unmarshal(c.Replay, &wrap)
			mc = wrap.Case
		}
		w := newMetaWorld(orDefault(mc.Storage, world.Inmem), false, false, false, mc.OwnFn)
		defer w.close()
		w.run(c, mc)
		return res
	}
	rng := c.Rng("meta")
	var cases []metaCase
	reps := c.Pick(5, 60)
	for rep := 0; rep < reps; rep++ {
		for _, st := range []string{"absent", "empty", "flat", "nested", "lists", "8k", "30k"} {
			for _, ex := range []string{"none", "one", "twenty", "duplicates", "lookalikes", "reserved", "odd-bytes"} {
				for _, sto := range []string{world.Inmem, world.Ordered} {
					cases = append(cases, metaCase{Kind: "honest", State: st, Extras: ex, Storage: sto, Seed: rng.Int63()})
				}
			}
		}
		for _, pos := range []string{"first", "middle", "then-appended", "lead-extra"} {
			for _, ex := range []string{"none", "one", "twenty", "duplicates"} {
				for _, sto := range []string{world.Inmem, world.Ordered} {
					cases = append(cases, metaCase{Kind: "honest", State: "flat", Extras: ex, Storage: sto, Seed: rng.Int63(), PrefPos: pos})
					cases = append(cases, metaCase{Kind: "rogue", State: "nested", Extras: ex, Storage: sto, StateSig: "valid", Seed: rng.Int63(), PrefPos: pos})
				}
			}
		}
		for _, sig := range []string{"valid", "forged", "missing", "other-node"} {
			for _, skip := range []bool{false, true} {
				for _, sto := range []string{world.Inmem, world.Ordered} {
					for _, hint := range []bool{false, true} {
						for _, st := range []string{"flat", "nested", "8k"} {
							cases = append(cases, metaCase{Kind: "rogue", State: st, Extras: "one", Storage: sto, Hint: hint, StateSig: sig, Skip: skip, Seed: rng.Int63()})
						}
					}
				}
			}
		}
	}
	r.Sample(cases[0])
	r.Sample(cases[len(cases)-1])
	byStore := map[string][]metaCase{}
	for _, mc := range cases {
		byStore[mc.Storage] = append(byStore[mc.Storage], mc)
	}
	workers := engine.Workers() / 2
	if workers < 1 {
		workers = 1
	}
	done := make(chan struct{})
	n := 0
	for sto, list := range byStore {
		for p := 0; p < workers; p++ {
			n++
			go func(sto string, list []metaCase, p int) {
				defer func() { done <- struct{}{} }()
				w := newMetaWorld(sto, p%2 == 1, p%3 == 2, p%4 == 1 || p%4 == 2)
				defer w.close()
				for i := p; i < len(list); i += workers {
					w.run(c, list[i])
				}
				if p < 3 {
					w.runDials(c, int64(p)+c.Rng("meta-dial").Int63())
				}
			}(sto, list, p)
		}
	}
	for i := 0; i < n; i++ {
		<-done
	}
	// a listener with the application's own, state-blind certificate function
	for _, sto := range []string{world.Inmem, world.Ordered} {
		w := newMetaWorld(sto, false, false, false, true)
		for rep := 0; rep < c.Pick(1, 6); rep++ {
			for _, sig := range []string{"valid", "forged", "missing", "other-node"} {
				for _, hint := range []bool{false, true} {
					w.run(c, metaCase{Kind: "rogue", State: []string{"flat", "nested", "8k"}[(rep+len(sig))%3], Extras: "one", Storage: sto, Hint: hint, StateSig: sig, Seed: rng.Int63(), OwnFn: true})
				}
			}
			for _, st := range []string{"absent", "flat", "30k"} {
				w.run(c, metaCase{Kind: "honest", State: st, Extras: "one", Storage: sto, Seed: rng.Int63(), OwnFn: true})
			}
		}
		w.close()
	}
	runMetaViaSplit(c)
	r.Require("via_split:metadata_equal", 12)
	r.Require("via_split:metadata_equal:node_offered_a_reserved_name", 6)
	r.Require("own_function:no_state_delivered:forged", 2)
	r.Require("own_function:no_state_delivered:honest", 2)
	r.Require("authenticated_connections_inspected", 50)
	r.Require("protocol_lists_equal", 1)
	r.Require("states_equal:30k", 1)
	r.Require("dials_with_equal_metadata:30k", 3)
	r.Require("dials_with_equal_metadata:absent", 3)
	r.Require("dials_with_equal_metadata:state-object-updated-in-place", 8)
	r.Require("states_equal:nested", 1)
	r.Require("unverified_state_withheld", 0)
	r.Require("rogue_state_rejected", 10)
	if n := r.Counter("honest_client_not_authenticated"); n > 0 {
		r.Inconclusive(fmt.Sprintf("%d honest clients were not authenticated, so their metadata could not be compared", n))
	}
	return res
}
