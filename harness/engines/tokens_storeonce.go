package engines

import (
	"context"
	"errors"
	"fmt"
	"sync/atomic"

	"github.com/hashicorp/nodeenrollment"
	"github.com/hashicorp/nodeenrollment/registration"
	"github.com/hashicorp/nodeenrollment/types"
	"google.golang.org/protobuf/proto"

	"verifharness/engine"
	"verifharness/world"
)

// tokensLookupFault makes the next load of a node record fail once (a transient storage error, or a
// storage that answers "not found" although its uniqueness constraint knows better)
type tokensLookupFault struct {
	nodeenrollment.Storage
	arm   atomic.Int32 // 0 off, 1 generic, 2 not-found
	fired atomic.Int32
}

func (f *tokensLookupFault) Load(ctx context.Context, m nodeenrollment.MessageWithId) error {
	if _, ok := m.(*types.NodeInformation); ok {
		if k := f.arm.Swap(0); k != 0 {
			f.fired.Add(1)
			if k == 2 {
				return fmt.Errorf("injected: %w", nodeenrollment.ErrNotFound)
			}
			return errors.New("injected: transient storage error while looking up the node record")
		}
	}
	return f.Storage.Load(ctx, m)
}

type tokensOnceCase struct {
	Kind       string `json:"kind"` // registered-key-on-store-once
	Registered string `json:"registered_through"`
	Fault      string `json:"lookup_fault"`
	Wrap       bool   `json:"storage_wrapper"`
	Index      int    `json:"index"`
}

// runTokensStoreOnce: the registered-key clause on a storage that refuses to overwrite node records (the
// library answers such a refusal by handing back the stored record): a key that already has a node record
// presents a second, unused token while the one lookup of its record fails once. The fetch must be refused
// and the existing record must stay byte-identical.
func runTokensStoreOnce(c *engine.Ctx, tc tokensOnceCase) {
	r := c.R
	var fs *tokensLookupFault
	s, err := world.NewServer(world.ServerCfg{Backend: world.StoreOnce, StorageWrap: tc.Wrap, Wrap: func(in nodeenrollment.Storage) nodeenrollment.Storage {
		fs = &tokensLookupFault{Storage: in}
		return fs
	}})
	if err != nil {
		r.Broken("tokens: store-once server: " + err.Error())
		return
	}
	defer s.Close()
	flow := world.FlowAuthorize
	if tc.Registered == "token" {
		flow = world.FlowToken
	}
	er, err := world.Enroll(s, flow, false, nil, nil, nil)
	if err != nil {
		r.Broken("tokens: store-once enrollment: " + err.Error())
		return
	}
	r.Eval(engine.J(tc), true)
	rawBefore := &types.NodeInformation{Id: er.Node.K.KeyID}
	if err := s.Inner.Load(s.Ctx, rawBefore); err != nil {
		r.Broken("tokens: raw load: " + err.Error())
		return
	}
	_, tok2, err := registration.CreateServerLedActivationToken(s.Ctx, s.Store, &types.ServerLedRegistrationRequest{}, s.Opts()...)
	if err != nil {
		r.Broken("tokens: create token: " + err.Error())
		return
	}
	// the registered key presents the second token (the token nonce as the library derives it)
	var tokNonce []byte
	if tmp, err := world.NewNode(false, tok2); err == nil {
		if tr, err := tmp.FetchRequest(); err == nil {
			if info := world.DecodeInfo(tr); info != nil {
				tokNonce = info.Nonce
			}
		}
	}
	if len(tokNonce) == 0 {
		r.Broken("tokens: could not derive the nonce of the second token")
		return
	}
	req2 := world.Sign(world.BaseInfo(er.Node.K, er.Node.Enc.Pub, tokNonce), er.Node.K.Priv)
	switch tc.Fault {
	case "generic":
		fs.arm.Store(1)
	case "notfound":
		fs.arm.Store(2)
	}
	var resp *types.FetchNodeCredentialsResponse
	var ferr error
	if p, st := engine.Guard(func() { resp, ferr = registration.FetchNodeCredentials(s.Ctx, s.Store, req2, s.Opts()...) }); p != nil {
		r.Violation("panic:"+engine.LibraryFrame(st), fmt.Sprintf("FetchNodeCredentials panicked: %v", p), tc)
		return
	}
	fs.arm.Store(0)
	if tc.Fault != "none" && fs.fired.Load() == 0 {
		r.Count("store_once:lookup_fault_not_reached", 1)
	} else if tc.Fault != "none" {
		r.Count("store_once:lookup_fault_delivered", 1)
	}
	rawAfter := &types.NodeInformation{Id: er.Node.K.KeyID}
	lerr := s.Inner.Load(s.Ctx, rawAfter)
	switch {
	case ferr == nil && resp != nil && len(resp.EncryptedNodeCredentials) > 0:
		r.Violation("token-enrolled-registered-key:store-once", fmt.Sprintf("a second, unused token handed out credentials for a key that already had a node record (registered through %s; storage refuses to overwrite node records; lookup fault: %s)", tc.Registered, tc.Fault), tc)
	case lerr != nil || !proto.Equal(rawBefore, rawAfter):
		r.Violation("registered-key-record-changed:store-once", fmt.Sprintf("the refused fetch with a second token changed the existing node record (load err=%v)", lerr), tc)
	default:
		r.Count("refusal-observed:registered-key:store-once", 1)
	}
}

func runTokensStoreOnceAll(c *engine.Ctx) {
	var cases []tokensOnceCase
	n := c.Pick(2, 10)
	for i := 0; i < n; i++ {
		for _, reg := range []string{"authorize", "token"} {
			for _, f := range []string{"none", "generic", "notfound"} {
				for _, w := range []bool{false, true} {
					cases = append(cases, tokensOnceCase{Kind: "registered-key-on-store-once", Registered: reg, Fault: f, Wrap: w, Index: i})
				}
			}
		}
	}
	engine.ForEach(len(cases), engine.Workers(), func(i int) { runTokensStoreOnce(c, cases[i]) })
	c.R.Require("refusal-observed:registered-key:store-once", int64(len(cases)*9/10))
	c.R.Require("store_once:lookup_fault_delivered", int64(len(cases)/2))
}
