package engines

// C15 — concurrent handshakes are isolated from one another. Several acceptor
// goroutines on one InterceptingListener, clients with unique identities /
// state / protocol lists / expected record state, a rendezvous inside the
// application-configurable fetch and certificate-generation functions so that
// the handshakes of a round are provably in flight together; race detector on.

import (
	"context"
	"crypto/ed25519"
	"crypto/rand"
	"crypto/tls"
	"crypto/x509"
	"encoding/base64"
	"encoding/json"
	"errors"
	"fmt"
	mrand "math/rand"
	"net"
	"reflect"
	"sync"
	"sync/atomic"
	"time"

	"github.com/hashicorp/go-hclog"
	wrapping "github.com/hashicorp/go-kms-wrapping/v2"
	"github.com/hashicorp/nodeenrollment"
	"github.com/hashicorp/nodeenrollment/protocol"
	"github.com/hashicorp/nodeenrollment/registration"
	nodetls "github.com/hashicorp/nodeenrollment/tls"
	"github.com/hashicorp/nodeenrollment/types"
	"google.golang.org/protobuf/proto"
	"google.golang.org/protobuf/types/known/structpb"

	"verifharness/engine"
	"verifharness/world"
)

func init() {
	engine.Register(&engine.Spec{Prop: "C15", Engine: "concurrent", Level: "exploration", Race: true, Fn: runConcurrent})
}

type ccRound struct {
	Round         int      `json:"round"`
	OptLen        int      `json:"option_slice_padding"`
	SpareCap      int      `json:"option_slice_spare_capacity"`
	ListenerState bool     `json:"listener_options_carry_state,omitempty"` // the application put WithState(non-nil) into the listener's option list
	Acceptors     int      `json:"acceptors"`
	Clients       []string `json:"clients"`
	Wrap          bool     `json:"wrappers"`
	Seed          int64    `json:"seed"`
	// FileBackend: the listener's storage is the file back end (only in rounds whose handshakes read and never
	// write: honest and refused authentications)
	FileBackend bool `json:"file_back_end,omitempty"`
}

// rendezvous lets up to n goroutines meet; stragglers are released by a
// watchdog so that a missing participant cannot hang the round
type rendezvous struct {
	mu      sync.Mutex
	n       int
	inside  int
	gen     int
	ch      chan struct{}
	maxSeen int
	met     int // rounds in which all n were inside together
}

func newRendezvous(n int) *rendezvous { return &rendezvous{n: n, ch: make(chan struct{})} }

func (b *rendezvous) wait() {
	b.mu.Lock()
	b.inside++
	if b.inside > b.maxSeen {
		b.maxSeen = b.inside
	}
	if b.inside >= b.n {
		b.met++
		close(b.ch)
		b.ch = make(chan struct{})
		b.inside = 0
		b.gen++
		b.mu.Unlock()
		return
	}
	ch, gen := b.ch, b.gen
	b.mu.Unlock()
	select {
	case <-ch:
	case <-time.After(300 * time.Millisecond):
		b.mu.Lock()
		if b.gen == gen && b.inside > 0 {
			// release whoever is here
			close(b.ch)
			b.ch = make(chan struct{})
			b.inside = 0
			b.gen++
		}
		b.mu.Unlock()
	}
}

func uniqueState(tag string, i int) *structpb.Struct {
	st, _ := structpb.NewStruct(map[string]any{"owner": fmt.Sprintf("%s-%d", tag, i), "nested": map[string]any{"i": float64(i), "l": []any{tag, float64(i)}}})
	return st
}

type ccClient struct {
	kind     string
	idx      int
	node     *world.Node
	state    *structpb.Struct // unique client state / token state / wrapper params
	extras   []string
	tokenID  string
	cfg      *tls.Config // auth clients
	offered  []string
	fetchReq *types.FetchNodeCredentialsRequest
	// results
	local   string
	cn      string
	herr    error
	problem string
}

func runCCRound(c *engine.Ctx, rd ccRound) {
	r := c.R
	rng := mrand.New(mrand.NewSource(rd.Seed))
	be := world.Inmem
	if rd.FileBackend {
		be = world.File
		r.Count("rounds_on_the_file_back_end", 1)
	}
	s := world.MustServer(world.ServerCfg{Backend: be, StorageWrap: rd.Wrap, RegWrap: true})
	defer s.Close()
	// option slice of chosen length and spare capacity
	base := s.Opts()
	pads := []nodeenrollment.Option{
		nodeenrollment.WithLogger(hclog.NewNullLogger()),
		nodeenrollment.WithRandomReader(rand.Reader),
		nodeenrollment.WithNotBeforeClockSkew(nodeenrollment.DefaultNotBeforeClockSkewDuration),
		nodeenrollment.WithNotAfterClockSkew(nodeenrollment.DefaultNotAfterClockSkewDuration),
	}
	opts := make([]nodeenrollment.Option, 0, len(base)+rd.OptLen+rd.SpareCap)
	opts = append(opts, base...)
	opts = append(opts, pads[:rd.OptLen]...)
	// every other round the application's registration wrapper is one with a life cycle of its own (a key-service
	// session): the application initialised it and will finalize it when it shuts down; until then it has to work
	// for every handshake, however many are in flight
	var life *ccLifecycleWrapper
	if rd.Round%2 == 0 && s.RW != nil {
		life = &ccLifecycleWrapper{Wrapper: s.RW}
		opts = append(opts, nodeenrollment.WithRegistrationWrapper(life))
		r.Count("rounds_with_a_life_cycle_registration_wrapper", 1)
	}
	// the option list may contain nil entries (the library skips them): they stay where the application put them
	nilAt := -1
	if rd.Round%3 == 1 {
		nilAt = len(base) + rd.OptLen/2
		opts = append(opts[:nilAt], append([]nodeenrollment.Option{nil}, opts[nilAt:]...)...)
		if rd.Round%2 == 1 {
			opts = append(opts, nil)
		}
	}
	nilPattern := func() string {
		out := ""
		for _, o := range opts {
			if o == nil {
				out += "n"
			} else {
				out += "o"
			}
		}
		return out
	}
	var listenerState, listenerStateCopy *structpb.Struct
	if rd.ListenerState {
		listenerState = uniqueState("listener-default", rd.Round)
		listenerStateCopy = proto.Clone(listenerState).(*structpb.Struct)
		opts = append(opts, nodeenrollment.WithState(listenerState))
	}

	// cast
	var clients []*ccClient
	for i, kind := range rd.Clients {
		cl := &ccClient{kind: kind, idx: i}
		switch kind {
		case "auth":
			er, err := world.Enroll(s, world.FlowAuthorize, false, nil, nil, nil)
			if err != nil {
				r.Broken("enroll: " + err.Error())
				return
			}
			cl.node = er.Node
			cl.state = uniqueState("auth", i)
			cl.extras = []string{fmt.Sprintf("x-%d-%d", i, rng.Intn(1000)), "common"}
			cfgs, err := nodetls.ClientConfigs(s.Ctx, cl.node.Creds, nodeenrollment.WithState(cl.state), nodeenrollment.WithExtraAlpnProtos(cl.extras))
			if err != nil || len(cfgs) == 0 {
				r.Broken(fmt.Sprintf("client configs: %v", err))
				return
			}
			cl.cfg = cfgs[0]
			cl.offered = append([]string{}, cfgs[0].NextProtos...)
		case "forged":
			// registered node's key named, nonce signed by an unregistered key
			er, err := world.Enroll(s, world.FlowAuthorize, false, nil, nil, nil)
			if err != nil {
				r.Broken("enroll: " + err.Error())
				return
			}
			cl.node = er.Node
			nonce := world.RandBytes(32)
			req := &types.GenerateServerCertificatesRequest{CertificatePublicKeyPkix: cl.node.K.Pkix, Nonce: nonce, NonceSignature: ed25519.Sign(world.NewKeys().Priv, nonce)}
			b := cl.node.Creds.CertificateBundles[0]
			cert := &tls.Certificate{Certificate: [][]byte{b.CertificateDer, b.CaCertificateDer}, PrivateKey: cl.node.K.Priv}
			cl.cfg = &tls.Config{NextProtos: world.AuthProtos(req), InsecureSkipVerify: true, MinVersion: tls.VersionTLS13,
				GetClientCertificate: func(*tls.CertificateRequestInfo) (*tls.Certificate, error) { return cert, nil }}
		case "fetch-authorized":
			n := world.MustNode(false, "")
			req, _ := n.FetchRequest()
			cl.state = uniqueState("authz", i)
			if _, err := registration.AuthorizeNode(s.Ctx, s.Store, req, s.Opts(nodeenrollment.WithState(cl.state))...); err != nil {
				r.Broken("authorize: " + err.Error())
				return
			}
			cl.node, cl.fetchReq = n, req
		case "fetch-unauthorized":
			n := world.MustNode(false, "")
			req, _ := n.FetchRequest()
			cl.node, cl.fetchReq = n, req
		case "fetch-authorized-twin":
			// a second connection of an authorized node that is fetching in this same round (it polls on two
			// connections, or retries while its first attempt is still being served): handled alone it is answered
			// with the node's credentials like the first
			var first *ccClient
			for _, o := range clients {
				if o.kind == "fetch-authorized" {
					first = o
				}
			}
			if first == nil {
				n := world.MustNode(false, "")
				req, _ := n.FetchRequest()
				if _, err := registration.AuthorizeNode(s.Ctx, s.Store, req, s.Opts()...); err != nil {
					r.Broken("authorize: " + err.Error())
					return
				}
				cl.node, cl.fetchReq = n, req
			} else {
				cl.node, cl.fetchReq = first.node, first.fetchReq
			}
		case "malformed":
			// a peer whose ALPN entries break off in the middle: a well-formed chunk followed by one
			// with an unusable header, under either prefix; it is rejected, and that must be all
			n := world.MustNode(false, "")
			req, _ := n.FetchRequest()
			cl.node = n
			good := world.FetchProtos(req)
			pfx := nodeenrollment.FetchNodeCredsNextProtoV1Prefix
			if i%2 == 1 {
				nonce := world.RandBytes(32)
				good = world.AuthProtos(&types.GenerateServerCertificatesRequest{CertificatePublicKeyPkix: n.K.Pkix, Nonce: nonce, NonceSignature: ed25519.Sign(n.K.Priv, nonce), ClientState: world.RandBytes(400)})
				pfx = nodeenrollment.AuthenticateNodeNextProtoV1Prefix
			}
			bad := []string{pfx + "zz-AAAA", pfx + "-", pfx + "1x-BBBB"}[rng.Intn(3)]
			protos := append(append([]string{}, good[:1+rng.Intn(len(good))]...), bad)
			now := time.Now()
			self := world.MintSelfSigned(n.K, world.LeafSpec{SubjectKeyID: n.K.Pkix, DNSNames: []string{nodeenrollment.CommonDnsName}, NotBefore: now.Add(-5 * time.Minute), NotAfter: now.Add(5 * time.Minute), EKU: []x509.ExtKeyUsage{x509.ExtKeyUsageClientAuth}})
			cert := &tls.Certificate{Certificate: [][]byte{self}, PrivateKey: n.K.Priv}
			cl.cfg = &tls.Config{NextProtos: protos, InsecureSkipVerify: true, MinVersion: tls.VersionTLS13,
				GetClientCertificate: func(*tls.CertificateRequestInfo) (*tls.Certificate, error) { return cert, nil }}
		case "token":
			cl.state = uniqueState("token", i)
			id, tok, err := registration.CreateServerLedActivationToken(s.Ctx, s.Store, &types.ServerLedRegistrationRequest{}, s.Opts(nodeenrollment.WithState(cl.state))...)
			if err != nil {
				r.Broken("token: " + err.Error())
				return
			}
			cl.tokenID = id
			n := world.MustNode(false, tok)
			req, _ := n.FetchRequest()
			cl.node, cl.fetchReq = n, req
		case "wrapper":
			cl.state = uniqueState("params", i)
			n := world.MustNode(false, "")
			req, err := n.FetchRequest(nodeenrollment.WithRegistrationWrapper(s.RW), nodeenrollment.WithWrappingRegistrationFlowApplicationSpecificParams(cl.state))
			if err != nil {
				r.Broken("wrapper req: " + err.Error())
				return
			}
			cl.node, cl.fetchReq = n, req
		}
		clients = append(clients, cl)
	}

	// rendezvous inside the configurable functions
	k := len(clients)
	bFetch := newRendezvous(countKinds(rd.Clients, "fetch-authorized", "fetch-authorized-twin", "fetch-unauthorized", "token", "wrapper"))
	bGen := newRendezvous(k - countKindsExact(rd.Clients, "malformed"))
	var inFetch, inGen atomic.Int64
	fetchFn := func(ctx context.Context, st nodeenrollment.Storage, req *types.FetchNodeCredentialsRequest, opt ...nodeenrollment.Option) (*types.FetchNodeCredentialsResponse, error) {
		inFetch.Add(1)
		bFetch.wait()
		return registration.FetchNodeCredentials(ctx, st, req, opt...)
	}
	genFn := func(ctx context.Context, st nodeenrollment.Storage, req *types.GenerateServerCertificatesRequest, opt ...nodeenrollment.Option) (*types.GenerateServerCertificatesResponse, error) {
		inGen.Add(1)
		bGen.wait()
		return nodetls.GenerateServerCertificates(ctx, st, req, opt...)
	}
	nilBefore := nilPattern()
	lw, err := world.NewLW(s, world.LWCfg{Options: opts, OptionsSet: true, Acceptors: rd.Acceptors, FetchFn: fetchFn, GenFn: genFn})
	if err != nil {
		r.Broken("listener: " + err.Error())
		return
	}
	defer lw.Close()

	// launch all clients together
	var wg sync.WaitGroup
	type held struct {
		raw net.Conn
	}
	heldConns := make([]held, k)
	start := make(chan struct{})
	for i, cl := range clients {
		wg.Add(1)
		go func(i int, cl *ccClient) {
			defer wg.Done()
			<-start
			raw, err := net.Dial("tcp", lw.Addr)
			if err != nil {
				cl.problem = "dial: " + err.Error()
				return
			}
			heldConns[i].raw = raw
			cl.local = raw.LocalAddr().String()
			_ = raw.SetDeadline(time.Now().Add(60 * time.Second))
			cfg := cl.cfg
			if cfg == nil {
				now := time.Now()
				self := world.MintSelfSigned(cl.node.K, world.LeafSpec{SubjectKeyID: cl.node.K.Pkix, DNSNames: []string{nodeenrollment.CommonDnsName}, NotBefore: now.Add(-5 * time.Minute), NotAfter: now.Add(5 * time.Minute), EKU: []x509.ExtKeyUsage{x509.ExtKeyUsageClientAuth}})
				cert := &tls.Certificate{Certificate: [][]byte{self}, PrivateKey: cl.node.K.Priv}
				cfg = &tls.Config{NextProtos: world.FetchProtos(cl.fetchReq), InsecureSkipVerify: true, MinVersion: tls.VersionTLS13,
					GetClientCertificate: func(*tls.CertificateRequestInfo) (*tls.Certificate, error) { return cert, nil }}
			}
			tc := tls.Client(raw, cfg)
			cl.herr = tc.Handshake()
			if cl.herr == nil {
				pcs := tc.ConnectionState().PeerCertificates
				if len(pcs) > 0 {
					cl.cn = pcs[0].Subject.CommonName
				}
			}
		}(i, cl)
	}
	close(start)
	wg.Wait()
	defer func() {
		for _, h := range heldConns {
			if h.raw != nil {
				h.raw.Close()
			}
		}
	}()

	r.Count("rounds", 1)
	r.Count("max_handshakes_inside_generate_fn:"+fmt.Sprint(bGen.maxSeen), 1)
	if bGen.maxSeen >= 2 {
		r.Count("rounds_with_overlapping_handshakes", 1)
	}
	if bGen.met > 0 {
		r.Count("rounds_where_all_handshakes_met_at_barrier", 1)
	}

	// ---- per-connection verdicts ------------------------------------------
	for _, cl := range clients {
		desc := fmt.Sprintf("round %d client %d %s optlen %d spare %d acceptors %d", rd.Round, cl.idx, cl.kind, rd.OptLen, rd.SpareCap, rd.Acceptors)
		if cl.problem != "" {
			r.Broken(cl.problem)
			continue
		}
		rec, werr := lw.Wait(cl.local)
		if werr != nil {
			r.Inconclusive("watchdog waiting for server side in concurrent round")
			continue
		}
		r.Eval(desc, true)
		witness := map[string]any{"round": rd, "client": cl.idx, "kind": cl.kind}
		fail := func(key, what string) {
			r.Violation("isolation:"+cl.kind+":"+key, fmt.Sprintf("%s (client %d of kinds %v, spare capacity %d)", what, cl.idx, rd.Clients, rd.SpareCap), witness)
		}
		if len(lw.PanicList()) > 0 {
			p := lw.PanicList()[0]
			r.Violation("panic-in-accept:"+engine.LibraryFrame(p.Stack), "Accept panicked in a concurrent round: "+p.Value, witness)
		}
		switch cl.kind {
		case "auth":
			if !rec.Authenticated() {
				fail("outcome", "honest registered client was not authenticated under concurrency")
				break
			}
			pc := rec.Conn.(*protocol.Conn)
			if !stateEqual(pc.ClientState(), cl.state) {
				fail("client-state", "client state reported for the connection is not the one this client sent")
			}
			if !reflect.DeepEqual(pc.ClientNextProtos(), stripPref(cl.offered)) {
				fail("protocol-list", "protocol list reported for the connection is not the one this client offered")
			}
			r.Count("auth_connections_checked", 1)
		case "forged":
			if rec.Authenticated() {
				fail("outcome", "client with a forged nonce signature was authenticated under concurrency")
			}
			r.Count("forged_rejected", 1)
		case "malformed":
			if rec.Returned {
				fail("outcome", "a handshake with a broken-off ALPN request returned a connection")
			}
			r.Count("malformed_rejected", 1)
		case "fetch-unauthorized":
			if rec.Returned {
				fail("outcome", "fetch handshake returned a connection")
			}
			if cl.herr == nil && cl.cn != nodeenrollment.CommonDnsName {
				// it got something else than the unauthorized marker: must not decrypt
				fail("outcome", "unauthorized fetch was answered with something other than the unauthorized marker")
			}
			if ni, _ := s.LoadNode(cl.node.K.KeyID); ni != nil {
				fail("record", "a node record exists for a never-authorized key")
			}
			r.Count("unauthorized_fetch_checked", 1)
		case "fetch-authorized-twin":
			if rec.Returned {
				fail("outcome", "fetch handshake returned a connection")
			}
			respBytes, derr := base64.RawStdEncoding.DecodeString(cl.cn)
			resp := new(types.FetchNodeCredentialsResponse)
			if cl.herr != nil || derr != nil || proto.Unmarshal(respBytes, resp) != nil || len(resp.EncryptedNodeCredentials) == 0 {
				fail("outcome", fmt.Sprintf("a second connection of an authorized node was not answered with its credentials while its first one was being handled (handshake error %v, answer %q)", cl.herr, head([]string{cl.cn}, 1)[0]))
				break
			}
			r.Count("enrollments_checked:twin", 1)
		case "fetch-authorized", "token", "wrapper":
			if rec.Returned {
				fail("outcome", "fetch handshake returned a connection")
			}
			if cl.herr != nil {
				fail("outcome", "authorized enrollment handshake failed under concurrency: "+cl.herr.Error())
				break
			}
			respBytes, err := base64.RawStdEncoding.DecodeString(cl.cn)
			resp := new(types.FetchNodeCredentialsResponse)
			if err != nil || proto.Unmarshal(respBytes, resp) != nil || len(resp.EncryptedNodeCredentials) == 0 {
				fail("outcome", "authorized enrollment did not receive credentials under concurrency (cn="+head([]string{cl.cn}, 1)[0]+")")
				break
			}
			if _, err := cl.node.Handle(resp); err != nil {
				fail("response", "the response delivered on this connection is not bound to this node: "+err.Error())
				break
			}
			ni, err := s.LoadNode(cl.node.K.KeyID)
			if err != nil || ni == nil {
				fail("record", "no node record after a successful enrollment")
				break
			}
			switch cl.kind {
			case "wrapper":
				if ni.WrappingRegistrationFlowInfo == nil || !proto.Equal(ni.WrappingRegistrationFlowInfo.ApplicationSpecificParams, cl.state) {
					fail("record-state", "wrapper enrollment: stored application params are not this connection's")
				}
				switch {
				case rd.ListenerState:
					// handled alone, this enrollment stores the state the application configured the listener with
					if !stateEqual(ni.State, listenerStateCopy) {
						fail("record-state", "wrapper enrollment: stored state is not the state the listener was configured with (fields of another connection's token state?)")
					}
				case ni.State != nil && len(ni.State.Fields) > 0:
					fail("record-state", "wrapper enrollment: record carries state although none was given (another connection's token state)")
				}
			default:
				if !stateEqual(ni.State, cl.state) {
					fail("record-state", "state stored in the node record is not the one belonging to this connection")
				}
			}
			r.Count("enrollments_checked:"+cl.kind, 1)
		}
		if rec.Returned && rec.Conn != nil {
			rec.Conn.Close()
		}
	}
	if nilAt >= 0 {
		r.Count("rounds_with_nil_entries_in_listener_options", 1)
		if got := nilPattern(); got != nilBefore {
			r.Violation("isolation:listener-option-list-rewritten", fmt.Sprintf("the application's option list was rearranged while connections were handled (nil / non-nil entries %s, now %s)", nilBefore, got), map[string]any{"round": rd})
		}
	}
	if life != nil {
		if n := life.finalized.Load(); n > 0 {
			r.Violation("isolation:registration-wrapper-finalized-by-the-library", fmt.Sprintf("the registration wrapper the application passed in the listener's option list was finalized %d times (and initialised %d times) while connections were handled; it is shared by every handshake and its life cycle is the application's", n, life.inits.Load()), map[string]any{"round": rd})
		}
	}
	if rd.ListenerState {
		r.Count("rounds_with_state_in_listener_options", 1)
		if !proto.Equal(listenerState, listenerStateCopy) {
			r.Violation("isolation:listener-option-state-modified", "the state struct the application passed in the listener's option list was modified while connections were handled", map[string]any{"round": rd})
		}
	}
}

func countKindsExact(list []string, kind string) int {
	n := 0
	for _, l := range list {
		if l == kind {
			n++
		}
	}
	return n
}

func countKinds(list []string, kinds ...string) int {
	n := 0
	for _, l := range list {
		for _, k := range kinds {
			if l == k {
				n++
			}
		}
	}
	if n == 0 {
		n = 1
	}
	return n
}

func runConcurrent(c *engine.Ctx) engine.Result {
	r := c.R
	res := engine.Result{
		Rule:        "case = one client connection inside a round of 2..8 simultaneous handshakes on one listener with 2..8 acceptor goroutines and an option slice of chosen padding and spare capacity; non-trivial = the connection's server-side outcome was attributed and compared with its stand-alone expectation; distinct by (round, client, kind, slice shape). Oracles: per-connection expected outcome / client state / protocol list / stored record state, plus the Go race detector over the whole workload.",
		Assumptions: []string{"race reports count only if a stack contains a nodeenrollment frame; harness-only races fail the run as broken", "AuthorizeNode / token creation happen before the concurrent phase (the library documents AuthorizeNode as not concurrency safe)"},
	}
	if c.Replay != nil {
		var wrap struct {
			Round ccRound `json:"round"`
		}
		if err := json.Unmarshal(c.Replay, &wrap); err != nil || len(wrap.Round.Clients) == 0 {
			var rd ccRound
			if json.Unmarshal(c.Replay, &rd) != nil || len(rd.Clients) == 0 {
				r.Broken("bad replay")
				return res
			}
			wrap.Round = rd
		}
		for i := 0; i < 20; i++ {
			runCCRound(c, wrap.Round)
		}
		return res
	}
	rng := c.Rng("concurrent")
	kinds := []string{"auth", "auth", "forged", "fetch-authorized", "fetch-unauthorized", "token", "token", "wrapper", "malformed", "malformed"}
	rounds := c.Pick(160, 2500)
	var list []ccRound
	for i := 0; i < rounds; i++ {
		n := 2 + rng.Intn(7)
		rd := ccRound{Round: i, OptLen: rng.Intn(5), SpareCap: rng.Intn(9), Acceptors: 2 + rng.Intn(7), Wrap: rng.Intn(3) == 0, Seed: rng.Int63()}
		if i%3 == 0 {
			rd.SpareCap = 4 + rng.Intn(5) // make sure spare capacity is well represented
		}
		rd.ListenerState = i%4 == 2
		if rd.Acceptors < n {
			rd.Acceptors = n
		}
		perm := rng.Perm(len(kinds))
		for j := 0; j < n; j++ {
			rd.Clients = append(rd.Clients, kinds[perm[j]])
		}
		switch i % 6 {
		case 1:
			rd.Clients = []string{"token", "token", "token", "token"} // token state vs token state
			rd.Acceptors = 4
		case 4:
			rd.Clients = []string{"token", "wrapper", "auth", "fetch-authorized", "token", "wrapper"}
			rd.Acceptors = 6
		case 2:
			rd.Clients = []string{"fetch-authorized", "fetch-authorized-twin", "auth", "fetch-authorized-twin", "token"}
			rd.Acceptors = 5
		case 3:
			// many refused authentications around two honest ones: what the refusals leave behind (in the
			// listener or anywhere in the process) must not reach the honest connections of this or a later round
			rd.Clients = []string{"forged", "forged", "auth", "forged", "forged", "forged", "auth", "forged"}
			rd.Acceptors = 2 + rng.Intn(7)
			if i%12 == 3 {
				// the same on the file back end with many acceptors: every handshake of such a round only reads records
				rd.FileBackend = true
				rd.Clients = []string{"auth", "forged", "auth", "auth", "forged", "auth", "auth", "forged", "auth", "auth"}
				rd.Acceptors = 10
			}
		case 5:
			rd.Clients = []string{"malformed", "auth", "malformed", "auth", "malformed", "token", "malformed", "fetch-authorized"}
			rd.Acceptors = 2 + rng.Intn(3) // few acceptors: rejected and honest handshakes follow each other on the same goroutines
		}
		list = append(list, rd)
	}
	r.Sample(list[0])
	r.Sample(list[1])
	// rounds run a few at a time; each round is internally concurrent
	engine.ForEach(len(list), 4, func(i int) { runCCRound(c, list[i]) })
	r.Require("rounds_with_overlapping_handshakes", int64(rounds/2))
	r.Require("auth_connections_checked", 10)
	r.Require("enrollments_checked:token", 10)
	r.Require("enrollments_checked:wrapper", 5)
	r.Require("forged_rejected", 100)
	r.Require("malformed_rejected", 20)
	r.Require("rounds_with_nil_entries_in_listener_options", int64(rounds/4))
	r.Require("enrollments_checked:twin", 20)
	r.Require("rounds_with_state_in_listener_options", int64(rounds/5))
	return res
}

// ccLifecycleWrapper is a registration wrapper with Init / Finalize (wrapping.InitFinalizer): ready when handed
// to the library, unusable after Finalize until Init is called again
type ccLifecycleWrapper struct {
	wrapping.Wrapper
	inits, finalized atomic.Int64
	dead             atomic.Bool
}

func (w *ccLifecycleWrapper) Init(ctx context.Context, _ ...wrapping.Option) error {
	w.inits.Add(1)
	w.dead.Store(false)
	return nil
}

func (w *ccLifecycleWrapper) Finalize(ctx context.Context, _ ...wrapping.Option) error {
	w.finalized.Add(1)
	w.dead.Store(true)
	return nil
}

func (w *ccLifecycleWrapper) Decrypt(ctx context.Context, in *wrapping.BlobInfo, opt ...wrapping.Option) ([]byte, error) {
	if w.dead.Load() {
		return nil, errors.New("key service session was closed (wrapper finalized)")
	}
	return w.Wrapper.Decrypt(ctx, in, opt...)
}
