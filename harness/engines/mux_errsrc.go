package engines

// C18, third part: a source listener whose Accept fails. IngressListener pumps
// from a listener the application hands it; such a listener reports temporary
// errors now and then (an intercepting listener does so for every failed
// handshake). Whatever the pump does with such an error, Accept and Close of
// the multiplexing listener must neither panic nor hang afterwards: after the
// parent context is cancelled Accept reports an error, and Close returns.

import (
	"context"
	"errors"
	"fmt"
	"net"
	"sync"
	"time"

	nodenet "github.com/hashicorp/nodeenrollment/net"

	"verifharness/engine"
)

type muxTempErr struct{}

func (muxTempErr) Error() string   { return "source listener: temporary accept failure" }
func (muxTempErr) Temporary() bool { return true }
func (muxTempErr) Timeout() bool   { return false }

// errSource is a listener whose first failAfter Accept calls hand out pipe connections and whose next one
// fails with a temporary error; later calls block until it is closed
type errSource struct {
	mu        sync.Mutex
	failAfter int
	calls     int
	failed    chan struct{}
	closed    chan struct{}
	once      sync.Once
	conns     []net.Conn
}

func (e *errSource) Accept() (net.Conn, error) {
	e.mu.Lock()
	e.calls++
	n := e.calls
	e.mu.Unlock()
	switch {
	case n <= e.failAfter:
		a, b := net.Pipe()
		e.mu.Lock()
		e.conns = append(e.conns, a, b)
		e.mu.Unlock()
		return a, nil
	case n == e.failAfter+1:
		close(e.failed)
		return nil, muxTempErr{}
	}
	<-e.closed
	return nil, net.ErrClosed
}
func (e *errSource) Close() error {
	e.once.Do(func() { close(e.closed) })
	e.mu.Lock()
	for _, c := range e.conns {
		c.Close()
	}
	e.mu.Unlock()
	return nil
}
func (e *errSource) Addr() net.Addr { return &net.TCPAddr{IP: net.IPv4(127, 0, 0, 1), Port: 1} }

func runMuxErrorSource(c *engine.Ctx, i int) {
	r := c.R
	parent, cancel := context.WithCancel(context.Background())
	defer cancel()
	ml, err := nodenet.NewMultiplexingListener(parent, &net.TCPAddr{IP: net.IPv4(127, 0, 0, 1), Port: 2})
	if err != nil {
		r.Broken("mux: " + err.Error())
		return
	}
	src := &errSource{failAfter: i % 3, failed: make(chan struct{}), closed: make(chan struct{})}
	defer src.Close()
	if err := ml.IngressListener(src); err != nil {
		r.Broken("mux: IngressListener: " + err.Error())
		return
	}
	wit := map[string]any{"scenario": "source listener fails with a temporary error", "connections_before_the_error": src.failAfter, "variant": i % 4}
	// take the connections that came before the error
	for k := 0; k < src.failAfter; k++ {
		done := make(chan struct{})
		var aerr error
		var pv any
		var st string
		go func() {
			defer close(done)
			pv, st = engine.Guard(func() {
				var conn net.Conn
				conn, aerr = ml.Accept()
				if conn != nil {
					conn.Close()
				}
			})
		}()
		select {
		case <-done:
			if pv != nil {
				r.Violation("panic:A:"+engine.LibraryFrame(st), fmt.Sprintf("Accept panicked: %v", pv), wit)
				return
			}
			if aerr != nil {
				r.Violation("connection-lost", fmt.Sprintf("a connection pumped from a source listener was not returned by Accept: %v", aerr), wit)
				return
			}
		case <-time.After(20 * time.Second):
			r.Inconclusive("watchdog: Accept did not return a pumped connection")
			return
		}
	}
	select {
	case <-src.failed:
	case <-time.After(20 * time.Second):
		r.Inconclusive("watchdog: the pump did not reach the failing Accept of its source")
		return
	}
	// give the pump the chance to act on the error (it has no further suspension point the harness could observe)
	for k := 0; k < 50; k++ {
		time.Sleep(200 * time.Microsecond)
	}
	if i%4 < 2 {
		cancel()
	} else {
		go ml.Close()
		time.Sleep(time.Millisecond)
	}
	for k := 0; k < 3; k++ {
		done := make(chan struct{})
		var aerr error
		var conn net.Conn
		var pv any
		var st string
		go func() {
			defer close(done)
			pv, st = engine.Guard(func() { conn, aerr = ml.Accept() })
		}()
		select {
		case <-done:
		case <-time.After(20 * time.Second):
			r.Violation("accept-hangs-after-cancel", "Accept did not return after the listener's context was done", wit)
			return
		}
		switch {
		case pv != nil:
			r.Violation("panic:A:"+engine.LibraryFrame(st), fmt.Sprintf("Accept panicked after the source listener had failed and the context was done: %v", pv), wit)
			return
		case aerr == nil && conn == nil:
			r.Violation("accept-returned-nothing", "Accept returned neither a connection nor an error", wit)
			return
		case aerr == nil:
			conn.Close()
		case !errors.Is(aerr, net.ErrClosed):
			r.Count("accept_after_source_error_reports_other_error", 1)
		default:
			r.Count("accept_after_source_error_reports_closed", 1)
		}
	}
	closed := make(chan struct{})
	var pv any
	var st string
	go func() {
		defer close(closed)
		pv, st = engine.Guard(func() { _ = ml.Close() })
	}()
	select {
	case <-closed:
		if pv != nil {
			r.Violation("panic:C:"+engine.LibraryFrame(st), fmt.Sprintf("Close panicked: %v", pv), wit)
			return
		}
	case <-time.After(20 * time.Second):
		r.Violation("close-did-not-return", "Close did not return after the source listener had failed", wit)
		return
	}
	r.Eval(fmt.Sprintf("error-source|%d", i), true)
	r.Count("error_source_scenarios", 1)
}
