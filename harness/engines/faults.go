package engines

// C13 — storage faults fail closed, and success implies durability.
//
// Every flow of the library that touches storage is run once without a fault
// (reference run: counts the n storage operations of the call) and then once
// per (position 1..n) x (fault kind) on a freshly built identical world with
// exactly that operation failing (the inner storage is not touched by the
// failing operation). After the call the oracle reads the INNER storage with
// the wrapper the harness owns and compares it with what the call returned.

import (
	"bytes"
	"context"
	"crypto/ed25519"
	"crypto/x509"
	"encoding/json"
	"errors"
	"fmt"
	"github.com/hashicorp/nodeenrollment/protocol"
	"net"
	"sort"
	"strings"
	"sync"
	"time"

	wrapping "github.com/hashicorp/go-kms-wrapping/v2"
	"github.com/hashicorp/nodeenrollment"
	"github.com/hashicorp/nodeenrollment/registration"
	"github.com/hashicorp/nodeenrollment/rotation"
	nodetls "github.com/hashicorp/nodeenrollment/tls"
	"github.com/hashicorp/nodeenrollment/types"
	"google.golang.org/protobuf/proto"
	"google.golang.org/protobuf/types/known/structpb"

	"verifharness/engine"
	"verifharness/recstore"
	"verifharness/world"
)

func init() {
	engine.Register(&engine.Spec{Prop: "C13", Engine: "faults", Level: "fault_enumeration", Fn: runFaults})
}

// ftCase is one execution: a flow on a back end with a single failing storage
// operation (Pos 0 = fault-free reference run)
type ftCase struct {
	Flow    string `json:"flow"`
	Backend string `json:"backend"`
	Wrap    bool   `json:"storage_wrapper"`
	Pos     int    `json:"fault_position"`
	Kind    string `json:"fault_kind,omitempty"`
	// further faults in the same call: every operation from Pos on fails (a storage that stays down), or a
	// second single failing operation Pos2 > Pos of kind Kind2 (only reached when the call survived the first)
	Sticky bool   `json:"storage_stays_down,omitempty"`
	Pos2   int    `json:"second_fault_position,omitempty"`
	Kind2  string `json:"second_fault_kind,omitempty"`
}

// ftAgg collects engine-specific observations for the evidence file
type ftAgg struct {
	mu        sync.Mutex
	positions map[string]int      // flow|backend|wrap -> n
	opSeq     map[string][]string // flow -> operations of the reference run
	effects   map[string]int      // what failed calls left behind
	notes     map[string]int      // behaviours worth reporting that violate no clause
}

func (a *ftAgg) note(format string, v ...any) {
	a.mu.Lock()
	a.notes[fmt.Sprintf(format, v...)]++
	a.mu.Unlock()
}

// ftWorld is the world of one execution
type ftWorld struct {
	retrying bool // the call is being repeated after the faulted call failed
	c        *engine.Ctx
	agg      *ftAgg
	cs       ftCase
	ctx      context.Context
	s        *world.Server
	rec      *recstore.Rec // recorder around the server storage
	frec     *recstore.Rec // recorder the fault is armed on (server by default, node storage for node-side flows)

	// node-side storage (node-side flows only)
	ninner nodeenrollment.Storage
	nstore nodeenrollment.Storage

	cleanups []func()

	bystanders []string          // key IDs of other nodes' records
	own        []string          // key IDs of the node(s) the call is about
	tokens     map[string]string // token ID -> key ID that presents the token in the call under test
	tokenIDs   []string          // every token ID the harness knows (for snapshots)

	beforeNodes map[string][]byte
	beforeSnap  map[string][]byte
	beforeRoots *types.RootCertificates

	outcome    string
	fired      bool
	firedKinds []string // kinds of all delivered faults, in order
	flagged    bool
}

func (w *ftWorld) close() {
	for i := len(w.cleanups) - 1; i >= 0; i-- {
		w.cleanups[i]()
	}
}

// viol reports a refutation
func (w *ftWorld) viol(key, what string) {
	w.flagged = true
	if key != "consumed-token-still-usable" {
		key = key + ":" + w.cs.Flow
	}
	if w.retrying {
		key = "on-retry-after-failed-call:" + key
		what = "the same call repeated, without a fault, after the faulted call had failed: " + what
	}
	desc := fmt.Sprintf("%s (flow %s, back end %s, storage wrapper %v, failing operation %d of the call, kind %q)", what, w.cs.Flow, w.cs.Backend, w.cs.Wrap, w.cs.Pos, w.cs.Kind)
	if w.cs.Sticky {
		desc += " [every later storage operation of the call failed as well]"
	}
	if w.cs.Pos2 > 0 {
		desc += fmt.Sprintf(" [second failing operation %d, kind %q]", w.cs.Pos2, w.cs.Kind2)
	}
	if w.cs.Pos == 0 {
		// the reference run is silent on the pinned tree (checked at every run, the case list is
		// fixed), so a rejection here is the library reporting success for something that is not
		// in storage even without a fault
		desc = fmt.Sprintf("%s (flow %s, back end %s, storage wrapper %v, NO fault injected: fault-free reference run)", what, w.cs.Flow, w.cs.Backend, w.cs.Wrap)
	}
	w.c.R.Violation(key, desc, w.cs)
}

func (w *ftWorld) rawNode(kid string) ([]byte, bool) {
	ni := &types.NodeInformation{Id: kid}
	if err := w.s.Inner.Load(w.ctx, ni); err != nil {
		if !errors.Is(err, nodeenrollment.ErrNotFound) {
			w.c.R.Broken(fmt.Sprintf("faults: inner storage load of node record failed: %v", err))
		}
		return nil, false
	}
	b, _ := proto.MarshalOptions{Deterministic: true}.Marshal(ni)
	return b, true
}

func (w *ftWorld) tokenPresent(id string) bool {
	err := w.s.Inner.Load(w.ctx, &types.ServerLedActivationToken{Id: id})
	if err != nil && !errors.Is(err, nodeenrollment.ErrNotFound) {
		w.c.R.Broken(fmt.Sprintf("faults: inner storage load of token failed: %v", err))
	}
	return err == nil
}

func (w *ftWorld) snapshot() map[string][]byte {
	out := recstore.Snapshot(w.ctx, w.s.Inner, w.tokenIDs)
	if w.ninner != nil {
		for k, v := range recstore.Snapshot(w.ctx, w.ninner, nil) {
			out["node-side:"+k] = v
		}
	}
	return out
}

func (w *ftWorld) before() {
	w.beforeNodes = map[string][]byte{}
	for _, kid := range append(append([]string{}, w.bystanders...), w.own...) {
		if b, ok := w.rawNode(kid); ok {
			w.beforeNodes[kid] = b
		}
	}
	w.beforeSnap = w.snapshot()
	w.beforeRoots, _ = w.s.Roots()
}

// after applies the clauses that are common to all flows
func (w *ftWorld) after(cerr error, fired bool) {
	// a failed call never alters or removes another node's existing record
	if cerr != nil {
		for _, kid := range w.bystanders {
			pre, had := w.beforeNodes[kid]
			if !had {
				w.c.R.Broken("faults: bystander record missing before the call")
				continue
			}
			now, ok := w.rawNode(kid)
			switch {
			case !ok:
				w.viol("bystander-record-changed", "the call failed and the stored record of another node was removed")
			case !bytes.Equal(pre, now):
				w.viol("bystander-record-changed", "the call failed and the stored record of another node was altered")
			}
		}
	}
	// a token consumed to create a node record is never left usable
	for tokID, kid := range w.tokens {
		pre, had := w.beforeNodes[kid]
		now, ok := w.rawNode(kid)
		created := ok && (!had || !bytes.Equal(pre, now))
		present := w.tokenPresent(tokID)
		switch {
		case created && present:
			w.viol("consumed-token-still-usable", fmt.Sprintf("a node record was stored for the key that presented the activation token, and the token record is still in storage (call returned error=%v)", cerr != nil))
		case cerr != nil && !created && !present && fired:
			w.agg.note("token_lost_on_failed_call|%s|pos=%d|kind=%s", w.cs.Flow, w.cs.Pos, w.cs.Kind)
		}
	}
	if !fired {
		return
	}
	// observations (no clause attached)
	for _, kid := range w.own {
		pre, had := w.beforeNodes[kid]
		now, ok := w.rawNode(kid)
		switch {
		case had && (!ok || !bytes.Equal(pre, now)) && cerr != nil:
			w.agg.note("own_existing_record_changed_on_failed_call|%s|pos=%d|kind=%s", w.cs.Flow, w.cs.Pos, w.cs.Kind)
		case had && ok && !bytes.Equal(pre, now) && cerr == nil:
			w.agg.note("existing_record_of_same_key_overwritten_result_persisted|%s|pos=%d|kind=%s", w.cs.Flow, w.cs.Pos, w.cs.Kind)
		case !had && ok && cerr != nil:
			w.agg.note("failed_call_left_new_node_record|%s|pos=%d|kind=%s", w.cs.Flow, w.cs.Pos, w.cs.Kind)
		}
	}
	if cerr != nil {
		post := w.snapshot()
		var eff []string
		for k, v := range w.beforeSnap {
			nv, ok := post[k]
			switch {
			case !ok:
				eff = append(eff, "removed "+ftTypeOf(k))
			case !bytes.Equal(v, nv):
				eff = append(eff, "changed "+ftTypeOf(k))
			}
		}
		for k := range post {
			if _, ok := w.beforeSnap[k]; !ok {
				eff = append(eff, "added "+ftTypeOf(k))
			}
		}
		sort.Strings(eff)
		e := "nothing"
		if len(eff) > 0 {
			e = fmt.Sprint(eff)
		}
		w.agg.mu.Lock()
		w.agg.effects[fmt.Sprintf("%s|pos=%d|%s", w.cs.Flow, w.cs.Pos, e)]++
		w.agg.mu.Unlock()
	}
}

// firedOtherThanNotFound: one of the delivered faults says nothing about absence
func (w *ftWorld) firedOtherThanNotFound() bool {
	for _, k := range w.firedKinds {
		if k != recstore.FaultNotFound {
			return true
		}
	}
	return false
}

func ftTypeOf(k string) string {
	for i := 0; i < len(k); i++ {
		if k[i] == '/' {
			return k[:i]
		}
	}
	return k
}

// ---------------------------------------------------------------------------
// oracles

// judgeFetch: error => nothing handed out; success with credentials => a stored
// record for the key whose bundles and server key are what the response carries
func (w *ftWorld) judgeFetch(resp *types.FetchNodeCredentialsResponse, err error, creds *types.NodeCredentials, keyID string) {
	if err != nil {
		w.outcome = "error"
		if resp != nil && (len(resp.EncryptedNodeCredentials) > 0 || len(resp.EncryptedNodeCredentialsSignature) > 0 || len(resp.ServerEncryptionPublicKeyBytes) > 0) {
			w.viol("error-with-result", "FetchNodeCredentials returned an error together with a response that carries credentials")
		}
		return
	}
	if resp == nil || len(resp.EncryptedNodeCredentials) == 0 {
		w.outcome = "success-empty" // the "unauthorized" answer: nothing is handed out
		return
	}
	if d := w.fetchReflected(resp, creds, keyID); d != "" {
		w.viol("success-not-persisted", "FetchNodeCredentials handed out credentials that are not reflected in storage: "+d)
		return
	}
	w.outcome = "success-persisted"
}

func (w *ftWorld) fetchReflected(resp *types.FetchNodeCredentialsResponse, creds *types.NodeCredentials, keyID string) string {
	stored, err := w.s.LoadNode(keyID)
	if err != nil {
		return fmt.Sprintf("no loadable node record for the key (%v)", err)
	}
	if !bytes.Equal(world.X25519Pub(stored.ServerEncryptionPrivateKeyBytes), resp.ServerEncryptionPublicKeyBytes) {
		return "the server encryption key of the response is not the one of the stored record"
	}
	nc := proto.Clone(creds).(*types.NodeCredentials)
	nc.ServerEncryptionPublicKeyBytes = resp.ServerEncryptionPublicKeyBytes
	nc.ServerEncryptionPublicKeyType = resp.ServerEncryptionPublicKeyType
	got := new(types.NodeCredentials)
	if err := nodeenrollment.DecryptMessage(w.ctx, resp.EncryptedNodeCredentials, nc, got); err != nil {
		return fmt.Sprintf("the response cannot be opened with the node's key and the stored server key (%v)", err)
	}
	if len(got.CertificateBundles) == 0 || len(got.CertificateBundles) != len(stored.CertificateBundles) {
		return fmt.Sprintf("response carries %d certificate bundles, stored record %d", len(got.CertificateBundles), len(stored.CertificateBundles))
	}
	for i := range got.CertificateBundles {
		if !proto.Equal(got.CertificateBundles[i], stored.CertificateBundles[i]) {
			return fmt.Sprintf("certificate bundle %d of the response differs from the stored record", i)
		}
	}
	if !bytes.Equal(got.RegistrationNonce, stored.RegistrationNonce) {
		return "registration nonce of the response differs from the stored record"
	}
	return ""
}

func (w *ftWorld) judgeRoots(ret *types.RootCertificates, err error) {
	if err != nil {
		w.outcome = "error"
		if ret != nil {
			w.viol("error-with-result", "RotateRootCertificates returned an error together with a root set")
		}
		if _, lerr := w.s.Roots(); lerr != nil && w.beforeRoots != nil && w.fired {
			w.agg.note("roots_absent_after_failed_call|%s|pos=%d|kind=%s", w.cs.Flow, w.cs.Pos, w.cs.Kind)
		}
		return
	}
	if ret == nil {
		w.viol("success-without-result", "RotateRootCertificates returned neither roots nor an error")
		return
	}
	stored, lerr := w.s.Roots()
	if lerr != nil {
		w.viol("success-not-persisted", fmt.Sprintf("RotateRootCertificates reported success but storage holds no loadable root set (%v)", lerr))
		return
	}
	if ret.Current == nil || ret.Next == nil {
		w.viol("success-not-persisted", "RotateRootCertificates reported success with an incomplete root set")
		return
	}
	for _, p := range []struct {
		label string
		a, b  *types.RootCertificate
	}{{"current", ret.Current, stored.Current}, {"next", ret.Next, stored.Next}} {
		if !proto.Equal(p.a, p.b) {
			what := "record"
			switch {
			case !bytes.Equal(p.a.PublicKeyPkix, p.b.PublicKeyPkix):
				what = "public key"
			case !bytes.Equal(p.a.CertificateDer, p.b.CertificateDer):
				what = "certificate"
			case !proto.Equal(p.a.NotBefore, p.b.NotBefore) || !proto.Equal(p.a.NotAfter, p.b.NotAfter):
				what = "validity window"
			case !bytes.Equal(p.a.PrivateKeyPkcs8, p.b.PrivateKeyPkcs8):
				what = "private key"
			}
			w.viol("success-not-persisted", fmt.Sprintf("RotateRootCertificates reported success but the %s of the returned %s root differs from the stored root set", what, p.label))
			return
		}
	}
	w.outcome = "success-persisted"
	if w.beforeRoots != nil && w.fired && w.cs.Flow != "rotate-roots-reinit" {
		pk := ret.Current.PublicKeyPkix
		if !bytes.Equal(pk, w.beforeRoots.Current.PublicKeyPkix) && !bytes.Equal(pk, w.beforeRoots.Next.PublicKeyPkix) {
			w.agg.note("roots_replaced_after_injected_%s|%s|pos=%d", w.cs.Kind, w.cs.Flow, w.cs.Pos)
			if w.cs.Kind == recstore.FaultNotFound {
				w.c.R.Count("roots_replaced_after_injected_notfound", 1)
			}
		}
	}
}

func (w *ftWorld) judgeGenCerts(resp *types.GenerateServerCertificatesResponse, err error) {
	if err != nil {
		w.outcome = "error"
		if resp != nil {
			w.viol("error-with-result", "GenerateServerCertificates returned an error together with a response")
		}
		return
	}
	if resp == nil || len(resp.CertificateBundles) == 0 || len(resp.CertificatePrivateKeyPkcs8) == 0 {
		w.viol("success-without-result", "GenerateServerCertificates returned success without certificates")
		return
	}
	stored, lerr := w.s.Roots()
	if lerr != nil {
		w.viol("success-not-persisted", fmt.Sprintf("certificates were issued but storage holds no loadable root set (%v)", lerr))
		return
	}
	for i, b := range resp.CertificateBundles {
		if !bytes.Equal(b.CaCertificateDer, stored.Current.CertificateDer) && !bytes.Equal(b.CaCertificateDer, stored.Next.CertificateDer) {
			w.viol("success-not-persisted", fmt.Sprintf("issued certificate %d names a CA that is not in the stored root set", i))
			return
		}
		ca, e1 := x509.ParseCertificate(b.CaCertificateDer)
		leaf, e2 := x509.ParseCertificate(b.CertificateDer)
		if e1 != nil || e2 != nil || leaf.CheckSignatureFrom(ca) != nil {
			w.viol("success-not-persisted", fmt.Sprintf("issued certificate %d does not chain to the stored root", i))
			return
		}
	}
	w.outcome = "success-persisted"
}

// ---------------------------------------------------------------------------
// flows

type ftInst struct {
	setup func() error
	call  func() error
	judge func(err error)
}

type ftFlow struct {
	name   string
	nodeID bool // needs lookup by node ID: runs on the ordered back end only
	refErr bool // the fault-free call is expected to fail (observation flow)
	refAny bool // the outcome of the fault-free call depends on the back end and is not asserted
	once   bool // also run on the store-once back end in the quick tier
	mk     func(w *ftWorld) ftInst
}

func ftState(tag string) *structpb.Struct {
	s, err := structpb.NewStruct(map[string]any{"tag": tag, "n": 7, "list": []any{"a", true}})
	if err != nil {
		panic(err)
	}
	return s
}

func (w *ftWorld) enroll(flow string, via *world.Node) (*world.EnrollResult, error) {
	er, err := world.Enroll(w.s, flow, false, ftState("enrolled"), nil, via)
	if err != nil {
		return nil, fmt.Errorf("enroll (%s): %w", flow, err)
	}
	return er, nil
}

func (w *ftWorld) createToken() (id, tok string, err error) {
	id, tok, err = registration.CreateServerLedActivationToken(w.ctx, w.s.Store, &types.ServerLedRegistrationRequest{}, w.s.Opts(nodeenrollment.WithState(ftState("token")))...)
	if err == nil {
		w.tokenIDs = append(w.tokenIDs, id)
	}
	return
}

// nodeStorage creates the node-side storage under a recorder; the fault is
// armed on it
func (w *ftWorld) nodeStorage() error {
	be := w.cs.Backend
	if be == world.Ordered {
		be = world.Inmem
	}
	inner, cleanup, err := world.NewBackend(be)
	if err != nil {
		return err
	}
	w.cleanups = append(w.cleanups, cleanup)
	nrec := recstore.New(inner)
	w.ninner, w.nstore, w.frec = inner, nrec.Wrap(), nrec
	return nil
}

func ftFetchFlow(mode string) func(w *ftWorld) ftInst {
	return func(w *ftWorld) ftInst {
		var n *world.Node
		var req *types.FetchNodeCredentialsRequest
		var resp *types.FetchNodeCredentialsResponse
		return ftInst{
			setup: func() error {
				var err error
				switch mode {
				case "nodeled":
					if n, err = world.NewNode(false, ""); err != nil {
						return err
					}
					if req, err = n.FetchRequest(); err != nil {
						return err
					}
					if _, err = registration.AuthorizeNode(w.ctx, w.s.Store, req, w.s.Opts(nodeenrollment.WithState(ftState("operator")))...); err != nil {
						return fmt.Errorf("authorize: %w", err)
					}
				case "token", "token-existing-key":
					id, tok, err := w.createToken()
					if err != nil {
						return fmt.Errorf("create token: %w", err)
					}
					if n, err = world.NewNode(false, tok); err != nil {
						return err
					}
					if req, err = n.FetchRequest(); err != nil {
						return err
					}
					w.tokens[id] = n.K.KeyID
					if mode == "token-existing-key" {
						// the same key already has a record, authorized the node-led way
						pre := world.Sign(world.BaseInfo(n.K, n.Enc.Pub, world.RandBytes(nodeenrollment.NonceSize)), n.K.Priv)
						if _, err = registration.AuthorizeNode(w.ctx, w.s.Store, pre, w.s.Opts()...); err != nil {
							return fmt.Errorf("authorize existing key: %w", err)
						}
					}
				case "wrapper", "wrapper-again":
					if n, err = world.NewNode(false, ""); err != nil {
						return err
					}
					if req, err = n.FetchRequest(nodeenrollment.WithRegistrationWrapper(w.s.RW), nodeenrollment.WithWrappingRegistrationFlowApplicationSpecificParams(ftState("params"))); err != nil {
						return err
					}
				case "rewrapped", "rewrapped-again":
					via, err := w.enroll(world.FlowAuthorize, nil)
					if err != nil {
						return err
					}
					w.bystanders = append(w.bystanders, via.Node.K.KeyID)
					if n, err = world.NewNode(false, ""); err != nil {
						return err
					}
					if req, err = n.FetchRequest(); err != nil {
						return err
					}
					regInfo := &types.WrappingRegistrationFlowInfo{CertificatePublicKeyPkix: n.K.Pkix, Nonce: n.Nonce, ApplicationSpecificParams: ftState("params")}
					ct, err := nodeenrollment.EncryptMessage(w.ctx, regInfo, via.Node.Creds)
					if err != nil {
						return err
					}
					req.RewrappedWrappingRegistrationFlowInfo = ct
					req.RewrappingKeyId = via.Node.K.KeyID
				}
				w.own = append(w.own, n.K.KeyID)
				if strings.HasSuffix(mode, "-again") {
					if _, err := registration.FetchNodeCredentials(w.ctx, w.s.Store, req, w.s.Opts()...); err != nil {
						return fmt.Errorf("first fetch: %w", err)
					}
				}
				return nil
			},
			call: func() error {
				var err error
				resp, err = registration.FetchNodeCredentials(w.ctx, w.s.Store, req, w.s.Opts()...)
				return err
			},
			judge: func(err error) { w.judgeFetch(resp, err, n.Creds, n.K.KeyID) },
		}
	}
}

func ftRootsFlow(mode string) func(w *ftWorld) ftInst {
	return func(w *ftWorld) ftInst {
		var ret *types.RootCertificates
		return ftInst{
			setup: func() error {
				const day = 24 * time.Hour
				switch mode {
				case "empty":
					return w.s.Inner.Remove(w.ctx, &types.RootCertificates{Id: nodeenrollment.RootsMessageId})
				case "promote":
					// current and next both valid now: the call promotes next and mints a new next
					now := time.Now()
					roots := &types.RootCertificates{
						Id:      nodeenrollment.RootsMessageId,
						Current: world.MintRoot(nodeenrollment.CurrentId, world.NewKeys(), now.Add(-5*day), now.Add(5*day)),
						Next:    world.MintRoot(nodeenrollment.NextId, world.NewKeys(), now.Add(-time.Hour), now.Add(12*day)),
					}
					return roots.Store(w.ctx, w.s.Inner, w.s.StoreOpts()...)
				}
				return nil // noop / reinit: the fresh roots of the world
			},
			call: func() error {
				var extra []nodeenrollment.Option
				if mode == "reinit" {
					extra = append(extra, nodeenrollment.WithReinitializeRoots(true))
				}
				var err error
				ret, err = rotation.RotateRootCertificates(w.ctx, w.s.Store, w.s.Opts(extra...)...)
				return err
			},
			judge: func(err error) { w.judgeRoots(ret, err) },
		}
	}
}

// ftTwoUnderNodeID enrolls two nodes whose records are returned (second, first)
// for node ID "N"
func (w *ftWorld) twoUnderNodeID() (first, second *world.Node, err error) {
	a, err := w.enroll(world.FlowAuthorize, nil)
	if err != nil {
		return nil, nil, err
	}
	b, err := w.enroll(world.FlowAuthorize, nil)
	if err != nil {
		return nil, nil, err
	}
	ol, ok := w.s.Inner.(*world.OrderedLoader)
	if !ok {
		return nil, nil, errors.New("node-ID flow needs the ordered back end")
	}
	ol.SetOrder("N", []string{b.Node.K.KeyID, a.Node.K.KeyID})
	w.bystanders = append(w.bystanders, b.Node.K.KeyID)
	return a.Node, b.Node, nil
}

func ftRotateNodeFlow(byNodeID bool) func(w *ftWorld) ftInst {
	return func(w *ftWorld) ftInst {
		var cur *world.Node
		var newCreds *types.NodeCredentials
		var newKeyID string
		var req *types.RotateNodeCredentialsRequest
		var resp *types.RotateNodeCredentialsResponse
		return ftInst{
			setup: func() error {
				if byNodeID {
					var err error
					if cur, _, err = w.twoUnderNodeID(); err != nil {
						return err
					}
				} else {
					er, err := w.enroll(world.FlowAuthorize, nil)
					if err != nil {
						return err
					}
					cur = er.Node
				}
				scratch, _, err := world.NewBackend(world.Inmem)
				if err != nil {
					return err
				}
				if newCreds, err = types.NewNodeCredentials(w.ctx, scratch, nodeenrollment.WithSkipStorage(true)); err != nil {
					return err
				}
				if newKeyID, err = nodeenrollment.KeyIdFromPkix(newCreds.CertificatePublicKeyPkix); err != nil {
					return err
				}
				fetchReq, err := newCreds.CreateFetchNodeCredentialsRequest(w.ctx)
				if err != nil {
					return err
				}
				enc, err := nodeenrollment.EncryptMessage(w.ctx, fetchReq, cur.Creds)
				if err != nil {
					return err
				}
				req = &types.RotateNodeCredentialsRequest{CertificatePublicKeyPkix: cur.K.Pkix, EncryptedFetchNodeCredentialsRequest: enc}
				if byNodeID {
					req.NodeId = "N"
				}
				w.own = append(w.own, cur.K.KeyID, newKeyID)
				return nil
			},
			call: func() error {
				var err error
				resp, err = rotation.RotateNodeCredentials(w.ctx, w.s.Store, req, w.s.Opts()...)
				return err
			},
			judge: func(err error) {
				if err != nil {
					w.outcome = "error"
					if resp != nil && len(resp.EncryptedFetchNodeCredentialsResponse) > 0 {
						w.viol("error-with-result", "RotateNodeCredentials returned an error together with an encrypted response")
					}
					return
				}
				if resp == nil || len(resp.EncryptedFetchNodeCredentialsResponse) == 0 {
					w.viol("success-without-result", "RotateNodeCredentials reported success with an empty response: the rotation did not complete and no error says so")
					return
				}
				inner := new(types.FetchNodeCredentialsResponse)
				if derr := nodeenrollment.DecryptMessage(w.ctx, resp.EncryptedFetchNodeCredentialsResponse, cur.Creds, inner); derr != nil {
					w.viol("success-without-result", fmt.Sprintf("RotateNodeCredentials reported success with a response the node cannot open with its current key (%v)", derr))
					return
				}
				if len(inner.EncryptedNodeCredentials) == 0 {
					// FetchNodeCredentials treated a not-found as "unauthorized": nothing is handed out
					w.outcome = "success-empty"
					if w.fired && w.firedOtherThanNotFound() {
						// a storage operation failed with an error that says nothing about absence, and the
						// call swallowed it: the rotation did not complete, no error says so
						w.viol("success-without-result", fmt.Sprintf("RotateNodeCredentials reported success although a storage operation failed (%s): the response holds no credentials and the rotation did not complete", w.cs.Kind))
						return
					}
					if w.fired {
						w.agg.note("rotation_success_wrapping_an_unauthorized_empty_fetch_response|%s|pos=%d|kind=%s", w.cs.Flow, w.cs.Pos, w.cs.Kind)
					}
					return
				}
				if d := w.fetchReflected(inner, newCreds, newKeyID); d != "" {
					w.viol("success-not-persisted", "RotateNodeCredentials handed out new credentials that are not reflected in storage: "+d)
					return
				}
				w.outcome = "success-persisted"
			},
		}
	}
}

func ftGenCertsFlow(byNodeID bool) func(w *ftWorld) ftInst {
	return func(w *ftWorld) ftInst {
		var req *types.GenerateServerCertificatesRequest
		var resp *types.GenerateServerCertificatesResponse
		return ftInst{
			setup: func() error {
				var n *world.Node
				if byNodeID {
					var err error
					if n, _, err = w.twoUnderNodeID(); err != nil {
						return err
					}
				} else {
					er, err := w.enroll(world.FlowAuthorize, nil)
					if err != nil {
						return err
					}
					n = er.Node
				}
				nonce := world.RandBytes(nodeenrollment.NonceSize)
				req = &types.GenerateServerCertificatesRequest{
					CertificatePublicKeyPkix: n.K.Pkix,
					Nonce:                    nonce,
					NonceSignature:           ed25519.Sign(n.K.Priv, nonce),
				}
				if byNodeID {
					req.NodeId = "N"
				}
				w.own = append(w.own, n.K.KeyID)
				// this is not the first handshake the process serves on this storage: an earlier one went through,
				// and the operator has replaced the roots since (what the earlier call saw is history)
				if _, err := nodetls.GenerateServerCertificates(w.ctx, w.s.Store, req, w.s.Opts()...); err != nil {
					return fmt.Errorf("warm-up certificate generation: %w", err)
				}
				if _, err := rotation.RotateRootCertificates(w.ctx, w.s.Store, w.s.Opts(nodeenrollment.WithReinitializeRoots(true))...); err != nil {
					return fmt.Errorf("reinitializing roots after the warm-up: %w", err)
				}
				nonce = world.RandBytes(nodeenrollment.NonceSize)
				req.Nonce, req.NonceSignature = nonce, ed25519.Sign(n.K.Priv, nonce)
				return nil
			},
			call: func() error {
				var err error
				resp, err = nodetls.GenerateServerCertificates(w.ctx, w.s.Store, req, w.s.Opts()...)
				return err
			},
			judge: func(err error) { w.judgeGenCerts(resp, err) },
		}
	}
}

func ftNodeNewFlow(withToken bool) func(w *ftWorld) ftInst {
	return func(w *ftWorld) ftInst {
		var sw wrapping.Wrapper
		var opts []nodeenrollment.Option
		var creds *types.NodeCredentials
		return ftInst{
			setup: func() error {
				if err := w.nodeStorage(); err != nil {
					return err
				}
				if w.cs.Wrap {
					sw = world.NewAead("node-storage-wrapper")
					opts = append(opts, nodeenrollment.WithStorageWrapper(sw))
				}
				if withToken {
					_, tok, err := w.createToken()
					if err != nil {
						return err
					}
					opts = append(opts, nodeenrollment.WithActivationToken(tok))
				}
				return nil
			},
			call: func() error {
				var err error
				creds, err = types.NewNodeCredentials(w.ctx, w.nstore, opts...)
				return err
			},
			judge: func(err error) {
				if err != nil {
					w.outcome = "error"
					if creds != nil {
						w.viol("error-with-result", "NewNodeCredentials returned an error together with credentials")
					}
					return
				}
				if creds == nil {
					w.viol("success-without-result", "NewNodeCredentials returned neither credentials nor an error")
					return
				}
				var lo []nodeenrollment.Option
				if sw != nil {
					lo = append(lo, nodeenrollment.WithStorageWrapper(sw))
				}
				stored, lerr := types.LoadNodeCredentials(w.ctx, w.ninner, nodeenrollment.CurrentId, lo...)
				switch {
				case lerr != nil:
					w.viol("success-not-persisted", fmt.Sprintf("NewNodeCredentials reported success but the node's storage holds no loadable credentials (%v)", lerr))
				case !proto.Equal(creds, stored):
					w.viol("success-not-persisted", "NewNodeCredentials returned credentials that differ from the stored ones")
				default:
					w.outcome = "success-persisted"
				}
			},
		}
	}
}

// ftDialFlow: the node side of an enrollment as protocol.Dial performs it (fetch, handle the response, store
// the credentials, connect) with the fault on the node's storage. A Dial that reports success must have left
// the node's storage with credentials that carry the issued certificates.
func ftDialFlow(withToken bool) func(w *ftWorld) ftInst {
	return func(w *ftWorld) ftInst {
		var n *world.Node
		var lw *world.LW
		var conn net.Conn
		return ftInst{
			setup: func() error {
				if err := w.nodeStorage(); err != nil {
					return err
				}
				tok := ""
				if withToken {
					var err error
					if _, tok, err = w.createToken(); err != nil {
						return err
					}
				}
				var err error
				if n, err = world.NewNodeOn(w.nstore, w.cs.Wrap, tok); err != nil {
					return err
				}
				if !withToken {
					req, err := n.FetchRequest()
					if err != nil {
						return err
					}
					if _, err = registration.AuthorizeNode(w.ctx, w.s.Store, req, w.s.Opts()...); err != nil {
						return fmt.Errorf("authorize: %w", err)
					}
				}
				if lw, err = world.NewLW(w.s, world.LWCfg{}); err != nil {
					return err
				}
				w.cleanups = append(w.cleanups, lw.Close)
				w.own = append(w.own, n.K.KeyID)
				return nil
			},
			call: func() error {
				if conn != nil {
					conn.Close()
					conn = nil
				}
				var opts []nodeenrollment.Option
				if withToken {
					opts = append(opts, nodeenrollment.WithActivationToken(n.Token))
				}
				c, err := protocol.Dial(w.ctx, w.nstore, lw.Addr, n.NodeOpts(opts...)...)
				if c != nil {
					conn = c
					if rec, werr := lw.Wait(c.LocalAddr().String()); werr == nil && rec.Returned && rec.Conn != nil {
						rec.Conn.Close()
					}
					c.Close()
				}
				return err
			},
			judge: func(err error) {
				if err != nil {
					w.outcome = "error"
					return
				}
				stored, lerr := types.LoadNodeCredentials(w.ctx, w.ninner, nodeenrollment.CurrentId, n.NodeOpts()...)
				switch {
				case lerr != nil:
					w.viol("success-not-persisted", fmt.Sprintf("Dial reported success but the node's storage holds no loadable credentials (%v)", lerr))
				case len(stored.CertificateBundles) == 0:
					w.viol("success-not-persisted", "Dial enrolled the node and reported success but the credentials in the node's storage carry no certificates")
				default:
					w.outcome = "success-persisted"
				}
			},
		}
	}
}

func ftNodeHandleFlow(withToken, withPrev bool) func(w *ftWorld) ftInst {
	return func(w *ftWorld) ftInst {
		var n *world.Node
		var resp *types.FetchNodeCredentialsResponse
		var got *types.NodeCredentials
		return ftInst{
			setup: func() error {
				if err := w.nodeStorage(); err != nil {
					return err
				}
				tok := ""
				if withToken {
					var err error
					if _, tok, err = w.createToken(); err != nil {
						return err
					}
				}
				var err error
				if n, err = world.NewNodeOn(w.nstore, w.cs.Wrap, tok); err != nil {
					return err
				}
				if withPrev {
					// the credentials of a node that replaces older ones: they retain the older encryption key
					// pair (what SetPreviousEncryptionKey records before a rotation), and handling the answer
					// has to persist that too
					old, err := types.NewNodeCredentials(w.ctx, w.nstore, nodeenrollment.WithSkipStorage(true))
					if err != nil {
						return err
					}
					old.ServerEncryptionPublicKeyBytes, old.ServerEncryptionPublicKeyType = world.NewX25519().Pub, types.KEYTYPE_X25519
					if err := n.Creds.SetPreviousEncryptionKey(old); err != nil {
						return err
					}
				}
				req, err := n.FetchRequest()
				if err != nil {
					return err
				}
				if !withToken {
					if _, err = registration.AuthorizeNode(w.ctx, w.s.Store, req, w.s.Opts()...); err != nil {
						return fmt.Errorf("authorize: %w", err)
					}
				}
				if resp, err = registration.FetchNodeCredentials(w.ctx, w.s.Store, req, w.s.Opts()...); err != nil {
					return fmt.Errorf("fetch: %w", err)
				}
				if len(resp.EncryptedNodeCredentials) == 0 {
					return errors.New("setup fetch returned the unauthorized answer")
				}
				w.own = append(w.own, n.K.KeyID)
				return nil
			},
			call: func() error {
				var err error
				got, err = n.Handle(resp)
				return err
			},
			judge: func(err error) {
				if err != nil {
					w.outcome = "error"
					if got != nil {
						w.viol("error-with-result", "HandleFetchNodeCredentialsResponse returned an error together with credentials")
					}
					if st, lerr := types.LoadNodeCredentials(w.ctx, w.ninner, nodeenrollment.CurrentId, n.NodeOpts()...); lerr == nil && len(st.CertificateBundles) > 0 && w.fired {
						w.agg.note("failed_handle_left_certificates_in_node_storage|%s|pos=%d|kind=%s", w.cs.Flow, w.cs.Pos, w.cs.Kind)
					}
					return
				}
				if got == nil {
					w.viol("success-without-result", "HandleFetchNodeCredentialsResponse returned neither credentials nor an error")
					return
				}
				stored, lerr := types.LoadNodeCredentials(w.ctx, w.ninner, nodeenrollment.CurrentId, n.NodeOpts()...)
				if lerr != nil {
					w.viol("success-not-persisted", fmt.Sprintf("HandleFetchNodeCredentialsResponse reported success but the node's storage holds no loadable credentials (%v)", lerr))
					return
				}
				srv, serr := w.s.LoadNode(n.K.KeyID)
				if serr != nil {
					w.c.R.Broken("faults: server record of the handling node missing: " + serr.Error())
					return
				}
				switch {
				case len(stored.CertificateBundles) == 0 || len(stored.CertificateBundles) != len(srv.CertificateBundles):
					w.viol("success-not-persisted", fmt.Sprintf("HandleFetchNodeCredentialsResponse reported success but the stored credentials hold %d certificate bundles (server issued %d)", len(stored.CertificateBundles), len(srv.CertificateBundles)))
					return
				case !proto.Equal(got, stored):
					w.viol("success-not-persisted", "HandleFetchNodeCredentialsResponse returned credentials that differ from the stored ones")
					return
				}
				for i := range stored.CertificateBundles {
					if !proto.Equal(stored.CertificateBundles[i], srv.CertificateBundles[i]) {
						w.viol("success-not-persisted", fmt.Sprintf("stored certificate bundle %d differs from the one the server issued", i))
						return
					}
				}
				w.outcome = "success-persisted"
			},
		}
	}
}

var ftFlows = []*ftFlow{
	{name: "authorize", mk: func(w *ftWorld) ftInst {
		var n *world.Node
		var req *types.FetchNodeCredentialsRequest
		var ni *types.NodeInformation
		return ftInst{
			setup: func() error {
				var err error
				if n, err = world.NewNode(false, ""); err != nil {
					return err
				}
				if req, err = n.FetchRequest(); err != nil {
					return err
				}
				w.own = append(w.own, n.K.KeyID)
				return nil
			},
			call: func() error {
				var err error
				ni, err = registration.AuthorizeNode(w.ctx, w.s.Store, req, w.s.Opts(nodeenrollment.WithState(ftState("operator")))...)
				return err
			},
			judge: func(err error) {
				if err != nil {
					w.outcome = "error"
					if ni != nil {
						w.viol("error-with-result", "AuthorizeNode returned an error together with a NodeInformation")
					}
					return
				}
				if ni == nil {
					w.viol("success-without-result", "AuthorizeNode returned neither a NodeInformation nor an error")
					return
				}
				stored, lerr := w.s.LoadNode(n.K.KeyID)
				switch {
				case lerr != nil:
					w.viol("success-not-persisted", fmt.Sprintf("AuthorizeNode reported success but storage holds no loadable record for the key (%v)", lerr))
				case !proto.Equal(ni, stored):
					w.viol("success-not-persisted", "AuthorizeNode returned a NodeInformation that differs from the stored record")
				default:
					w.outcome = "success-persisted"
				}
			},
		}
	}},
	{name: "fetch-nodeled", mk: ftFetchFlow("nodeled")},
	{name: "fetch-token", mk: ftFetchFlow("token")},
	{name: "fetch-token-existing-key", refErr: true, mk: ftFetchFlow("token-existing-key")},
	{name: "fetch-wrapper", mk: ftFetchFlow("wrapper")},
	{name: "fetch-rewrapped", mk: ftFetchFlow("rewrapped")},
	// the node repeats its wrapping-flow fetch: the key already has a record (store-once refuses the overwrite)
	{name: "fetch-wrapper-again", refAny: true, once: true, mk: ftFetchFlow("wrapper-again")},
	{name: "fetch-rewrapped-again", refAny: true, once: true, mk: ftFetchFlow("rewrapped-again")},
	{name: "create-token", mk: func(w *ftWorld) ftInst {
		var id, tok string
		return ftInst{
			setup: func() error { return nil },
			call: func() error {
				var err error
				id, tok, err = registration.CreateServerLedActivationToken(w.ctx, w.s.Store, &types.ServerLedRegistrationRequest{}, w.s.Opts(nodeenrollment.WithState(ftState("token")))...)
				return err
			},
			judge: func(err error) {
				if err != nil {
					w.outcome = "error"
					if id != "" || tok != "" {
						w.viol("error-with-result", "CreateServerLedActivationToken returned an error together with a token or token ID")
					}
					return
				}
				if id == "" || tok == "" {
					w.viol("success-without-result", "CreateServerLedActivationToken returned success without token and ID")
					return
				}
				t, lerr := types.LoadServerLedActivationToken(w.ctx, w.s.Inner, id, w.s.StoreOpts()...)
				switch {
				case lerr != nil || t == nil:
					w.viol("success-not-persisted", fmt.Sprintf("CreateServerLedActivationToken reported success but no token record is loadable under the returned ID (%v)", lerr))
				case t.CreationTime == nil:
					w.viol("success-not-persisted", "CreateServerLedActivationToken reported success but the stored token has no creation time")
				default:
					w.outcome = "success-persisted"
				}
			},
		}
	}},
	{name: "rotate-roots-empty", mk: ftRootsFlow("empty")},
	{name: "rotate-roots-promote", mk: ftRootsFlow("promote")},
	{name: "rotate-roots-noop", mk: ftRootsFlow("noop")},
	{name: "rotate-roots-reinit", mk: ftRootsFlow("reinit")},
	{name: "rotate-node-keyid", mk: ftRotateNodeFlow(false)},
	{name: "rotate-node-nodeid", nodeID: true, mk: ftRotateNodeFlow(true)},
	{name: "gencerts-keyid", mk: ftGenCertsFlow(false)},
	{name: "gencerts-nodeid", nodeID: true, mk: ftGenCertsFlow(true)},
	{name: "node-new-creds", mk: ftNodeNewFlow(false)},
	{name: "node-new-creds-token", mk: ftNodeNewFlow(true)},
	{name: "node-handle-response", mk: ftNodeHandleFlow(false, false)},
	{name: "node-handle-response-token", mk: ftNodeHandleFlow(true, false)},
	{name: "node-handle-response-previous-key", mk: ftNodeHandleFlow(false, true)},
	{name: "node-dial-enroll", mk: ftDialFlow(false)},
	{name: "node-dial-enroll-token", mk: ftDialFlow(true)},
}

func ftFlowByName(name string) *ftFlow {
	for _, f := range ftFlows {
		if f.name == name {
			return f
		}
	}
	return nil
}

// ---------------------------------------------------------------------------
// driver

// ftRunCase executes one case; returns the number of storage operations of
// the call and whether the execution was usable
func ftRunCase(c *engine.Ctx, agg *ftAgg, cs ftCase) (int, bool) {
	r := c.R
	fl := ftFlowByName(cs.Flow)
	if fl == nil {
		r.Broken("faults: unknown flow " + cs.Flow)
		return 0, false
	}
	w := &ftWorld{c: c, agg: agg, cs: cs, ctx: context.Background(), tokens: map[string]string{}}
	defer w.close()
	var serr error
	if p, _ := engine.Guard(func() {
		w.s, serr = world.NewServer(world.ServerCfg{Backend: cs.Backend, StorageWrap: cs.Wrap, RegWrap: true, Wrap: func(in nodeenrollment.Storage) nodeenrollment.Storage {
			w.rec = recstore.New(in)
			return w.rec.Wrap()
		}})
	}); p != nil || serr != nil {
		r.Broken(fmt.Sprintf("faults: world setup failed: %v %v", p, serr))
		return 0, false
	}
	w.cleanups = append(w.cleanups, w.s.Close)
	w.frec = w.rec
	var inst ftInst
	if p, st := engine.Guard(func() {
		// the bystander: another enrolled node in every world
		by, err := w.enroll(world.FlowAuthorize, nil)
		if err != nil {
			serr = err
			return
		}
		w.bystanders = append(w.bystanders, by.Node.K.KeyID)
		inst = fl.mk(w)
		serr = inst.setup()
	}); p != nil || serr != nil {
		r.Broken(fmt.Sprintf("faults: setup of flow %s failed: %v %v %s", cs.Flow, p, serr, engine.LibraryFrame(st)))
		return 0, false
	}
	w.before()

	var cerr error
	w.frec.Reset()
	w.frec.Arm(cs.Pos, cs.Kind)
	if cs.Sticky || cs.Pos2 > 0 {
		w.frec.ArmMore(cs.Pos2, cs.Kind2, cs.Sticky)
	}
	p, st := engine.Guard(func() { cerr = inst.call() })
	fired, count := w.frec.Fired(), w.frec.Count()
	w.fired = fired
	w.firedKinds = w.frec.FiredKinds()
	ops := w.frec.Ops()
	w.frec.Arm(0, "")
	desc := engine.J(cs)
	if p != nil {
		r.Eval(desc, fired)
		r.Violation("panic:"+engine.LibraryFrame(st), fmt.Sprintf("flow %s panicked with failing storage operation %d (%s): %v", cs.Flow, cs.Pos, cs.Kind, p), cs)
		return count, false
	}
	if cs.Pos == 0 {
		if fl.refAny {
			r.Count(fmt.Sprintf("reference_outcome:%s:%s:wrapper=%v:error=%v", cs.Flow, cs.Backend, cs.Wrap, cerr != nil), 1)
		} else if (cerr != nil) != fl.refErr {
			if fl.refErr {
				// an observation flow whose fault-free run is expected to be refused was not refused on this
				// tree: that is for the property that owns the refusal to judge (C06), not a harness defect;
				// the positions of this flow are still enumerated against the outcome that was observed
				r.Count("observation_flow_not_refused_without_fault:"+cs.Flow, 1)
			} else {
				r.Violation("fault-free-call-failed:"+cs.Flow, fmt.Sprintf("NO fault injected: flow %s (back end %s, wrapper %v) failed: %v", cs.Flow, cs.Backend, cs.Wrap, cerr), cs)
				return count, false
			}
		}
		if count == 0 {
			r.Broken("faults: reference run of flow " + cs.Flow + " performed no storage operation")
			return count, false
		}
	}
	inst.judge(cerr)
	w.after(cerr, fired)
	r.Eval(desc, fired)

	if cs.Pos == 0 {
		r.Count("reference_runs", 1)
		agg.mu.Lock()
		agg.positions[fmt.Sprintf("%s|%s|wrapper=%v", cs.Flow, cs.Backend, cs.Wrap)] = count
		if _, ok := agg.opSeq[cs.Flow]; !ok || (cs.Backend != world.File && cs.Backend != world.StoreOnce && !cs.Wrap) {
			var seq []string
			for _, o := range ops {
				seq = append(seq, o.Kind+" "+o.Type)
			}
			agg.opSeq[cs.Flow] = seq
		}
		agg.mu.Unlock()
		return count, true
	}
	if !fired {
		r.Count("fault_not_fired", 1)
		return count, true
	}
	r.Count("fault_fired", 1)
	r.Count("flow_fired:"+cs.Flow, 1)
	if cs.Sticky {
		r.Count("storage_stays_down_runs", 1)
		if len(w.firedKinds) > 1 {
			r.Count("storage_stays_down_runs:more_than_one_operation_failed", 1)
		}
	}
	if cs.Pos2 > 0 {
		r.Count("second_fault_runs", 1)
		if len(w.firedKinds) > 1 {
			r.Count("second_fault_runs:both_delivered", 1)
		}
	}
	r.Count("kind_"+cs.Kind, 1)
	if w.outcome != "" {
		r.Count("outcome_"+w.outcome, 1)
		r.Count("outcome_"+cs.Kind+"_"+w.outcome, 1)
	}
	if cerr != nil {
		r.Count("bystander_checked_after_failed_call", int64(len(w.bystanders)))
	}
	if len(w.tokens) > 0 {
		r.Count("token_clause_checked", 1)
	}
	if cerr != nil && !w.flagged {
		// the caller retries: the same call on the same in-memory objects, storage working again.
		// It may fail or succeed, but a success must again be reflected in storage.
		var rerr error
		w.retrying = true
		if p2, st2 := engine.Guard(func() { rerr = inst.call() }); p2 != nil {
			r.Violation("panic:"+engine.LibraryFrame(st2), fmt.Sprintf("flow %s panicked when repeated after a failed storage operation %d (%s): %v", cs.Flow, cs.Pos, cs.Kind, p2), cs)
			return count, true
		}
		inst.judge(rerr)
		r.Count("retries_after_failed_call", 1)
		if rerr == nil {
			r.Count("retries_after_failed_call:succeeded", 1)
		}
	}
	return count, true
}

func runFaults(c *engine.Ctx) engine.Result {
	r := c.R
	res := engine.Result{
		Rule: "case = (flow, back end, storage wrapper on/off, position p of the first failing storage operation, fault kind[, storage stays down from p on | second failing position p2 > p and its kind]); for every flow a fault-free reference run (executed twice, on two freshly built worlds, counts compared) counts the n storage operations of the call under test, then every p in 1..n x {generic, notfound, cancelled} is executed on a freshly built identical world (one bystander node enrolled in each); then every p < n x kind with every later operation failing too, and - wherever a single-fault run went on for m > p operations - every p2 in p+1..m x {generic, notfound, cancelled, duplicate}. non-trivial = the armed fault was delivered to the library (a run whose call ended before position p is counted as fault_not_fired); distinct by descriptor. Oracle reads the inner storage with the harness's wrappers: error => no result object; success => result equal to what storage holds; record created through a token => token record gone; failed call => bystander records byte-identical.",
		Assumptions: []string{
			"at most two distinct failing operations per call, or one failing operation and all that follow it; a failing operation does not touch the inner storage (no partial writes)",
			"flows looked up by node ID run on the harness's ordered NodeIdLoader only (the file back end has no lookup by node ID)",
			"a success that hands out nothing (the empty 'unauthorized' fetch response after a not-found) carries no durability obligation",
			"roots removed by a failed WithReinitializeRoots call are documented behaviour and not flagged; a failed call that leaves a new record of the calling node itself is recorded as an observation only",
			"trusts proto.Equal, crypto/x509, crypto/ed25519 and nodeenrollment.DecryptMessage (used only to open responses with the node's own key)",
		},
	}
	agg := &ftAgg{positions: map[string]int{}, opSeq: map[string][]string{}, effects: map[string]int{}, notes: map[string]int{}}
	finish := func() {
		agg.mu.Lock()
		r.Set("positions_per_flow", agg.positions)
		r.Set("reference_operation_sequences", agg.opSeq)
		r.Set("what_failed_calls_left_behind", agg.effects)
		r.Set("observations_without_violated_clause", agg.notes)
		agg.mu.Unlock()
	}
	if c.Replay != nil && strings.Contains(string(c.Replay), `"full-disk"`) {
		var fd struct {
			Seq int `json:"seq"`
		}
		_ = json.Unmarshal(c.Replay, &fd)
		runFaultsFullDisk(c, fd.Seq)
		return res
	}
	if c.Replay != nil {
		var cs ftCase
		if err := json.Unmarshal(c.Replay, &cs); err != nil {
			r.Broken("bad replay: " + err.Error())
			return res
		}
		ftRunCase(c, agg, cs)
		finish()
		return res
	}

	backends := []string{world.Inmem}
	if !c.Quick() {
		backends = append(backends, world.StoreOnce, world.File)
	}
	type group struct {
		cs ftCase
		n  int
		ok bool
	}
	var groups []*group
	for _, be := range backends {
		for _, wrap := range []bool{false, true} {
			for _, fl := range ftFlows {
				b := be
				if fl.nodeID {
					if be != world.Inmem {
						continue
					}
					b = world.Ordered
				}
				groups = append(groups, &group{cs: ftCase{Flow: fl.name, Backend: b, Wrap: wrap}})
			}
		}
	}
	if c.Quick() {
		for _, wrap := range []bool{false, true} {
			for _, fl := range ftFlows {
				if fl.once {
					groups = append(groups, &group{cs: ftCase{Flow: fl.name, Backend: world.StoreOnce, Wrap: wrap}})
				}
			}
		}
	}
	// phase 1: reference runs
	// (run twice on two fresh worlds: the number of operations has to be the same, otherwise the
	// larger one is enumerated and the instability is recorded)
	engine.ForEach(len(groups), engine.Workers(), func(i int) {
		g := groups[i]
		g.n, g.ok = ftRunCase(c, agg, g.cs)
		n2, ok2 := ftRunCase(c, agg, g.cs)
		if g.ok && ok2 && n2 != g.n {
			r.Count("reference_count_unstable", 1)
			agg.note("reference_count_unstable|%s|%s|wrapper=%v|%d_vs_%d", g.cs.Flow, g.cs.Backend, g.cs.Wrap, g.n, n2)
			if n2 > g.n {
				g.n = n2
			}
		}
		g.ok = g.ok && ok2
	})
	// phase 2: every position x kind
	var cases []ftCase
	for _, g := range groups {
		if !g.ok {
			continue
		}
		for p := 1; p <= g.n; p++ {
			for _, k := range append(append([]string{}, recstore.FaultKinds...), recstore.FaultDuplicate, recstore.FaultTemporary) {
				cs := g.cs
				cs.Pos, cs.Kind = p, k
				cases = append(cases, cs)
			}
		}
	}
	single := len(cases)
	// a storage that stays down: every operation from p on fails (p = n is the single fault again)
	for _, g := range groups {
		if !g.ok {
			continue
		}
		for p := 1; p < g.n; p++ {
			for _, k := range recstore.FaultKinds {
				cs := g.cs
				cs.Pos, cs.Kind, cs.Sticky = p, k, true
				cases = append(cases, cs)
			}
		}
	}
	r.Set("configurations", len(groups))
	r.Set("single_fault_cases", single)
	r.Set("storage_stays_down_cases", len(cases)-single)
	r.Set("fault_cases", len(cases))
	r.Set("back_ends", backends)
	if len(cases) > 0 {
		r.Sample(cases[0])
		r.Sample(cases[len(cases)/5])
		r.Sample(cases[len(cases)*2/5])
		r.Sample(cases[len(cases)-1])
	}
	counts := make([]int, len(cases))
	engine.ForEach(len(cases), engine.Workers(), func(i int) { counts[i], _ = ftRunCase(c, agg, cases[i]) })
	// a second failing operation: wherever the call went on after the first fault (the fault was tolerated or
	// taken for absence), every later operation of that run x kind fails as well, on a fresh identical world
	var second []ftCase
	for i := 0; i < single; i++ {
		cs := cases[i]
		if counts[i] <= cs.Pos {
			continue
		}
		for p2 := cs.Pos + 1; p2 <= counts[i]; p2++ {
			for _, k2 := range append(append([]string{}, recstore.FaultKinds...), recstore.FaultDuplicate, recstore.FaultTemporary) {
				c2 := cs
				c2.Pos2, c2.Kind2 = p2, k2
				second = append(second, c2)
			}
		}
	}
	r.Set("second_fault_cases", len(second))
	if len(second) > 0 {
		r.Sample(second[0])
		r.Sample(second[len(second)/2])
	}
	engine.ForEach(len(second), engine.Workers(), func(i int) { ftRunCase(c, agg, second[i]) })
	for i := 0; i < c.Pick(3, 12); i++ {
		runFaultsFullDisk(c, i)
	}
	finish()

	for _, fl := range ftFlows {
		r.Require("flow_fired:"+fl.name, 6)
	}
	r.Require("reference_runs", int64(2*len(groups)))
	r.Require("fault_fired", 200)
	r.Require("outcome_error", 100)
	r.Require("outcome_success-persisted", 10)
	r.Require("bystander_checked_after_failed_call", 100)
	r.Require("token_clause_checked", 20)
	r.Require("storage_stays_down_runs:more_than_one_operation_failed", 20)
	r.Require("second_fault_runs:both_delivered", 20)
	for _, k := range recstore.FaultKinds {
		r.Require("kind_"+k, 60)
	}
	res.Exhaustive = true
	return res
}
