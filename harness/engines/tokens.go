package engines

// C06 — activation tokens are single-use, expiring and not recoverable from
// storage. Histories of create / authorize / use / re-use / age / tamper steps
// over up to four tokens and five node keys are executed against the real
// registration code on an in-memory server world; a shadow state kept by the
// harness (who used what, which age was sealed into which token, which stored
// record was edited how) decides for every fetch whether it must be refused.
//
// Ageing needs no clock: the harness plays the server that created the token
// earlier and re-stores the record through the library's own
// ServerLedActivationToken.Store with a creation time in the past. Only
// (lifetime, age) pairs at least 30 minutes apart are used.

import (
	"bytes"
	"context"
	"crypto/hmac"
	"crypto/sha256"
	"encoding/base64"
	"encoding/hex"
	"encoding/json"
	"errors"
	"fmt"
	"math/big"
	"math/rand"
	"sort"
	"strings"
	"sync"
	"sync/atomic"
	"time"

	wrapping "github.com/hashicorp/go-kms-wrapping/v2"
	"github.com/hashicorp/nodeenrollment"
	"github.com/hashicorp/nodeenrollment/registration"
	"github.com/hashicorp/nodeenrollment/types"
	"google.golang.org/protobuf/proto"
	"google.golang.org/protobuf/types/known/structpb"
	"google.golang.org/protobuf/types/known/timestamppb"

	"verifharness/engine"
	"verifharness/recstore"
	"verifharness/world"
)

func init() {
	engine.Register(&engine.Spec{Prop: "C06", Engine: "tokens", Level: "exploration", Fn: runTokens})
}

const (
	tokensMaxTokens = 4
	tokensMaxKeys   = 5
	tokensDay       = 24 * time.Hour
	tokensDefault   = "14d-default"
)

// lifetimes (maximum token lifetime handed to FetchNodeCredentials; the default is the option being absent)
// "0s" and "-1h" are settings under which every token is past its lifetime (a
// token's age is positive as soon as any time has passed; a fresh token under
// 0s is left unconstrained, an instant is not an age the harness can produce)
var tokensLifeNames = []string{"-1h", "0s", "30m", "1d", tokensDefault, "30d", "1000d"}
var tokensLives = map[string]time.Duration{"-1h": -time.Hour, "0s": 0, "30m": 30 * time.Minute, "1d": tokensDay, tokensDefault: 14 * tokensDay, "30d": 30 * tokensDay, "1000d": 1000 * tokensDay}

// ages sealed into a token: every |age - lifetime| is >= 1 min, and the
// expectation "must succeed" additionally requires that the wall-clock time
// spent since the age was sealed leaves 30 s of margin (tokensMargin); ages
// one to four minutes past a lifetime lie inside the default clock skews, which
// have no say in token expiry
var tokensAgeNames = []string{"fresh", "29m", "31m", "1h", "13d", "14d-1m", "14d+1m", "14d+4m", "15d", "400d"}
var tokensAges = map[string]time.Duration{"fresh": 0, "29m": 29 * time.Minute, "31m": 31 * time.Minute, "1h": time.Hour, "13d": 13 * tokensDay,
	"14d-1m": 14*tokensDay - time.Minute, "14d+1m": 14*tokensDay + time.Minute, "14d+4m": 14*tokensDay + 4*time.Minute, "15d": 15 * tokensDay, "400d": 400 * tokensDay}

const tokensMargin = 30 * time.Second

// tamper kinds. With a storage wrapper the record stays sealed (wrapping_key_id
// kept); without a wrapper the edits change the stored plain time.
var tokensSealedTampers = []string{"clear-field-now", "clear-field-future", "swap-blob", "swap-record", "garbage", "garbage-blobinfo", "truncate", "clear-as-blob"}
var tokensPlainTampers = []string{"plain-time-now", "plain-time-garbage", "plain-clear-field"}

// tkStep is one step of a history
type tkStep struct {
	Op     string `json:"op"` // create | authorize | use | use-removefail | age | tamper
	Tok    int    `json:"tok"`
	Key    int    `json:"key"`
	State  bool   `json:"state,omitempty"`
	Age    string `json:"age,omitempty"`
	Life   string `json:"life,omitempty"`
	Tamper string `json:"tamper,omitempty"`
	Src    int    `json:"src,omitempty"`  // swap-blob: token whose sealed value is copied in
	Arg    int    `json:"arg,omitempty"`  // truncate: keep len*Arg/8 bytes (8: len-1); garbage-blobinfo: ciphertext length
	Data   string `json:"data,omitempty"` // garbage: hex of the bytes written
	// use: the fetch is made with WithSkipStorage(true) (the caller wants the answer, not the record): the
	// token is used all the same
	NoStore bool `json:"fetch_with_skip_storage,omitempty"`
}

// tkCase is one history
type tkCase struct {
	Wrap   bool     `json:"storage_wrapper"`
	Origin string   `json:"origin,omitempty"` // directed:<template> | random
	Steps  []tkStep `json:"steps"`
}

// tkWitness is what a violation records: the history (flattened so that a
// replay unmarshals as tkCase) plus the failing step and what was seen
type tkWitness struct {
	tkCase
	AtStep   int      `json:"at_step"`
	Step     *tkStep  `json:"step,omitempty"`
	Reasons  []string `json:"refusal_reasons,omitempty"`
	Outcome  string   `json:"outcome,omitempty"`
	Err      string   `json:"error,omitempty"`
	Trace    []string `json:"trace,omitempty"`
	TokenHex string   `json:"token_bytes_hex,omitempty"`
	Found    string   `json:"found,omitempty"`
}

// ---------------------------------------------------------------------------
// local storage layer: makes the removal of a token record fail on demand
// (recstore.Arm counts operations; here the fault has to hit the token removal
// wherever it sits in the call)

type tokensFaultStore struct {
	nodeenrollment.Storage
	failTokRemove atomic.Bool
	fired         atomic.Int32
	kindSeq       atomic.Int32
	// redirect models a storage in which a whole stored token record was moved into another token's
	// slot (e.g. a file copied over another): a load of slot k returns the record stored under redirect[k],
	// embedded id included
	mu       sync.Mutex
	redirect map[string]string
}

func (f *tokensFaultStore) Load(ctx context.Context, m nodeenrollment.MessageWithId) error {
	if t, ok := m.(*types.ServerLedActivationToken); ok && t != nil {
		f.mu.Lock()
		to := f.redirect[t.Id]
		f.mu.Unlock()
		if to != "" {
			t.Id = to
		}
	}
	return f.Storage.Load(ctx, m)
}

func (f *tokensFaultStore) Remove(ctx context.Context, m nodeenrollment.MessageWithId) error {
	if f.failTokRemove.Load() {
		if _, ok := m.(*types.ServerLedActivationToken); ok {
			// alternate between a generic error and the library's not-found error (what a storage that
			// reports "nothing removed" would return)
			f.fired.Add(1)
			if f.kindSeq.Add(1)%2 == 0 {
				return fmt.Errorf("injected: activation token already gone: %w", nodeenrollment.ErrNotFound)
			}
			return errors.New("injected: removal of the activation token failed")
		}
	}
	return f.Storage.Remove(ctx, m)
}

// ---------------------------------------------------------------------------
// base58 (bitcoin alphabet) decoding, local so that go.mod stays untouched

const tokensB58 = "123456789ABCDEFGHJKLMNPQRSTUVWXYZabcdefghijkmnopqrstuvwxyz"

func tokensBase58Decode(s string) ([]byte, bool) {
	if s == "" {
		return nil, false
	}
	n := new(big.Int)
	radix := big.NewInt(58)
	for _, ch := range s {
		i := strings.IndexRune(tokensB58, ch)
		if i < 0 {
			return nil, false
		}
		n.Mul(n, radix)
		n.Add(n, big.NewInt(int64(i)))
	}
	body := n.Bytes()
	zeros := 0
	for zeros < len(s) && s[zeros] == '1' {
		zeros++
	}
	return append(make([]byte, zeros), body...), true
}

func tokensBase58Encode(b []byte) string {
	n := new(big.Int).SetBytes(b)
	radix, mod := big.NewInt(58), new(big.Int)
	var out []byte
	for n.Sign() > 0 {
		n.DivMod(n, radix, mod)
		out = append(out, tokensB58[mod.Int64()])
	}
	for _, c := range b {
		if c != 0 {
			break
		}
		out = append(out, '1')
	}
	for i, j := 0, len(out)-1; i < j; i, j = i+1, j-1 {
		out[i], out[j] = out[j], out[i]
	}
	return string(out)
}

// ---------------------------------------------------------------------------
// shadow state

// tkBlob describes the value sitting in creation_time_marshaled of a stored
// token record: whose sealed creation time it is and which age was sealed
type tkBlob struct {
	owner     int // index of the token this value was sealed for
	age       time.Duration
	ageName   string
	kind      string // "": a sealed creation time; otherwise what replaced it (garbage, ...)
	truncated bool
}

type tkTok struct {
	idx         int
	id, str     string
	raw         []byte // decoded token string
	nonce, hkey []byte
	state       *structpb.Struct
	ageName     string // age last sealed for this token through the library
	age         time.Duration
	ageKnown    bool      // false after the stored plain time was edited (no wrapper)
	agedAt      time.Time // when the age was sealed (creation for fresh tokens)
	blob        tkBlob    // what the stored record carries now
	lastTamper  string    // last raw edit since the library last wrote the record ("" = none)
	present     bool      // record in storage (read back after every use)
	enrolled    int       // successful enrollments with this token
	consumedSeq int       // recording sequence number at the start of the enrolling fetch
}

// broken: the record does not carry a sealed creation time of this token
func (t *tkTok) broken() string {
	switch {
	case t.blob.kind != "":
		return t.blob.kind
	case t.blob.owner != t.idx:
		return "swap-blob"
	}
	return ""
}

func (t *tkTok) tampered() bool { return t.lastTamper != "" }

type tkKey struct {
	node       *world.Node
	registered string // "", "authorize", "token"
}

type tkRun struct {
	useSeq int
	c      *engine.Ctx
	tc     tkCase
	s      *world.Server
	rec    *recstore.Rec
	fs     *tokensFaultStore
	toks   []*tkTok
	keys   [tokensMaxKeys]*tkKey
	trace  []string
	step   int
	// key index -> token index that enrolled it
	enrolledBy map[int]int
	// reached the comparison under test at least once
	compared bool
}

func (h *tkRun) witness(st *tkStep, reasons []string, outcome string, err error) tkWitness {
	w := tkWitness{tkCase: h.tc, AtStep: h.step, Step: st, Reasons: reasons, Outcome: outcome, Trace: append([]string{}, h.trace...)}
	if err != nil {
		w.Err = err.Error()
	}
	return w
}

func (h *tkRun) log(format string, a ...any) {
	h.trace = append(h.trace, fmt.Sprintf("%d: ", h.step)+fmt.Sprintf(format, a...))
}

func (h *tkRun) key(i int) *tkKey {
	if i < 0 || i >= tokensMaxKeys {
		return nil
	}
	if h.keys[i] == nil {
		n, err := world.NewNode(false, "")
		if err != nil {
			h.c.R.Broken("tokens: new node: " + err.Error())
			return nil
		}
		h.keys[i] = &tkKey{node: n}
	}
	return h.keys[i]
}

func (h *tkRun) tok(i int) *tkTok {
	if i < 0 || i >= len(h.toks) {
		return nil
	}
	return h.toks[i]
}

// rawToken loads the stored token record without unsealing
func (h *tkRun) rawToken(id string) (*types.ServerLedActivationToken, bool) {
	m := &types.ServerLedActivationToken{Id: id}
	if err := h.s.Inner.Load(h.s.Ctx, m); err != nil {
		if !errors.Is(err, nodeenrollment.ErrNotFound) {
			h.c.R.Broken("tokens: raw load of a token record: " + err.Error())
		}
		return nil, false
	}
	return m, true
}

// nodeRecords returns id -> deterministic bytes of every stored node record (raw, sealed as stored)
func (h *tkRun) nodeRecords() map[string][]byte {
	out := map[string][]byte{}
	for _, id := range h.s.NodeIDs() {
		m := &types.NodeInformation{Id: id}
		if err := h.s.Inner.Load(h.s.Ctx, m); err != nil {
			continue
		}
		b, _ := proto.MarshalOptions{Deterministic: true}.Marshal(m)
		out[id] = b
	}
	return out
}

// ---------------------------------------------------------------------------
// steps

func (h *tkRun) doCreate(st *tkStep) {
	r := h.c.R
	if len(h.toks) >= tokensMaxTokens {
		r.Count("step-skipped", 1)
		return
	}
	t := &tkTok{idx: len(h.toks), ageName: "fresh", ageKnown: true, agedAt: time.Now()}
	t.blob = tkBlob{owner: t.idx, ageName: "fresh"}
	var extra []nodeenrollment.Option
	if st.State {
		t.state, _ = structpb.NewStruct(map[string]any{"token": len(h.toks), "purpose": "c06", "tags": []any{"a", true, 7}})
		extra = append(extra, nodeenrollment.WithState(t.state))
	}
	var err error
	t0 := time.Now()
	if p, stack := engine.Guard(func() {
		t.id, t.str, err = registration.CreateServerLedActivationToken(h.s.Ctx, h.s.Store, &types.ServerLedRegistrationRequest{}, h.s.Opts(extra...)...)
	}); p != nil {
		r.Violation("panic:"+engine.LibraryFrame(stack), fmt.Sprintf("CreateServerLedActivationToken panicked: %v", p), h.witness(st, nil, "panic", nil))
		return
	}
	if err != nil {
		r.Broken("tokens: CreateServerLedActivationToken: " + err.Error())
		return
	}
	if !strings.HasPrefix(t.str, nodeenrollment.ServerLedActivationTokenPrefix) {
		r.Broken("tokens: token string without the documented prefix")
		return
	}
	raw, ok := tokensBase58Decode(strings.TrimPrefix(t.str, nodeenrollment.ServerLedActivationTokenPrefix))
	if !ok {
		r.Broken("tokens: token string is not base58")
		return
	}
	tn := new(types.ServerLedActivationTokenNonce)
	if err := proto.Unmarshal(raw, tn); err != nil || len(tn.Nonce) == 0 || len(tn.HmacKeyBytes) < 8 {
		r.Broken("tokens: token string does not decode to nonce and HMAC key")
		return
	}
	t.raw, t.nonce, t.hkey = raw, tn.Nonce, tn.HmacKeyBytes
	_, t.present = h.rawToken(t.id)
	if !t.present {
		r.Broken("tokens: created token has no record under the returned ID")
		return
	}
	// expiry is governed by the creation time recorded (sealed) at creation: it is the instant of the creating
	// call, which two clock readings bracket (50 ms of slack for a stepping wall clock)
	t1 := time.Now()
	if rec, lerr := types.LoadServerLedActivationToken(h.s.Ctx, h.s.Inner, t.id, h.s.StoreOpts()...); lerr == nil && rec.GetCreationTime() != nil {
		const slack = 50 * time.Millisecond
		ct := rec.GetCreationTime().AsTime()
		switch {
		case ct.Before(t0.Add(-slack)):
			// the token expires early: nothing in the statement forbids that
			r.Count("creation_time_before_the_creating_call(expires early; not judged)", 1)
		case ct.After(t1.Add(slack)):
			r.Violation("creation-time-not-the-time-of-creation:late", fmt.Sprintf("the creation time recorded for a new token lies %v after the creating call returned: the token outlives the configured maximum lifetime by that much", ct.Sub(t1).Round(time.Millisecond)), h.witness(st, nil, "created", nil))
		default:
			r.Count("creation_time_inside_the_bracket_of_the_creating_call", 1)
		}
	} else {
		r.Count("creation_time_not_readable_after_create", 1)
	}
	h.toks = append(h.toks, t)
	r.Count("step:create", 1)
	if st.State {
		r.Count("step:create-with-state", 1)
	}
	h.log("create tok%d state=%v", len(h.toks)-1, st.State)
}

func (h *tkRun) doAuthorize(st *tkStep) {
	r := h.c.R
	k := h.key(st.Key)
	if k == nil || k.registered != "" {
		r.Count("step-skipped", 1)
		return
	}
	req, err := k.node.Creds.CreateFetchNodeCredentialsRequest(h.s.Ctx)
	if err != nil {
		r.Broken("tokens: create plain fetch request: " + err.Error())
		return
	}
	if _, err := registration.AuthorizeNode(h.s.Ctx, h.s.Store, req, h.s.Opts()...); err != nil {
		r.Broken("tokens: AuthorizeNode: " + err.Error())
		return
	}
	k.registered = "authorize"
	r.Count("step:authorize", 1)
	h.log("authorize key%d", st.Key)
}

func (h *tkRun) doAge(st *tkStep) {
	r := h.c.R
	t := h.tok(st.Tok)
	age, ok := tokensAges[st.Age]
	if t == nil || !ok || t.enrolled > 0 || t.broken() != "" {
		r.Count("step-skipped", 1)
		return
	}
	if _, present := h.rawToken(t.id); !present {
		t.present = false
		r.Count("step-skipped", 1)
		return
	}
	// the harness is the server that created this token `age` ago: load the
	// record the way the server does and store it through the library with
	// that creation time
	var rec *types.ServerLedActivationToken
	var err error
	if p, stack := engine.Guard(func() {
		rec, err = types.LoadServerLedActivationToken(h.s.Ctx, h.s.Store, t.id, h.s.StoreOpts()...)
	}); p != nil {
		if t.tampered() && strings.Contains(stack, "go-kms-wrapping/v2/aead.(*Wrapper).Decrypt") {
			r.Count("observation:storage-wrapper-panicked-on-edited-sealed-record(judged as refused)", 1)
			r.Count("step-skipped", 1)
			return
		}
		r.Violation("panic:"+engine.LibraryFrame(stack), fmt.Sprintf("LoadServerLedActivationToken panicked on a stored record (last edit %q): %v", t.lastTamper, p), h.witness(st, nil, "panic", nil))
		return
	}
	if err != nil || rec == nil {
		// an edited record that no longer loads cannot be aged
		r.Count("step-skipped", 1)
		return
	}
	rec.CreationTime = timestamppb.New(time.Now().Add(-age))
	if err := rec.Store(h.s.Ctx, h.s.Store, h.s.StoreOpts()...); err != nil {
		r.Broken("tokens: re-store of an aged token: " + err.Error())
		return
	}
	t.age, t.ageName, t.ageKnown = age, st.Age, true
	t.agedAt = time.Now()
	t.blob = tkBlob{owner: t.idx, age: age, ageName: st.Age}
	t.lastTamper = ""
	r.Count("step:age", 1)
	r.Count("age:"+st.Age, 1)
	h.log("age tok%d := %s", st.Tok, st.Age)
}

func (h *tkRun) doTamper(st *tkStep) {
	r := h.c.R
	t := h.tok(st.Tok)
	if t == nil {
		r.Count("step-skipped", 1)
		return
	}
	rec, ok := h.rawToken(t.id)
	if !ok {
		t.present = false
		r.Count("step-skipped", 1)
		return
	}
	// a record that another token's slot points at is left alone from here on: what that slot shows would
	// change with it
	h.fs.mu.Lock()
	for _, to := range h.fs.redirect {
		if to == t.id {
			h.fs.mu.Unlock()
			r.Count("step-skipped", 1)
			return
		}
	}
	h.fs.mu.Unlock()
	now := time.Now()
	sealed := rec.WrappingKeyId != ""
	switch st.Tamper {
	case "clear-field-now", "clear-field-future":
		if !sealed {
			r.Count("step-skipped", 1)
			return
		}
		if st.Tamper == "clear-field-now" {
			rec.CreationTime = timestamppb.New(now)
		} else {
			rec.CreationTime = timestamppb.New(now.Add(1000 * tokensDay))
		}
		// expiry must keep following the sealed value: age unchanged
	case "swap-blob":
		src := h.tok(st.Src)
		if !sealed || src == nil || src == t {
			r.Count("step-skipped", 1)
			return
		}
		srcRec, ok := h.rawToken(src.id)
		if !ok || srcRec.WrappingKeyId == "" {
			r.Count("step-skipped", 1)
			return
		}
		rec.CreationTimeMarshaled = append([]byte{}, srcRec.CreationTimeMarshaled...)
		rec.WrappingKeyId = srcRec.WrappingKeyId
		if src.broken() == "" && src.blob.age < t.blob.age && t.broken() == "" {
			r.Count("tamper:swap-blob:younger-into-older", 1)
		}
		t.blob = src.blob
		if t.blob.owner == t.idx {
			r.Count("tamper:swap-blob:own-value-moved-back", 1)
		}
	case "swap-record":
		// the whole stored record of another token takes this token's slot
		src := h.tok(st.Src)
		if !sealed || src == nil || src == t {
			r.Count("step-skipped", 1)
			return
		}
		if _, ok := h.rawToken(src.id); !ok {
			r.Count("step-skipped", 1)
			return
		}
		h.fs.mu.Lock()
		_, srcRedirected := h.fs.redirect[src.id]
		h.fs.mu.Unlock()
		if srcRedirected || src.blob.owner != src.idx || src.blob.kind != "" {
			// keep the case unambiguous: the moved record must hold the source token's own, unedited
			// sealed value (otherwise it might legitimately open under this token's id)
			r.Count("step-skipped", 1)
			return
		}
		h.fs.mu.Lock()
		if h.fs.redirect == nil {
			h.fs.redirect = map[string]string{}
		}
		h.fs.redirect[t.id] = src.id
		h.fs.mu.Unlock()
		if src.broken() == "" && src.blob.age < t.blob.age && t.broken() == "" {
			r.Count("tamper:swap-record:younger-into-older", 1)
		}
		t.blob = src.blob
		t.blob.kind = "swap-record"
		t.lastTamper = "swap-record"
		r.Count("tamper:swap-record", 1)
		return
	case "garbage":
		if !sealed {
			r.Count("step-skipped", 1)
			return
		}
		b, err := hex.DecodeString(st.Data)
		if err != nil || len(b) == 0 {
			r.Count("step-skipped", 1)
			return
		}
		rec.CreationTimeMarshaled = b
		t.blob.kind = "garbage"
	case "garbage-blobinfo":
		if !sealed {
			r.Count("step-skipped", 1)
			return
		}
		ct, _ := hex.DecodeString(st.Data)
		if st.Arg < len(ct) {
			ct = ct[:st.Arg]
		}
		b, err := proto.Marshal(&wrapping.BlobInfo{Ciphertext: ct, KeyInfo: &wrapping.KeyInfo{KeyId: rec.WrappingKeyId}})
		if err != nil {
			r.Broken("tokens: marshal blob info: " + err.Error())
			return
		}
		rec.CreationTimeMarshaled = b
		t.blob.kind = "garbage-blobinfo"
	case "truncate":
		if !sealed {
			r.Count("step-skipped", 1)
			return
		}
		n := len(rec.CreationTimeMarshaled)
		keep := n * st.Arg / 8
		if st.Arg >= 8 {
			keep = n - 1
		}
		if keep < 0 {
			keep = 0
		}
		rec.CreationTimeMarshaled = rec.CreationTimeMarshaled[:keep]
		t.blob.truncated = true
		// a prefix that still carries the whole ciphertext opens to the sealed
		// time; anything else must fail: age unchanged, no completeness
	case "clear-as-blob":
		if !sealed {
			r.Count("step-skipped", 1)
			return
		}
		b, _ := proto.Marshal(timestamppb.New(now))
		rec.CreationTimeMarshaled = b
		rec.CreationTime = timestamppb.New(now)
		t.blob.kind = "clear-as-blob"
	case "plain-time-now":
		if sealed {
			r.Count("step-skipped", 1)
			return
		}
		b, _ := proto.Marshal(timestamppb.New(now))
		rec.CreationTimeMarshaled = b
		rec.CreationTime = timestamppb.New(now)
		t.ageKnown = false
	case "plain-time-garbage":
		if sealed {
			r.Count("step-skipped", 1)
			return
		}
		b, err := hex.DecodeString(st.Data)
		if err != nil || len(b) == 0 {
			r.Count("step-skipped", 1)
			return
		}
		rec.CreationTimeMarshaled = b
		t.ageKnown = false
	case "plain-clear-field":
		if sealed {
			r.Count("step-skipped", 1)
			return
		}
		rec.CreationTime = timestamppb.New(now)
		t.ageKnown = false
	default:
		r.Count("step-skipped", 1)
		return
	}
	if err := h.s.Inner.Store(h.s.Ctx, rec); err != nil {
		r.Broken("tokens: raw store of an edited token record: " + err.Error())
		return
	}
	t.lastTamper = st.Tamper
	r.Count("step:tamper", 1)
	r.Count("tamper:"+st.Tamper, 1)
	h.log("tamper tok%d %s src=%d arg=%d", st.Tok, st.Tamper, st.Src, st.Arg)
}

func (h *tkRun) doUse(st *tkStep) {
	r := h.c.R
	t := h.tok(st.Tok)
	k := h.key(st.Key)
	life, okLife := tokensLives[st.Life]
	if t == nil || k == nil || !okLife {
		r.Count("step-skipped", 1)
		return
	}
	removeFail := st.Op == "use-removefail"

	// ---- expectation from the shadow state --------------------------------
	var reasons []string
	switch {
	case t.enrolled > 0:
		if k.registered == "token" && h.keyEnrolledBy(st.Key) == st.Tok {
			reasons = append(reasons, "used:same-key")
		} else {
			reasons = append(reasons, "used:other-key")
		}
	case !t.present:
		reasons = append(reasons, "consumed")
	}
	broken := t.broken()
	if broken != "" {
		reasons = append(reasons, "broken:"+broken)
	}
	// expiry follows the creation time sealed in the record (the token's own
	// value; a foreign or destroyed value is covered by "broken")
	sealedAge, sealedAgeName := t.blob.age, t.blob.ageName
	if broken != "" {
		sealedAge, sealedAgeName = t.age, t.ageName
	}
	if t.ageKnown && broken == "" && (sealedAge > life || life < 0) {
		reasons = append(reasons, "expired")
	}
	// a token that is not expired by its sealed age must be accepted only if it
	// is still clearly inside the lifetime now (the run itself takes time)
	insideNow := life > 0 && sealedAge+time.Since(t.agedAt)+tokensMargin < life
	if k.registered != "" {
		reasons = append(reasons, "registered-key:"+k.registered)
	}
	mustFail := len(reasons) > 0
	mustSucceed := !mustFail && !t.tampered() && t.ageKnown && !removeFail && insideNow
	expect := "unconstrained"
	switch {
	case mustFail:
		expect = "refusal"
	case mustSucceed:
		expect = "success"
	}

	req, err := k.node.Creds.CreateFetchNodeCredentialsRequest(h.s.Ctx, nodeenrollment.WithActivationToken(t.str))
	if err != nil {
		r.Broken("tokens: create token fetch request: " + err.Error())
		return
	}
	// the request's own validity window is the presenter's to choose: backdated far into the past, or without
	// a beginning at all; it has no say in the token's expiry
	h.useSeq++
	switch h.useSeq % 3 {
	case 1:
		req = world.Resign(req, k.node.K.Priv, func(in *types.FetchNodeCredentialsInfo) {
			in.NotBefore = timestamppb.New(time.Now().Add(-500 * tokensDay))
		})
		r.Count("use:request-window-backdated", 1)
	case 2:
		req = world.Resign(req, k.node.K.Priv, func(in *types.FetchNodeCredentialsInfo) { in.NotBefore = nil })
		r.Count("use:request-window-without-beginning", 1)
	}
	var extra []nodeenrollment.Option
	if st.Life != tokensDefault {
		extra = append(extra, nodeenrollment.WithMaximumServerLedActivationTokenLifetime(life))
	}
	if st.NoStore {
		extra = append(extra, nodeenrollment.WithSkipStorage(true))
		r.Count("use:fetch-with-skip-storage", 1)
	}
	before := h.nodeRecords()
	mark := len(h.rec.Ops())
	var resp *types.FetchNodeCredentialsResponse
	var ferr error
	if removeFail {
		h.fs.failTokRemove.Store(true)
	}
	p, stack := engine.Guard(func() {
		resp, ferr = registration.FetchNodeCredentials(h.s.Ctx, h.s.Store, req, h.s.Opts(extra...)...)
	})
	h.fs.failTokRemove.Store(false)
	after := h.nodeRecords()
	_, presentAfter := h.rawToken(t.id)
	h.compared = true

	success := p == nil && ferr == nil && resp != nil && len(resp.EncryptedNodeCredentials) > 0
	outcome := "refused"
	switch {
	case p != nil:
		outcome = "panic"
	case success:
		outcome = "credentials"
	case ferr == nil:
		outcome = "empty-response"
	}
	var newIDs, changed []string
	for id, b := range after {
		if ob, ok := before[id]; !ok {
			newIDs = append(newIDs, id)
		} else if !bytes.Equal(ob, b) {
			changed = append(changed, id)
		}
	}
	for id := range before {
		if _, ok := after[id]; !ok {
			changed = append(changed, id+" (removed)")
		}
	}
	sort.Strings(newIDs)
	sort.Strings(changed)
	h.log("%s tok%d key%d life=%s age=%s(known=%v) tampered=%q broken=%q expect=%s reasons=%v -> %s new=%d present_after=%v", st.Op, st.Tok, st.Key, st.Life, sealedAgeName, t.ageKnown, t.lastTamper, broken, expect, reasons, outcome, len(newIDs), presentAfter)

	r.Count("step:"+st.Op, 1)
	r.Count("use:expect-"+expect, 1)
	r.Count(fmt.Sprintf("use:life=%s,age=%s", st.Life, sealedAgeName), 1)
	for _, rs := range reasons {
		r.Count("use:must-refuse:"+rs, 1)
	}
	if t.tampered() {
		r.Count("use:after-tamper:"+t.lastTamper, 1)
	}
	if removeFail && h.fs.fired.Swap(0) > 0 {
		r.Count("use:token-removal-fault-delivered", 1)
	}

	w := func() tkWitness {
		x := h.witness(st, reasons, outcome, ferr)
		x.TokenHex = hex.EncodeToString(t.raw)
		return x
	}
	if p != nil {
		r.Count("panic-observed:after-tamper:"+t.lastTamper, 1)
		if t.tampered() && strings.Contains(stack, "go-kms-wrapping/v2/aead.(*Wrapper).Decrypt") {
			// The application-supplied storage wrapper panicked on a sealed blob the harness had edited in
			// storage (ciphertext shorter than its nonce). The token was not accepted and nothing was
			// registered, which is all C06 states; recorded as an observation (see DESIGN.md), judged as a refusal.
			r.Count("observation:storage-wrapper-panicked-on-edited-sealed-record(judged as refused)", 1)
		} else {
			r.Violation("panic:"+engine.LibraryFrame(stack), fmt.Sprintf("FetchNodeCredentials panicked on a token fetch (stored record edit %q; innermost frame %s): %v", t.lastTamper, tokensPanicOrigin(stack), p), w())
		}
	}

	// ---- verdicts -----------------------------------------------------------
	if mustFail {
		if success {
			key, what := "", ""
			switch first := reasons[0]; {
			case strings.HasPrefix(first, "used:"):
				key = "token-reused:" + strings.TrimPrefix(first, "used:")
				what = fmt.Sprintf("a token that had already enrolled a node enrolled again (%s)", strings.TrimPrefix(first, "used:"))
			case first == "consumed":
				key = "consumed-token-accepted"
				what = "a token whose record had been removed by an earlier refused attempt enrolled a node"
			case first == "broken:swap-blob":
				key = "moved-sealed-value-accepted"
				if t.ageKnown && t.age > life {
					key = "expired-token-accepted-after:swap-blob"
				}
				what = fmt.Sprintf("a token whose sealed creation time was replaced by the sealed value of another token (age %s) was accepted (own age %s, lifetime %s)", t.blob.ageName, t.ageName, st.Life)
			case strings.HasPrefix(first, "broken:"):
				key = "unopenable-sealed-value-accepted:" + broken
				what = fmt.Sprintf("a token whose sealed creation time was replaced by %s was accepted", broken)
			case first == "expired":
				key = "expired-token-accepted"
				if t.tampered() {
					key += "-after:" + t.lastTamper
				}
				what = fmt.Sprintf("a token of age %s enrolled a node under a maximum lifetime of %s (stored record edit: %q)", sealedAgeName, st.Life, t.lastTamper)
			default:
				key = "registered-key-enrolled:via=" + k.registered
				what = fmt.Sprintf("a token enrolled a key that already had a node record (registered through %s)", k.registered)
			}
			r.Violation(key, what, w())
		} else {
			r.Count("refusal-observed", 1)
			for _, rs := range reasons {
				r.Count("refusal-observed:"+rs, 1)
			}
		}
	}
	if mustSucceed && !success && p == nil {
		r.Violation("fresh-token-refused", fmt.Sprintf("an unused, unedited token of age %s was refused under a maximum lifetime of %s for a key without a record: %v", sealedAgeName, st.Life, ferr), w())
	}
	if success {
		r.Count("enrollment-observed", 1)
		if presentAfter {
			what := "the token record is still in storage after it enrolled a node"
			if removeFail {
				what = "the fetch returned credentials although the token record could not be removed (the token is still in storage)"
			}
			r.Violation("token-record-left-after-use", what, w())
		}
		want := k.node.K.KeyID
		if st.NoStore {
			r.Count("use:fetch-with-skip-storage:credentials", 1)
		}
		if k.registered == "" && !(len(newIDs) == 1 && newIDs[0] == want) && !(st.NoStore && len(newIDs) == 0) {
			r.Violation("wrong-node-records-after-use", fmt.Sprintf("after a successful token enrollment the new node records are %v, expected exactly the presenting key %s", newIDs, want), w())
		}
		if k.registered != "" && len(newIDs) > 0 {
			r.Violation("wrong-node-records-after-use", fmt.Sprintf("a token fetch by a registered key created node records %v", newIDs), w())
		}
	} else if len(newIDs) > 0 {
		r.Violation("failed-fetch-left-node-record", fmt.Sprintf("a token fetch that returned %s left %d new node record(s) (refusal reasons %v, token removal fault %v)", outcome, len(newIDs), reasons, removeFail), w())
	}
	if len(changed) > 0 {
		key := "existing-record-changed"
		if !success {
			key = "existing-record-changed-by-refused-fetch"
		}
		r.Violation(key, fmt.Sprintf("a token fetch (%s) changed existing node records %v", outcome, changed), w())
	} else if k.registered != "" {
		r.Count("registered-key-record-unchanged", 1)
	}

	// ---- shadow update -------------------------------------------------------
	if success {
		t.enrolled++
		if t.consumedSeq == 0 {
			t.consumedSeq = mark
		}
		if t.enrolled > 1 {
			r.Violation("token-enrolled-twice", fmt.Sprintf("one token produced %d successful enrollments", t.enrolled), w())
		}
		if _, stored := after[k.node.K.KeyID]; k.registered == "" && (stored || !st.NoStore) {
			k.registered = "token"
			h.enrolledBy[st.Key] = st.Tok
		}
	}
	if len(reasons) > 0 && strings.HasPrefix(reasons[len(reasons)-1], "registered-key") && !success {
		if presentAfter {
			r.Count("token-kept-after-registered-key-attempt", 1)
		} else if t.present {
			r.Count("token-consumed-by-registered-key-attempt", 1)
		}
	}
	if !success && k.registered == "" {
		// a refused fetch that nevertheless left a record for the presenting key
		// (reported above): from now on the key has a node record
		for _, id := range newIDs {
			if id == k.node.K.KeyID {
				k.registered = "refused-fetch"
			}
		}
	}
	t.present = presentAfter
}

// doUseReconstructed: somebody who can read the server's storage presents what can be put together from a
// token's stored record alone - the decoded storage ID in the place of the nonce, with a key of their own, of
// the ID's second half, or none. That is not the token: the fetch fails, registers nothing, and leaves the
// token as it was (st.Arg selects the variant).
func (h *tkRun) doUseReconstructed(st *tkStep) {
	r := h.c.R
	t := h.tok(st.Tok)
	k := h.key(st.Key)
	if t == nil || k == nil || !t.present || k.registered != "" {
		r.Count("step-skipped", 1)
		return
	}
	raw, ok := tokensBase58Decode(t.id)
	if !ok || len(raw) < 33 {
		r.Broken("tokens: stored token ID does not decode")
		return
	}
	tn := &types.ServerLedActivationTokenNonce{Nonce: raw, HmacKeyBytes: world.RandBytes(32)}
	variant := []string{"whole-id-as-nonce", "first-half-as-nonce", "whole-id-as-nonce,second-half-as-key", "halves-as-nonce-and-key", "whole-id-as-nonce,one-byte-key"}[st.Arg%5]
	switch st.Arg % 5 {
	case 1:
		tn.Nonce = raw[:32]
	case 2:
		tn.HmacKeyBytes = raw[32:]
	case 3:
		tn.Nonce, tn.HmacKeyBytes = raw[:32], raw[32:]
	case 4:
		tn.HmacKeyBytes = []byte{1}
	}
	b, _ := proto.Marshal(tn)
	forged := nodeenrollment.ServerLedActivationTokenPrefix + tokensBase58Encode(b)
	req, err := k.node.Creds.CreateFetchNodeCredentialsRequest(h.s.Ctx, nodeenrollment.WithActivationToken(forged))
	if err != nil {
		r.Count("use-reconstructed:request-not-built", 1)
		return
	}
	before := h.nodeRecords()
	var resp *types.FetchNodeCredentialsResponse
	var ferr error
	p, stack := engine.Guard(func() { resp, ferr = registration.FetchNodeCredentials(h.s.Ctx, h.s.Store, req, h.s.Opts()...) })
	after := h.nodeRecords()
	_, presentAfter := h.rawToken(t.id)
	h.compared = true
	r.Count("step:use-reconstructed", 1)
	w := func(outcome string) tkWitness {
		x := h.witness(st, []string{"reconstructed-from-storage:" + variant}, outcome, ferr)
		x.TokenHex = hex.EncodeToString(b)
		return x
	}
	switch {
	case p != nil:
		r.Violation("panic:"+engine.LibraryFrame(stack), fmt.Sprintf("FetchNodeCredentials panicked on a token put together from a stored record (%s): %v", variant, p), w("panic"))
	case ferr == nil && resp != nil && len(resp.EncryptedNodeCredentials) > 0:
		r.Violation("token-reconstructed-from-storage-accepted:"+variant, "a token put together from what the server persists for an outstanding token ("+variant+") enrolled a node", w("credentials"))
	default:
		r.Count("refusal-observed:reconstructed-from-storage", 1)
	}
	if len(after) != len(before) {
		r.Violation("failed-fetch-left-node-record", fmt.Sprintf("a fetch with a token put together from a stored record (%s) changed the node records (%d -> %d)", variant, len(before), len(after)), w("records-changed"))
	}
	if !presentAfter && (ferr != nil || resp == nil || len(resp.EncryptedNodeCredentials) == 0) {
		r.Count("use-reconstructed:token-record-consumed-by-refused-attempt", 1)
	}
	t.present = presentAfter
}

// ---------------------------------------------------------------------------
// what storage saw vs. the token secrets

type tkHit struct {
	Tok   int    `json:"tok"`
	What  string `json:"what"`  // hmac-key-window | nonce
	Where string `json:"where"` // record-bytes | id | decoded-id
	Type  string `json:"type"`
	Seq   int    `json:"seq"`
	Kind  string `json:"op_kind"`
}

func (h *tkRun) searchSecrets() {
	r := h.c.R
	if len(h.toks) == 0 {
		return
	}
	windows := map[[8]byte]int{}
	for i, t := range h.toks {
		for o := 0; o+8 <= len(t.hkey); o++ {
			var w [8]byte
			copy(w[:], t.hkey[o:o+8])
			windows[w] = i
		}
	}
	// text encodings of the HMAC key (hex, base64 at the three alignments, base58)
	// and of the whole token, so that a secret stored as a string is found too
	type pat struct {
		enc string
		b   []byte
	}
	pats := make([][]pat, len(h.toks))
	for i, t := range h.toks {
		for _, o := range []int{0, 12, 24} {
			if o+8 <= len(t.hkey) {
				hx := hex.EncodeToString(t.hkey[o : o+8])
				pats[i] = append(pats[i], pat{"hex", []byte(hx)}, pat{"HEX", []byte(strings.ToUpper(hx))})
			}
		}
		for a := 0; a < 3; a++ {
			buf := append(make([]byte, a), t.hkey...)
			from, to := (8*a+5)/6, 8*(a+len(t.hkey))/6
			for _, e := range []*base64.Encoding{base64.RawStdEncoding, base64.RawURLEncoding} {
				str := e.EncodeToString(buf)
				if to <= len(str) && to-from >= 16 {
					pats[i] = append(pats[i], pat{"base64", []byte(str[from:to])})
				}
			}
		}
		pats[i] = append(pats[i], pat{"base58", []byte(tokensBase58Encode(t.hkey))})
		pats[i] = append(pats[i], pat{"token-string", []byte(strings.TrimPrefix(t.str, nodeenrollment.ServerLedActivationTokenPrefix))})
	}
	var searched int64
	var hits []tkHit
	scan := func(b []byte, where string, op recstore.Op) {
		if len(b) == 0 {
			return
		}
		searched += int64(len(b))
		seen := map[int]bool{}
		for o := 0; o+8 <= len(b); o++ {
			var w [8]byte
			copy(w[:], b[o:o+8])
			if i, ok := windows[w]; ok && !seen[i] {
				seen[i] = true
				hits = append(hits, tkHit{Tok: i, What: "hmac-key-window", Where: where, Type: op.Type, Seq: op.Seq, Kind: op.Kind})
			}
		}
		for i, t := range h.toks {
			if bytes.Contains(b, t.nonce) {
				hits = append(hits, tkHit{Tok: i, What: "nonce", Where: where, Type: op.Type, Seq: op.Seq, Kind: op.Kind})
			}
			if seen[i] {
				continue
			}
			for _, pt := range pats[i] {
				if bytes.Contains(b, pt.b) {
					hits = append(hits, tkHit{Tok: i, What: "hmac-key-encoded:" + pt.enc, Where: where, Type: op.Type, Seq: op.Seq, Kind: op.Kind})
					break
				}
			}
		}
	}
	for _, op := range h.rec.Ops() {
		if op.Kind != "store" && op.Kind != "load" && op.Kind != "remove" {
			continue
		}
		scan(op.Bytes, "record-bytes", op)
		scan([]byte(op.ID), "id", op)
		if dec, ok := tokensBase58Decode(op.ID); ok {
			scan(dec, "decoded-id", op)
		}
	}
	r.Count("bytes-searched", searched)
	r.Count("tokens-searched", int64(len(h.toks)))

	nonceRecoverable := map[int]bool{}
	keyRecoverable := map[int]tkHit{}
	for _, hit := range hits {
		t := h.toks[hit.Tok]
		// what the server persists for a token: the token records at any time,
		// and everything else handed to storage while the token was still unspent
		live := hit.Type == "ServerLedActivationToken" || t.consumedSeq == 0 || hit.Seq <= t.consumedSeq
		if !live {
			if hit.What != "nonce" {
				r.Count("observation:spent-token-secret-in-"+hit.Type+"-record", 1)
			}
			continue
		}
		switch hit.What {
		case "nonce":
			nonceRecoverable[hit.Tok] = true
			r.Count("observation:nonce-in-"+hit.Where+":"+hit.Type, 1)
		default:
			if _, ok := keyRecoverable[hit.Tok]; !ok {
				keyRecoverable[hit.Tok] = hit
			}
		}
	}
	for i, t := range h.toks {
		// shape of the stored ID, computed by the harness: nonce || HMAC(key, "")
		if dec, ok := tokensBase58Decode(t.id); ok {
			if bytes.Contains(dec, t.nonce) {
				r.Count("observation:token-id-decodes-to-something-containing-the-nonce", 1)
			}
			hm := hmac.New(sha256.New, t.hkey)
			if bytes.Equal(dec, append(append([]byte{}, t.nonce...), hm.Sum(nil)...)) {
				r.Count("observation:token-id-is-nonce-then-hmac-of-empty-input", 1)
			}
		}
		if hit, ok := keyRecoverable[i]; ok {
			w := h.witness(nil, nil, "", nil)
			w.TokenHex = hex.EncodeToString(t.raw)
			w.Found = engine.J(hit)
			key := "hmac-key-in-storage:" + hit.Where + ":" + hit.Type
			what := fmt.Sprintf("the token's HMAC key (%s) was handed to storage while the token was unspent (%s of a %s %s)", hit.What, hit.Where, hit.Type, hit.Kind)
			if nonceRecoverable[i] {
				what += "; the nonce is recoverable as well, so the token can be rebuilt from storage"
			}
			r.Violation(key, what, w)
		} else {
			r.Count("token-not-reconstructible-from-storage", 1)
		}
	}
}

// ---------------------------------------------------------------------------

// tokensPanicOrigin names the innermost non-runtime frame of a recovered panic
func tokensPanicOrigin(stack string) string {
	lines := strings.Split(stack, "\n")
	seenPanic := false
	for _, ln := range lines {
		t := strings.TrimSpace(ln)
		if strings.HasPrefix(t, "panic(") {
			seenPanic = true
			continue
		}
		if !seenPanic || t == "" || strings.HasPrefix(t, "/") || strings.HasPrefix(t, "runtime.") || !strings.Contains(t, "(") {
			continue
		}
		if i := strings.LastIndex(t, "("); i > 0 {
			t = t[:i]
		}
		return t
	}
	return "?"
}

// keyEnrolledBy tells which token enrolled the key (-1: none)
func (h *tkRun) keyEnrolledBy(key int) int {
	if v, ok := h.enrolledBy[key]; ok {
		return v
	}
	return -1
}

func runTKCase(c *engine.Ctx, tc tkCase) {
	r := c.R
	h := &tkRun{c: c, tc: tc, enrolledBy: map[int]int{}}
	// one history in three runs on the file back end (with its directory spellings and, in a third of those,
	// record files that are symbolic links)
	be := world.Inmem
	if (len(tc.Steps)+len(tc.Origin))%3 == 0 {
		be = world.File
		c.R.Count("histories_on_the_file_back_end", 1)
	}
	s, err := world.NewServer(world.ServerCfg{Backend: be, StorageWrap: tc.Wrap, Wrap: func(in nodeenrollment.Storage) nodeenrollment.Storage {
		h.rec = recstore.New(in)
		h.fs = &tokensFaultStore{Storage: h.rec.Wrap()}
		return h.fs
	}})
	if err != nil {
		r.Broken("tokens: server world: " + err.Error())
		return
	}
	defer s.Close()
	h.s = s
	for i := range tc.Steps {
		h.step = i
		st := &tc.Steps[i]
		switch st.Op {
		case "create":
			h.doCreate(st)
		case "authorize":
			h.doAuthorize(st)
		case "age":
			h.doAge(st)
		case "tamper":
			h.doTamper(st)
		case "use", "use-removefail":
			h.doUse(st)
		case "use-reconstructed":
			h.doUseReconstructed(st)
		default:
			r.Count("step-skipped", 1)
		}
	}
	h.step = len(tc.Steps)
	h.searchSecrets()
	r.Eval(engine.J(tc), h.compared)
	r.Count("histories", 1)
	if tc.Wrap {
		r.Count("histories:storage-wrapper", 1)
	} else {
		r.Count("histories:no-storage-wrapper", 1)
	}
}

// ---------------------------------------------------------------------------
// generation

func tokensHex(rng *rand.Rand, n int) string {
	b := make([]byte, n)
	for i := range b {
		b[i] = byte(rng.Intn(256))
	}
	return hex.EncodeToString(b)
}

func tokensExpired(age, life string) bool {
	return tokensAges[age] > tokensLives[life] || tokensLives[life] < 0
}

// tokensTamperStep fills in the parameters of a tamper step
func tokensTamperStep(rng *rand.Rand, tok int, kind string, src int) tkStep {
	st := tkStep{Op: "tamper", Tok: tok, Tamper: kind, Src: src}
	switch kind {
	case "garbage", "plain-time-garbage":
		st.Data = tokensHex(rng, []int{1, 2, 8, 13, 40, 100}[rng.Intn(6)])
	case "garbage-blobinfo":
		st.Arg = []int{0, 5, 11, 12, 28, 60}[rng.Intn(6)]
		st.Data = tokensHex(rng, 60)
	case "truncate":
		st.Arg = rng.Intn(9)
	}
	return st
}

func tokensDirected(rng *rand.Rand) []tkCase {
	var out []tkCase
	use := func(tok, key int, life string) tkStep { return tkStep{Op: "use", Tok: tok, Key: key, Life: life} }
	n := 0
	for _, wrap := range []bool{false, true} {
		for _, life := range tokensLifeNames {
			for _, age := range tokensAgeNames {
				n++
				// lifecycle: first use, re-use by the same key, re-use by another key, then a probe under the longest lifetime
				steps := []tkStep{{Op: "create", State: n%2 == 0}}
				if age != "fresh" || n%3 == 0 {
					steps = append(steps, tkStep{Op: "age", Tok: 0, Age: age})
				}
				steps = append(steps, use(0, 0, life), use(0, 0, life), use(0, 1, life), use(0, 2, "1000d"), use(0, 3, life))
				out = append(out, tkCase{Wrap: wrap, Origin: "directed:lifecycle", Steps: steps})
				if wrap {
					// edit of the clear creation_time next to the sealed value
					for _, kind := range []string{"clear-field-now", "clear-field-future"} {
						out = append(out, tkCase{Wrap: true, Origin: "directed:clear-field", Steps: []tkStep{
							{Op: "create", State: n%2 == 1}, {Op: "age", Tok: 0, Age: age}, {Op: "tamper", Tok: 0, Tamper: kind},
							use(0, 0, life), use(0, 1, "1000d"), use(0, 2, life),
						}})
					}
					// sealed value of a younger token moved into an expired one, and the reverse
					if tokensExpired(age, life) {
						for _, young := range tokensAgeNames {
							if tokensExpired(young, life) {
								continue
							}
							out = append(out, tkCase{Wrap: true, Origin: "directed:swap-blob", Steps: []tkStep{
								{Op: "create"}, {Op: "create", State: true}, {Op: "age", Tok: 0, Age: age}, {Op: "age", Tok: 1, Age: young},
								{Op: "tamper", Tok: 0, Tamper: "swap-blob", Src: 1},
								use(0, 0, life), use(1, 1, life), use(0, 2, "1000d"),
							}})
							// the young token's whole stored record takes the expired token's slot
							out = append(out, tkCase{Wrap: true, Origin: "directed:swap-record", Steps: []tkStep{
								{Op: "create"}, {Op: "create", State: true}, {Op: "age", Tok: 0, Age: age}, {Op: "age", Tok: 1, Age: young},
								{Op: "tamper", Tok: 0, Tamper: "swap-record", Src: 1},
								use(0, 0, life), use(0, 2, "1000d"),
							}})
							break
						}
					} else {
						out = append(out, tkCase{Wrap: true, Origin: "directed:swap-blob-young", Steps: []tkStep{
							{Op: "create"}, {Op: "create"}, {Op: "age", Tok: 0, Age: age}, {Op: "age", Tok: 1, Age: "400d"},
							{Op: "tamper", Tok: 0, Tamper: "swap-blob", Src: 1},
							use(0, 0, life), use(1, 1, "1000d"),
						}})
					}
				}
			}
		}
		for _, life := range []string{tokensDefault, "1d"} {
			out = append(out, tkCase{Wrap: wrap, Origin: "directed:registered-key-authorize", Steps: []tkStep{
				{Op: "create"}, {Op: "authorize", Key: 0}, use(0, 0, life), use(0, 1, life), use(0, 0, life),
			}})
			out = append(out, tkCase{Wrap: wrap, Origin: "directed:registered-key-token", Steps: []tkStep{
				{Op: "create", State: true}, {Op: "create"}, use(0, 0, life), use(1, 0, life), use(1, 1, life), use(1, 0, life),
			}})
			out = append(out, tkCase{Wrap: wrap, Origin: "directed:reconstructed-from-storage", Steps: []tkStep{
				{Op: "create"}, {Op: "use-reconstructed", Tok: 0, Key: 0, Arg: 0}, {Op: "use-reconstructed", Tok: 0, Key: 1, Arg: 1}, {Op: "use-reconstructed", Tok: 0, Key: 2, Arg: 2},
				{Op: "use-reconstructed", Tok: 0, Key: 0, Arg: 3}, {Op: "use-reconstructed", Tok: 0, Key: 1, Arg: 4}, use(0, 3, life),
			}})
			nostore := func(tok, key int) tkStep { return tkStep{Op: "use", Tok: tok, Key: key, Life: life, NoStore: true} }
			out = append(out, tkCase{Wrap: wrap, Origin: "directed:first-use-with-skip-storage", Steps: []tkStep{
				{Op: "create"}, nostore(0, 0), nostore(0, 0), use(0, 0, life), use(0, 1, life), nostore(0, 2),
			}})
			out = append(out, tkCase{Wrap: wrap, Origin: "directed:token-removal-fault", Steps: []tkStep{
				{Op: "create"}, {Op: "use-removefail", Tok: 0, Key: 0, Life: life}, use(0, 0, life), use(0, 1, life),
			}})
		}
	}
	// sealed value replaced by something that is not a sealed creation time
	for _, kind := range []string{"garbage", "garbage-blobinfo", "truncate", "clear-as-blob"} {
		reps := 1
		switch kind {
		case "garbage":
			reps = 6
		case "garbage-blobinfo":
			reps = 6
		case "truncate":
			reps = 9
		}
		for i := 0; i < reps; i++ {
			for _, age := range []string{"fresh", "400d"} {
				st := tokensTamperStep(rng, 0, kind, 0)
				switch kind {
				case "garbage":
					st.Data = tokensHex(rng, []int{1, 2, 8, 13, 40, 100}[i])
				case "garbage-blobinfo":
					st.Arg = []int{0, 5, 11, 12, 28, 60}[i]
				case "truncate":
					st.Arg = i
				}
				out = append(out, tkCase{Wrap: true, Origin: "directed:" + kind, Steps: []tkStep{
					{Op: "create"}, {Op: "age", Tok: 0, Age: age}, st, use(0, 0, "30d"), use(0, 1, "1000d"), use(0, 0, "1000d"),
				}})
			}
		}
	}
	// no wrapper: the stored time is plain; edits are the documented meaning of "no wrapper"
	for _, kind := range tokensPlainTampers {
		for _, age := range []string{"1h", "400d"} {
			out = append(out, tkCase{Wrap: false, Origin: "directed:" + kind, Steps: []tkStep{
				{Op: "create"}, {Op: "age", Tok: 0, Age: age}, tokensTamperStep(rng, 0, kind, 0), use(0, 0, "1d"), use(0, 0, "1d"), use(0, 1, "1d"), use(0, 2, "1000d"),
			}})
		}
	}
	return out
}

// tokensRandomCase draws one history; the generator keeps a rough model of the
// state only to reach the interesting step kinds often (the verdicts use the
// run-time shadow state, not this model)
func tokensRandomCase(rng *rand.Rand) tkCase {
	tc := tkCase{Wrap: rng.Intn(3) != 0, Origin: "random"}
	baseLife := tokensLifeNames[rng.Intn(len(tokensLifeNames))]
	type mTok struct {
		spent, broken bool
		age           string
	}
	var toks []*mTok
	var reg [tokensMaxKeys]bool
	pickKey := func(registered bool) int {
		var c []int
		for i := range reg {
			if reg[i] == registered {
				c = append(c, i)
			}
		}
		if len(c) == 0 {
			return rng.Intn(tokensMaxKeys)
		}
		return c[rng.Intn(len(c))]
	}
	pickTok := func(live bool) int {
		var c []int
		for i, t := range toks {
			if !live || !t.spent {
				c = append(c, i)
			}
		}
		if len(c) == 0 {
			return rng.Intn(len(toks))
		}
		return c[rng.Intn(len(c))]
	}
	create := func() {
		tc.Steps = append(tc.Steps, tkStep{Op: "create", State: rng.Intn(2) == 0})
		toks = append(toks, &mTok{age: "fresh"})
	}
	create()
	n := 6 + rng.Intn(15)
	for len(tc.Steps) < n {
		switch x := rng.Intn(20); {
		case x < 3:
			if len(toks) < tokensMaxTokens {
				create()
			}
		case x < 4:
			k := pickKey(false)
			if !reg[k] {
				tc.Steps = append(tc.Steps, tkStep{Op: "authorize", Key: k})
				reg[k] = true
			}
		case x < 12:
			life := baseLife
			if rng.Intn(10) < 3 {
				life = tokensLifeNames[rng.Intn(len(tokensLifeNames))]
			}
			t := pickTok(rng.Intn(4) != 0)
			k := pickKey(rng.Intn(4) == 0)
			op := "use"
			if rng.Intn(12) == 0 {
				op = "use-removefail"
			}
			noStore := op == "use" && rng.Intn(10) == 0
			tc.Steps = append(tc.Steps, tkStep{Op: op, Tok: t, Key: k, Life: life, NoStore: noStore})
			m := toks[t]
			switch {
			case m.spent:
			case reg[k]:
				m.spent = true // the record is removed before the existing-record check
			case !m.broken && !tokensExpired(m.age, life) && op == "use":
				m.spent, reg[k] = true, !noStore
			}
			if rng.Intn(3) == 0 {
				// follow up with a re-use by the same or another key
				k2 := k
				if rng.Intn(2) == 0 {
					k2 = pickKey(false)
				}
				tc.Steps = append(tc.Steps, tkStep{Op: "use", Tok: t, Key: k2, Life: life})
			}
		case x < 16:
			t := pickTok(true)
			age := tokensAgeNames[rng.Intn(len(tokensAgeNames))]
			tc.Steps = append(tc.Steps, tkStep{Op: "age", Tok: t, Age: age})
			if !toks[t].broken {
				toks[t].age = age
			}
		default:
			t := pickTok(true)
			kinds := tokensPlainTampers
			if tc.Wrap {
				kinds = tokensSealedTampers
			}
			kind := kinds[rng.Intn(len(kinds))]
			src := rng.Intn(len(toks))
			if (kind == "swap-blob" || kind == "swap-record") && len(toks) < 2 {
				if len(toks) < tokensMaxTokens {
					create()
				}
				src = len(toks) - 1
			}
			if (kind == "swap-blob" || kind == "swap-record") && src == t {
				src = (t + 1) % len(toks)
			}
			tc.Steps = append(tc.Steps, tokensTamperStep(rng, t, kind, src))
			switch kind {
			case "swap-blob", "swap-record", "garbage", "garbage-blobinfo", "clear-as-blob":
				toks[t].broken = true
			case "plain-time-now", "plain-clear-field":
				toks[t].age = "fresh"
			}
		}
	}
	return tc
}

func runTokens(c *engine.Ctx) engine.Result {
	r := c.R
	res := engine.Result{
		Rule: "case = one history of create / authorize / use / use-with-failing-token-removal / age / tamper steps over <= 4 tokens and <= 5 node keys on an in-memory server with or without a storage wrapper; a directed set enumerates every (lifetime, age) pair of {30m,1d,14d default,30d,1000d} x {fresh,1h,13d,15d,400d} for the life cycle, the clear-field edit and the sealed-value swap, plus every other tamper kind and the registered-key cases; the rest are random histories of 6-20 steps. Ages are sealed through ServerLedActivationToken.Store with a creation time in the past. A fetch must be refused (error or empty response, no new node record, existing records byte-identical) when the harness's shadow state says: token already enrolled a node, record gone, age > lifetime, sealed value replaced by another token's / garbage / a clear timestamp, or presenting key already has a record; an unused, unedited token inside its lifetime presented by an unregistered key must enroll exactly that key and its record must be gone afterwards. Everything the recording storage saw while a token was unspent (and every token record at any time) is searched for every 8-byte window of the token's HMAC key. Non-trivial = the history executed at least one token fetch; distinct by history descriptor.",
		Assumptions: []string{
			"ages are produced by re-storing the token record through the library's Store with a past creation time (the harness plays the server that created the token earlier); every |age - lifetime| is >= 30 min, so the run time cannot change an expected answer",
			"without a storage wrapper an edited stored time is the documented behaviour: after such an edit only single use, the registered-key rule and absence of panics are checked",
			"the un-sealing downgrade (clearing wrapping_key_id and writing a plain time) is accepted by design by every loader and is not in the tamper set",
			"after a refused attempt by a registered key the statement does not say whether the token survives: the shadow state is re-read from storage",
			"a truncated sealed blob that still carries the whole ciphertext opens to the sealed time; after a truncation only 'refused or expiry by the sealed time' is required",
			"after a token has enrolled a node its bytes are stored as the node's registration nonce; the search for token secrets covers token records at any time and all other records only while the token is unspent",
			"sealed-value checks rely on the aead (AES-GCM) wrapper authenticating the AAD",
		},
	}
	if c.Replay != nil {
		var rk struct {
			Kind string `json:"kind"`
			Seq  int    `json:"seq"`
		}
		if err := json.Unmarshal(c.Replay, &rk); err == nil && rk.Kind == "refused-authorization" {
			runTokensRefusedAuthorization(c, rk.Seq)
			return res
		}
		if err := json.Unmarshal(c.Replay, &rk); err == nil && rk.Kind == "reencoded-key" {
			runTokensReencodedKey(c, rk.Seq)
			return res
		}
		var pc tkPairCase
		if err := json.Unmarshal(c.Replay, &pc); err == nil && pc.Backend != "" {
			runTokensPair(c, pc)
			return res
		}
		var tc tkCase
		if err := json.Unmarshal(c.Replay, &tc); err != nil {
			r.Broken("bad replay: " + err.Error())
			return res
		}
		runTKCase(c, tc)
		return res
	}
	rng := c.Rng("tokens")
	cases := tokensDirected(rng)
	directed := len(cases)
	total := c.Pick(1500, 10000)
	for len(cases) < total {
		cases = append(cases, tokensRandomCase(rng))
	}
	r.Set("directed_histories", directed)
	r.Set("random_histories", len(cases)-directed)
	r.Sample(cases[0])
	r.Sample(cases[directed/2])
	r.Sample(cases[len(cases)-1])
	engine.ForEach(len(cases), engine.Workers(), func(i int) { runTKCase(c, cases[i]) })
	runTokensStoreOnceAll(c)
	runTokensPairs(c)

	// observations about the stored ID
	ids := r.Counter("tokens-searched")
	vis := r.Counter("observation:token-id-decodes-to-something-containing-the-nonce")
	shape := r.Counter("observation:token-id-is-nonce-then-hmac-of-empty-input")
	r.Set("nonce_visible_in_decoded_token_id", fmt.Sprintf("%v (%d of %d token IDs; %d of them are exactly nonce || HMAC(key, empty input)); the HMAC key was found in none of the searched bytes unless a violation says so, so the token is not rebuilt from storage", vis > 0, vis, ids, shape))
	r.Set("tamper_kinds", append(append([]string{}, tokensSealedTampers...), tokensPlainTampers...))
	r.Set("lifetimes", tokensLifeNames)
	r.Set("ages", tokensAgeNames)

	q := func(a, b int) int64 { return int64(c.Pick(a, b)) }
	r.Require("histories", q(300, 5000))
	r.Require("pair:histories:file", q(6, 30))
	r.Require("histories:storage-wrapper", q(100, 1500))
	r.Require("histories:no-storage-wrapper", q(50, 800))
	r.Require("step:create", q(300, 5000))
	r.Require("step:create-with-state", q(50, 800))
	r.Require("step:authorize", q(10, 200))
	r.Require("step:age", q(150, 2000))
	r.Require("step:tamper", q(100, 1500))
	r.Require("step:use", q(800, 10000))
	r.Require("step:use-removefail", q(8, 100))
	r.Require("use:token-removal-fault-delivered", q(4, 50))
	r.Require("use:expect-success", q(100, 1500))
	r.Require("use:expect-refusal", q(400, 5000))
	r.Require("enrollment-observed", q(100, 1500))
	r.Require("refusal-observed:used:same-key", q(40, 500))
	r.Require("refusal-observed:used:other-key", q(40, 500))
	r.Require("refusal-observed:expired", q(50, 500))
	r.Require("refusal-observed:registered-key:authorize", q(8, 100))
	r.Require("refusal-observed:registered-key:token", q(8, 100))
	r.Require("refusal-observed:broken:swap-blob", q(10, 100))
	r.Require("refusal-observed:broken:garbage", q(5, 50))
	r.Require("refusal-observed:broken:garbage-blobinfo", q(5, 50))
	r.Require("refusal-observed:broken:clear-as-blob", q(2, 30))
	r.Require("registered-key-record-unchanged", q(16, 200))
	for _, k := range tokensSealedTampers {
		r.Require("use:after-tamper:"+k, q(4, 50))
	}
	for _, k := range tokensPlainTampers {
		r.Require("use:after-tamper:"+k, q(4, 30))
	}
	for _, l := range tokensLifeNames {
		for _, a := range tokensAgeNames {
			r.Require(fmt.Sprintf("use:life=%s,age=%s", l, a), 4)
		}
	}
	r.Require("tokens-searched", q(300, 5000))
	r.Require("token-not-reconstructible-from-storage", q(300, 5000))
	r.Require("bytes-searched", q(500000, 8000000))
	return res
}
