package engines

// C20, second part: the recombination as the intercepting listener performs it.
// A request is split with BreakIntoNextProtos, its entries are laid out in a
// ClientHello together with the certificate-preference entry and unrelated
// protocol names at chosen places, and the request the listener hands to its
// (configurable) fetch / generate-certificates function is compared with the
// one that was split. The functions are the boundary at which the recombined
// payload becomes observable; nothing inside the listener is inspected.

import (
	"context"
	"crypto/ed25519"
	"crypto/tls"
	"encoding/hex"
	"fmt"
	"math/rand"
	"net"
	"strings"
	"sync"
	"time"

	"github.com/hashicorp/nodeenrollment"
	"github.com/hashicorp/nodeenrollment/protocol"
	"github.com/hashicorp/nodeenrollment/registration"
	nodetls "github.com/hashicorp/nodeenrollment/tls"
	"github.com/hashicorp/nodeenrollment/types"
	"google.golang.org/protobuf/proto"
	"google.golang.org/protobuf/types/known/structpb"

	"verifharness/engine"
	"verifharness/world"
)

type chunkLayout struct {
	Kind     string `json:"request"`           // auth | fetch
	Chunks   int    `json:"chunks"`            // entries the payload was split into
	Pref     string `json:"preference_entry"`  // none | first | last | between:<i> (before chunk i)
	Foreign  string `json:"unrelated_entries"` // none | first | last | between:<i> | around (first, between and last) | lookalike
	PadBytes int    `json:"padding_bytes"`     // bytes added to the request to reach the number of chunks
}

func placeAt(chunks []string, where string, what ...string) []string {
	switch {
	case where == "none" || len(what) == 0:
		return chunks
	case where == "first":
		return append(append([]string{}, what...), chunks...)
	case where == "last":
		return append(append([]string{}, chunks...), what...)
	case strings.HasPrefix(where, "between:"):
		var i int
		fmt.Sscanf(where, "between:%d", &i)
		if i < 0 {
			i = 0
		}
		if i > len(chunks) {
			i = len(chunks)
		}
		out := append([]string{}, chunks[:i]...)
		out = append(out, what...)
		return append(out, chunks[i:]...)
	}
	return chunks
}

// runChunksThroughListener returns the number of layouts compared
func runChunksThroughListener(c *engine.Ctx) {
	r := c.R
	s := world.MustServer(world.ServerCfg{Backend: world.Inmem, RegWrap: true})
	defer s.Close()
	er, err := world.Enroll(s, world.FlowAuthorize, false, nil, nil, nil)
	if err != nil {
		r.Broken("chunks listener enroll: " + err.Error())
		return
	}
	node := er.Node
	roots, err := s.Roots()
	if err != nil {
		r.Broken("chunks listener roots: " + err.Error())
		return
	}
	var mu sync.Mutex
	var gotGen []*types.GenerateServerCertificatesRequest
	var gotFetch []*types.FetchNodeCredentialsRequest
	genFn := func(ctx context.Context, st nodeenrollment.Storage, req *types.GenerateServerCertificatesRequest, opt ...nodeenrollment.Option) (*types.GenerateServerCertificatesResponse, error) {
		mu.Lock()
		gotGen = append(gotGen, proto.Clone(req).(*types.GenerateServerCertificatesRequest))
		mu.Unlock()
		return nodetls.GenerateServerCertificates(ctx, st, req, opt...)
	}
	fetchFn := func(ctx context.Context, st nodeenrollment.Storage, req *types.FetchNodeCredentialsRequest, opt ...nodeenrollment.Option) (*types.FetchNodeCredentialsResponse, error) {
		mu.Lock()
		gotFetch = append(gotFetch, proto.Clone(req).(*types.FetchNodeCredentialsRequest))
		mu.Unlock()
		return registration.FetchNodeCredentials(ctx, st, req, opt...)
	}
	lw, err := world.NewLW(s, world.LWCfg{GenFn: genFn, FetchFn: fetchFn})
	if err != nil {
		r.Broken("chunks listener: " + err.Error())
		return
	}
	defer lw.Close()
	rng := rand.New(rand.NewSource(c.Rng("chunks-listener").Int63()))
	ap, fp := nodeenrollment.AuthenticateNodeNextProtoV1Prefix, nodeenrollment.FetchNodeCredsNextProtoV1Prefix
	// the preference names the root (by key ID) that issued the chain the client presents
	curID, err := nodeenrollment.KeyIdFromPkix(roots.Current.PublicKeyPkix)
	if err != nil {
		r.Broken("chunks listener: key ID of the current root: " + err.Error())
		return
	}
	pref := world.CertPref(curID)
	b := node.Creds.CertificateBundles[0]
	cert := &tls.Certificate{Certificate: [][]byte{b.CertificateDer, b.CaCertificateDer}, PrivateKey: node.K.Priv}

	var layouts []chunkLayout
	for _, kind := range []string{"auth", "fetch"} {
		for _, pad := range []int{0, 200, 700, 1500, c.Pick(3000, 9000)} {
			for _, pp := range []string{"none", "first", "last", "between:1", "between:mid", "between:lastchunk"} {
				for _, ff := range []string{"none", "first", "last", "between:1", "between:mid", "around", "lookalike"} {
					layouts = append(layouts, chunkLayout{Kind: kind, Pref: pp, Foreign: ff, PadBytes: pad + rng.Intn(40)})
				}
			}
		}
	}
	layoutSeq, layoutNo := 0, 0
	for _, lo := range layouts {
		var chunks []string
		var sentGen *types.GenerateServerCertificatesRequest
		var sentFetch *types.FetchNodeCredentialsRequest
		switch lo.Kind {
		case "auth":
			nonce := world.RandBytes(nodeenrollment.NonceSize)
			sentGen = &types.GenerateServerCertificatesRequest{CertificatePublicKeyPkix: node.K.Pkix, Nonce: nonce, NonceSignature: ed25519.Sign(node.K.Priv, nonce)}
			if lo.PadBytes > 0 {
				// client state is opaque bytes to the splitting; the library verifies its signature and parses it only afterwards
				sentGen.ClientState = world.RandBytes(lo.PadBytes)
				if layoutSeq++; layoutSeq%2 == 0 {
					// a state the library can also decode afterwards, so that the handshake completes and the
					// connection reports the list it was offered
					st, _ := structpb.NewStruct(map[string]any{"pad": hex.EncodeToString(world.RandBytes(lo.PadBytes / 2))})
					sentGen.ClientState, _ = proto.Marshal(st)
				}
				sentGen.ClientStateSignature = ed25519.Sign(node.K.Priv, sentGen.ClientState)
			}
			chunks = world.AuthProtos(sentGen)
		default:
			k := world.NewKeys()
			info := world.BaseInfo(k, world.NewX25519().Pub, world.RandBytes(nodeenrollment.NonceSize))
			if lo.PadBytes > 0 {
				info.WrappedRegistrationInfo = world.RandBytes(lo.PadBytes)
			}
			sentFetch = world.Sign(info, k.Priv)
			chunks = world.FetchProtos(sentFetch)
		}
		lo.Chunks = len(chunks)
		resolve := func(w string) string {
			switch w {
			case "between:mid":
				return fmt.Sprintf("between:%d", len(chunks)/2)
			case "between:lastchunk":
				return fmt.Sprintf("between:%d", len(chunks)-1)
			}
			return w
		}
		list := append([]string{}, chunks...)
		// unrelated names first (their places are given relative to the chunks)
		switch lo.Foreign {
		case "around":
			list = placeAt(list, fmt.Sprintf("between:%d", len(list)/2), "h2")
			list = append(append([]string{"grpc-exp"}, list...), "http/1.1")
		case "lookalike":
			// names that contain a library prefix after their first byte, or the other request's prefix
			other := fp
			if lo.Kind == "fetch" {
				other = ap
			}
			_ = other
			list = placeAt(list, fmt.Sprintf("between:%d", len(list)/2), "x"+ap+"00-AAAA", "y"+fp+"01-BBBB")
		default:
			list = placeAt(list, resolve(lo.Foreign), "h2", "http/1.1")
		}
		// the preference entry relative to the chunk it precedes in the final list; in every fourth layout it
		// names a root the server does not have (the request is still recombined and judged; the handshake then
		// ends without a certificate)
		pref := pref
		if layoutNo++; layoutNo%4 == 0 {
			pref = world.CertPref("current")
		}
		switch p := resolve(lo.Pref); {
		case p == "first" || p == "last" || p == "none":
			list = placeAt(list, p, pref)
		default:
			var i int
			fmt.Sscanf(p, "between:%d", &i)
			if i >= len(chunks) {
				i = len(chunks) - 1
			}
			// position of chunk i in the current list
			pos := 0
			for j, e := range list {
				if e == chunks[i] {
					pos = j
				}
			}
			list = placeAt(list, fmt.Sprintf("between:%d", pos), pref)
		}
		engine.LogInput("C20 through-listener %s", engine.J(lo))
		mu.Lock()
		gotGen, gotFetch = nil, nil
		mu.Unlock()
		raw, err := net.Dial("tcp", lw.Addr)
		if err != nil {
			r.Broken("chunks listener dial: " + err.Error())
			return
		}
		_ = raw.SetDeadline(time.Now().Add(30 * time.Second))
		cfg := &tls.Config{NextProtos: list, InsecureSkipVerify: true, MinVersion: tls.VersionTLS13,
			GetClientCertificate: func(*tls.CertificateRequestInfo) (*tls.Certificate, error) { return cert, nil }}
		tc := tls.Client(raw, cfg)
		_ = tc.Handshake()
		rec, werr := lw.Wait(raw.LocalAddr().String())
		raw.Close()
		if werr != nil {
			r.Inconclusive("watchdog waiting for the server side (chunks through listener)")
			return
		}
		if rec.Returned && rec.Conn != nil {
			rec.Conn.Close()
		}
		desc := engine.J(lo)
		r.Eval("through-listener|"+desc, true)
		if rec.Panic != nil {
			r.Violation("panic-in-accept:"+engine.LibraryFrame(rec.Stack), fmt.Sprintf("Accept panicked on a well-formed list: %v", rec.Panic), map[string]any{"layout": lo, "alpn": head(list, 12)})
			continue
		}
		mu.Lock()
		gg, gf := gotGen, gotFetch
		mu.Unlock()
		wit := map[string]any{"layout": lo, "alpn_head": head(list, 12), "accept_error": fmt.Sprint(rec.AcceptErr)}
		switch lo.Kind {
		case "auth":
			switch {
			case len(gg) == 0:
				r.Violation("listener-recombination-differs:auth:not-recovered", fmt.Sprintf("the listener did not recover an authentication request split into %d entries (preference %s, unrelated %s): %v", lo.Chunks, lo.Pref, lo.Foreign, rec.AcceptErr), wit)
			case !proto.Equal(gg[0], sentGen):
				r.Violation("listener-recombination-differs:auth", fmt.Sprintf("the request the listener recombined from %d entries differs from the one that was split (preference %s, unrelated %s)", lo.Chunks, lo.Pref, lo.Foreign), wit)
			default:
				r.Count("listener_recombined_equal:auth", 1)
			}
			// an application that recombines the request from the list the connection reports gets the same
			// payload as from the list that was sent
			if pc, ok := rec.Conn.(*protocol.Conn); ok && rec.Returned {
				want, werr := nodetls.CombineFromNextProtos(ap, list)
				got, gerr := nodetls.CombineFromNextProtos(ap, pc.ClientNextProtos())
				switch {
				case werr != nil:
					r.Broken("chunks listener: the offered list does not recombine: " + werr.Error())
				case gerr != nil || got != want:
					r.Violation("recombination-from-reported-list-differs", fmt.Sprintf("recombining the %d entries under the authentication prefix from the list the connection reports does not give the payload that was split (preference %s, unrelated %s; error %v)", lo.Chunks, lo.Pref, lo.Foreign, gerr), wit)
				default:
					r.Count("reported_list_recombines_equal", 1)
					if lo.Chunks > 1 {
						r.Count("reported_list_recombines_equal:several_entries", 1)
					}
				}
			}
		default:
			switch {
			case len(gf) == 0:
				r.Violation("listener-recombination-differs:fetch:not-recovered", fmt.Sprintf("the listener did not recover a fetch request split into %d entries (preference %s, unrelated %s): %v", lo.Chunks, lo.Pref, lo.Foreign, rec.AcceptErr), wit)
			case !proto.Equal(gf[0], sentFetch):
				r.Violation("listener-recombination-differs:fetch", fmt.Sprintf("the request the listener recombined from %d entries differs from the one that was split (preference %s, unrelated %s)", lo.Chunks, lo.Pref, lo.Foreign), wit)
			default:
				r.Count("listener_recombined_equal:fetch", 1)
			}
		}
		r.Count(fmt.Sprintf("listener_layout:pref=%s", lo.Pref), 1)
	}
	// the library's own client path: requests of growing size built by ClientConfigs (the only
	// place where the library splits an authentication request) must reach the listener intact
	// for as long as they fit a ClientHello
	for _, size := range []int{16, 4000, 16000, 22000, 30000, 40000} {
		st, _ := structpb.NewStruct(map[string]any{"blob": strings.Repeat("s", size-8) + fmt.Sprintf("%08d", rng.Intn(100000000))})
		desc := fmt.Sprintf("through-listener|client-configs state %d bytes", size)
		copts := []nodeenrollment.Option{nodeenrollment.WithState(st)}
		if size%8000 != 0 {
			// unrelated names the node asked to have listed next to the request, among them near misses of
			// the library's prefixes (ALPN names are opaque byte strings: padding and case are part of the name)
			copts = append(copts, nodeenrollment.WithExtraAlpnProtos([]string{"h2", " " + nodeenrollment.AuthenticateNodeNextProtoV1Prefix, "\t" + nodeenrollment.AuthenticateNodeNextProtoV1Prefix + "99-QUJD",
				" " + nodeenrollment.FetchNodeCredsNextProtoV1Prefix + "00-QUJD ", strings.TrimSuffix(nodeenrollment.AuthenticateNodeNextProtoV1Prefix, "-"), strings.ToUpper(nodeenrollment.AuthenticateNodeNextProtoV1Prefix) + "00-QUJD", "my-service "}))
			desc += " with near-miss foreign names"
			r.Count("client_configs_with_near_miss_foreign_names", 1)
		}
		cfgs, cerr := nodetls.ClientConfigs(s.Ctx, node.Creds, copts...)
		r.Eval(desc, true)
		if cerr != nil || len(cfgs) == 0 {
			r.Violation("client-refused-payload-that-fits", fmt.Sprintf("ClientConfigs refused an authentication request with %d bytes of state, which fits a ClientHello: %v", size, cerr), map[string]any{"state_bytes": size})
			continue
		}
		total := 0
		for _, e := range cfgs[0].NextProtos {
			total += 1 + len(e)
		}
		mu.Lock()
		gotGen = nil
		mu.Unlock()
		raw, err := net.Dial("tcp", lw.Addr)
		if err != nil {
			r.Broken("chunks listener dial: " + err.Error())
			return
		}
		_ = raw.SetDeadline(time.Now().Add(30 * time.Second))
		tc := tls.Client(raw, cfgs[0])
		herr := tc.Handshake()
		rec, werr := lw.Wait(raw.LocalAddr().String())
		raw.Close()
		if werr != nil {
			r.Inconclusive("watchdog waiting for the server side (chunks through listener, client configs)")
			return
		}
		if rec.Returned && rec.Conn != nil {
			rec.Conn.Close()
		}
		mu.Lock()
		gg := gotGen
		mu.Unlock()
		wit := map[string]any{"state_bytes": size, "alpn_bytes": total, "entries": len(cfgs[0].NextProtos), "client_error": fmt.Sprint(herr), "accept_error": fmt.Sprint(rec.AcceptErr)}
		got := new(structpb.Struct)
		switch {
		case len(gg) == 0:
			r.Violation("listener-recombination-differs:auth:not-recovered", fmt.Sprintf("the listener did not recover the request ClientConfigs built for %d bytes of state (%d ALPN bytes): %v", size, total, rec.AcceptErr), wit)
		case proto.Unmarshal(gg[0].ClientState, got) != nil || !proto.Equal(got, st):
			r.Violation("listener-recombination-differs:auth", fmt.Sprintf("the state recombined by the listener differs from the %d bytes ClientConfigs split", size), wit)
		default:
			r.Count("listener_recombined_equal:client-configs", 1)
			r.Count(fmt.Sprintf("client_configs_state_bytes:%d(alpn %d)", size, total), 1)
		}
		// the same request through the library's own dialer (protocol.Dial of the enrolled node)
		mu.Lock()
		gotGen = nil
		mu.Unlock()
		conn, derr := protocol.Dial(s.Ctx, node.Store, lw.Addr, node.NodeOpts(copts...)...)
		r.Eval(desc+" (protocol.Dial)", true)
		if derr != nil {
			r.Violation("listener-recombination-differs:auth-dial:not-recovered", fmt.Sprintf("protocol.Dial of an enrolled node with %d bytes of state (%d ALPN bytes, which fit a ClientHello) failed: %v", size, total, derr), map[string]any{"state_bytes": size, "alpn_bytes": total})
			continue
		}
		rec2, werr2 := lw.Wait(conn.LocalAddr().String())
		conn.Close()
		if werr2 != nil {
			r.Inconclusive("watchdog waiting for the server side (chunks through listener, dial)")
			return
		}
		if rec2.Returned && rec2.Conn != nil {
			rec2.Conn.Close()
		}
		mu.Lock()
		gg = gotGen
		mu.Unlock()
		got2 := new(structpb.Struct)
		switch {
		case len(gg) == 0:
			r.Violation("listener-recombination-differs:auth-dial:not-recovered", fmt.Sprintf("the listener did not recover the request protocol.Dial sent for %d bytes of state (%d ALPN bytes): %v", size, total, rec2.AcceptErr), wit)
		case proto.Unmarshal(gg[len(gg)-1].ClientState, got2) != nil || !proto.Equal(got2, st):
			r.Violation("listener-recombination-differs:auth-dial", fmt.Sprintf("the state recombined by the listener differs from the %d bytes protocol.Dial sent", size), wit)
		default:
			r.Count("listener_recombined_equal:auth-dial", 1)
		}
	}
	// the library's own fetch path: protocol.Dial of a node without credentials splits its fetch
	// request (made large by application parameters of the wrapping flow) into ALPN entries
	for _, size := range []int{16, 4000, 12000, 24000, 36000} {
		params, _ := structpb.NewStruct(map[string]any{"blob": strings.Repeat("p", size-8) + fmt.Sprintf("%08d", rng.Intn(100000000))})
		desc := fmt.Sprintf("through-listener|dial fetch with %d bytes of parameters", size)
		n, err := world.NewNode(false, "")
		if err != nil {
			r.Broken("chunks listener node: " + err.Error())
			return
		}
		mu.Lock()
		gotFetch = nil
		mu.Unlock()
		r.Eval(desc, true)
		conn, derr := protocol.Dial(s.Ctx, n.Store, lw.Addr, n.NodeOpts(nodeenrollment.WithRegistrationWrapper(s.RW), nodeenrollment.WithWrappingRegistrationFlowApplicationSpecificParams(params))...)
		if conn != nil {
			if rec, werr := lw.Wait(conn.LocalAddr().String()); werr == nil && rec.Returned && rec.Conn != nil {
				rec.Conn.Close()
			}
			conn.Close()
		}
		mu.Lock()
		gf := gotFetch
		mu.Unlock()
		wit := map[string]any{"parameter_bytes": size, "dial_error": fmt.Sprint(derr)}
		ni, _ := s.LoadNode(n.K.KeyID)
		switch {
		case len(gf) == 0:
			r.Violation("client-refused-payload-that-fits", fmt.Sprintf("a fetch request with %d bytes of application parameters, which fits a ClientHello, never reached the server: %v", size, derr), wit)
		case derr != nil:
			r.Violation("listener-recombination-differs:fetch:not-recovered", fmt.Sprintf("enrollment through Dial with %d bytes of application parameters failed: %v", size, derr), wit)
		case ni == nil || ni.WrappingRegistrationFlowInfo == nil || !proto.Equal(ni.WrappingRegistrationFlowInfo.ApplicationSpecificParams, params):
			r.Violation("listener-recombination-differs:fetch", fmt.Sprintf("the parameters the server registered differ from the %d bytes the node sent", size), wit)
		default:
			r.Count("listener_recombined_equal:dial-fetch", 1)
		}
	}

}
