package engines

// C14 — no remote input can crash or stop the listener. Hostile connections
// against real InterceptingListeners; monitors: recover() around Accept,
// Temporary() on every accept error, a canary honest node after every batch.

import (
	"context"
	"crypto"
	"crypto/ecdh"
	"crypto/ecdsa"
	"crypto/ed25519"
	"crypto/elliptic"
	crand "crypto/rand"
	"crypto/rsa"
	"crypto/tls"
	"crypto/x509"
	"crypto/x509/pkix"
	"encoding/base64"
	"encoding/json"
	"errors"
	"fmt"
	"io"
	"math/big"
	"math/rand"
	"net"
	"runtime"
	"sort"
	"strings"
	"sync"
	"sync/atomic"
	"time"

	wrapping "github.com/hashicorp/go-kms-wrapping/v2"
	"github.com/hashicorp/nodeenrollment"
	"github.com/hashicorp/nodeenrollment/protocol"
	"github.com/hashicorp/nodeenrollment/registration"
	nodetls "github.com/hashicorp/nodeenrollment/tls"
	"github.com/hashicorp/nodeenrollment/types"
	"google.golang.org/protobuf/proto"

	"verifharness/engine"
	"verifharness/world"
)

func init() {
	engine.Register(&engine.Spec{Prop: "C14", Engine: "fuzzlisten", Level: "exploration", Fn: runFuzzListen})
}

type fzCase struct {
	Class  string   `json:"class"`
	Detail string   `json:"detail,omitempty"`
	Protos [][]byte `json:"alpn,omitempty"`         // ALPN entries (bytes, base64 in JSON)
	Raw    []byte   `json:"raw,omitempty"`          // raw bytes written instead of a ClientHello
	CutW   int      `json:"cut_at_write,omitempty"` // drop the connection instead of the k-th write
	CutR   int      `json:"cut_after_read,omitempty"`
	Cert   string   `json:"cert,omitempty"` // self | none
	Config int      `json:"listener_config"`
}

// listener configurations: bit0 base TLS, bit1 aead storage+registration wrappers
type fzWorld struct {
	fatals int  // listeners lost to a non-temporary accept error
	dead   bool // the listener stopped answering: nothing of this world is touched any more (closing it could hang)
	cfg    int
	s      *world.Server
	lw     *world.LW
	canary *world.Node
	reg    *world.Node // a registered node whose key ID an attacker may name
}

func newFzWorld(cfg int) *fzWorld {
	w := &fzWorld{cfg: cfg}
	wrap := cfg&2 != 0
	be := world.Inmem
	if wrap {
		be = world.StoreOnce // implements lookup by node ID
	}
	w.s = world.MustServer(world.ServerCfg{Backend: be, StorageWrap: wrap, RegWrap: wrap})
	er, err := world.Enroll(w.s, world.FlowAuthorize, false, nil, nil, nil)
	if err != nil {
		panic(err)
	}
	w.canary = er.Node
	er2, err := world.Enroll(w.s, world.FlowAuthorize, false, nil, nil, nil)
	if err != nil {
		panic(err)
	}
	w.reg = er2.Node
	if wrap {
		// node ID "N" has two records: the registered node's, and one that was sealed with a storage
		// wrapper the server no longer uses (it cannot be opened with the listener's options)
		if ni, err := w.s.LoadNode(w.reg.K.KeyID); err == nil {
			_ = w.s.RemoveNode(w.reg.K.KeyID)
			ni.NodeId = "N"
			if err := ni.Store(w.s.Ctx, w.s.Store, w.s.StoreOpts()...); err != nil {
				panic(err)
			}
			stale := proto.Clone(ni).(*types.NodeInformation)
			sk := world.NewKeys()
			stale.Id, stale.CertificatePublicKeyPkix = sk.KeyID, sk.Pkix
			if err := stale.Store(w.s.Ctx, w.s.Store, nodeenrollment.WithStorageWrapper(world.NewAead("retired-storage-wrapper"))); err != nil {
				panic(err)
			}
		}
	}
	w.start()
	return w
}

func (w *fzWorld) start() {
	lc := world.LWCfg{}
	if w.cfg&1 != 0 {
		// this base listener announces its closure the way multiplexing and in-memory
		// listeners do: with its own sentinel, which does not wrap net.ErrClosed
		lc.BaseCloseErr = errors.New("mux: listener closed")
	}
	if w.cfg&1 != 0 {
		lc.BaseTLS = baseTLSConfig()
	}
	var err error
	w.lw, err = world.NewLW(w.s, lc)
	if err != nil {
		panic(err)
	}
}

func (w *fzWorld) close() { w.lw.Close(); w.s.Close() }

// cutConn drops the connection at a chosen point of the handshake
type cutConn struct {
	net.Conn
	cutW, cutR int
	w, r       int
}

func (c *cutConn) Write(b []byte) (int, error) {
	c.w++
	if c.cutW > 0 && c.w >= c.cutW {
		c.Conn.Close()
		return 0, io.ErrClosedPipe
	}
	return c.Conn.Write(b)
}

func (c *cutConn) Read(b []byte) (int, error) {
	n, err := c.Conn.Read(b)
	c.r++
	if c.cutR > 0 && c.r >= c.cutR {
		c.Conn.Close()
		return n, io.ErrClosedPipe
	}
	return n, err
}

var (
	oddCertOnce sync.Once
	oddCerts    map[string]*tls.Certificate
)

// oddClientCert returns a self-signed client certificate whose key is not
// Ed25519 (crypto/tls accepts ECDSA and RSA client certificates in TLS 1.3)
func oddClientCert(kind string) *tls.Certificate {
	oddCertOnce.Do(func() {
		oddCerts = map[string]*tls.Certificate{}
		now := time.Now()
		mk := func(name string, priv crypto.Signer, ski []byte) {
			tpl := &x509.Certificate{
				SerialNumber: big.NewInt(now.UnixNano()), Subject: pkix.Name{CommonName: "odd-" + name}, DNSNames: []string{nodeenrollment.CommonDnsName},
				NotBefore: now.Add(-5 * time.Minute), NotAfter: now.Add(24 * time.Hour), KeyUsage: x509.KeyUsageDigitalSignature,
				ExtKeyUsage: []x509.ExtKeyUsage{x509.ExtKeyUsageClientAuth}, SubjectKeyId: ski, BasicConstraintsValid: true,
			}
			der, err := x509.CreateCertificate(crand.Reader, tpl, tpl, priv.Public(), priv)
			if err != nil {
				panic(err)
			}
			oddCerts[name] = &tls.Certificate{Certificate: [][]byte{der}, PrivateKey: priv}
		}
		ek, _ := ecdsa.GenerateKey(elliptic.P256(), crand.Reader)
		epk, _ := x509.MarshalPKIXPublicKey(ek.Public())
		mk("ecdsa", ek, epk)
		mk("ecdsa-no-ski", ek, nil)
		rk, _ := rsa.GenerateKey(crand.Reader, 2048)
		rpk, _ := x509.MarshalPKIXPublicKey(rk.Public())
		mk("rsa", rk, rpk)
	})
	return oddCerts[kind]
}

// send delivers one hostile input and returns the client's local address
func (w *fzWorld) send(fc fzCase, self *world.Keys) (string, net.Conn, error) {
	raw, err := net.Dial("tcp", w.lw.Addr)
	if err != nil {
		return "", nil, err
	}
	local := raw.LocalAddr().String()
	if fc.Raw != nil || fc.Class == "raw" || fc.Class == "crafted-hello" {
		_ = raw.SetDeadline(time.Now().Add(20 * time.Second))
		_, _ = raw.Write(fc.Raw)
		if tc, ok := raw.(*net.TCPConn); ok {
			_ = tc.CloseWrite()
		}
		return local, raw, nil
	}
	protos := make([]string, len(fc.Protos))
	for i, p := range fc.Protos {
		protos[i] = string(p)
	}
	cfg := &tls.Config{NextProtos: protos, InsecureSkipVerify: true, MinVersion: tls.VersionTLS13}
	switch fc.Cert {
	case "none":
	case "ecdsa", "rsa", "ecdsa-no-ski":
		cert := oddClientCert(fc.Cert)
		cfg.GetClientCertificate = func(*tls.CertificateRequestInfo) (*tls.Certificate, error) { return cert, nil }
	default:
		now := time.Now()
		der := world.MintSelfSigned(self, world.LeafSpec{SubjectKeyID: self.Pkix, DNSNames: []string{nodeenrollment.CommonDnsName}, NotBefore: now.Add(-5 * time.Minute), NotAfter: now.Add(5 * time.Minute), EKU: []x509.ExtKeyUsage{x509.ExtKeyUsageClientAuth}})
		cert := &tls.Certificate{Certificate: [][]byte{der}, PrivateKey: self.Priv}
		cfg.GetClientCertificate = func(*tls.CertificateRequestInfo) (*tls.Certificate, error) { return cert, nil }
	}
	var conn net.Conn = raw
	if fc.CutW > 0 || fc.CutR > 0 {
		conn = &cutConn{Conn: raw, cutW: fc.CutW, cutR: fc.CutR}
	}
	_ = raw.SetDeadline(time.Now().Add(20 * time.Second))
	c := tls.Client(conn, cfg)
	_ = c.Handshake()
	// the connection stays open until the server side has finished with it
	return local, raw, nil
}

// fzParkedListener looks for a goroutine that is inside the intercepting listener and parked on a sync lock;
// returns its header line, or ""
func fzParkedListener() string {
	buf := make([]byte, 4<<20)
	buf = buf[:runtime.Stack(buf, true)]
	for _, g := range strings.Split(string(buf), "\n\n") {
		inAccept := strings.Contains(g, "hashicorp/nodeenrollment") && strings.Contains(g, "InterceptingListener")
		// (a) the handshake is parked on a lock; (b) the handshake is over (no handshake frame on the stack) and
		// Accept sits in a read of application data from the peer: it waits for the peer's pleasure, which is
		// not something Accept ever does with a connection
		onLock := strings.Contains(g, "sync.(*RWMutex)") || strings.Contains(g, "sync.(*Mutex).Lock")
		readingAfterHandshake := strings.Contains(g, "crypto/tls.(*Conn).Read(") && !strings.Contains(g, "andshake")
		if inAccept && (onLock || readingAfterHandshake) {
			if i := strings.Index(g, "\n"); i > 0 {
				return g[:i]
			}
			return g
		}
	}
	return ""
}

func (w *fzWorld) canaryDial(c *engine.Ctx, after string) bool {
	dctx, cancel := context.WithTimeout(w.s.Ctx, 45*time.Second)
	defer cancel()
	conn, err := protocol.Dial(dctx, w.canary.Store, w.lw.Addr, w.canary.NodeOpts()...)
	if err != nil && dctx.Err() != nil {
		// the listener did not answer at all. That is a finding if library goroutines are parked on a lock
		// (the handshake in Accept waits for something that will not come); otherwise a slow machine
		w.fatals, w.dead = 3, true
		if head := fzParkedListener(); head != "" {
			c.R.Violation("listener-stopped-answering", fmt.Sprintf("after hostile input (%s) the honest registered node got no answer within 45 s: the listener's handshake is parked on a lock (%s)", after, head), map[string]any{"after": after, "listener_config": w.cfg})
			return false
		}
		c.R.Inconclusive("the canary's dial timed out and no listener goroutine is parked on a lock")
		return false
	}
	if err != nil {
		c.R.Violation("canary-failed", fmt.Sprintf("honest registered node could not connect after hostile input (%s): %v", after, err), map[string]any{"after": after, "listener_config": w.cfg})
		return false
	}
	defer conn.Close()
	rec, werr := w.lw.Wait(conn.LocalAddr().String())
	if werr != nil {
		c.R.Inconclusive("watchdog while waiting for the canary's server side")
		return false
	}
	if rec.Returned && rec.Conn != nil {
		defer rec.Conn.Close()
	}
	if !rec.Authenticated() {
		c.R.Violation("canary-failed", fmt.Sprintf("honest registered node was not authenticated after hostile input (%s): accept error %v", after, rec.AcceptErr), map[string]any{"after": after, "listener_config": w.cfg})
		return false
	}
	c.R.Count("canary_connects", 1)
	return true
}

func (w *fzWorld) runCase(c *engine.Ctx, fc fzCase) {
	r := c.R
	engine.LogInput("C14 %s", engine.J(fc))
	self := world.NewKeys()
	local, cconn, err := w.send(fc, self)
	if err != nil {
		r.Broken("cannot dial listener: " + err.Error())
		return
	}
	rec, werr := w.lw.Wait(local)
	cconn.Close()
	if ferr := w.lw.FatalErr(); ferr != nil {
		r.Eval(engine.J(fc), true)
		r.Violation("non-temporary-error:"+fc.Class, fmt.Sprintf("Accept returned a non-temporary error while the base listener is open: %v", ferr), fc)
		w.lw.Close()
		w.start()
		w.fatals++
		return
	}
	if werr != nil {
		w.fatals, w.dead = 3, true
		if head := fzParkedListener(); head != "" {
			r.Violation("listener-stopped-answering", fmt.Sprintf("the listener never finished with a hostile connection of class %s: Accept is parked on a lock, or waits for the peer to send or hang up after the handshake (%s)", fc.Class, head), fc)
			return
		}
		r.Inconclusive("watchdog while waiting for the server side of a hostile connection (" + fc.Class + ")")
		return
	}
	nontrivial := len(fc.Protos) > 0 || len(fc.Raw) > 0
	r.Eval(fc.Class+"|"+fc.Detail+"|"+fmt.Sprint(fc.Config), nontrivial)
	switch {
	case rec.Panic != nil:
		r.Violation("panic-in-accept:"+engine.LibraryFrame(rec.Stack), fmt.Sprintf("Accept panicked on class %s (%s): %v", fc.Class, fc.Detail, rec.Panic), fc)
	case rec.AcceptErr != nil:
		r.Count("temporary_errors", 1)
		if !world.IsTemporary(rec.AcceptErr) {
			r.Violation("non-temporary-error:"+fc.Class, "per-connection failure reported as non-temporary: "+rec.AcceptErr.Error(), fc)
		}
	case rec.Returned:
		r.Count("connections_returned", 1)
		if rec.Conn != nil {
			rec.Conn.Close()
		}
	}
	r.Count("class:"+fc.Class, 1)
}

// ---------------------------------------------------------------------------
// generators

// fzForeignPkix: PKIX encodings of public keys that are not ed25519 keys
func fzForeignPkix() map[string][]byte {
	out := map[string][]byte{}
	if k, err := ecdsa.GenerateKey(elliptic.P256(), crand.Reader); err == nil {
		if b, err := x509.MarshalPKIXPublicKey(&k.PublicKey); err == nil {
			out["ecdsa-p256"] = b
		}
	}
	if k, err := rsa.GenerateKey(crand.Reader, 1024); err == nil {
		if b, err := x509.MarshalPKIXPublicKey(&k.PublicKey); err == nil {
			out["rsa"] = b
		}
	}
	if k, err := ecdh.X25519().GenerateKey(crand.Reader); err == nil {
		if b, err := x509.MarshalPKIXPublicKey(k.PublicKey()); err == nil {
			out["x25519"] = b
		}
	}
	return out
}

func b64(b []byte) string { return base64.RawStdEncoding.EncodeToString(b) }

func protosOf(prefix, payload string) [][]byte {
	if payload == "" {
		return [][]byte{[]byte(prefix)}
	}
	es, err := nodetls.BreakIntoNextProtos(prefix, payload)
	if err != nil {
		return nil
	}
	out := make([][]byte, len(es))
	for i, e := range es {
		out[i] = []byte(e)
	}
	return out
}

func validALPN(p [][]byte) bool {
	tot := 0
	for _, e := range p {
		if len(e) == 0 || len(e) > 255 {
			return false
		}
		tot += 1 + len(e)
	}
	return tot > 0 && tot <= 64000
}

func shortBlob(n int) []byte {
	b, _ := proto.Marshal(&wrapping.BlobInfo{Ciphertext: world.RandBytes(n)})
	return b
}

func (w *fzWorld) genCases(c *engine.Ctx, rng *rand.Rand) []fzCase {
	var out []fzCase
	add := func(class, detail string, protos [][]byte) {
		if validALPN(protos) {
			out = append(out, fzCase{Class: class, Detail: detail, Protos: protos, Config: w.cfg})
		}
	}
	fp, ap, cp := nodeenrollment.FetchNodeCredsNextProtoV1Prefix, nodeenrollment.AuthenticateNodeNextProtoV1Prefix, nodeenrollment.CertificatePreferenceV1Prefix
	prefixes := []string{fp, ap, cp}

	// honest material to distort
	att := world.NewKeys()
	enc := world.NewX25519()
	honestFetch := world.Sign(world.BaseInfo(att, enc.Pub, world.RandBytes(32)), att.Priv)
	hfBytes, _ := proto.Marshal(honestFetch)
	nonce := world.RandBytes(32)
	honestAuth := &types.GenerateServerCertificatesRequest{CertificatePublicKeyPkix: w.reg.K.Pkix, Nonce: nonce, NonceSignature: ed25519.Sign(w.reg.K.Priv, nonce), ClientState: world.RandBytes(300)}
	haBytes, _ := proto.Marshal(honestAuth)

	// (a) suffix classes under each prefix
	for _, p := range prefixes {
		add("suffix-empty", p, [][]byte{[]byte(p)})
		for _, sfx := range []string{"0", "00", "0-", "-", "--", "a", "zz", "9", "99"} {
			add("suffix-short", p+"+"+sfx, [][]byte{[]byte(p + sfx)})
			add("suffix-short", p+"+"+sfx+"+honest", append([][]byte{[]byte(p + sfx)}, protosOf(fp, b64(hfBytes))...))
		}
		add("suffix-nodash", p, [][]byte{[]byte(p + "000abcdef")})
		add("suffix-nonbase64", p, [][]byte{[]byte(p + "00-!!!!@@@@####")})
		add("suffix-nonbase64", p+"bin", [][]byte{append([]byte(p+"00-"), world.RandBytes(50)...)})
		for i := 0; i < c.Pick(30, 400); i++ {
			n := 1 + rng.Intn(400)
			rb := make([]byte, n)
			rng.Read(rb)
			add("b64-random", fmt.Sprintf("%s %d bytes", p, n), protosOf(p, b64(rb)))
		}
	}
	// well-formed chunk headers whose numbers do not fit the list
	for _, p := range []string{fp, ap} {
		for kind := 8; kind <= 14; kind++ {
			var l [][]byte
			for _, e := range malformedEntries(p, kind, rng) {
				l = append(l, []byte(e))
			}
			add("chunk-number-odd", fmt.Sprintf("%s kind %d", p, kind), l)
			add("chunk-number-odd", fmt.Sprintf("%s kind %d + h2", p, kind), append(l, []byte("h2")))
		}
	}
	// base64 of an honest request truncated at every length
	for _, it := range []struct {
		p string
		b []byte
	}{{fp, hfBytes}, {ap, haBytes}} {
		s := b64(it.b)
		step := c.Pick(2, 1)
		for l := 1; l <= len(s); l += step {
			add("honest-truncated-b64", fmt.Sprintf("%s len %d/%d", it.p, l, len(s)), protosOf(it.p, s[:l]))
		}
		stepb := c.Pick(3, 1)
		for l := 0; l <= len(it.b); l += stepb {
			add("honest-truncated-proto", fmt.Sprintf("%s len %d/%d", it.p, l, len(it.b)), protosOf(it.p, b64(it.b[:l])))
		}
	}
	// oversized protobuf
	for _, n := range []int{1000, 8000, 30000, 46000} {
		big := &types.FetchNodeCredentialsRequest{Bundle: make([]byte, n), BundleSignature: world.RandBytes(64)}
		bb, _ := proto.Marshal(big)
		add("oversized", fmt.Sprintf("fetch %d", n), protosOf(fp, b64(bb)))
		bigA := &types.GenerateServerCertificatesRequest{CertificatePublicKeyPkix: w.reg.K.Pkix, Nonce: nonce, NonceSignature: ed25519.Sign(w.reg.K.Priv, nonce), ClientState: make([]byte, n)}
		ba, _ := proto.Marshal(bigA)
		add("oversized", fmt.Sprintf("auth %d", n), protosOf(ap, b64(ba)))
	}
	// indices out of order / duplicated
	for _, it := range []struct {
		p string
		b []byte
	}{{fp, hfBytes}, {ap, haBytes}} {
		ch := protosOf(it.p, b64(it.b))
		if len(ch) >= 2 {
			rev := make([][]byte, len(ch))
			for i := range ch {
				rev[len(ch)-1-i] = ch[i]
			}
			add("chunks-reversed", it.p, rev)
			add("chunks-duplicated", it.p, append(append([][]byte{}, ch...), ch...))
			add("chunks-missing-first", it.p, ch[1:])
			add("chunks-missing-last", it.p, ch[:len(ch)-1])
		}
	}
	// fetch and auth prefixes mixed in both orders
	fch, ach := protosOf(fp, b64(hfBytes)), protosOf(ap, b64(haBytes))
	add("mixed", "fetch-then-auth", append(append([][]byte{}, fch...), ach...))
	add("mixed", "auth-then-fetch", append(append([][]byte{}, ach...), fch...))
	add("mixed", "interleaved", append(append([][]byte{fch[0]}, ach...), fch[1:]...))
	add("certpref-only", "", [][]byte{[]byte(cp + "abc")})
	add("certpref-only", "with h2", [][]byte{[]byte("h2"), []byte(cp + "abc")})
	add("no-library-proto", "h2", [][]byte{[]byte("h2")})
	// lists that fill most of what the ALPN extension can carry, on handshakes that succeed (a plain client on a
	// listener with a base TLS configuration) and on ones that do not
	for _, total := range []int{20000, 33000, 40000, 60000} {
		big := [][]byte{[]byte("h2")}
		for n := 3; n+251 < total; n += 251 {
			big = append(big, []byte(fmt.Sprintf("filler-%05d-", len(big))+strings.Repeat("x", 237)))
		}
		add("huge-alpn", fmt.Sprintf("h2 plus fillers, %d bytes", total), big)
		add("huge-alpn", fmt.Sprintf("fillers then a fetch request, %d bytes", total), append(append([][]byte{}, big[1:]...), fch...))
	}

	// (b) structured hostile requests that pass the signature checks
	hostile := func(detail string, mut func(*types.FetchNodeCredentialsInfo), post func(*types.FetchNodeCredentialsRequest)) {
		info := world.BaseInfo(att, enc.Pub, world.RandBytes(32))
		if mut != nil {
			mut(info)
		}
		req := world.Sign(info, att.Priv)
		if post != nil {
			post(req)
		}
		b, _ := proto.Marshal(req)
		add("signed-hostile", detail, protosOf(fp, b64(b)))
	}
	for _, n := range []int{0, 1, 5, 11, 12, 13, 27, 28, 40} {
		n := n
		hostile(fmt.Sprintf("wrapped blob ciphertext %d bytes", n), func(i *types.FetchNodeCredentialsInfo) { i.WrappedRegistrationInfo = shortBlob(n) }, nil)
		hostile(fmt.Sprintf("rewrapped blob ciphertext %d bytes, registered key id", n), nil, func(r *types.FetchNodeCredentialsRequest) {
			r.RewrappedWrappingRegistrationFlowInfo = shortBlob(n)
			r.RewrappingKeyId = w.reg.K.KeyID
		})
	}
	hostile("wrapped blob garbage", func(i *types.FetchNodeCredentialsInfo) { i.WrappedRegistrationInfo = world.RandBytes(40) }, nil)
	hostile("rewrapped garbage, registered key id", nil, func(r *types.FetchNodeCredentialsRequest) {
		r.RewrappedWrappingRegistrationFlowInfo = world.RandBytes(60)
		r.RewrappingKeyId = w.reg.K.KeyID
	})
	hostile("rewrapped, unknown key id", nil, func(r *types.FetchNodeCredentialsRequest) {
		r.RewrappedWrappingRegistrationFlowInfo = shortBlob(3)
		r.RewrappingKeyId = "no-such-key"
	})
	hostile("rewrapped, empty key id", nil, func(r *types.FetchNodeCredentialsRequest) { r.RewrappedWrappingRegistrationFlowInfo = shortBlob(3) })
	for _, n := range []int{1, 31, 33, 64, 200} {
		n := n
		hostile(fmt.Sprintf("nonce %d random bytes", n), func(i *types.FetchNodeCredentialsInfo) { i.Nonce = world.RandBytes(n) }, nil)
	}
	hostile("token-shaped nonce, unknown token", func(i *types.FetchNodeCredentialsInfo) {
		i.Nonce, _ = proto.Marshal(&types.ServerLedActivationTokenNonce{Nonce: world.RandBytes(32), HmacKeyBytes: world.RandBytes(32)})
	}, nil)
	hostile("token-shaped nonce, empty hmac", func(i *types.FetchNodeCredentialsInfo) {
		i.Nonce, _ = proto.Marshal(&types.ServerLedActivationTokenNonce{Nonce: world.RandBytes(32)})
	}, nil)
	hostile("token-shaped nonce, huge fields", func(i *types.FetchNodeCredentialsInfo) {
		i.Nonce, _ = proto.Marshal(&types.ServerLedActivationTokenNonce{Nonce: world.RandBytes(3000), HmacKeyBytes: world.RandBytes(3000)})
	}, nil)
	hostile("nil timestamps", func(i *types.FetchNodeCredentialsInfo) { i.NotBefore, i.NotAfter = nil, nil }, nil)
	hostile("bad pkix", func(i *types.FetchNodeCredentialsInfo) { i.CertificatePublicKeyPkix = world.RandBytes(44) }, nil)
	// a valid PKIX encoding of a key of another algorithm under the declared type ed25519
	hostile("ecdsa pkix declared as ed25519", func(i *types.FetchNodeCredentialsInfo) { i.CertificatePublicKeyPkix = sfEcdsaPkix() }, nil)
	hostile("rsa pkix declared as ed25519", func(i *types.FetchNodeCredentialsInfo) {
		if c := oddClientCert("rsa"); c != nil {
			if leaf, err := x509.ParseCertificate(c.Certificate[0]); err == nil {
				i.CertificatePublicKeyPkix, _ = x509.MarshalPKIXPublicKey(leaf.PublicKey)
			}
		}
	}, nil)
	hostile("x25519-sized raw key as pkix", func(i *types.FetchNodeCredentialsInfo) { i.CertificatePublicKeyPkix = enc.Pub }, nil)
	hostile("key type enum out of range", func(i *types.FetchNodeCredentialsInfo) { i.CertificatePublicKeyType = 77 }, nil)
	hostile("encryption key type enum out of range", func(i *types.FetchNodeCredentialsInfo) { i.EncryptionPublicKeyType = 77 }, nil)
	hostile("encryption key 5 bytes", func(i *types.FetchNodeCredentialsInfo) { i.EncryptionPublicKeyBytes = world.RandBytes(5) }, nil)
	hostile("encryption key all zero", func(i *types.FetchNodeCredentialsInfo) { i.EncryptionPublicKeyBytes = make([]byte, 32) }, nil)
	hostile("fetch for a registered key with another nonce", func(i *types.FetchNodeCredentialsInfo) {}, nil)
	// (b2) the same kind of request after the operator authorized it (AuthorizeNode looks at the signed
	// bundle, not at every field in it) or carried by a valid activation token: the listener now goes all the
	// way to encrypting credentials for whatever the node put into its request
	authorized := func(detail string, mut func(*types.FetchNodeCredentialsInfo)) {
		k := world.NewKeys()
		info := world.BaseInfo(k, enc.Pub, world.RandBytes(32))
		mut(info)
		req := world.Sign(info, k.Priv)
		if _, err := registration.AuthorizeNode(w.s.Ctx, w.s.Store, req, w.s.Opts()...); err != nil {
			c.R.Count("authorize_refused_odd_request", 1)
			return
		}
		b, _ := proto.Marshal(req)
		add("authorized-hostile", "operator-authorized, "+detail, protosOf(fp, b64(b)))
	}
	tokened := func(detail string, mut func(*types.FetchNodeCredentialsInfo)) {
		_, tok, err := registration.CreateServerLedActivationToken(w.s.Ctx, w.s.Store, &types.ServerLedRegistrationRequest{}, w.s.Opts()...)
		if err != nil {
			return
		}
		n, err := world.NewNode(false, tok)
		if err != nil {
			return
		}
		hr, err := n.FetchRequest()
		if err != nil {
			return
		}
		info := world.DecodeInfo(hr)
		if info == nil {
			return
		}
		mut(info)
		b, _ := proto.Marshal(world.Sign(info, n.K.Priv))
		add("authorized-hostile", "valid activation token, "+detail, protosOf(fp, b64(b)))
	}
	for _, n := range []int{1, 16, 31, 33, 64} {
		n := n
		for _, f := range []func(string, func(*types.FetchNodeCredentialsInfo)){authorized, tokened} {
			f(fmt.Sprintf("encryption key %d bytes", n), func(i *types.FetchNodeCredentialsInfo) { i.EncryptionPublicKeyBytes = world.RandBytes(n) })
		}
	}
	for _, f := range []func(string, func(*types.FetchNodeCredentialsInfo)){authorized, tokened} {
		f("encryption key all zero", func(i *types.FetchNodeCredentialsInfo) { i.EncryptionPublicKeyBytes = make([]byte, 32) })
		f("encryption key type enum out of range", func(i *types.FetchNodeCredentialsInfo) { i.EncryptionPublicKeyType = 77 })
	}
	// auth requests with odd fields
	authHostile := func(detail string, mut func(*types.GenerateServerCertificatesRequest)) {
		n := world.RandBytes(32)
		req := &types.GenerateServerCertificatesRequest{CertificatePublicKeyPkix: w.reg.K.Pkix, Nonce: n, NonceSignature: ed25519.Sign(w.reg.K.Priv, n)}
		mut(req)
		b, _ := proto.Marshal(req)
		add("auth-hostile", detail, protosOf(ap, b64(b)))
	}
	authHostile("client state not a struct, signed", func(r *types.GenerateServerCertificatesRequest) {
		r.ClientState = world.RandBytes(50)
		r.ClientStateSignature = ed25519.Sign(w.reg.K.Priv, r.ClientState)
	})
	authHostile("empty pkix", func(r *types.GenerateServerCertificatesRequest) { r.CertificatePublicKeyPkix = nil })
	authHostile("garbage pkix", func(r *types.GenerateServerCertificatesRequest) { r.CertificatePublicKeyPkix = world.RandBytes(10) })
	// well-formed public keys of algorithms the library does not use for node certificates
	for name, pk := range fzForeignPkix() {
		pk := pk
		authHostile("certificate key is a well-formed "+name+" key", func(r *types.GenerateServerCertificatesRequest) { r.CertificatePublicKeyPkix = pk })
		authHostile("certificate key is a well-formed "+name+" key, node id set", func(r *types.GenerateServerCertificatesRequest) {
			r.CertificatePublicKeyPkix, r.NodeId = pk, "N"
		})
	}
	authHostile("common name 300 chars", func(r *types.GenerateServerCertificatesRequest) { r.CommonName = string(make([]byte, 300)) })
	authHostile("common name with NUL and unicode", func(r *types.GenerateServerCertificatesRequest) { r.CommonName = "a\x00b☃.example" })
	authHostile("node id set", func(r *types.GenerateServerCertificatesRequest) { r.NodeId = "some-node" })
	// node ID "N" (in the worlds with wrappers: one readable and one unreadable record under it)
	authHostile("node id N, registered key", func(r *types.GenerateServerCertificatesRequest) { r.NodeId = "N" })
	authHostile("node id N, unregistered key", func(r *types.GenerateServerCertificatesRequest) {
		k := world.NewKeys()
		r.NodeId, r.CertificatePublicKeyPkix, r.NonceSignature = "N", k.Pkix, ed25519.Sign(k.Priv, r.Nonce)
	})
	authHostile("node id N, no signature", func(r *types.GenerateServerCertificatesRequest) { r.NodeId, r.NonceSignature = "N", nil })
	authHostile("nonce 1 byte", func(r *types.GenerateServerCertificatesRequest) {
		r.Nonce = []byte{1}
		r.NonceSignature = ed25519.Sign(w.reg.K.Priv, r.Nonce)
	})
	authHostile("nonce 5000 bytes", func(r *types.GenerateServerCertificatesRequest) {
		r.Nonce = world.RandBytes(5000)
		r.NonceSignature = ed25519.Sign(w.reg.K.Priv, r.Nonce)
	})
	authHostile("signature 3 bytes", func(r *types.GenerateServerCertificatesRequest) { r.NonceSignature = []byte{1, 2, 3} })
	// well-signed requests accompanied by certificate-preference entries the
	// server cannot or need not honor (unknown root, empty, long, repeated,
	// the real roots) before and after the request's entries
	var rootIDs []string
	if roots, err := types.LoadRootCertificates(w.s.Ctx, w.s.Store, w.s.Opts()...); err == nil {
		for _, rc := range []*types.RootCertificate{roots.Current, roots.Next} {
			if rc != nil {
				rootIDs = append(rootIDs, rc.Id)
			}
		}
	}
	prefLists := map[string][]string{
		"unknown":        {cp + "no-such-root-key-id"},
		"empty":          {cp},
		"long":           {cp + strings.Repeat("k", 255-len(cp))},
		"two unknown":    {cp + "one", cp + "two"},
		"key-id shaped":  {cp + att.KeyID},
		"node's own key": {cp + w.reg.K.KeyID},
	}
	for i, id := range rootIDs {
		prefLists[fmt.Sprintf("root %d", i)] = []string{cp + id}
		prefLists[fmt.Sprintf("unknown then root %d", i)] = []string{cp + "nope", cp + id}
		prefLists[fmt.Sprintf("root %d then unknown", i)] = []string{cp + id, cp + "nope"}
	}
	prefNames := make([]string, 0, len(prefLists))
	for k := range prefLists {
		prefNames = append(prefNames, k)
	}
	sort.Strings(prefNames)
	for _, pn := range prefNames {
		var prefs [][]byte
		for _, e := range prefLists[pn] {
			prefs = append(prefs, []byte(e))
		}
		for _, before := range []bool{false, true} {
			n := world.RandBytes(32)
			areq := &types.GenerateServerCertificatesRequest{CertificatePublicKeyPkix: w.reg.K.Pkix, Nonce: n, NonceSignature: ed25519.Sign(w.reg.K.Priv, n)}
			ab, _ := proto.Marshal(areq)
			freq := world.Sign(world.BaseInfo(att, enc.Pub, world.RandBytes(32)), att.Priv)
			fb, _ := proto.Marshal(freq)
			for _, it := range []struct {
				what string
				l    [][]byte
			}{{"auth", protosOf(ap, b64(ab))}, {"fetch", protosOf(fp, b64(fb))}} {
				var l [][]byte
				if before {
					l = append(append(l, prefs...), it.l...)
				} else {
					l = append(append(l, it.l...), prefs...)
				}
				add("signed-with-certpref", fmt.Sprintf("%s, preference %s, before=%v", it.what, pn, before), l)
			}
		}
	}

	// well-formed requests presented with client certificates the library never issues
	// (other key types, no certificate at all)
	for _, ck := range []string{"ecdsa", "rsa", "ecdsa-no-ski", "none"} {
		n := world.RandBytes(32)
		areq := &types.GenerateServerCertificatesRequest{CertificatePublicKeyPkix: w.reg.K.Pkix, Nonce: n, NonceSignature: ed25519.Sign(w.reg.K.Priv, n)}
		ab, _ := proto.Marshal(areq)
		fk := world.NewKeys()
		fb, _ := proto.Marshal(world.Sign(world.BaseInfo(fk, enc.Pub, world.RandBytes(32)), fk.Priv))
		for _, it := range []struct {
			what string
			l    [][]byte
		}{{"signed auth", protosOf(ap, b64(ab))}, {"signed fetch", protosOf(fp, b64(fb))}, {"auth then fetch", append(protosOf(ap, b64(ab)), protosOf(fp, b64(fb))...)}, {"h2", [][]byte{[]byte("h2")}}} {
			if validALPN(it.l) {
				out = append(out, fzCase{Class: "odd-client-cert", Detail: it.what + " with " + ck + " certificate", Protos: it.l, Cert: ck, Config: w.cfg})
			}
		}
	}

	// (c) single-byte mutations of honest requests
	nm := c.Pick(300, 0)
	for _, it := range []struct {
		p string
		b []byte
	}{{fp, hfBytes}, {ap, haBytes}} {
		positions := rng.Perm(len(it.b))
		if nm > 0 && nm < len(positions) {
			positions = positions[:nm]
		}
		for _, pos := range positions {
			for rep := 0; rep < c.Pick(1, 4); rep++ {
				m := append([]byte{}, it.b...)
				m[pos] = byte(rng.Intn(256))
				add("byte-mutation", fmt.Sprintf("%s pos %d #%d", it.p, pos, rep), protosOf(it.p, b64(m)))
			}
		}
	}

	// (d) raw non-TLS bytes
	raws := [][]byte{{}, []byte("GET / HTTP/1.1\r\nHost: x\r\n\r\n"), {0x16, 0x03, 0x01, 0xff, 0xff}, {0x16, 0x03, 0x03, 0x00, 0x00}, {0x80, 0x2e, 0x01, 0x00, 0x02}, []byte(fp + "00-AAAA"), {0x15, 0x03, 0x03, 0x00, 0x02, 0x02, 0x28}}
	for i := 0; i < c.Pick(60, 1500); i++ {
		b := make([]byte, rng.Intn(1500))
		rng.Read(b)
		if rng.Intn(2) == 0 && len(b) > 5 {
			b[0], b[1], b[2] = 0x16, 0x03, 0x01
		}
		raws = append(raws, b)
	}
	hello := captureClientHello(fch)
	for l := 1; l < len(hello); l += c.Pick(11, 1) {
		raws = append(raws, hello[:l])
	}
	for i := 0; i < c.Pick(80, 1500) && len(hello) > 10; i++ {
		m := append([]byte{}, hello...)
		m[5+rng.Intn(len(m)-5)] = byte(rng.Intn(256))
		raws = append(raws, m)
	}
	for i, b := range raws {
		out = append(out, fzCase{Class: "raw", Detail: fmt.Sprintf("#%d %d bytes", i, len(b)), Raw: append([]byte{}, b...), Config: w.cfg})
	}
	// structurally valid ClientHellos with fields and extensions left out, emptied or repeated
	for _, it := range []struct {
		what string
		base []byte
	}{{"fetch hello", hello}, {"auth hello", captureClientHello(ach)}, {"plain h2 hello", captureClientHello([][]byte{[]byte("h2")})}} {
		for _, ch := range craftedHellos(it.base, it.what) {
			out = append(out, fzCase{Class: "crafted-hello", Detail: ch.detail, Raw: ch.raw, Config: w.cfg})
		}
	}

	// (e) connections dropped at every handshake stage, for fetch / auth / plain clients
	for _, pr := range [][][]byte{fch, ach, {[]byte("h2")}} {
		for cw := 1; cw <= 4; cw++ {
			out = append(out, fzCase{Class: "dropped", Detail: fmt.Sprintf("at write %d", cw), Protos: pr, CutW: cw, Config: w.cfg})
		}
		for cr := 1; cr <= 4; cr++ {
			out = append(out, fzCase{Class: "dropped", Detail: fmt.Sprintf("after read %d", cr), Protos: pr, CutR: cr, Config: w.cfg})
		}
		out = append(out, fzCase{Class: "no-client-cert", Detail: "", Protos: pr, Cert: "none", Config: w.cfg})
	}
	return out
}

// captureClientHello records the first flight a crypto/tls client writes
func captureClientHello(protos [][]byte) []byte {
	cl, sv := net.Pipe()
	var got []byte
	var wg sync.WaitGroup
	wg.Add(1)
	go func() {
		defer wg.Done()
		buf := make([]byte, 70000)
		_ = sv.SetReadDeadline(time.Now().Add(5 * time.Second))
		n, _ := io.ReadAtLeast(sv, buf, 5)
		if n >= 5 {
			want := 5 + int(buf[3])<<8 + int(buf[4])
			for n < want {
				m, err := sv.Read(buf[n:])
				n += m
				if err != nil {
					break
				}
			}
		}
		got = append([]byte{}, buf[:n]...)
		sv.Close()
	}()
	ps := make([]string, len(protos))
	for i, p := range protos {
		ps[i] = string(p)
	}
	c := tls.Client(cl, &tls.Config{NextProtos: ps, InsecureSkipVerify: true, MinVersion: tls.VersionTLS13})
	_ = c.Handshake()
	cl.Close()
	wg.Wait()
	return got
}

func runFuzzListen(c *engine.Ctx) engine.Result {
	r := c.R
	res := engine.Result{
		Rule:        "case = one hostile connection (ALPN list built from the library prefixes with a suffix class, a well-signed hostile request, a byte mutation of an honest request, raw bytes, or a connection dropped at a handshake stage) against one of four listener configurations {base TLS y/n} x {aead storage+registration wrappers y/n}; non-trivial = bytes were delivered to the listener; distinct by (class, detail, configuration). Monitors: recover() around Accept, Temporary() on each accept error, canary honest dial after every 25 inputs.",
		Assumptions: []string{"peers that stall without sending are outside the quantifier (they only trip the watchdog)", "inputs are limited to what a crypto/tls client can put into a ClientHello plus raw byte strings"},
	}
	if c.Replay != nil {
		var fc fzCase
		if err := json.Unmarshal(c.Replay, &fc); err != nil {
			r.Broken("bad replay: " + err.Error())
			return res
		}
		w := newFzWorld(fc.Config)
		defer w.close()
		w.runCase(c, fc)
		w.canaryDial(c, fc.Class)
		return res
	}
	var total atomic.Int64
	var wg sync.WaitGroup
	for cfg := 0; cfg < 4; cfg++ {
		wg.Add(1)
		go func(cfg int) {
			defer wg.Done()
			w := newFzWorld(cfg)
			defer func() {
				if !w.dead {
					w.close()
				}
			}()
			rng := c.Rng(fmt.Sprintf("fuzz-%d", cfg))
			cases := w.genCases(c, rng)
			rng.Shuffle(len(cases), func(i, j int) { cases[i], cases[j] = cases[j], cases[i] })
			if cfg == 0 && len(cases) > 2 {
				r.Sample(map[string]any{"class": cases[0].Class, "detail": cases[0].Detail})
				r.Sample(map[string]any{"class": cases[1].Class, "detail": cases[1].Detail, "alpn_entries": len(cases[1].Protos), "raw_len": len(cases[1].Raw)})
			}
			if !w.canaryDial(c, "start") {
				r.Inconclusive("canary cannot connect before any hostile input")
				return
			}
			// meanwhile the operator uses the same storage: activation tokens are issued and withdrawn
			stopOp := make(chan struct{})
			opDone := make(chan struct{})
			go func() {
				defer close(opDone)
				for {
					select {
					case <-stopOp:
						return
					default:
					}
					id, _, err := registration.CreateServerLedActivationToken(w.s.Ctx, w.s.Store, &types.ServerLedRegistrationRequest{}, w.s.Opts()...)
					if err == nil {
						_ = w.s.Inner.Remove(w.s.Ctx, &types.ServerLedActivationToken{Id: id})
						r.Count("operator_tokens_issued_and_withdrawn_during_hostile_input", 1)
					}
					time.Sleep(200 * time.Microsecond)
				}
			}()
			defer func() {
				close(stopOp)
				select {
				case <-opDone:
				case <-time.After(10 * time.Second):
				}
			}()
			for i, fc := range cases {
				if w.fatals >= 3 || w.dead {
					break // every hostile connection stops the listener: nothing more to learn from this world
				}
				w.runCase(c, fc)
				total.Add(1)
				// an honest node right behind every input that breaks off inside the library's own
				// ALPN parsing (whatever such an input leaves behind must not reach the next handshake),
				// and after every 25 inputs otherwise
				switch {
				case strings.HasPrefix(fc.Class, "suffix-") || strings.HasPrefix(fc.Class, "chunk") || fc.Class == "mixed":
					w.canaryDial(c, fc.Class+" ("+fc.Detail+")")
					r.Count("canary_directly_after_a_parse_failure", 1)
				case (i+1)%25 == 0:
					w.canaryDial(c, fc.Class+" batch")
				}
			}
			if w.dead {
				return
			}
			w.canaryDial(c, "end")
			if w.dead {
				return
			}
			// after Close the error must be non-temporary
			_ = w.lw.IL.Close()
			_, err := w.lw.IL.Accept()
			ownSentinel := cfg&1 != 0
			switch {
			case err == nil || world.IsTemporary(err):
				r.Violation("closed-listener-error", fmt.Sprintf("Accept after Close returned %v (temporary=%v; base listener reports closure with its own sentinel: %v)", err, err != nil && world.IsTemporary(err), ownSentinel), map[string]any{"listener_config": cfg})
			case !ownSentinel && !errors.Is(err, net.ErrClosed):
				r.Violation("closed-listener-error", fmt.Sprintf("Accept after Close returned %v, which is not net.ErrClosed", err), map[string]any{"listener_config": cfg})
			default:
				r.Count("closed_listener_reports_non_temporary", 1)
				if ownSentinel {
					r.Count("closed_listener_reports_non_temporary:own-sentinel", 1)
				}
			}
		}(cfg)
	}
	wg.Wait()
	r.Set("connections", total.Load())
	r.Require("canary_connects", 8)
	r.Require("canary_directly_after_a_parse_failure", 100)
	r.Require("temporary_errors", 50)
	r.Require("class:signed-hostile", 10)
	r.Require("class:authorized-hostile", 8)
	r.Require("class:signed-with-certpref", 10)
	r.Require("class:odd-client-cert", 16)
	r.Require("class:crafted-hello", 100)
	r.Require("class:huge-alpn", 16)
	r.Require("class:raw", 10)
	r.Require("class:dropped", 10)
	r.Require("closed_listener_reports_non_temporary", 4)
	r.Require("closed_listener_reports_non_temporary:own-sentinel", 2)
	return res
}
