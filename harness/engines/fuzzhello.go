package engines

// Structural edits of a real ClientHello (C14): the record crypto/tls wrote is
// taken apart into its fields and extensions and put together again with a
// chosen legacy version and with extensions dropped, emptied, replaced or
// repeated. The result is still a syntactically valid ClientHello; what it
// lacks is what a sloppy client, an old stack or a prober would leave out.

import (
	"encoding/binary"
	"fmt"
)

type helloExt struct {
	typ  uint16
	data []byte
}

type helloParts struct {
	legacy      uint16
	random      []byte
	sessionID   []byte
	suites      []byte
	compression []byte
	exts        []helloExt
}

func parseHello(rec []byte) (*helloParts, bool) {
	if len(rec) < 5+4+2+32+1 || rec[0] != 0x16 || rec[5] != 0x01 {
		return nil, false
	}
	b := rec[9:]
	h := &helloParts{}
	rd := func(n int) ([]byte, bool) {
		if len(b) < n {
			return nil, false
		}
		out := b[:n]
		b = b[n:]
		return out, true
	}
	v, ok := rd(2)
	if !ok {
		return nil, false
	}
	h.legacy = binary.BigEndian.Uint16(v)
	if h.random, ok = rd(32); !ok {
		return nil, false
	}
	l, ok := rd(1)
	if !ok {
		return nil, false
	}
	if h.sessionID, ok = rd(int(l[0])); !ok {
		return nil, false
	}
	if l, ok = rd(2); !ok {
		return nil, false
	}
	if h.suites, ok = rd(int(binary.BigEndian.Uint16(l))); !ok {
		return nil, false
	}
	if l, ok = rd(1); !ok {
		return nil, false
	}
	if h.compression, ok = rd(int(l[0])); !ok {
		return nil, false
	}
	if l, ok = rd(2); !ok {
		return nil, false
	}
	ext, ok := rd(int(binary.BigEndian.Uint16(l)))
	if !ok {
		return nil, false
	}
	for len(ext) >= 4 {
		t := binary.BigEndian.Uint16(ext[:2])
		n := int(binary.BigEndian.Uint16(ext[2:4]))
		if len(ext) < 4+n {
			return nil, false
		}
		h.exts = append(h.exts, helloExt{typ: t, data: append([]byte{}, ext[4:4+n]...)})
		ext = ext[4+n:]
	}
	return h, true
}

func (h *helloParts) build() []byte {
	var exts []byte
	for _, e := range h.exts {
		exts = binary.BigEndian.AppendUint16(exts, e.typ)
		exts = binary.BigEndian.AppendUint16(exts, uint16(len(e.data)))
		exts = append(exts, e.data...)
	}
	var body []byte
	body = binary.BigEndian.AppendUint16(body, h.legacy)
	body = append(body, h.random...)
	body = append(body, byte(len(h.sessionID)))
	body = append(body, h.sessionID...)
	body = binary.BigEndian.AppendUint16(body, uint16(len(h.suites)))
	body = append(body, h.suites...)
	body = append(body, byte(len(h.compression)))
	body = append(body, h.compression...)
	body = binary.BigEndian.AppendUint16(body, uint16(len(exts)))
	body = append(body, exts...)
	hs := []byte{0x01, byte(len(body) >> 16), byte(len(body) >> 8), byte(len(body))}
	hs = append(hs, body...)
	if len(hs) > 0xffff {
		return nil
	}
	rec := []byte{0x16, 0x03, 0x01, byte(len(hs) >> 8), byte(len(hs))}
	return append(rec, hs...)
}

func (h *helloParts) clone() *helloParts {
	c := *h
	c.exts = append([]helloExt{}, h.exts...)
	return &c
}

func (h *helloParts) without(typ uint16) *helloParts {
	c := h.clone()
	c.exts = c.exts[:0]
	for _, e := range h.exts {
		if e.typ != typ {
			c.exts = append(c.exts, e)
		}
	}
	return c
}

func (h *helloParts) with(typ uint16, data []byte) *helloParts {
	c := h.clone()
	for i := range c.exts {
		if c.exts[i].typ == typ {
			c.exts[i] = helloExt{typ: typ, data: data}
			return c
		}
	}
	c.exts = append(c.exts, helloExt{typ: typ, data: data})
	return c
}

type craftedHello struct {
	detail string
	raw    []byte
}

// craftedHellos derives structurally valid variants from a captured ClientHello
func craftedHellos(base []byte, what string) []craftedHello {
	h, ok := parseHello(base)
	if !ok {
		return nil
	}
	const (
		extServerName    = 0
		extGroups        = 10
		extSigAlgs       = 13
		extALPN          = 16
		extVersions      = 43
		extPSKModes      = 45
		extKeyShare      = 51
		extRenegotiation = 0xff01
	)
	var out []craftedHello
	add := func(detail string, p *helloParts) {
		if raw := p.build(); raw != nil {
			out = append(out, craftedHello{detail: what + ": " + detail, raw: raw})
		}
	}
	add("rebuilt unchanged", h)
	// no supported_versions extension: the legacy version field is all the server has
	for _, lv := range []uint16{0x0000, 0x0002, 0x0300, 0x0301, 0x0302, 0x0303, 0x0304, 0x0305, 0x7f17, 0xffff} {
		p := h.without(extVersions)
		p.legacy = lv
		add(fmt.Sprintf("no supported_versions, legacy version %#04x", lv), p)
	}
	// supported_versions present but unusual
	for name, data := range map[string][]byte{
		"empty list":         {0},
		"empty extension":    {},
		"only unknown":       {4, 0x7f, 0x17, 0x0a, 0x0a},
		"only ssl3":          {2, 0x03, 0x00},
		"only tls1.2":        {2, 0x03, 0x03},
		"tls1.2 then tls1.3": {4, 0x03, 0x03, 0x03, 0x04},
		"odd length":         {3, 0x03, 0x04, 0x03},
		"length beyond data": {8, 0x03, 0x04},
	} {
		add("supported_versions "+name, h.with(extVersions, data))
	}
	// other extensions dropped or emptied
	for name, typ := range map[string]uint16{"key_share": extKeyShare, "signature_algorithms": extSigAlgs, "supported_groups": extGroups, "psk_key_exchange_modes": extPSKModes, "server_name": extServerName, "renegotiation_info": extRenegotiation} {
		add("without "+name, h.without(typ))
		add("empty "+name, h.with(typ, []byte{}))
	}
	// ALPN extension repeated, emptied, with a zero-length name
	for _, e := range h.exts {
		if e.typ == extALPN {
			p := h.clone()
			p.exts = append(p.exts, e)
			add("alpn extension twice", p)
			add("alpn list length zero", h.with(extALPN, []byte{0, 0}))
			add("alpn with an empty name in front", h.with(extALPN, append([]byte{byte((len(e.data) - 2 + 1) >> 8), byte(len(e.data) - 2 + 1), 0}, e.data[2:]...)))
		}
	}
	// no extensions at all, empty cipher suites, no compression methods
	p := h.clone()
	p.exts = nil
	add("no extensions", p)
	p = h.clone()
	p.suites = nil
	add("no cipher suites", p)
	p = h.clone()
	p.compression = nil
	add("no compression methods", p)
	p = h.clone()
	p.sessionID = make([]byte, 32)
	add("32-byte zero session id", p)
	return out
}
