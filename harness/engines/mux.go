package engines

// C18 — the multiplexing listener never loses, duplicates or strands
// connections. Schedule-controlled executions (every start order of small
// operation sets, with operations optionally held at verifhook points) and
// randomized stress, under the race detector, with per-connection accounting.

import (
	"bytes"
	"context"
	"encoding/json"
	"errors"
	"fmt"
	"net"
	"os"
	"runtime"
	"sort"
	"strconv"
	"strings"
	"sync"
	"sync/atomic"
	"time"

	nodenet "github.com/hashicorp/nodeenrollment/net"
	"github.com/hashicorp/nodeenrollment/util/verifhook"

	"verifharness/engine"
)

func init() {
	engine.Register(&engine.Spec{Prop: "C18", Engine: "mux", Level: "exploration", Race: true, Fn: runMux})
}

// acctConn is an instrumented connection
type acctConn struct {
	id       int
	closes   atomic.Int32
	returned atomic.Int32
	// shape, if set, is what is handed to the listener in place of the struct pointer (see shapeConn)
	shape *shapeConn
}

// shapeConn is a connection of another Go shape: a pointer to a named slice that is still nil (a connection
// that records its events in itself and has not seen one yet). It is a non-nil net.Conn like any other; the
// accounting lives in the acctConn it belongs to.
type shapeConn []string

var shapeOwners sync.Map // *shapeConn -> *acctConn

func (c *shapeConn) owner() *acctConn {
	v, _ := shapeOwners.Load(c)
	ac, _ := v.(*acctConn)
	return ac
}
func (c *shapeConn) Read([]byte) (int, error)    { return 0, errors.New("acct") }
func (c *shapeConn) Write(b []byte) (int, error) { return len(b), nil }
func (c *shapeConn) Close() error {
	if ac := c.owner(); ac != nil {
		ac.closes.Add(1)
	}
	return nil
}
func (c *shapeConn) LocalAddr() net.Addr              { return muxAddr{} }
func (c *shapeConn) RemoteAddr() net.Addr             { return muxAddr{} }
func (c *shapeConn) SetDeadline(time.Time) error      { return nil }
func (c *shapeConn) SetReadDeadline(time.Time) error  { return nil }
func (c *shapeConn) SetWriteDeadline(time.Time) error { return nil }

// newAcctConn: every fifth connection goes to the listener in the other shape
func newAcctConn(id int) *acctConn {
	ac := &acctConn{id: id}
	if id%5 == 3 {
		ac.shape = new(shapeConn)
		shapeOwners.Store(ac.shape, ac)
	}
	return ac
}

// wire is the value handed to the listener for this connection
func (c *acctConn) wire() net.Conn {
	if c.shape != nil {
		return c.shape
	}
	return c
}

// acctOf maps what the listener returned back to the accounting object
func acctOf(cn net.Conn) (*acctConn, bool) {
	switch v := cn.(type) {
	case *acctConn:
		return v, v != nil
	case *shapeConn:
		ac := v.owner()
		return ac, ac != nil
	}
	return nil, false
}

func (c *acctConn) Read([]byte) (int, error)         { return 0, errors.New("acct") }
func (c *acctConn) Write(b []byte) (int, error)      { return len(b), nil }
func (c *acctConn) Close() error                     { c.closes.Add(1); return nil }
func (c *acctConn) LocalAddr() net.Addr              { return muxAddr{} }
func (c *acctConn) RemoteAddr() net.Addr             { return muxAddr{} }
func (c *acctConn) SetDeadline(time.Time) error      { return nil }
func (c *acctConn) SetReadDeadline(time.Time) error  { return nil }
func (c *acctConn) SetWriteDeadline(time.Time) error { return nil }

type muxAddr struct{}

func (muxAddr) Network() string { return "mux" }
func (muxAddr) String() string  { return "mux" }

func curGID() int64 {
	var buf [64]byte
	n := runtime.Stack(buf[:], false)
	s := string(buf[:n])
	s = strings.TrimPrefix(s, "goroutine ")
	if i := strings.IndexByte(s, ' '); i > 0 {
		id, _ := strconv.ParseInt(s[:i], 10, 64)
		return id
	}
	return -1
}

type gInfo struct {
	state string
	lib   bool // has a nodeenrollment/net frame
}

// snapshotAll takes a consistent dump of all goroutines
func snapshotAll() map[int64]gInfo {
	buf := make([]byte, 1<<16)
	for {
		n := runtime.Stack(buf, true)
		if n < len(buf) {
			buf = buf[:n]
			break
		}
		buf = make([]byte, 2*len(buf))
	}
	out := map[int64]gInfo{}
	for _, blk := range bytes.Split(buf, []byte("\n\n")) {
		s := string(blk)
		if !strings.HasPrefix(s, "goroutine ") {
			continue
		}
		hdr := s
		if i := strings.IndexByte(s, '\n'); i > 0 {
			hdr = s[:i]
		}
		rest := strings.TrimPrefix(hdr, "goroutine ")
		sp := strings.IndexByte(rest, ' ')
		if sp < 0 {
			continue
		}
		id, _ := strconv.ParseInt(rest[:sp], 10, 64)
		st := ""
		if a, b := strings.IndexByte(rest, '['), strings.IndexByte(rest, ']'); a >= 0 && b > a {
			st = rest[a+1 : b]
			if c := strings.IndexByte(st, ','); c > 0 {
				st = st[:c]
			}
		}
		out[id] = gInfo{state: st, lib: strings.Contains(s, "github.com/hashicorp/nodeenrollment/net.")}
	}
	return out
}

// snapshotAllWith returns the goroutines whose stack mentions the given text
func snapshotAllWith(text string) []string {
	buf := make([]byte, 1<<16)
	for {
		n := runtime.Stack(buf, true)
		if n < len(buf) {
			buf = buf[:n]
			break
		}
		buf = make([]byte, 2*len(buf))
	}
	var out []string
	for _, blk := range bytes.Split(buf, []byte("\n\n")) {
		if bytes.Contains(blk, []byte(text)) && bytes.Contains(blk, []byte("nodeenrollment/net.")) {
			out = append(out, string(blk[:40]))
		}
	}
	return out
}

func waiting(st string) bool {
	switch st {
	case "chan send", "chan receive", "select", "sync.RWMutex.Lock", "sync.RWMutex.RLock", "sync.Mutex.Lock",
		"semacquire", "sync.Cond.Wait", "select (no cases)", "chan send (nil chan)", "chan receive (nil chan)", "sync.WaitGroup.Wait":
		return true
	}
	return false
}

// ---------------------------------------------------------------------------

type muxOpSpec struct {
	Kind string `json:"op"`             // I ingress, A accept, C close, X parent cancel
	Hold bool   `json:"hold,omitempty"` // park at the operation's first hook point until the next operation has settled
	Err  bool   `json:"err,omitempty"`  // ingress only: the connection is handed in together with a non-nil error
	Nil  bool   `json:"nil,omitempty"`  // ingress only: an error-only entry (nil connection plus error), as a failing source produces
}

// errMuxIngress accompanies connections that are ingressed with an error (IngressConn passes both through).
var errMuxIngress = errors.New("harness: error ingressed together with a connection")

type muxCase struct {
	Ops     []muxOpSpec `json:"ops"`
	Release string      `json:"release"` // fifo | lifo: order in which still parked operations are released at the end
}

func (m muxCase) String() string {
	var sb strings.Builder
	for _, o := range m.Ops {
		sb.WriteString(o.Kind)
		if o.Hold {
			sb.WriteString("*")
		}
		if o.Err {
			sb.WriteString("!")
		}
		if o.Nil {
			sb.WriteString("0")
		}
	}
	return sb.String() + "/" + m.Release
}

type muxOp struct {
	spec     muxOpSpec
	idx      int
	gid      atomic.Int64
	finished atomic.Bool
	parked   atomic.Bool
	release  chan struct{}
	held     bool // has already been held once
	conn     *acctConn
	retConn  net.Conn
	retErr   error
	panicV   any
	stack    string
}

type muxCtl struct {
	mu     sync.Mutex
	byGID  map[int64]*muxOp
	events []string
}

var muxActive atomic.Pointer[muxCtl]
var muxSerial sync.Mutex // the hook is process-global: controlled executions run one at a time

func muxHook(point string) {
	ctl := muxActive.Load()
	if ctl == nil {
		return
	}
	gid := curGID()
	ctl.mu.Lock()
	op := ctl.byGID[gid]
	label := "?"
	if op != nil {
		label = fmt.Sprintf("%s%d", op.spec.Kind, op.idx)
	}
	ctl.events = append(ctl.events, label+"@"+strings.TrimPrefix(point, "mux."))
	hold := op != nil && op.spec.Hold && !op.held
	if hold {
		op.held = true
	}
	ctl.mu.Unlock()
	if hold {
		op.parked.Store(true)
		<-op.release
		op.parked.Store(false)
	}
}

func (ctl *muxCtl) settled(ops []*muxOp, watchdog time.Duration) (bool, map[int64]gInfo) {
	deadline := time.Now().Add(watchdog)
	for {
		snap := snapshotAll()
		ok := true
		for _, op := range ops {
			if op.finished.Load() {
				continue
			}
			gid := op.gid.Load()
			if gid == 0 {
				continue // not started yet
			}
			gi, found := snap[gid]
			if !found {
				// finished between the checks
				if !op.finished.Load() {
					ok = false
				}
				continue
			}
			if !waiting(gi.state) {
				ok = false
				break
			}
		}
		if ok {
			// library-internal goroutines (the drainer) must be idle as well
			tracked := map[int64]bool{}
			for _, op := range ops {
				tracked[op.gid.Load()] = true
			}
			for id, gi := range snap {
				if gi.lib && !tracked[id] && !waiting(gi.state) {
					ok = false
					break
				}
			}
		}
		if ok {
			return true, snap
		}
		if time.Now().After(deadline) {
			if os.Getenv("VERIF_MUX_DEBUG") != "" {
				for _, op := range ops {
					fmt.Fprintf(os.Stderr, "DEBUG op %s%d gid=%d finished=%v parked=%v state=%q\n", op.spec.Kind, op.idx, op.gid.Load(), op.finished.Load(), op.parked.Load(), snap[op.gid.Load()].state)
				}
				for id, gi := range snap {
					if gi.lib {
						fmt.Fprintf(os.Stderr, "DEBUG lib goroutine %d state=%q\n", id, gi.state)
					}
				}
			}
			return false, snap
		}
		runtime.Gosched()
	}
}

type muxStats struct {
	sigs map[string]struct{}
	mu   sync.Mutex
}

func runMuxCase(c *engine.Ctx, mc muxCase, stats *muxStats) {
	r := c.R
	muxSerial.Lock()
	defer muxSerial.Unlock()

	parent, cancel := context.WithCancel(context.Background())
	defer cancel()
	l, err := nodenet.NewMultiplexingListener(parent, muxAddr{})
	if err != nil {
		r.Broken(err.Error())
		return
	}
	ctl := &muxCtl{byGID: map[int64]*muxOp{}}
	muxActive.Store(ctl)
	verifhook.Set(muxHook)
	defer func() { verifhook.Set(nil); muxActive.Store(nil) }()

	var ops []*muxOp
	var conns []*acctConn
	counts := map[string]int{}
	for i, sp := range mc.Ops {
		op := &muxOp{spec: sp, idx: counts[sp.Kind], release: make(chan struct{})}
		counts[sp.Kind]++
		if sp.Kind == "I" && !sp.Nil {
			op.conn = newAcctConn(i)
			conns = append(conns, op.conn)
		}
		ops = append(ops, op)
	}
	wd := 20 * time.Second
	if os.Getenv("VERIF_MUX_DEBUG") != "" {
		wd = 2 * time.Second
	}
	startOp := func(op *muxOp) {
		ready := make(chan struct{})
		go func() {
			gid := curGID()
			op.gid.Store(gid)
			ctl.mu.Lock()
			ctl.byGID[gid] = op
			ctl.mu.Unlock()
			close(ready)
			defer func() {
				if x := recover(); x != nil {
					op.panicV = x
					buf := make([]byte, 8192)
					op.stack = string(buf[:runtime.Stack(buf, false)])
				}
				op.finished.Store(true)
			}()
			switch op.spec.Kind {
			case "I":
				if op.spec.Nil {
					l.IngressConn(nil, errMuxIngress)
				} else if op.spec.Err {
					l.IngressConn(op.conn.wire(), errMuxIngress)
				} else {
					l.IngressConn(op.conn.wire(), nil)
				}
			case "A":
				op.retConn, op.retErr = l.Accept()
			case "C":
				op.retErr = l.Close()
			case "X":
				cancel()
			}
		}()
		<-ready
	}

	windows := map[string]bool{}
	noteWindows := func(started *muxOp) {
		// which narrow windows are open while this operation starts
		for _, o := range ops {
			if !o.parked.Load() {
				continue
			}
			switch {
			case o.spec.Kind == "A" && (started.spec.Kind == "C" || started.spec.Kind == "X"):
				windows["accept_received_then_cancelled_before_recheck"] = true
			case o.spec.Kind == "I" && (started.spec.Kind == "C"):
				windows["ingress_passed_closed_check_then_close_ran"] = true
			case o.spec.Kind == "C" && started.spec.Kind == "I":
				windows["close_draining_while_new_sender_arrives"] = true
			}
		}
	}
	inconclusive := false
	var prev *muxOp
	for _, op := range ops {
		noteWindows(op)
		startOp(op)
		ok, snapNow := ctl.settled(ops, wd)
		if !ok {
			inconclusive = true
			break
		}
		for _, o := range ops {
			if o.spec.Kind == "C" && !o.finished.Load() && o.gid.Load() != 0 && snapNow[o.gid.Load()].state == "sync.RWMutex.Lock" {
				windows["close_blocked_on_write_lock_while_sender_holds_read_lock"] = true
			}
		}
		// an operation held at a hook point is released once the next one has settled
		if prev != nil && prev.parked.Load() {
			if prev.spec.Kind == "C" {
				// Close parked before taking the write lock: are senders blocked holding the read lock?
				snap := snapshotAll()
				for _, o := range ops {
					if o.spec.Kind == "I" && !o.finished.Load() && snap[o.gid.Load()].state == "chan send" {
						windows["close_at_lock_with_senders_holding_read_lock"] = true
					}
				}
			}
			close(prev.release)
			if ok, _ := ctl.settled(ops, wd); !ok {
				inconclusive = true
				break
			}
		}
		prev = op
	}
	// release everything still parked
	if !inconclusive {
		var parked []*muxOp
		for _, op := range ops {
			if op.parked.Load() {
				parked = append(parked, op)
			}
		}
		if mc.Release == "lifo" {
			for i, j := 0, len(parked)-1; i < j; i, j = i+1, j-1 {
				parked[i], parked[j] = parked[j], parked[i]
			}
		}
		for _, op := range parked {
			close(op.release)
			if ok, _ := ctl.settled(ops, wd); !ok {
				inconclusive = true
				break
			}
		}
	}
	// final Close (if none was part of the set, or in any case: Close is idempotent) from a tracked goroutine
	var finalClose *muxOp
	if !inconclusive {
		finalClose = &muxOp{spec: muxOpSpec{Kind: "C"}, idx: 99, release: make(chan struct{})}
		ops = append(ops, finalClose)
		startOp(finalClose)
		if ok, _ := ctl.settled(ops, wd); !ok {
			inconclusive = true
		}
	}
	desc := mc.String()
	if inconclusive {
		r.Inconclusive("watchdog: goroutines of schedule " + desc + " did not settle")
		for _, op := range ops { // let parked goroutines go
			if op.parked.Load() {
				close(op.release)
			}
		}
		return
	}
	r.Eval(desc, true)
	ctl.mu.Lock()
	sig := strings.Join(ctl.events, " ")
	ctl.mu.Unlock()
	stats.mu.Lock()
	stats.sigs[sig] = struct{}{}
	stats.mu.Unlock()
	for w := range windows {
		r.Count("window:"+w, 1)
	}

	// ---- verdicts at quiescence ---------------------------------------------
	snap := snapshotAll()
	for _, op := range ops {
		label := fmt.Sprintf("%s%d", op.spec.Kind, op.idx)
		if op.panicV != nil {
			r.Violation("panic:"+op.spec.Kind+":"+engine.LibraryFrame(op.stack), fmt.Sprintf("operation %s panicked in schedule %s: %v", label, desc, op.panicV), mc)
			continue
		}
		if !op.finished.Load() {
			st := snap[op.gid.Load()].state
			key := "stranded:" + op.spec.Kind
			what := fmt.Sprintf("at quiescence after Close, operation %s of schedule %s is still blocked in [%s]", label, desc, st)
			if op.spec.Kind == "C" {
				key = "close-did-not-return"
				var others []string
				for _, o := range ops {
					if !o.finished.Load() && o != op {
						others = append(others, fmt.Sprintf("%s%d[%s]", o.spec.Kind, o.idx, snap[o.gid.Load()].state))
					}
				}
				what = fmt.Sprintf("Close is blocked in [%s] with every other goroutine waiting (%s): wait-for cycle, schedule %s", st, strings.Join(others, " "), desc)
			}
			r.Violation(key, what, mc)
			continue
		}
		if op.spec.Kind == "A" {
			switch {
			case op.retConn != nil && (op.retErr == nil || op.retErr == errMuxIngress):
				// a connection ingressed together with an error is handed to the caller with that error:
				// the caller has it, so it counts as returned
				if ac, ok := acctOf(op.retConn); ok {
					ac.returned.Add(1)
					if op.retErr != nil {
						r.Count("connections_returned_with_their_ingress_error", 1)
					}
				} else {
					r.Violation("accept-returned-foreign-conn", "Accept returned a connection that was never ingressed", mc)
				}
			case errors.Is(op.retErr, net.ErrClosed) && op.retConn == nil:
			default:
				r.Violation("accept-bad-result", fmt.Sprintf("Accept returned (%v, %v) in schedule %s", op.retConn, op.retErr, desc), mc)
			}
		}
	}
	for _, cn := range conns {
		ret, cl := cn.returned.Load(), cn.closes.Load()
		switch {
		case ret == 1 && cl == 0:
			r.Count("connections_returned_once", 1)
		case ret == 0 && cl >= 1:
			r.Count("connections_closed", 1)
		case ret == 0 && cl == 0:
			// may still be in the hands of a stranded sender, reported above; otherwise lost
			r.Violation("connection-lost", fmt.Sprintf("an ingressed connection was neither returned nor closed (schedule %s)", desc), mc)
		default:
			r.Violation("connection-returned-and-closed", fmt.Sprintf("an ingressed connection was returned %d times and closed %d times (schedule %s)", ret, cl, desc), mc)
		}
	}
	// accept after close
	done := make(chan struct{})
	var aerr error
	var aconn net.Conn
	go func() { aconn, aerr = l.Accept(); close(done) }()
	select {
	case <-done:
		if aconn != nil || !errors.Is(aerr, net.ErrClosed) {
			r.Violation("accept-after-close", fmt.Sprintf("Accept after Close returned (%v, %v)", aconn, aerr), mc)
		} else {
			r.Count("accept_after_close_reports_closed", 1)
		}
	case <-time.After(wd):
		r.Violation("accept-after-close", "Accept after Close did not return", mc)
	}
}

// distinct permutations of a multiset of operation kinds
func muxPerms(kinds []string) [][]string {
	sort.Strings(kinds)
	var out [][]string
	n := len(kinds)
	used := make([]bool, n)
	cur := make([]string, 0, n)
	var rec func()
	rec = func() {
		if len(cur) == n {
			out = append(out, append([]string{}, cur...))
			return
		}
		for i := 0; i < n; i++ {
			if used[i] || (i > 0 && kinds[i] == kinds[i-1] && !used[i-1]) {
				continue
			}
			used[i] = true
			cur = append(cur, kinds[i])
			rec()
			cur = cur[:len(cur)-1]
			used[i] = false
		}
	}
	rec()
	return out
}

// ---------------------------------------------------------------------------
// randomized stress (no schedule control; race detector + accounting)

type feedListener struct {
	ch     chan net.Conn
	closed chan struct{}
	once   sync.Once
}

func (f *feedListener) Accept() (net.Conn, error) {
	select {
	case c := <-f.ch:
		return c, nil
	case <-f.closed:
		return nil, net.ErrClosed
	}
}
func (f *feedListener) Close() error   { f.once.Do(func() { close(f.closed) }); return nil }
func (f *feedListener) Addr() net.Addr { return muxAddr{} }

var muxStressAbort atomic.Bool

func runMuxStress(c *engine.Ctx, round int, seed int64) {
	r := c.R
	if muxStressAbort.Load() {
		return // an earlier round deadlocked: its goroutines are stuck, further rounds add nothing
	}
	rng := c.Rng(fmt.Sprintf("mux-stress-%d-%d", round, seed))
	parent, cancel := context.WithCancel(context.Background())
	defer cancel()
	l, err := nodenet.NewMultiplexingListener(parent, muxAddr{})
	if err != nil {
		r.Broken(err.Error())
		return
	}
	nIngress := 8 + rng.Intn(40)
	nAccept := rng.Intn(12)
	nClose := 1 + rng.Intn(3)
	useCancel := rng.Intn(3) == 0
	useFeed := rng.Intn(2) == 0
	var conns []*acctConn
	var wg sync.WaitGroup
	var panics atomic.Int32
	var firstPanic atomic.Value
	guard := func(fn func()) {
		defer wg.Done()
		defer func() {
			if x := recover(); x != nil {
				panics.Add(1)
				buf := make([]byte, 4096)
				firstPanic.CompareAndSwap(nil, fmt.Sprintf("%v\n%s", x, buf[:runtime.Stack(buf, false)]))
			}
		}()
		fn()
	}
	var bad atomic.Value
	start := make(chan struct{})
	feed := &feedListener{ch: make(chan net.Conn), closed: make(chan struct{})}
	var feedConns []*acctConn // connections actually handed to IngressListener's Accept
	var feedMu sync.Mutex
	if useFeed {
		_ = l.IngressListener(feed)
		nf := 1 + rng.Intn(10)
		wg.Add(1)
		go guard(func() {
			<-start
			for i := 0; i < nf; i++ {
				cn := newAcctConn(1000 + i)
				select {
				case feed.ch <- cn.wire():
					feedMu.Lock()
					feedConns = append(feedConns, cn)
					feedMu.Unlock()
				case <-feed.closed:
					return // never handed to the multiplexer
				}
			}
		})
	}
	for i := 0; i < nIngress; i++ {
		cn := newAcctConn(i)
		conns = append(conns, cn)
		wg.Add(1)
		withErr := rng.Intn(5) == 0
		if rng.Intn(12) == 0 {
			wg.Add(1)
			go guard(func() { <-start; l.IngressConn(nil, errMuxIngress) })
		}
		go guard(func() {
			<-start
			if withErr {
				l.IngressConn(cn.wire(), errMuxIngress)
			} else {
				l.IngressConn(cn.wire(), nil)
			}
		})
	}
	for i := 0; i < nAccept; i++ {
		wg.Add(1)
		go guard(func() {
			<-start
			for {
				cn, err := l.Accept()
				if err != nil && !(err == errMuxIngress && cn != nil) {
					if !errors.Is(err, net.ErrClosed) {
						bad.Store(fmt.Sprintf("Accept returned error %v", err))
					}
					return
				}
				if ac, ok := acctOf(cn); ok {
					ac.returned.Add(1)
				} else {
					bad.Store("Accept returned a foreign connection")
				}
			}
		})
	}
	for i := 0; i < nClose; i++ {
		wg.Add(1)
		go guard(func() { <-start; runtime.Gosched(); _ = l.Close() })
	}
	if useCancel {
		wg.Add(1)
		go guard(func() { <-start; cancel() })
	}
	close(start)
	// a final Close after everything was launched guarantees the precondition of the accounting
	wg.Add(1)
	go guard(func() { _ = l.Close(); feed.Close() })
	allDone := make(chan struct{})
	go func() { wg.Wait(); close(allDone) }()
	stressCase := map[string]any{"stress_round": round, "ingress": nIngress, "accept": nAccept, "close": nClose, "cancel": useCancel, "ingress_listener": useFeed}
	select {
	case <-allDone:
	case <-time.After(20 * time.Second):
		muxStressAbort.Store(true)
		// logical witness: is everything waiting?
		snap := snapshotAll()
		allWaiting := true
		var states []string
		for _, gi := range snap {
			if gi.lib {
				states = append(states, gi.state)
				if !waiting(gi.state) {
					allWaiting = false
				}
			}
		}
		if allWaiting && len(states) > 0 {
			sort.Strings(states)
			r.Violation("stress-deadlock", fmt.Sprintf("after Close, %d goroutines inside the multiplexing listener are all waiting: %v", len(states), states), stressCase)
		} else {
			r.Inconclusive("stress round did not finish within the watchdog")
		}
		feed.Close()
		return
	}
	feed.Close()
	// The drainer and the IngressListener goroutine are spawned by the library and are not ours to join:
	// a connection the drainer has received but not yet closed would look lost. Stress rounds run one at
	// a time, so wait until no goroutine inside the net package is runnable or running any more
	// (consistent snapshot; after Close none of them can be parked on anything but a closed channel).
	{
		deadline := time.Now().Add(30 * time.Second)
		for {
			busy := false
			for _, gi := range snapshotAll() {
				if gi.lib && !waiting(gi.state) {
					busy = true
				}
			}
			if !busy && (!useFeed || len(snapshotAllWith("IngressListener")) == 0) {
				break
			}
			if time.Now().After(deadline) {
				r.Inconclusive("library goroutines still busy 30 s after the multiplexer was closed")
				return
			}
			runtime.Gosched()
		}
	}
	r.Eval(fmt.Sprintf("stress %d %d %d %d %v %v", round, nIngress, nAccept, nClose, useCancel, useFeed), true)
	r.Count("stress_rounds", 1)
	if p := panics.Load(); p > 0 {
		fp, _ := firstPanic.Load().(string)
		r.Violation("panic:stress:"+engine.LibraryFrame(fp), fmt.Sprintf("%d operations panicked in a stress round: %s", p, strings.SplitN(fp, "\n", 2)[0]), stressCase)
	}
	if b, _ := bad.Load().(string); b != "" {
		r.Violation("accept-bad-result", b, stressCase)
	}
	feedMu.Lock()
	all := append(append([]*acctConn{}, conns...), feedConns...)
	feedMu.Unlock()
	r.Count("stress_connections_via_ingress_listener", int64(len(all)-len(conns)))
	for _, cn := range all {
		ret, cl := cn.returned.Load(), cn.closes.Load()
		switch {
		case ret == 1 && cl == 0:
			r.Count("stress_connections_returned_once", 1)
		case ret == 0 && cl >= 1:
			r.Count("stress_connections_closed", 1)
		case ret == 0 && cl == 0:
			r.Violation("connection-lost", fmt.Sprintf("stress: ingressed connection %d was neither returned nor closed", cn.id), stressCase)
		default:
			r.Violation("connection-returned-and-closed", fmt.Sprintf("stress: a connection was returned %d times and closed %d times", ret, cl), stressCase)
		}
	}
}

// muxSpinSource is a source listener that always has a connection ready (until it is closed)
type muxSpinSource struct {
	closed atomic.Bool
	next   atomic.Int64
	mu     sync.Mutex
	handed []*acctConn
}

func (f *muxSpinSource) Accept() (net.Conn, error) {
	if f.closed.Load() {
		return nil, net.ErrClosed
	}
	cn := newAcctConn(int(f.next.Add(1)))
	f.mu.Lock()
	f.handed = append(f.handed, cn)
	f.mu.Unlock()
	return cn.wire(), nil
}
func (f *muxSpinSource) Close() error   { f.closed.Store(true); return nil }
func (f *muxSpinSource) Addr() net.Addr { return muxAddr{} }

// runMuxPumpCloseRace: a source listener that always has a connection ready is being pumped into the multiplexing
// listener and an accepter drains it, when Close is called at a moment that varies from round to round. Close
// returns, Accept reports closed, and every connection the pump took is returned or closed exactly once.
func runMuxPumpCloseRace(c *engine.Ctx, rounds int) {
	r := c.R
	rng := c.Rng("mux-pump-close-race")
	for round := 0; round < rounds; round++ {
		l, err := nodenet.NewMultiplexingListener(context.Background(), muxAddr{})
		if err != nil {
			r.Broken("mux pump race: " + err.Error())
			return
		}
		src := &muxSpinSource{}
		if err := l.IngressListener(src); err != nil {
			r.Broken("mux pump race: " + err.Error())
			return
		}
		accDone := make(chan struct{})
		go func() {
			defer close(accDone)
			for {
				cn, aerr := l.Accept()
				if aerr != nil {
					return
				}
				if ac, ok := acctOf(cn); ok {
					ac.returned.Add(1)
				}
			}
		}()
		for spin := rng.Intn(2000); spin > 0; spin-- {
			runtime.Gosched()
		}
		closeDone := make(chan struct{})
		go func() { _ = l.Close(); close(closeDone) }()
		select {
		case <-closeDone:
		case <-time.After(15 * time.Second):
			// a finding only if goroutines are parked on the listener's lock
			buf := make([]byte, 2<<20)
			buf = buf[:runtime.Stack(buf, true)]
			parked := 0
			for _, g := range strings.Split(string(buf), "\n\n") {
				if strings.Contains(g, "nodeenrollment/net.(*MultiplexingListener)") && (strings.Contains(g, "sync.(*RWMutex)") || strings.Contains(g, "sync.(*Mutex).Lock")) {
					parked++
				}
			}
			src.Close()
			if parked > 0 {
				r.Violation("close-did-not-return:pump-close-race", fmt.Sprintf("Close was called while a source listener was being pumped into the multiplexing listener (round %d): it has not returned after 15 s and %d goroutines of the listener are parked on its lock", round, parked), map[string]any{"round": round, "seed": c.Seed})
			} else {
				r.Inconclusive("mux pump race: Close did not return within 15 s and no listener goroutine is parked on a lock")
			}
			return
		}
		src.Close()
		select {
		case <-accDone:
		case <-time.After(10 * time.Second):
			r.Violation("accept-after-close-did-not-report-closed:pump-close-race", "an Accept call did not return after Close had returned", map[string]any{"round": round, "seed": c.Seed})
			return
		}
		// the pump may still hold the connection it had just taken: give it a moment to close it
		bad := ""
		for wait := 0; wait < 200; wait++ {
			bad = ""
			src.mu.Lock()
			for _, cn := range src.handed {
				if n := cn.returned.Load() + cn.closes.Load(); n != 1 {
					bad = fmt.Sprintf("connection %d: returned %d times, closed %d times", cn.id, cn.returned.Load(), cn.closes.Load())
					break
				}
			}
			src.mu.Unlock()
			if bad == "" {
				break
			}
			time.Sleep(5 * time.Millisecond)
		}
		r.Eval(fmt.Sprintf("pump-close-race round %d", round), true)
		if bad != "" {
			r.Violation("connection-lost-or-duplicated:pump-close-race", "after Close during pumping: "+bad, map[string]any{"round": round, "seed": c.Seed})
			return
		}
		r.Count("pump_close_race_rounds", 1)
	}
}

func runMux(c *engine.Ctx) engine.Result {
	r := c.R
	res := engine.Result{
		Rule:        "controlled part: case = (start order of an operation multiset {ingress x k<=3, accept x m<=2, close x 1-2, parent cancel x 0-1}, which operation is held at its first verifhook point until the next operation has settled, release order); each operation is started only when all earlier ones have finished, parked or blocked (consistent runtime.Stack snapshot, no sleeps). Stress part: rounds of up to 64 goroutines incl. IngressListener. non-trivial = the execution reached quiescence and the per-connection accounting was evaluated; distinct by schedule descriptor. Oracle: every connection (returned,closed) in {(1,0),(0,>=1)}, every operation finished at quiescence after Close, Accept results, no panic, no race report.",
		Assumptions: []string{"quiescence is a consistent goroutine snapshot in which every operation goroutine and every goroutine inside the net package is in a wait state (there are no timers in that code)", "a final Close is always issued; 'Close always returns' is judged at quiescence with the wait-for states as witness"},
	}
	stats := &muxStats{sigs: map[string]struct{}{}}
	if c.Replay != nil {
		var mc muxCase
		if err := json.Unmarshal(c.Replay, &mc); err != nil || len(mc.Ops) == 0 {
			for i := 0; i < 200; i++ {
				runMuxStress(c, i, c.Seed)
			}
			return res
		}
		runMuxCase(c, mc, stats)
		return res
	}
	// ---- controlled schedules -----------------------------------------------
	var cases []muxCase
	rng := c.Rng("mux")
	for k := 1; k <= 3; k++ {
		for m := 0; m <= 2; m++ {
			for cl := 1; cl <= 2; cl++ {
				for p := 0; p <= 1; p++ {
					var kinds []string
					for i := 0; i < k; i++ {
						kinds = append(kinds, "I")
					}
					for i := 0; i < m; i++ {
						kinds = append(kinds, "A")
					}
					for i := 0; i < cl; i++ {
						kinds = append(kinds, "C")
					}
					for i := 0; i < p; i++ {
						kinds = append(kinds, "X")
					}
					for _, perm := range muxPerms(kinds) {
						big := len(perm) >= 6
						// no hold
						base := muxCase{Release: "fifo"}
						for _, kd := range perm {
							base.Ops = append(base.Ops, muxOpSpec{Kind: kd})
						}
						if !(c.Quick() && big && rng.Intn(4) != 0) {
							cases = append(cases, base)
						}
						// one operation held
						for h := range perm {
							if perm[h] == "X" {
								continue
							}
							if c.Quick() && (big || len(perm) == 5) && rng.Intn(6) != 0 {
								continue
							}
							mc := muxCase{Release: []string{"fifo", "lifo"}[rng.Intn(2)]}
							for i, kd := range perm {
								mc.Ops = append(mc.Ops, muxOpSpec{Kind: kd, Hold: i == h})
							}
							cases = append(cases, mc)
						}
						// thorough: two operations held
						if !c.Quick() && len(perm) <= 6 {
							for h1 := 0; h1 < len(perm); h1++ {
								for h2 := h1 + 1; h2 < len(perm); h2++ {
									if perm[h1] == "X" || perm[h2] == "X" || rng.Intn(3) != 0 {
										continue
									}
									mc := muxCase{Release: []string{"fifo", "lifo"}[rng.Intn(2)]}
									for i, kd := range perm {
										mc.Ops = append(mc.Ops, muxOpSpec{Kind: kd, Hold: i == h1 || i == h2})
									}
									cases = append(cases, mc)
								}
							}
						}
					}
				}
			}
		}
	}
	// the same schedules with some connections handed in together with an error
	for _, mc := range cases[:len(cases):len(cases)] {
		if rng.Intn(3) != 0 {
			continue
		}
		cp := muxCase{Release: mc.Release}
		some := false
		for _, o := range mc.Ops {
			if o.Kind == "I" && rng.Intn(2) == 0 {
				if rng.Intn(3) == 0 {
					o.Nil = true
				} else {
					o.Err = true
				}
				some = true
			}
			cp.Ops = append(cp.Ops, o)
		}
		if some {
			cases = append(cases, cp)
		}
	}
	r.Set("controlled_schedules", len(cases))
	r.Sample(cases[len(cases)/3].String())
	r.Sample(cases[len(cases)/2])
	for _, mc := range cases {
		runMuxCase(c, mc, stats)
		if r.ViolationEvents() >= 12 {
			// violating executions leave blocked goroutines behind, which makes every further snapshot
			// slower; the witnesses collected so far are enough
			r.Set("controlled_part_stopped_early_after_violations", true)
			break
		}
	}
	r.Set("distinct_hook_event_sequences", len(stats.sigs))
	verifhook.Set(nil)

	// ---- stress -----------------------------------------------------------
	rounds := c.Pick(300, 20000)
	// one round at a time (each round is internally concurrent): see the quiescence wait in runMuxStress
	for i := 0; i < rounds; i++ {
		runMuxStress(c, i, c.Seed)
	}

	runMuxPumpCloseRace(c, c.Pick(3000, 60000))
	r.Require("pump_close_race_rounds", 1000)
	r.Require("connections_returned_once", 20)
	r.Require("connections_closed", 20)
	// a source listener whose Accept fails with a temporary error
	nerr := c.Pick(60, 600)
	for i := 0; i < nerr; i++ {
		runMuxErrorSource(c, i)
	}
	r.Require("error_source_scenarios", int64(nerr*9/10))
	r.Require("window:accept_received_then_cancelled_before_recheck", 3)
	r.Require("window:ingress_passed_closed_check_then_close_ran", 3)
	r.Require("window:close_blocked_on_write_lock_while_sender_holds_read_lock", 3)
	if !muxStressAbort.Load() {
		r.Require("stress_rounds", int64(rounds*9/10))
	}
	r.Require("accept_after_close_reports_closed", 20)
	return res
}
