//go:build verif

package engines

import (
	"context"
	"fmt"
	"os"
	"path/filepath"

	"github.com/hashicorp/nodeenrollment"
	"github.com/hashicorp/nodeenrollment/registration"
	"github.com/hashicorp/nodeenrollment/rotation"
	"github.com/hashicorp/nodeenrollment/storage/file"
	"github.com/hashicorp/nodeenrollment/types"

	"verifharness/engine"
	"verifharness/world"
)

// faults_fulldisk.go : a fault inside the file back end, below the Storage interface where the other faults of
// this engine are injected: the record file can be opened and closed, but writing to it fails with "no space
// left on device" (the record's name is a symbolic link to /dev/full, which is what a full volume looks like to
// one write). A call that reports success must have persisted its result.
func runFaultsFullDisk(c *engine.Ctx, seq int) {
	r := c.R
	if _, err := os.Stat("/dev/full"); err != nil {
		r.Count("fulldisk:no-dev-full(skipped)", 1)
		return
	}
	root := os.Getenv("VERIF_ROOT")
	if root == "" {
		root = "/verif"
	}
	ctx := context.Background()
	mk := func(tag string) (nodeenrollment.Storage, string, error) {
		dir := filepath.Join(root, ".build", fmt.Sprintf("fulldisk-%d-%d-%s", os.Getpid(), seq, tag))
		_ = os.RemoveAll(dir)
		st, err := file.New(ctx, file.WithBaseDirectory(dir))
		return st, dir, err
	}
	// a scratch server to learn where the back end keeps which record
	probe, pdir, err := mk("probe")
	if err != nil {
		r.Broken("fulldisk: probe storage: " + err.Error())
		return
	}
	defer os.RemoveAll(pdir)
	if _, err := rotation.RotateRootCertificates(ctx, probe); err != nil {
		r.Broken("fulldisk: probe roots: " + err.Error())
		return
	}
	pn := world.MustNode(false, "")
	preq, _ := pn.FetchRequest()
	if _, err := registration.AuthorizeNode(ctx, probe, preq); err != nil {
		r.Broken("fulldisk: probe authorize: " + err.Error())
		return
	}
	var rootsRel, nodeRel string
	_ = filepath.WalkDir(pdir, func(p string, d os.DirEntry, werr error) error {
		if werr != nil || d.IsDir() {
			return nil
		}
		rel, _ := filepath.Rel(pdir, filepath.Dir(p))
		switch d.Name() {
		case string(nodeenrollment.RootsMessageId):
			rootsRel = rel
		case pn.K.KeyID:
			nodeRel = rel
		}
		return nil
	})
	if rootsRel == "" || nodeRel == "" {
		r.Broken("fulldisk: could not locate the record files of the file back end")
		return
	}
	st, dir, err := mk("main")
	if err != nil {
		r.Broken("fulldisk: storage: " + err.Error())
		return
	}
	defer os.RemoveAll(dir)
	full := func(rel, name string) bool {
		d := filepath.Join(dir, rel)
		if os.MkdirAll(d, 0o700) != nil {
			return false
		}
		_ = os.Remove(filepath.Join(d, name))
		return os.Symlink("/dev/full", filepath.Join(d, name)) == nil
	}
	// 1. the first root set on a volume that is full
	desc := map[string]any{"kind": "full-disk", "seq": seq, "call": "RotateRootCertificates"}
	if full(rootsRel, string(nodeenrollment.RootsMessageId)) {
		var ret *types.RootCertificates
		var rerr error
		p, stk := engine.Guard(func() { ret, rerr = rotation.RotateRootCertificates(ctx, st) })
		r.Eval(engine.J(desc), true)
		switch {
		case p != nil:
			r.Violation("panic:"+engine.LibraryFrame(stk), fmt.Sprintf("RotateRootCertificates panicked on a full volume: %v", p), desc)
		case rerr == nil && ret != nil:
			if _, lerr := types.LoadRootCertificates(ctx, st); lerr != nil {
				r.Violation("success-without-durability:roots:full-disk", "RotateRootCertificates reported success on the file back end while the write of the roots record failed (no space left on device); the root set cannot be read back: "+lerr.Error(), desc)
			} else {
				r.Count("fulldisk:roots_persisted_after_all", 1)
			}
		default:
			r.Count("fulldisk:failed_closed:roots", 1)
		}
		_ = os.Remove(filepath.Join(dir, rootsRel, string(nodeenrollment.RootsMessageId)))
	}
	// 2. a node record on a volume that is full (the roots were written while there was room)
	if _, err := rotation.RotateRootCertificates(ctx, st); err != nil {
		r.Broken("fulldisk: roots: " + err.Error())
		return
	}
	n := world.MustNode(false, "")
	req, _ := n.FetchRequest()
	desc = map[string]any{"kind": "full-disk", "seq": seq, "call": "AuthorizeNode"}
	if full(nodeRel, n.K.KeyID) {
		var ni *types.NodeInformation
		var aerr error
		p, stk := engine.Guard(func() { ni, aerr = registration.AuthorizeNode(ctx, st, req) })
		r.Eval(engine.J(desc), true)
		switch {
		case p != nil:
			r.Violation("panic:"+engine.LibraryFrame(stk), fmt.Sprintf("AuthorizeNode panicked on a full volume: %v", p), desc)
		case aerr == nil && ni != nil:
			if _, lerr := types.LoadNodeInformation(ctx, st, n.K.KeyID); lerr != nil {
				r.Violation("success-without-durability:node-record:full-disk", "AuthorizeNode reported success on the file back end while the write of the node record failed (no space left on device); the record cannot be read back: "+lerr.Error(), desc)
			} else {
				r.Count("fulldisk:node_record_persisted_after_all", 1)
			}
		default:
			r.Count("fulldisk:failed_closed:node-record", 1)
		}
	}
}
