// Package ev collects what a check run observed, decides the three-valued
// verdict and writes the evidence / replay files.
package ev

import (
	"bufio"
	"crypto/sha256"
	"encoding/hex"
	"encoding/json"
	"fmt"
	"os"
	"path/filepath"
	"regexp"
	"sort"
	"strings"
	"sync"
	"time"
)

// Root is the /verif directory (overridable for tests)
var Root = func() string {
	if v := os.Getenv("VERIF_ROOT"); v != "" {
		return v
	}
	return "/verif"
}()

const maxSamples = 6
const maxViolationsReported = 25

// Exit codes
const (
	ExitHeld         = 0
	ExitViolated     = 1
	ExitInconclusive = 3
	ExitBroken       = 4
)

type violation struct {
	Key    string `json:"finding_key"`
	What   string `json:"what"`
	Replay string `json:"replay"`
	Known  bool   `json:"known"`
}

type requirement struct {
	class string
	min   int64
}

// Run is the per-check collector. All methods are safe for concurrent use.
type Run struct {
	Prop  string
	Tier  string
	Seed  int64
	Level string

	start time.Time

	mu        sync.Mutex
	evals     int64
	distinct  map[[8]byte]struct{}
	samples   []any
	counters  map[string]int64
	extras    map[string]any
	viols     []violation
	violKeys  map[string]int
	reqs      []requirement
	inconcl   []string
	broken    []string
	known     map[string]string // finding-key -> description
	knownSeen map[string]bool
	replayOf  string
}

// New creates the collector and loads known findings for the property
func New(prop, tier string, seed int64, level string) *Run {
	r := &Run{
		Prop: prop, Tier: tier, Seed: seed, Level: level,
		start:     time.Now(),
		distinct:  map[[8]byte]struct{}{},
		counters:  map[string]int64{},
		extras:    map[string]any{},
		violKeys:  map[string]int{},
		known:     map[string]string{},
		knownSeen: map[string]bool{},
	}
	r.loadKnown()
	return r
}

var knownRe = regexp.MustCompile(`^known:\s+property=(\S+)\s+(\S+)\s+(.*)$`)

func (r *Run) loadKnown() {
	path := os.Getenv("VERIF_KNOWN")
	if path == "" {
		path = filepath.Join(Root, "KNOWN_FINDINGS.txt")
	}
	f, err := os.Open(path)
	if err != nil {
		return
	}
	defer f.Close()
	sc := bufio.NewScanner(f)
	for sc.Scan() {
		m := knownRe.FindStringSubmatch(strings.TrimSpace(sc.Text()))
		if m == nil || m[1] != r.Prop {
			continue
		}
		r.known[m[2]] = m[3]
	}
}

// Eval records one executed case. desc identifies the case for the purpose of
// distinct counting; nontrivial says whether the case reached the comparison
// under test (by the engine's stated rule).
func (r *Run) Eval(desc string, nontrivial bool) {
	r.mu.Lock()
	r.evals++
	if nontrivial {
		h := sha256.Sum256([]byte(desc))
		var k [8]byte
		copy(k[:], h[:8])
		r.distinct[k] = struct{}{}
	}
	r.mu.Unlock()
}

// Sample keeps up to a few written-out cases for the evidence file
func (r *Run) Sample(v any) {
	r.mu.Lock()
	if len(r.samples) < maxSamples {
		r.samples = append(r.samples, v)
	}
	r.mu.Unlock()
}

// Count adds n to a named observation counter
func (r *Run) Count(key string, n int64) {
	r.mu.Lock()
	r.counters[key] += n
	r.mu.Unlock()
}

// Counter reads a counter
func (r *Run) Counter(key string) int64 {
	r.mu.Lock()
	defer r.mu.Unlock()
	return r.counters[key]
}

// Set stores an engine-specific observation in the coverage object
func (r *Run) Set(key string, v any) {
	r.mu.Lock()
	r.extras[key] = v
	r.mu.Unlock()
}

// Require states that the named counter must have reached min by the end of
// the run, otherwise the run is inconclusive (a promised class was not reached)
func (r *Run) Require(class string, min int64) {
	r.mu.Lock()
	r.reqs = append(r.reqs, requirement{class, min})
	r.mu.Unlock()
}

// Inconclusive records a reason why no verdict could be reached
func (r *Run) Inconclusive(why string) {
	r.mu.Lock()
	r.inconcl = append(r.inconcl, why)
	r.mu.Unlock()
}

// Broken records that the harness itself misbehaved
func (r *Run) Broken(why string) {
	r.mu.Lock()
	r.broken = append(r.broken, why)
	r.mu.Unlock()
}

// SetReplayOf marks the run as a replay of the given file
func (r *Run) SetReplayOf(path string) { r.replayOf = path }

// Violation records a refutation. key is the finding key (the specific failing
// input class / call site), what a one-line description, replay any JSON-able
// witness. The first occurrence of each key writes a replay file and prints the
// VIOLATION line (or KNOWN-FINDING line if the key is listed).
func (r *Run) Violation(key, what string, replay any) {
	r.mu.Lock()
	defer r.mu.Unlock()
	r.violKeys[key]++
	if r.violKeys[key] > 1 {
		return
	}
	if desc, ok := r.known[key]; ok {
		if !r.knownSeen[key] {
			r.knownSeen[key] = true
			fmt.Printf("KNOWN-FINDING: property=%s %s %s\n", r.Prop, key, desc)
		}
		r.viols = append(r.viols, violation{Key: key, What: what, Known: true})
		return
	}
	if len(r.viols) >= maxViolationsReported {
		return
	}
	path := r.writeReplay(key, what, replay)
	r.viols = append(r.viols, violation{Key: key, What: what, Replay: path})
	fmt.Printf("VIOLATION property=%s replay=%s\n", r.Prop, path)
	fmt.Printf("  finding=%s :: %s\n", key, what)
}

func (r *Run) writeReplay(key, what string, replay any) string {
	dir := filepath.Join(Root, "replays")
	_ = os.MkdirAll(dir, 0o755)
	h := sha256.Sum256([]byte(key + "\x00" + what))
	path := filepath.Join(dir, fmt.Sprintf("%s-%s.json", r.Prop, hex.EncodeToString(h[:6])))
	doc := map[string]any{
		"property":    r.Prop,
		"tier":        r.Tier,
		"seed":        r.Seed,
		"finding_key": key,
		"what":        what,
		"case":        replay,
	}
	b, err := json.MarshalIndent(doc, "", " ")
	if err != nil {
		b, _ = json.MarshalIndent(map[string]any{"property": r.Prop, "finding_key": key, "what": what, "case": fmt.Sprintf("%+v", replay)}, "", " ")
	}
	_ = os.WriteFile(path, b, 0o644)
	return path
}

// ViolationEvents returns how often Violation was called for findings that are not listed as known
// (duplicates of one finding key included)
func (r *Run) ViolationEvents() int {
	r.mu.Lock()
	defer r.mu.Unlock()
	n := 0
	for k, c := range r.violKeys {
		if _, known := r.known[k]; !known {
			n += c
		}
	}
	return n
}

// NumViolations returns the number of distinct unknown violations so far
func (r *Run) NumViolations() int {
	r.mu.Lock()
	defer r.mu.Unlock()
	n := 0
	for _, v := range r.viols {
		if !v.Known {
			n++
		}
	}
	return n
}

// Finish writes the evidence file and returns the process exit code
func (r *Run) Finish(rule string, exhaustive bool, assumptions []string) int {
	r.absorbRaceLog()

	r.mu.Lock()
	defer r.mu.Unlock()

	for _, q := range r.reqs {
		if r.counters[q.class] < q.min {
			r.inconcl = append(r.inconcl, fmt.Sprintf("coverage class %q reached %d times, promised >= %d", q.class, r.counters[q.class], q.min))
		}
	}

	unknown := 0
	for _, v := range r.viols {
		if !v.Known {
			unknown++
		}
	}

	verdict := "held"
	code := ExitHeld
	switch {
	case unknown > 0:
		verdict, code = "violated", ExitViolated
	case len(r.broken) > 0:
		verdict, code = "broken", ExitBroken
	case len(r.inconcl) > 0:
		verdict, code = "inconclusive", ExitInconclusive
	}

	cov := map[string]any{}
	for k, v := range r.extras {
		cov[k] = v
	}
	keys := make([]string, 0, len(r.counters))
	for k := range r.counters {
		keys = append(keys, k)
	}
	sort.Strings(keys)
	obs := map[string]int64{}
	for _, k := range keys {
		obs[k] = r.counters[k]
	}
	cov["observed"] = obs
	cov["evaluations"] = r.evals
	cov["distinct_nontrivial"] = len(r.distinct)
	cov["rule"] = rule
	samples := r.samples
	if samples == nil {
		samples = []any{}
	}
	cov["samples"] = samples
	cov["exhaustive"] = exhaustive
	cov["verdict"] = verdict
	if len(r.inconcl) > 0 {
		cov["inconclusive_reasons"] = r.inconcl
	}
	if len(r.broken) > 0 {
		cov["broken_reasons"] = r.broken
	}
	if len(r.viols) > 0 {
		cov["violation_list"] = r.viols
	}
	if r.replayOf != "" {
		cov["replay_of"] = r.replayOf
	}

	doc := map[string]any{
		"property_id": r.Prop,
		"tier":        r.Tier,
		"seed":        r.Seed,
		"level":       r.Level,
		"coverage":    cov,
		"assumptions": assumptions,
		"wall_s":      time.Since(r.start).Seconds(),
		"violations":  unknown,
	}
	b, _ := json.MarshalIndent(doc, "", " ")
	if r.replayOf == "" {
		dir := filepath.Join(Root, "evidence")
		_ = os.MkdirAll(dir, 0o755)
		tmp := filepath.Join(dir, "."+r.Prop+".json.tmp")
		if err := os.WriteFile(tmp, b, 0o644); err == nil {
			_ = os.Rename(tmp, filepath.Join(dir, r.Prop+".json"))
		}
	}

	fmt.Printf("RESULT property=%s tier=%s seed=%d verdict=%s evaluations=%d distinct_nontrivial=%d violations=%d wall_s=%.1f\n",
		r.Prop, r.Tier, r.Seed, verdict, r.evals, len(r.distinct), unknown, time.Since(r.start).Seconds())
	for _, k := range keys {
		fmt.Printf("  observed %-48s %d\n", k, r.counters[k])
	}
	for _, w := range r.inconcl {
		fmt.Printf("  INCONCLUSIVE: %s\n", w)
	}
	for _, w := range r.broken {
		fmt.Printf("  BROKEN: %s\n", w)
	}
	return code
}

// ---------------------------------------------------------------------------
// race detector log handling

type raceReport struct {
	Sig     string   `json:"signature"`
	Library bool     `json:"library_frames"`
	Count   int      `json:"count"`
	Text    string   `json:"text,omitempty"`
	Tops    []string `json:"outermost"`
}

const libPrefix = "github.com/hashicorp/nodeenrollment"

var lineNoRe = regexp.MustCompile(`:\d+ \+0x[0-9a-f]+`)

// absorbRaceLog reads this process's race detector log (GORACE log_path=…),
// de-duplicates reports and turns reports involving library frames into
// violations; reports confined to the harness mark the run as broken.
func (r *Run) absorbRaceLog() {
	base := os.Getenv("VERIF_RACELOG")
	if base == "" {
		return
	}
	path := fmt.Sprintf("%s.%d", base, os.Getpid())
	b, err := os.ReadFile(path)
	if err != nil {
		r.Set("race_reports_total", 0)
		r.Set("race_detector", "on")
		return
	}
	blocks := strings.Split(string(b), "==================")
	reports := map[string]*raceReport{}
	total := 0
	for _, blk := range blocks {
		if !strings.Contains(blk, "WARNING: DATA RACE") {
			continue
		}
		total++
		// the two access stacks: take function names of each stack
		var stacks [][]string
		var cur []string
		inStack := false
		for _, ln := range strings.Split(blk, "\n") {
			t := strings.TrimSpace(ln)
			switch {
			case strings.HasPrefix(t, "Read at") || strings.HasPrefix(t, "Write at") ||
				strings.HasPrefix(t, "Previous read at") || strings.HasPrefix(t, "Previous write at") ||
				strings.HasPrefix(t, "Goroutine "):
				if len(cur) > 0 {
					stacks = append(stacks, cur)
				}
				cur = nil
				inStack = strings.HasPrefix(t, "Read at") || strings.HasPrefix(t, "Write at") ||
					strings.HasPrefix(t, "Previous read at") || strings.HasPrefix(t, "Previous write at")
			case t == "":
				if len(cur) > 0 {
					stacks = append(stacks, cur)
					cur = nil
				}
				inStack = false
			case inStack && !strings.HasPrefix(t, "/") && strings.Contains(t, "("):
				fn := t
				if i := strings.LastIndex(fn, "("); i > 0 {
					fn = fn[:i]
				}
				cur = append(cur, fn)
			}
		}
		if len(cur) > 0 {
			stacks = append(stacks, cur)
		}
		lib := false
		var tops []string
		for _, st := range stacks {
			top := ""
			for _, fn := range st {
				if strings.HasPrefix(fn, libPrefix) {
					lib = true
				}
				if !strings.HasPrefix(fn, "runtime.") && !strings.HasPrefix(fn, "testing.") {
					top = fn // outermost non-runtime frame = last one seen
				}
			}
			tops = append(tops, top)
		}
		sort.Strings(tops)
		// signature: outermost entry pair + innermost library frames
		var inner []string
		for _, st := range stacks {
			for _, fn := range st {
				if strings.HasPrefix(fn, libPrefix) {
					inner = append(inner, fn)
					break
				}
			}
		}
		sort.Strings(inner)
		sig := strings.Join(inner, " | ")
		if sig == "" {
			sig = "harness-only: " + strings.Join(tops, " | ")
		}
		rep := reports[sig]
		if rep == nil {
			txt := lineNoRe.ReplaceAllString(blk, "")
			if len(txt) > 3000 {
				txt = txt[:3000]
			}
			rep = &raceReport{Sig: sig, Library: lib, Tops: tops, Text: txt}
			reports[sig] = rep
		}
		rep.Count++
	}
	var list []*raceReport
	for _, rep := range reports {
		list = append(list, rep)
	}
	sort.Slice(list, func(i, j int) bool { return list[i].Sig < list[j].Sig })
	r.Set("race_detector", "on")
	r.Set("race_reports_total", total)
	r.Set("race_reports_distinct", len(list))
	for _, rep := range list {
		if rep.Library {
			r.Violation("race:"+rep.Sig, fmt.Sprintf("data race involving library code (%d reports): %s", rep.Count, rep.Sig), rep)
		} else {
			r.Broken("data race confined to harness code: " + rep.Sig)
		}
	}
}
