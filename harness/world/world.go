// Package world builds server worlds and node actors out of public library
// calls, and offers the adversary toolkit (re-signing, sealing, minting).
package world

import (
	"context"
	"crypto/ecdh"
	"crypto/ed25519"
	"crypto/rand"
	"crypto/x509"
	"encoding/hex"
	"errors"
	"fmt"
	"os"
	"path/filepath"
	"sync"
	"sync/atomic"
	"time"

	wrapping "github.com/hashicorp/go-kms-wrapping/v2"
	"github.com/hashicorp/go-kms-wrapping/v2/aead"
	"github.com/hashicorp/go-kms-wrapping/v2/extras/multi"
	"github.com/hashicorp/nodeenrollment"
	"github.com/hashicorp/nodeenrollment/registration"
	"github.com/hashicorp/nodeenrollment/rotation"
	"github.com/hashicorp/nodeenrollment/storage/file"
	"github.com/hashicorp/nodeenrollment/storage/inmem"
	teststore "github.com/hashicorp/nodeenrollment/storage/testing"
	"github.com/hashicorp/nodeenrollment/types"
	"google.golang.org/protobuf/proto"
	"google.golang.org/protobuf/types/known/structpb"
)

// Backend names
const (
	Inmem     = "inmem"
	File      = "file"
	StoreOnce = "storeonce"
	Ordered   = "ordered" // harness NodeIdLoader over inmem with a chosen record order
)

var Backends = []string{Inmem, File, StoreOnce}

// NewAead returns an aead wrapper (AES-GCM, authenticates AAD) with a random key
func NewAead(keyID string) wrapping.Wrapper {
	k := make([]byte, 32)
	_, _ = rand.Read(k)
	w := aead.NewWrapper()
	if _, err := w.SetConfig(context.Background(), wrapping.WithKeyId(keyID), aead.WithKey(k)); err != nil {
		panic(err)
	}
	return w
}

var runDirSeq atomic.Int64

// NewBackend creates a storage back end; cleanup removes on-disk state
func NewBackend(kind string) (nodeenrollment.Storage, func(), error) {
	ctx := context.Background()
	switch kind {
	case Inmem, "":
		s, err := inmem.New(ctx)
		return s, func() {}, err
	case StoreOnce:
		s, err := teststore.New(ctx)
		return s, func() {}, err
	case Ordered:
		in, err := inmem.New(ctx)
		if err != nil {
			return nil, nil, err
		}
		return NewOrderedLoader(in), func() {}, nil
	case File:
		root := os.Getenv("VERIF_ROOT")
		if root == "" {
			root = "/verif"
		}
		seq := runDirSeq.Add(1)
		name := fmt.Sprintf("run-%d-%d", os.Getpid(), seq)
		if seq%5 == 0 {
			// a directory name with characters that mean something to shells and pattern matchers, and nothing
			// to the file system
			name = fmt.Sprintf("run[%d]-%d?*", os.Getpid(), seq)
		}
		dir := filepath.Join(root, ".build", name)
		// the same directory as an operator may spell it in a configuration file: not every fifth
		// spelling is in the form filepath.Clean would produce
		spelled := dir
		switch seq % 5 {
		case 1:
			spelled = dir + string(filepath.Separator)
		case 2:
			spelled = filepath.Join(root, ".build") + "//" + name
		case 3:
			spelled = filepath.Join(root, ".build") + "/./" + name
		case 4:
			spelled = dir + "/sub/.."
			if err := os.MkdirAll(filepath.Join(dir, "sub"), 0o700); err != nil {
				return nil, nil, err
			}
		}
		s, err := file.New(ctx, file.WithBaseDirectory(spelled))
		if err == nil && seq%3 == 2 {
			// this server keeps its records on another volume: after a record has been written its file is moved
			// there and a symbolic link is left in its place (what configuration mounts and migrations produce)
			moved := dir + "-moved"
			if err := os.MkdirAll(moved, 0o700); err != nil {
				return nil, nil, err
			}
			return &fileLinker{Storage: s, dir: dir, moved: moved}, func() { _ = os.RemoveAll(dir); _ = os.RemoveAll(moved) }, nil
		}
		return s, func() { _ = os.RemoveAll(dir) }, err
	}
	return nil, nil, fmt.Errorf("unknown backend %q", kind)
}

// fileLinker turns every record file it has stored into a symbolic link to a regular file elsewhere
type fileLinker struct {
	nodeenrollment.Storage
	dir, moved string
	n          atomic.Int64
}

func (f *fileLinker) Store(ctx context.Context, m nodeenrollment.MessageWithId) error {
	err := f.Storage.Store(ctx, m)
	if err != nil || nodeenrollment.IsNil(m) || m.GetId() == "" {
		return err
	}
	id := m.GetId()
	_ = filepath.WalkDir(f.dir, func(p string, d os.DirEntry, werr error) error {
		if werr != nil || d.IsDir() || d.Name() != id || !d.Type().IsRegular() {
			return nil
		}
		target := filepath.Join(f.moved, fmt.Sprintf("%d-%s", f.n.Add(1), filepath.Base(filepath.Dir(p))))
		if os.Rename(p, target) == nil {
			if os.Symlink(target, p) != nil {
				_ = os.Rename(target, p)
			}
		}
		return nil
	})
	return nil
}

// ServerCfg configures a server world
type ServerCfg struct {
	Backend     string
	StorageWrap bool
	RegWrap     bool
	NoRoots     bool
	RootOpts    []nodeenrollment.Option
	// Wrap, if set, is applied to the back end; library calls then see the wrapped storage
	Wrap func(nodeenrollment.Storage) nodeenrollment.Storage
	// StorageWrapKind (with StorageWrap): "" aead | WrapPooled (a pool of aead wrappers whose encrypting
	// key the operator rolls over: what was sealed earlier needs the key information stored with it
	// to be opened) | WrapEnvelope (envelope encryption: a wrapped data key and IV travel with every
	// sealed value; this test wrapper does not authenticate additional data)
	StorageWrapKind string
	// RegWrapKind (with RegWrap): "" one aead key on both sides | WrapPooled (the server's registration
	// wrapper is a pool whose encrypting key has been rolled over since the nodes were provisioned: nodes
	// seal with the older key, which is still in the pool, and the server finds it through the key
	// information that travels with the sealed value)
	RegWrapKind string
}

// Storage wrapper kinds
const (
	WrapPooled   = "pooled"
	WrapEnvelope = "envelope"
	// WrapNoKeyID: an aead wrapper that was given key bytes but no key ID (KeyId() reports "")
	WrapNoKeyID = "nokeyid"
	// WrapFlaky: one aead key behind a FlakyWrapper (a key service that can be made to fail one call)
	WrapFlaky = "flaky"
)

// FlakyWrapper passes everything to an inner wrapper until it is armed; then the k-th Decrypt (or Encrypt)
// after arming fails, the way a remote key service fails for one call
type FlakyWrapper struct {
	wrapping.Wrapper
	mu        sync.Mutex
	decAt     int
	encAt     int
	dec, enc  int
	delivered int
	hookAt    int
	hook      func()
	// KeyIDFails makes KeyId return an error (Encrypt and Decrypt keep working)
	KeyIDFails bool
	// KeyIDOverride, if set, is what KeyId reports (a key service whose current key version has moved on;
	// it still opens what older versions sealed)
	KeyIDOverride string
}

// ErrWrapperDown is what an armed FlakyWrapper returns
var ErrWrapperDown = errors.New("injected: key service unavailable")

// Arm makes the decAt-th Decrypt and the encAt-th Encrypt from now on fail (0 = none); counters restart
func (f *FlakyWrapper) Arm(decAt, encAt int) {
	f.mu.Lock()
	f.decAt, f.encAt, f.dec, f.enc, f.delivered = decAt, encAt, 0, 0, 0
	f.mu.Unlock()
}

// Delivered reports how many failures were delivered since Arm, and how many Decrypt / Encrypt calls were seen
func (f *FlakyWrapper) Delivered() (failures, decrypts, encrypts int) {
	f.mu.Lock()
	defer f.mu.Unlock()
	return f.delivered, f.dec, f.enc
}

func (f *FlakyWrapper) Decrypt(ctx context.Context, in *wrapping.BlobInfo, opt ...wrapping.Option) ([]byte, error) {
	f.mu.Lock()
	f.dec++
	fail := f.decAt > 0 && f.dec == f.decAt
	if fail {
		f.delivered++
	}
	f.mu.Unlock()
	if fail {
		return nil, ErrWrapperDown
	}
	return f.Wrapper.Decrypt(ctx, in, opt...)
}

// ErrNoKeyID is what KeyId returns while KeyIDFails is set
var ErrNoKeyID = errors.New("injected: not permitted to describe the key")

// KeyId fails while KeyIDFails is set (a principal that may use the key but not look it up)
func (f *FlakyWrapper) KeyId(ctx context.Context) (string, error) {
	f.mu.Lock()
	fail := f.KeyIDFails
	f.mu.Unlock()
	if fail {
		return "", ErrNoKeyID
	}
	f.mu.Lock()
	ov := f.KeyIDOverride
	f.mu.Unlock()
	if ov != "" {
		return ov, nil
	}
	return f.Wrapper.KeyId(ctx)
}

// OnEncrypt makes the n-th Encrypt from now on call fn first (e.g. to cancel the caller's context while the key
// service is busy); the call itself goes through
func (f *FlakyWrapper) OnEncrypt(n int, fn func()) {
	f.mu.Lock()
	f.hookAt, f.hook, f.enc = n, fn, 0
	f.mu.Unlock()
}

func (f *FlakyWrapper) Encrypt(ctx context.Context, in []byte, opt ...wrapping.Option) (*wrapping.BlobInfo, error) {
	f.mu.Lock()
	f.enc++
	if f.hook != nil && f.enc == f.hookAt {
		h := f.hook
		f.hook = nil
		f.mu.Unlock()
		h()
		f.mu.Lock()
		f.delivered++
	}
	fail := f.encAt > 0 && f.enc == f.encAt
	if fail {
		f.delivered++
	}
	f.mu.Unlock()
	if fail {
		return nil, ErrWrapperDown
	}
	return f.Wrapper.Encrypt(ctx, in, opt...)
}

// Server is a server world
type Server struct {
	Ctx   context.Context
	Cfg   ServerCfg
	Inner nodeenrollment.Storage
	Store nodeenrollment.Storage
	SW    wrapping.Wrapper
	RW    wrapping.Wrapper
	// NodeRW is the registration wrapper nodes were provisioned with when it is not RW itself
	NodeRW  wrapping.Wrapper
	cleanup func()
}

// NewServer creates storage, wrappers and (unless NoRoots) the initial roots
func NewServer(cfg ServerCfg) (*Server, error) {
	inner, cleanup, err := NewBackend(cfg.Backend)
	if err != nil {
		return nil, err
	}
	s := &Server{Ctx: context.Background(), Cfg: cfg, Inner: inner, Store: inner, cleanup: cleanup}
	if cfg.Wrap != nil {
		s.Store = cfg.Wrap(inner)
	}
	if cfg.StorageWrap {
		switch cfg.StorageWrapKind {
		case WrapPooled:
			pool, err := multi.NewPooledWrapper(s.Ctx, NewAead("storage-wrapper-"+randHex(4)))
			if err != nil {
				cleanup()
				return nil, err
			}
			s.SW = pool
		case WrapEnvelope:
			s.SW = wrapping.NewTestEnvelopeWrapper(RandBytes(32))
		case WrapNoKeyID:
			s.SW = NewAead("")
		case WrapFlaky:
			s.SW = &FlakyWrapper{Wrapper: NewAead("storage-wrapper-" + randHex(4))}
		default:
			s.SW = NewAead("storage-wrapper-" + randHex(4))
		}
	}
	if cfg.RegWrap {
		s.RW = NewAead("registration-wrapper-" + randHex(4))
		if cfg.RegWrapKind == WrapPooled {
			s.NodeRW = s.RW
			pool, err := multi.NewPooledWrapper(s.Ctx, s.NodeRW)
			if err != nil {
				cleanup()
				return nil, err
			}
			if _, err := pool.SetEncryptingWrapper(s.Ctx, NewAead("registration-wrapper-"+randHex(4))); err != nil {
				cleanup()
				return nil, err
			}
			s.RW = pool
		}
	}
	if !cfg.NoRoots {
		if _, err := rotation.RotateRootCertificates(s.Ctx, s.Store, s.Opts(cfg.RootOpts...)...); err != nil {
			cleanup()
			return nil, fmt.Errorf("initial root rotation: %w", err)
		}
	}
	return s, nil
}

// Rollover makes a pooled storage wrapper encrypt under a new key from now on (the old keys stay
// in the pool for what was sealed under them); a no-op for other wrappers
func (s *Server) Rollover() {
	pool, ok := s.SW.(*multi.PooledWrapper)
	if !ok {
		return
	}
	if _, err := pool.SetEncryptingWrapper(s.Ctx, NewAead("storage-wrapper-"+randHex(4))); err != nil {
		panic(err)
	}
}

// NodeRegWrap is the registration wrapper an honest node seals its registration info with
func (s *Server) NodeRegWrap() wrapping.Wrapper {
	if s.NodeRW != nil {
		return s.NodeRW
	}
	return s.RW
}

// MustServer panics on error (harness setup failures are harness bugs)
func MustServer(cfg ServerCfg) *Server {
	s, err := NewServer(cfg)
	if err != nil {
		panic(err)
	}
	return s
}

// Close removes on-disk state
func (s *Server) Close() {
	if s.cleanup != nil {
		s.cleanup()
	}
}

// Opts returns the options a server passes to library calls: the storage
// wrapper and the registration wrapper when configured, plus extras. The
// returned slice has no spare capacity.
func (s *Server) Opts(extra ...nodeenrollment.Option) []nodeenrollment.Option {
	var o []nodeenrollment.Option
	if s.SW != nil {
		o = append(o, nodeenrollment.WithStorageWrapper(s.SW))
	}
	if s.RW != nil {
		o = append(o, nodeenrollment.WithRegistrationWrapper(s.RW))
	}
	o = append(o, extra...)
	return o[:len(o):len(o)]
}

// StoreOpts returns only the storage-wrapper option (for loads by the harness)
func (s *Server) StoreOpts() []nodeenrollment.Option {
	if s.SW != nil {
		return []nodeenrollment.Option{nodeenrollment.WithStorageWrapper(s.SW)}
	}
	return nil
}

// Roots loads the current root set (unwrapped)
func (s *Server) Roots() (*types.RootCertificates, error) {
	return types.LoadRootCertificates(s.Ctx, s.Inner, s.StoreOpts()...)
}

// NodeIDs lists the node-information IDs in the inner storage
func (s *Server) NodeIDs() []string {
	ids, _ := s.Inner.List(s.Ctx, (*types.NodeInformation)(nil))
	return ids
}

// LoadNode loads a node record (unwrapped) from the inner storage
func (s *Server) LoadNode(keyID string) (*types.NodeInformation, error) {
	return types.LoadNodeInformation(s.Ctx, s.Inner, keyID, s.StoreOpts()...)
}

// RemoveNode removes a node record
func (s *Server) RemoveNode(keyID string) error {
	return s.Inner.Remove(s.Ctx, &types.NodeInformation{Id: keyID})
}

func randHex(n int) string {
	b := make([]byte, n)
	_, _ = rand.Read(b)
	return hex.EncodeToString(b)
}

// RandBytes returns n crypto-random bytes
func RandBytes(n int) []byte {
	b := make([]byte, n)
	_, _ = rand.Read(b)
	return b
}

// ---------------------------------------------------------------------------
// keys

// Keys is an Ed25519 identity with the library's derived names
type Keys struct {
	Pub   ed25519.PublicKey
	Priv  ed25519.PrivateKey
	Pkix  []byte
	Pkcs8 []byte
	KeyID string
}

// NewKeys generates a fresh identity
func NewKeys() *Keys {
	pub, priv, err := ed25519.GenerateKey(rand.Reader)
	if err != nil {
		panic(err)
	}
	return KeysFromPriv(pub, priv)
}

// KeysFromPriv derives the names
func KeysFromPriv(pub ed25519.PublicKey, priv ed25519.PrivateKey) *Keys {
	pkix, err := x509.MarshalPKIXPublicKey(pub)
	if err != nil {
		panic(err)
	}
	pkcs8, err := x509.MarshalPKCS8PrivateKey(priv)
	if err != nil {
		panic(err)
	}
	kid, err := nodeenrollment.KeyIdFromPkix(pkix)
	if err != nil {
		panic(err)
	}
	return &Keys{Pub: pub, Priv: priv, Pkix: pkix, Pkcs8: pkcs8, KeyID: kid}
}

// KeysFromPkcs8 parses a stored private key
func KeysFromPkcs8(pkcs8 []byte) (*Keys, error) {
	raw, err := x509.ParsePKCS8PrivateKey(pkcs8)
	if err != nil {
		return nil, err
	}
	priv, ok := raw.(ed25519.PrivateKey)
	if !ok {
		return nil, errors.New("not ed25519")
	}
	return KeysFromPriv(priv.Public().(ed25519.PublicKey), priv), nil
}

// X25519Pair is an encryption key pair
type X25519Pair struct {
	Priv []byte
	Pub  []byte
}

// NewX25519 generates an encryption pair
func NewX25519() *X25519Pair {
	k, err := ecdh.X25519().GenerateKey(rand.Reader)
	if err != nil {
		panic(err)
	}
	return &X25519Pair{Priv: k.Bytes(), Pub: k.PublicKey().Bytes()}
}

// X25519Pub derives the public half
func X25519Pub(priv []byte) []byte {
	k, err := ecdh.X25519().NewPrivateKey(priv)
	if err != nil {
		return nil
	}
	return k.PublicKey().Bytes()
}

// ---------------------------------------------------------------------------
// node actor

// Node is a node with its own storage and keys
type Node struct {
	Ctx   context.Context
	Store nodeenrollment.Storage
	SW    wrapping.Wrapper
	Creds *types.NodeCredentials // working copy (clear)
	K     *Keys
	Enc   *X25519Pair
	Nonce []byte // registration nonce at creation (32 bytes, or decoded token)
	Token string // activation token string if created for the server-led flow
}

// NodeOpts returns the node-side storage wrapper option plus extras
func (n *Node) NodeOpts(extra ...nodeenrollment.Option) []nodeenrollment.Option {
	var o []nodeenrollment.Option
	if n.SW != nil {
		o = append(o, nodeenrollment.WithStorageWrapper(n.SW))
	}
	o = append(o, extra...)
	return o[:len(o):len(o)]
}

// NewNode creates node credentials through types.NewNodeCredentials on a fresh
// in-memory storage
func NewNode(storageWrap bool, token string) (*Node, error) {
	ctx := context.Background()
	st, err := inmem.New(ctx)
	if err != nil {
		return nil, err
	}
	return NewNodeOn(st, storageWrap, token)
}

// NewNodeOn creates node credentials on the given storage
func NewNodeOn(st nodeenrollment.Storage, storageWrap bool, token string) (*Node, error) {
	ctx := context.Background()
	n := &Node{Ctx: ctx, Store: st, Token: token}
	if storageWrap {
		n.SW = NewAead("node-storage-wrapper-" + randHex(4))
	}
	var extra []nodeenrollment.Option
	if token != "" {
		extra = append(extra, nodeenrollment.WithActivationToken(token))
	}
	creds, err := types.NewNodeCredentials(ctx, st, n.NodeOpts(extra...)...)
	if err != nil {
		return nil, err
	}
	n.Creds = creds
	k, err := KeysFromPkcs8(creds.CertificatePrivateKeyPkcs8)
	if err != nil {
		return nil, err
	}
	n.K = k
	n.Enc = &X25519Pair{Priv: append([]byte{}, creds.EncryptionPrivateKeyBytes...), Pub: X25519Pub(creds.EncryptionPrivateKeyBytes)}
	n.Nonce = append([]byte{}, creds.RegistrationNonce...)
	return n, nil
}

// MustNode panics on error
func MustNode(storageWrap bool, token string) *Node {
	n, err := NewNode(storageWrap, token)
	if err != nil {
		panic(err)
	}
	return n
}

// FetchRequest creates a fetch request through the library
func (n *Node) FetchRequest(opt ...nodeenrollment.Option) (*types.FetchNodeCredentialsRequest, error) {
	if n.Token != "" {
		opt = append([]nodeenrollment.Option{nodeenrollment.WithActivationToken(n.Token)}, opt...)
	}
	return n.Creds.CreateFetchNodeCredentialsRequest(n.Ctx, opt...)
}

// Handle hands a fetch response to the library's node-side handler
func (n *Node) Handle(resp *types.FetchNodeCredentialsResponse, opt ...nodeenrollment.Option) (*types.NodeCredentials, error) {
	if n.Token != "" {
		opt = append([]nodeenrollment.Option{nodeenrollment.WithActivationToken(n.Token)}, opt...)
	}
	return n.Creds.HandleFetchNodeCredentialsResponse(n.Ctx, n.Store, resp, n.NodeOpts(opt...)...)
}

// Stored loads what the node has in storage
func (n *Node) Stored() (*types.NodeCredentials, error) {
	return types.LoadNodeCredentials(n.Ctx, n.Store, nodeenrollment.CurrentId, n.NodeOpts()...)
}

// ---------------------------------------------------------------------------
// honest enrollment flows

// Flow names
const (
	FlowAuthorize = "authorize"
	FlowToken     = "token"
	FlowWrapper   = "wrapper"
	FlowRewrapped = "rewrapped"
)

var Flows = []string{FlowAuthorize, FlowToken, FlowWrapper, FlowRewrapped}

// EnrollResult carries what an honest enrollment produced
type EnrollResult struct {
	Node  *Node
	Req   *types.FetchNodeCredentialsRequest
	Resp  *types.FetchNodeCredentialsResponse
	Auth  *types.NodeInformation // result of AuthorizeNode (authorize flow only)
	Token string
	TokID string
}

// Enroll runs one honest enrollment in the given flow. state is the operator /
// token state (authorize, token), params the application params (wrapper flows).
// via is the already registered node that re-wraps (rewrapped flow).
func Enroll(s *Server, flow string, nodeWrap bool, state, params *structpb.Struct, via *Node) (*EnrollResult, error) {
	res := &EnrollResult{}
	switch flow {
	case FlowAuthorize:
		n, err := NewNode(nodeWrap, "")
		if err != nil {
			return nil, err
		}
		res.Node = n
		req, err := n.FetchRequest()
		if err != nil {
			return nil, err
		}
		res.Req = req
		var extra []nodeenrollment.Option
		if state != nil {
			extra = append(extra, nodeenrollment.WithState(state))
		}
		ni, err := registration.AuthorizeNode(s.Ctx, s.Store, req, s.Opts(extra...)...)
		if err != nil {
			return res, fmt.Errorf("authorize: %w", err)
		}
		res.Auth = ni
		resp, err := registration.FetchNodeCredentials(s.Ctx, s.Store, req, s.Opts()...)
		if err != nil {
			return res, fmt.Errorf("fetch: %w", err)
		}
		res.Resp = resp
	case FlowToken:
		var extra []nodeenrollment.Option
		if state != nil {
			extra = append(extra, nodeenrollment.WithState(state))
		}
		id, tok, err := registration.CreateServerLedActivationToken(s.Ctx, s.Store, &types.ServerLedRegistrationRequest{}, s.Opts(extra...)...)
		if err != nil {
			return nil, fmt.Errorf("create token: %w", err)
		}
		res.Token, res.TokID = tok, id
		n, err := NewNode(nodeWrap, tok)
		if err != nil {
			return nil, err
		}
		res.Node = n
		req, err := n.FetchRequest()
		if err != nil {
			return nil, err
		}
		res.Req = req
		resp, err := registration.FetchNodeCredentials(s.Ctx, s.Store, req, s.Opts()...)
		if err != nil {
			return res, fmt.Errorf("fetch: %w", err)
		}
		res.Resp = resp
	case FlowWrapper:
		if s.RW == nil {
			return nil, errors.New("wrapper flow needs a registration wrapper")
		}
		n, err := NewNode(nodeWrap, "")
		if err != nil {
			return nil, err
		}
		res.Node = n
		req, err := n.FetchRequest(nodeenrollment.WithRegistrationWrapper(s.NodeRegWrap()), nodeenrollment.WithWrappingRegistrationFlowApplicationSpecificParams(params))
		if err != nil {
			return nil, err
		}
		res.Req = req
		resp, err := registration.FetchNodeCredentials(s.Ctx, s.Store, req, s.Opts()...)
		if err != nil {
			return res, fmt.Errorf("fetch: %w", err)
		}
		res.Resp = resp
	case FlowRewrapped:
		if via == nil {
			return nil, errors.New("rewrapped flow needs a registered node")
		}
		n, err := NewNode(nodeWrap, "")
		if err != nil {
			return nil, err
		}
		res.Node = n
		req, err := n.FetchRequest()
		if err != nil {
			return nil, err
		}
		regInfo := &types.WrappingRegistrationFlowInfo{CertificatePublicKeyPkix: n.K.Pkix, Nonce: n.Nonce, ApplicationSpecificParams: params}
		ct, err := nodeenrollment.EncryptMessage(s.Ctx, regInfo, via.Creds)
		if err != nil {
			return nil, err
		}
		req.RewrappedWrappingRegistrationFlowInfo = ct
		req.RewrappingKeyId = via.K.KeyID
		res.Req = req
		resp, err := registration.FetchNodeCredentials(s.Ctx, s.Store, req, s.Opts()...)
		if err != nil {
			return res, fmt.Errorf("fetch: %w", err)
		}
		res.Resp = resp
	default:
		return nil, fmt.Errorf("unknown flow %q", flow)
	}
	if res.Resp == nil || len(res.Resp.EncryptedNodeCredentials) == 0 {
		return res, errors.New("honest enrollment got an empty (unauthorized) response")
	}
	if _, err := res.Node.Handle(res.Resp); err != nil {
		return res, fmt.Errorf("handle response: %w", err)
	}
	return res, nil
}

// ---------------------------------------------------------------------------
// adversary: fetch requests

// DecodeInfo unmarshals the bundle of a request
func DecodeInfo(req *types.FetchNodeCredentialsRequest) *types.FetchNodeCredentialsInfo {
	info := new(types.FetchNodeCredentialsInfo)
	if err := proto.Unmarshal(req.Bundle, info); err != nil {
		return nil
	}
	return info
}

// Sign builds a request from info signed with priv
func Sign(info *types.FetchNodeCredentialsInfo, priv ed25519.PrivateKey) *types.FetchNodeCredentialsRequest {
	b, err := proto.Marshal(info)
	if err != nil {
		panic(err)
	}
	return &types.FetchNodeCredentialsRequest{Bundle: b, BundleSignature: ed25519.Sign(priv, b)}
}

// Resign decodes req, applies mutate and signs again with priv, keeping the
// unsigned (re-wrapped) fields
func Resign(req *types.FetchNodeCredentialsRequest, priv ed25519.PrivateKey, mutate func(*types.FetchNodeCredentialsInfo)) *types.FetchNodeCredentialsRequest {
	info := DecodeInfo(req)
	if mutate != nil {
		mutate(info)
	}
	out := Sign(info, priv)
	out.RewrappedWrappingRegistrationFlowInfo = req.RewrappedWrappingRegistrationFlowInfo
	out.RewrappingKeyId = req.RewrappingKeyId
	return out
}

// BaseInfo returns a fresh, currently valid bundle for the given identity
func BaseInfo(k *Keys, encPub, nonce []byte) *types.FetchNodeCredentialsInfo {
	now := time.Now()
	return &types.FetchNodeCredentialsInfo{
		CertificatePublicKeyPkix: k.Pkix,
		CertificatePublicKeyType: types.KEYTYPE_ED25519,
		Nonce:                    nonce,
		EncryptionPublicKeyBytes: encPub,
		EncryptionPublicKeyType:  types.KEYTYPE_X25519,
		NotBefore:                timestampOf(now.Add(-time.Minute)),
		NotAfter:                 timestampOf(now.Add(23 * time.Hour)),
	}
}

// SealRegInfo seals registration info with a wrapper the way the library's
// node side does
func SealRegInfo(w wrapping.Wrapper, regInfo *types.WrappingRegistrationFlowInfo) []byte {
	b, err := proto.Marshal(regInfo)
	if err != nil {
		panic(err)
	}
	blob, err := w.Encrypt(context.Background(), b)
	if err != nil {
		panic(err)
	}
	out, err := proto.Marshal(blob)
	if err != nil {
		panic(err)
	}
	return out
}

// ---------------------------------------------------------------------------
// ordered NodeIdLoader

// OrderedLoader is a NodeIdLoader whose LoadByNodeId returns the records of a
// node ID in an order chosen by the harness
type OrderedLoader struct {
	nodeenrollment.Storage
	mu    sync.Mutex
	order map[string][]string // node id -> key ids, in the order to return
	// EmptyIsNil: an unknown node ID (or one whose records are all gone) is answered with an empty set and no error
	EmptyIsNil bool
}

var _ nodeenrollment.NodeIdLoader = (*OrderedLoader)(nil)

// NewOrderedLoader wraps a storage
func NewOrderedLoader(in nodeenrollment.Storage) *OrderedLoader {
	return &OrderedLoader{Storage: in, order: map[string][]string{}}
}

// SetOrder fixes the key IDs (and their order) returned for a node ID
func (o *OrderedLoader) SetOrder(nodeID string, keyIDs []string) {
	o.mu.Lock()
	o.order[nodeID] = append([]string{}, keyIDs...)
	o.mu.Unlock()
}

// LoadByNodeId implements NodeIdLoader
func (o *OrderedLoader) LoadByNodeId(ctx context.Context, msg nodeenrollment.MessageWithNodeId) error {
	set, ok := msg.(*types.NodeInformationSet)
	if !ok {
		return errors.New("unsupported message")
	}
	o.mu.Lock()
	ids := append([]string{}, o.order[msg.GetNodeId()]...)
	o.mu.Unlock()
	var out []*types.NodeInformation
	for _, id := range ids {
		ni := &types.NodeInformation{Id: id}
		if err := o.Storage.Load(ctx, ni); err != nil {
			if errors.Is(err, nodeenrollment.ErrNotFound) {
				continue
			}
			return err
		}
		out = append(out, ni)
	}
	if len(out) == 0 {
		if o.EmptyIsNil {
			// the way a database answers: no rows, no error
			set.Nodes = nil
			return nil
		}
		return nodeenrollment.ErrNotFound
	}
	set.Nodes = out
	return nil
}
